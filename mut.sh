#!/bin/bash
# usage: mut.sh <prop> <relpath> <sed-expr>   -- dev helper: run a check against an in-memory mutant
set -e
prop=$1; rel=$2; expr=$3
tmp=$(mktemp /tmp/mutXXXX.go)
sed -E "$expr" /repo/$rel > $tmp
if cmp -s $tmp /repo/$rel; then echo "MUTATION DID NOT APPLY"; rm $tmp; exit 3; fi
diff <(cat /repo/$rel) $tmp | head -6
/verif/bin/verifsa check -property $prop -no-evidence -overlay $rel=$tmp | grep -v '^    ' | head -${4:-12}
rm $tmp
