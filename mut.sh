#!/bin/bash
# usage: mut.sh <prop> <relpath> <sed-expr>   -- dev helper: run a check against an in-memory mutant
set -e
prop=$1; rel=$2; expr=$3
tmp=$(mktemp /tmp/mutXXXX.go)
sed -E "$expr" ${REPO:-/repo}/$rel > $tmp
if cmp -s $tmp ${REPO:-/repo}/$rel; then echo "MUTATION DID NOT APPLY"; rm $tmp; exit 3; fi
diff <(cat ${REPO:-/repo}/$rel) $tmp | head -6
/verif/bin/verifsa check -property $prop -repo ${REPO:-/repo} -no-evidence -overlay $rel=$tmp | grep -v '^    ' | head -${4:-12}
rm $tmp
