package rules

import (
	"fmt"
	"strings"

	"golang.org/x/tools/go/ssa"

	"verif/sa/engine"
)

func init() {
	register(&Check{ID: "C08", Pkgs: []string{pkgSC}, Run: runC08})
}

var scOwners = map[string]bool{"StateCache": true, "BlockCache": true, "TransactionCache": true, "QueryBlockCache": true}

// Guard table of package statecache, confirmed by reading; one reason each.
var scGuards = guardTable{
	"TransactionCache.cache": {kind: "lock", lock: "TransactionCache.mu", reason: "plain map, read by Get under RLock, written by Set/Remove/Commit under Lock"},
	"TransactionCache.mu":    {kind: "mutex"},
	"TransactionCache.main":  {kind: "immutable", reason: "set by the constructor only"},
	"TransactionCache.round": {kind: "immutable", reason: "set by the constructor only"},
	"TransactionCache.hit":   {kind: "atomic", reason: "AddHit/Stats use sync/atomic"},
	"TransactionCache.miss":  {kind: "atomic", reason: "AddMiss/Stats use sync/atomic"},

	"BlockCache.cache":         {kind: "lock", lock: "BlockCache.mu", reason: "plain map under mu"},
	"BlockCache.blockHash":     {kind: "lock", lock: "BlockCache.mu", reason: "rewritten by SetBlockHash under mu"},
	"BlockCache.committed":     {kind: "lock", lock: "BlockCache.mu", reason: "set by StateCache.commit under the block's mu, read by Get under mu"},
	"BlockCache.mu":            {kind: "mutex"},
	"BlockCache.main":          {kind: "immutable", reason: "set by the constructor only"},
	"BlockCache.prevBlockHash": {kind: "immutable", reason: "set by the constructor only"},
	"BlockCache.round":         {kind: "immutable", reason: "set by the constructor only"},
	"BlockCache.hits":          {kind: "atomic", reason: "addStats/Stats use sync/atomic"},
	"BlockCache.miss":          {kind: "atomic", reason: "addStats/Stats use sync/atomic"},

	"StateCache.cache":       {kind: "immutable", reason: "pointer to an internally synchronised LRU, set by the constructor only"},
	"StateCache.hashCache":   {kind: "immutable", reason: "pointer to an internally synchronised LRU, set by the constructor only"},
	"StateCache.maxHisDepth": {kind: "immutable", reason: "set by the constructor only"},
	"StateCache.lock":        {kind: "mutex"},
	"StateCache.hits":        {kind: "lock", lock: "StateCache.lock", reason: "accumulated in commit, read in Stats, both under lock"},
	"StateCache.miss":        {kind: "lock", lock: "StateCache.lock", reason: "accumulated in commit, read in Stats, both under lock"},

	"QueryBlockCache.sc":        {kind: "immutable", reason: "set by the constructor only"},
	"QueryBlockCache.blockHash": {kind: "immutable", reason: "set by the constructor only"},
}

func runC08(r *engine.Run) {
	r.Rule("CLONE-deep", "see C07: Clone() of every cached value type shares no reference with the receiver (a branch clone that shares the origin tracker lets a child block's SetOrigin rewrite the node the state cache holds for the parent block, under the readers' feet)")
	r.Rule("COPY-lock", "every method of a struct of core/statecache that holds a mutex has a pointer receiver: a value receiver copies the struct (mutex, map header, counters) on every call without a lock - a data race with every committer and reader of that cache")
	r.Rule("LOCK-ring", "see C20: lookups and commits of the state cache log through the in-memory core, from many goroutines at once; the ring cursor and slots are written only under the core's mutex in write mode")
	r.Rule("LOCK-statecache", "guarded-by discipline over every function reachable from the exported methods of StateCache/BlockCache/TransactionCache/QueryBlockCache: plain maps and rewritable fields are accessed only with their owner's mutex held in the required mode (interprocedural must-lockset), counters updated through sync/atomic are never accessed plainly, constructor-only fields are never written afterwards; constructor contexts (object allocated in the same function) are exempt")
	r.Rule("LOCK-commit", "every write into the key->versions map, a per-key versions map or the block-link map that is reachable from StateCache.commit happens with StateCache.lock held")
	r.Rule("DOM-recheck", "the lock-free ancestor walk of StateCache.Get never overwrites an entry of the queried block: it memoises with an add-if-absent operation (no plain Add on the per-key map), and a lookup of the queried block's own entry that can only execute after the link lookup dominates the memoisation (a commit publishes a block's link after its keys, so an entry written meanwhile is seen by that re-check)")
	r.Rule("ORDER-publish", "in StateCache.commit the block's ancestor link is published (commitRound) only after the loop that writes the block's keys: no per-key write is reachable after the publication, and the publication is not inside the loop")
	r.Rule("DOM-tombstone", "see C06: the data handed out is the data of the very entry whose deleted flag tested false - no rewrite of the entry (e.g. the substitution of the queried block's own entry found by the re-check) lies between the flag test and the read of the data")
	r.Rule("LOCK-reentrant", "see C16: no Lock or RLock of a mutex is reachable while the same goroutine already holds that mutex of the same object: held-on-receiver facts (must-lockset inside a function) are carried into callees only along calls made on the same receiver value, over every call chain; sync mutexes are not reentrant (a second RLock deadlocks as soon as a writer queues up between the two)")
	r.Rule("ORDER-txsection", "TransactionCache.Commit hands the pending writes over and empties the pending map in one critical section: no release of the transaction cache's mutex lies on a path from a hand-over call to the emptying, and the emptying happens under the write lock (a writer admitted in a gap would write into the map that is about to be discarded)")
	r.Rule("PAIR-unlock", "every Lock/RLock of a mutex is followed on every path to a return of the acquiring function by the matching Unlock/RUnlock on the same mutex or by a deferred one registered on the path: no operation returns with the lock held (every later operation on the object would block)")
	r.Rule("DOM-writekept", "see C06: a write or removal is recorded in the layer's pending map on every path")
	r.Rule("WHO-readonly", "see C06: lookups never store into a pending map")
	r.Rule("CLONE-boundary", "see C07: values crossing a cache boundary are Clone() results")
	r.Rule("FRESH-write", "see C06: a write stores a fresh Clone(), never the old entry refreshed in place")
	r.Rule("WHO-versions", "a per-key versions map is only read or added to (Get, Peek, Add, ContainsOrAdd, PeekOrAdd, Contains, Len, Keys); Purge, Remove and the like are never called on one: versions leave by capacity eviction only, so the lock-free ancestor walk's memo can never become the newest entry of a map that was just emptied")
	r.Rule("ORDER-commitclear", "in StateCache.commit no versions-map Add is reachable after the store that replaces the block's pending map: the pending writes are dropped only after all of them were published")
	r.Rule("WHO-globalcache", "package statecache keeps no cache instance (StateCache, BlockCache, TransactionCache, QueryBlockCache) in a package-level variable: caches are per block / per transaction objects")
	r.Rule("DEP-walk", "see C06: the ancestor walk of StateCache.Get uses only the queried hash and stored links, and memoises exactly the entry it found (all fields, the tombstone flag included) under the queried hash")
	r.Rule("LOCK-order", "see C16: mutexes that are ever held together are always taken in the same order (BlockCache.mu -> StateCache.lock in a lookup against StateCache.lock -> BlockCache.mu in commit would deadlock a lookup with the commit of its own block)")
	r.Rule("WHO-layers", "see C07: the key->versions map is installed into only by the commit path and removed from only by Remove - a lock-free lookup that re-registers the map it fetched earlier replaces the map a later commit created, so that block's committed write is lost without any eviction; setValue/commit are reachable only from the commit entry points")
	r.Rule("KEY-same", "see C06: entries are stored under the key and block hash they belong to, tombstone arms store deleted=true, Set stores a new live entry (a write that inherits a tombstone flag is committed as a removal: after the commit has returned, lookups at the block miss its own write)")
	r.Rule("DOM-sethash", "see C07: SetBlockHash stores its argument as the block's hash on every path")
	domSetHash(r, "DOM-sethash")
	r.NotDec = append(r.NotDec, "that every interleaving of the lock-free StateCache.Get with a commit yields the block-tree-determined value (needs exploration of interleavings)")
	const rule = "LOCK-statecache"
	entries := exportedEntries(r, rule, pkgSC, scOwners)
	tableComplete(r, rule, pkgSC, scOwners, scGuards)
	w := checkGuards(r, rule, entries, scOwners, scGuards)
	r.Min(rule, 25)
	lockOrder(r, "LOCK-order", w, 10, "statecache")

	// LOCK-commit
	commit := r.Fn("LOCK-commit", pkgSC, "StateCache", "commit")
	if commit != nil {
		g := r.P.RepoCG()
		n := 0
		for f := range g.Reach(commit) {
			if recvNamed(engine.TopFunc(f)) != "StateCache" {
				continue
			}
			o := ord{}
			engine.Instrs(f, func(in ssa.Instruction) {
				c, ok := in.(*ssa.Call)
				if !ok {
					return
				}
				for _, m := range []string{"Add", "Remove", "ContainsOrAdd", "PeekOrAdd", "Purge"} {
					if extCalleeIs(c, "hashicorp/golang-lru", "Cache", m) {
						held := w.HeldAt(in)
						n++
						r.CallSites++
						r.Check(held["StateCache.lock"] == engine.ModeW, "LOCK-commit", o.next(fn(f)+"|lru."+m), r.P.Pos(in.Pos()),
							"write under StateCache.lock; held "+held.String(), "a commit-path write into the state cache's maps happens without StateCache.lock: two committers interleave their key writes and links; held "+held.String())
					}
				}
			})
		}
		if n == 0 {
			r.Anchor("LOCK-commit", fmt.Errorf("unresolved anchor: no LRU write reachable from commit"))
		}
		orderPublish(r, commit)
	}
	domRecheck(r, "DOM-recheck")
	domTombstone(r)
	pairUnlock(r, "PAIR-unlock", funcsOfPkg(r, pkgSC), 4)
	orderTxSection(r, "ORDER-txsection")
	lockReentrant(r, "LOCK-reentrant", funcsOfPkg(r, pkgSC), 8)
	domWriteKept(r, "DOM-writekept")
	whoReadOnly(r, "WHO-readonly")
	cloneBoundary(r, "C08")
	freshWrite(r, "FRESH-write")
	whoVersions(r, "WHO-versions")
	orderCommitClear(r, "ORDER-commitclear")
	whoGlobalCache(r, "WHO-globalcache")
	depWalk(r)
	keySame(r)
	whoLayers(r)
	copyLock(r, "COPY-lock", pkgSC)
	checkGuards(r, "LOCK-ring", exportedEntries(r, "LOCK-ring", pkgLog, map[string]bool{"MemCore": true, "MemLogger": true}), logOwners, logGuards)
	cloneDeep(r)
}

func orderPublish(r *engine.Run, commit *ssa.Function) {
	const rule = "ORDER-publish"
	// the link may be published through commitRound or directly; both forms are recognised
	commitRound, _ := r.P.Func(pkgSC, "StateCache", "commitRound")
	var pubs []ssa.Instruction
	var writes []ssa.Instruction
	engine.Instrs(commit, func(in ssa.Instruction) {
		c, ok := in.(*ssa.Call)
		if !ok {
			return
		}
		if commitRound != nil && c.Call.StaticCallee() == commitRound {
			pubs = append(pubs, in)
			return
		}
		for _, m := range []string{"Add", "ContainsOrAdd", "PeekOrAdd"} {
			if lruCallOnField(c, m, "hashCache") {
				pubs = append(pubs, in)
				return
			}
		}
		if extCalleeIs(c, "hashicorp/golang-lru", "Cache", "Add") {
			writes = append(writes, in)
		}
	})
	if len(pubs) == 0 {
		r.Fail(rule, fn(commit)+"|publish", r.P.Pos(commit.Pos()), "commit never publishes the block's ancestor link: lookups at descendants cannot walk through this block")
		return
	}
	if len(writes) == 0 {
		r.Anchor(rule, fmt.Errorf("unresolved anchor: per-key writes in %s", fn(commit)))
		return
	}
	for _, p := range pubs {
		good := true
		detail := ""
		for _, w := range writes {
			if engine.ReachableAfter(p, w) {
				good = false
				detail = "per-key write at " + r.P.Pos(w.Pos()) + " can execute after the link is published at " + r.P.Pos(p.Pos())
			}
		}
		r.CallSites++
		r.Check(good, rule, fn(commit)+"|link-after-keys", r.P.Pos(p.Pos()),
			fmt.Sprintf("link published after all %d per-key write sites; none reachable afterwards", len(writes)),
			"the ancestor link is published before the block's keys are all written (a concurrent reader walks past a half-written block to an older value): "+detail)
	}
}

func domRecheck(r *engine.Run, rule string) {
	f := r.Fn(rule, pkgSC, "StateCache", "Get")
	if f == nil {
		return
	}
	hashParam := ssa.Value(f.Params[2])
	// the walk may live in a helper of Get: the member of Get's group that looks links up is
	// what is judged, with the parameter that receives the queried hash
	{
		top := f
		group := opGroup(r, top)
		for _, g := range group[1:] {
			has := false
			engine.Instrs(g, func(in ssa.Instruction) {
				if c, ok := in.(*ssa.Call); ok && (lruCallOnField(c, "Get", "hashCache") || lruCallOnField(c, "Peek", "hashCache")) {
					has = true
				}
			})
			if !has {
				continue
			}
			for _, e := range r.P.RepoCG().In[g] {
				if c, ok := e.Site.(ssa.CallInstruction); ok {
					for i, a := range c.Common().Args {
						if a == ssa.Value(top.Params[2]) && i < len(g.Params) {
							f, hashParam = g, g.Params[i]
						}
					}
				}
			}
		}
	}
	recheckGroup := opGroup(r, r.Fn(rule, pkgSC, "StateCache", "Get"))
	var links, memos, rechecks []*ssa.Call
	badAdd := ""
	engine.Instrs(f, func(in ssa.Instruction) {
		c, ok := in.(*ssa.Call)
		if !ok {
			return
		}
		// the link lookup wrapped in a small helper of Get (prevHashOf(hash)): the call is the link lookup
		if h := c.Call.StaticCallee(); h != nil && h != f && inGroup(recheckGroup, h) {
			isLink := false
			engine.Instrs(h, func(i2 ssa.Instruction) {
				if c2, ok := i2.(*ssa.Call); ok && (lruCallOnField(c2, "Get", "hashCache") || lruCallOnField(c2, "Peek", "hashCache")) {
					isLink = true
				}
			})
			if isLink {
				links = append(links, c)
				return
			}
		}
		switch {
		case lruCallOnField(c, "Get", "hashCache"), lruCallOnField(c, "Peek", "hashCache"):
			links = append(links, c)
		case lruCallOnField(c, "Get", "cache"), lruCallOnField(c, "Add", "cache"), lruCallOnField(c, "Get", "hashCache"):
		case extCalleeIs(c, "hashicorp/golang-lru", "Cache", "Add"):
			badAdd = r.P.Pos(c.Pos())
			memos = append(memos, c)
		case extCalleeIs(c, "hashicorp/golang-lru", "Cache", "ContainsOrAdd"), extCalleeIs(c, "hashicorp/golang-lru", "Cache", "PeekOrAdd"):
			memos = append(memos, c)
		case extCalleeIs(c, "hashicorp/golang-lru", "Cache", "Get"), extCalleeIs(c, "hashicorp/golang-lru", "Cache", "Peek"), extCalleeIs(c, "hashicorp/golang-lru", "Cache", "Contains"):
			if through(c.Call.Args[1]) == hashParam {
				rechecks = append(rechecks, c)
			}
		}
	})
	if len(links) == 0 {
		r.Anchor(rule, fmt.Errorf("unresolved anchor: link lookups in %s", fn(f)))
		return
	}
	r.Check(badAdd == "", rule, fn(f)+"|memo add-if-absent", r.P.Pos(f.Pos()), fmt.Sprintf("%d memoisation site(s), all add-if-absent", len(memos)),
		"the walk memoises with a plain Add at "+badAdd+": a lookup that raced with the queried block's commit overwrites the block's committed entry with an ancestor's value, and every later lookup at that block returns the ancestor's value")
	for i, m := range memos {
		good := false
		for _, rc := range rechecks {
			after := false
			for _, l := range links {
				if engine.ReachableAfter(l, rc) && !engine.ReachableAfter(rc, l) {
					after = true
				}
			}
			if after && engine.InstrDominates(rc, m) {
				good = true
			}
		}
		r.Check(good, rule, fmt.Sprintf("%s|re-check before memo#%d", fn(f), i+1), r.P.Pos(m.Pos()), "the queried block's own entry is looked up again after the walk and before the memo",
			"the value found on the ancestor chain is memoised/returned without looking the queried block's own entry up again after the link lookup: a commit that completed during the walk is ignored")
	}
	if len(memos) == 0 {
		r.Note(rule, fn(f)+"|no memo", r.P.Pos(f.Pos()), "the walk does not memoise")
	}
}

// orderTxSection: TransactionCache.Commit hands the pending writes to the block
// cache and empties the pending map in ONE critical section. If the lock is
// released between the hand-over and the emptying (flush under the read lock,
// then a separate write lock for the reset), a Set or Remove that was waiting
// gets the lock in the gap: its entry goes into the old map after the flush and
// is wiped by the reset - the call returned but the write is neither in the
// block nor pending. Every access is still locked, so no race is reported.
//
// Rule: in Commit no release of the transaction cache's mutex lies on a path
// from a hand-over call to the emptying of the pending map, and the emptying
// happens with the mutex held for writing.
func orderTxSection(r *engine.Run, rule string) {
	f := r.Fn(rule, pkgSC, "TransactionCache", "Commit")
	if f == nil {
		return
	}
	var handovers, resets, releases []ssa.Instruction
	engine.Instrs(f, func(in ssa.Instruction) {
		switch x := in.(type) {
		case *ssa.Store:
			if fa, ok := x.Addr.(*ssa.FieldAddr); ok && len(f.Params) > 0 && fa.X == ssa.Value(f.Params[0]) && fieldName(fa) == "TransactionCache.cache" {
				resets = append(resets, x)
			}
		case *ssa.Call:
			if x.Call.IsInvoke() && x.Call.Method.Name() == "setValue" {
				handovers = append(handovers, x)
			}
			if b, ok := x.Call.Value.(*ssa.Builtin); ok && (b.Name() == "clear" || b.Name() == "delete") && len(x.Call.Args) > 0 {
				if ld, ok := x.Call.Args[0].(*ssa.UnOp); ok {
					if fa, ok := ld.X.(*ssa.FieldAddr); ok && fieldName(fa) == "TransactionCache.cache" {
						resets = append(resets, x)
					}
				}
			}
			if _, op, ok := engine.LockOp(x); ok && (op == "Unlock" || op == "RUnlock") {
				releases = append(releases, x)
			}
		}
	})
	if len(handovers) == 0 || len(resets) == 0 {
		r.Anchor(rule, fmt.Errorf("unresolved anchor: hand-over (%d) / emptying (%d) in %s", len(handovers), len(resets), fn(f)))
		return
	}
	gap := ""
	for _, u := range releases {
		for _, h := range handovers {
			for _, rs := range resets {
				if engine.ReachableAfter(h, u) && engine.ReachableAfter(u, rs) {
					gap = r.P.Pos(u.Pos())
				}
			}
		}
	}
	fl := engine.LocksIn(f)
	heldW := true
	for _, rs := range resets {
		w := false
		for k, mode := range fl.At[rs] {
			if strings.HasPrefix(k, "TransactionCache.") && mode >= engine.ModeW {
				w = true
			}
		}
		heldW = heldW && w
	}
	r.Check(gap == "" && heldW, rule, fn(f)+"|one critical section", r.P.Pos(f.Pos()), "the mutex is held for writing at the emptying and is not released between the hand-over and the emptying",
		fmt.Sprintf("the transaction cache's mutex is released between the hand-over to the block cache and the emptying of the pending map (release at %s; write lock at the emptying: %v): a Set or Remove that acquires the lock in the gap writes into the map that is about to be discarded - the call returns, but the write is neither in the block nor pending", gap, heldW))
}

// lockCommitOnly: LOCK-commit for the properties that rely on it without
// running the whole lock discipline of C08: every LRU write reachable from
// StateCache.commit happens under StateCache.lock held for writing.
func lockCommitOnly(r *engine.Run, rule string) {
	commit := r.Fn(rule, pkgSC, "StateCache", "commit")
	if commit == nil {
		return
	}
	g := r.P.RepoCG()
	w := engine.NewLockWorld(g, []*ssa.Function{commit})
	n := 0
	for f := range g.Reach(commit) {
		if recvNamed(engine.TopFunc(f)) != "StateCache" {
			continue
		}
		o := ord{}
		engine.Instrs(f, func(in ssa.Instruction) {
			c, ok := in.(*ssa.Call)
			if !ok {
				return
			}
			for _, m := range []string{"Add", "Remove", "ContainsOrAdd", "PeekOrAdd", "Purge"} {
				if extCalleeIs(c, "hashicorp/golang-lru", "Cache", m) {
					held := w.HeldAt(in)
					n++
					r.Check(held["StateCache.lock"] == engine.ModeW, rule, o.next(fn(f)+"|lru."+m), r.P.Pos(in.Pos()),
						"write under StateCache.lock; held "+held.String(), "a commit-path write into the state cache's maps happens without StateCache.lock: two committers create the per-key versions map side by side and one replaces the other's, so a committed write vanishes for that block and its descendants; held "+held.String())
				}
			}
		})
	}
	if n == 0 {
		r.Anchor(rule, fmt.Errorf("unresolved anchor: no LRU write reachable from commit"))
	}
}
