package rules

import (
	"fmt"
	"go/token"
	"go/types"
	"sort"
	"strings"

	"golang.org/x/tools/go/ssa"

	"verif/sa/engine"
)

func init() {
	register(&Check{ID: "C17", Pkgs: []string{pkgUtil}, Run: runC17})
}

func runC17(r *engine.Run) {
	r.Rule("AGREE-clonefields", "see C14: the copy helper behind every CloneNode() copies origin to origin and version to version (a slip makes the copy of a node whose version stamp differs from its origin hash to another key: MergeDB files the donor's nodes under keys nobody refers to and the repair leaves the holes)")
	r.Rule("ORDER-KEY-save", "see C04: every pending change is recorded for the batch (no filter by origin): merged-in donor nodes keep their origin and are written by the same save")
	r.Rule("LOCK-mpt", "see C16: the list of missing node keys is appended to and read only under its own mutex (lookups record absent nodes while holding just the read lock of the trie, so several record at once): an unguarded append loses entries, and the report is no longer exactly the absent nodes")
	r.Rule("DOM-cancel", "see C05: AddChange removes the new node's hash from the delete set on every path, also where there is no old node - the path a repair (MergeDB) takes: a synced-back node that the same trie removed earlier would otherwise be written and then deleted again by the save of the repair")
	r.Rule("DOM-takeover", "in MergeDB the iteration over the donor store (through which the donor's nodes enter this trie's pending changes) dominates every return: no shortcut - being at the donor's root already, say - skips the take-over, after which a save would write nothing and report success")
	r.Rule("AGREE-unwrapped", "the error of a recursive iterate call is returned unchanged, never wrapped in a constructed error: the callers recognise absent nodes by comparing with the sentinel errors")
	r.Rule("WHO-limit", "the value size limit MPTMaxAllowableNodeSize is used only in Insert (or in a guard helper all of whose callers are Insert): whole nodes - e.g. those the sync repair takes over - are never held to the limit of a value")
	r.Rule("ERR-getnode", "at every call site of the trie's getNode, every return that is reached with the lookup error non-nil returns a non-nil error that is not the benign sentinel ErrValueNotPresent (the error itself, a node-not-found sentinel or a constructed error): lookups under an absent node fail rather than answer 'not present'")
	r.Rule("DEP-count", "iterate's branch arm keeps visiting the remaining children when a child reports an absent node: inside the child loop a return of the child's error is reached only when it is none of the absent-node sentinels, the sentinels increment a counter, and ErrIteratingChildNodes is returned under counter != 0")
	r.Rule("AGREE-sentinels", "the set of errors iterate counts as 'absent node' equals the set HasMissingNodes maps to (true, nil), and contains the store's ErrNodeNotFound, iterate's own ErrIteratingChildNodes and the detection handler's ErrMissingNodes")
	r.Rule("AGREE-lockstep", "see C14: the store-level repair (MergeState) hands every foreign node to the target store together with its own key")
	r.Rule("FRESH-donor", "nodes handed out by the donor store during MergeDB are not modified (FRESH-node of C03 applied to the donor-store source)")
	r.Rule("DOM-record", "addMissingNodeKeys appends the key of the failed access to the recorded missing keys on every path (no cap, filter or early return): every absent node a lookup hits is among the reported keys; getNode calls it exactly where the store's error tested equal to ErrNodeNotFound")
	r.Rule("ERR-guard", "wherever the error of a call is compared with nil and one successor of the test is a plain return block, that successor is the error != nil edge and returns a non-nil error (the error itself, a sentinel or a constructed error); an early return handing back the error on the edge where it is nil is a swapped test")
	r.Rule("ERR-dropped", "the error result of every repository operation (trie, node store, storage adapter/batcher methods) called here is looked at - compared, returned or stored; deliberate drops are an explicit table with reasons")
	r.Rule("DOM-nodefound", "a node store reports a node as found only for what it holds: MemoryNodeDB.getNode returns a nil error only where its map lookup's found flag tested true; PNodeDB.GetNode decodes only where the fetched bytes tested non-empty (otherwise ErrNodeNotFound)")
	r.Rule("ORDER-publish", "in insertForeignNode (the per-node step of MergeDB) the node enters the trie's cache and change collector only after PutNode returned a nil error (dominance + error fact): a failed store write is not masked by the cache")
	r.Rule("WHO-tombstones", "see C03: the layered store's lookups and iteration never consult its delete tombstones (a donor that hides marked nodes from Iterate cannot repair the tries that need them)")
	r.Rule("DOM-prevlevel", "LevelNodeDB.getNode hands back the current level's miss only where prev == current tested true: whenever the store has a distinct previous level that level's answer is the answer, for every kind of current level")
	r.Rule("DOM-fullwalk", "the iterate functions of the node stores leave their loop only at the end of the collection or with a non-nil error: no edge out of the loop body leads to a nil return (a partial walk reported as complete makes MergeState report a partial repair as success)")
	r.Rule("DOM-survey", "the recursive survey behind GetAllMissingNodes (the trie method handed the *[]Key list) asks the store for the node of the key it is handed before it can return: every return is dominated by the getNode lookup of that key (no depth cut-off, filter or early return in front of it), and it recurses for the extension child and the branch children")
	r.NotDec = append(r.NotDec, "exactness of the reported key set for every removal subset")
	errGetNode(r)
	depCount(r)
	freshNode(r, "C17")
	// FRESH-donor is FRESH-node under another name in evidence
	for i := range r.Obs {
		if r.Obs[i].Rule == "FRESH-node" {
			r.Obs[i].Rule = "FRESH-donor"
		}
	}
	donorCovered(r)
	lockstep(r)
	domRecord(r, "DOM-record")
	domNodeFound(r, "DOM-nodefound")
	orderPublish17(r, "ORDER-publish")
	errGuard(r, "ERR-guard", "ERR-dropped", funcsOfPkg(r, pkgUtil), 20)
	agreeSentinelWrap(r, "AGREE-unwrapped")
	whoLimit(r, "WHO-limit")
	whoTombstones(r, "WHO-tombstones")
	domSurvey(r, "DOM-survey")
	domPrevLevel(r, "DOM-prevlevel")
	domFullWalk(r, "DOM-fullwalk")
	domTakeover(r, "DOM-takeover")
	mptLockDiscipline(r)
	domCancel(r)
	agreeCloneFields(r, "AGREE-clonefields")
	orderKeySave(r)
}

// resultValue resolves the i-th result of ret through a named-result cell
// (functions with defer return loads of result variables).
func resultValue(ret *ssa.Return, i int) ssa.Value {
	v := ret.Results[i]
	ld, ok := v.(*ssa.UnOp)
	if !ok || ld.Op != token.MUL {
		return v
	}
	al, ok := ld.X.(*ssa.Alloc)
	if !ok {
		return v
	}
	b := ret.Block()
	var last ssa.Value
	for _, in := range b.Instrs {
		if in == ssa.Instruction(ld) {
			break
		}
		if st, ok := in.(*ssa.Store); ok && st.Addr == ssa.Value(al) {
			last = st.Val
		}
	}
	if last != nil {
		return last
	}
	return v
}

func globalErrName(v ssa.Value) string {
	if ld, ok := v.(*ssa.UnOp); ok && ld.Op == token.MUL {
		if g, ok := ld.X.(*ssa.Global); ok {
			return g.Name()
		}
	}
	return ""
}

func errGetNode(r *engine.Run) {
	const rule = "ERR-getnode"
	getNode := r.Fn(rule, pkgUtil, "MerklePatriciaTrie", "getNode")
	if getNode == nil {
		return
	}
	n := 0
	for _, f := range mptFuncs(r) {
		o := ord{}
		engine.Instrs(f, func(in ssa.Instruction) {
			c, ok := in.(*ssa.Call)
			if !ok || c.Call.StaticCallee() != getNode {
				return
			}
			n++
			r.CallSites++
			construct := o.next(fn(f) + "|getNode")
			var errV ssa.Value
			for _, ref := range engine.Referrers(c) {
				if ex, ok := ref.(*ssa.Extract); ok && ex.Index == 1 {
					errV = ex
				}
			}
			if errV == nil {
				r.Fail(rule, construct, r.P.Pos(c.Pos()), "the error of the node lookup is dropped")
				return
			}
			errNilKey := engine.EqKey(errV, ssa.NewConst(nil, errV.Type()))
			checked, bad := 0, ""
			for _, ret := range engine.Returns(f) {
				if ret.Block().Comment == "recover" || len(ret.Results) == 0 {
					continue
				}
				paths, ok := engine.PathFacts(f, ret.Block(), 4096)
				if !ok {
					bad = "too many paths"
					break
				}
				onErr := false
				for _, p := range paths {
					if v, had := p[errNilKey]; had && !v {
						onErr = true
					}
				}
				if !onErr {
					continue
				}
				checked++
				last := resultValue(ret, len(ret.Results)-1)
				okRet := false
				switch {
				case last == errV:
					okRet = true
				case globalErrName(last) != "" && globalErrName(last) != "ErrValueNotPresent":
					okRet = true
				default:
					if cc, ok := last.(*ssa.Call); ok && !nilConst(last) {
						if sc := cc.Call.StaticCallee(); sc != nil && (sc.Name() == "New" || sc.Name() == "Errorf" || sc.Name() == "NewError") {
							okRet = true
						}
					}
					if ex, ok := last.(*ssa.Extract); ok {
						// error of a call made on the error path (iterate: the handler's error): a
						// dynamic call's verdict is the caller's business; the result of a repository
						// operation counts only where it is known to be an error here - handing back
						// the results of another trie operation turns the failed lookup into whatever
						// that operation reports, usually success
						if cc, isCall := ex.Tuple.(*ssa.Call); isCall {
							if cc.Call.StaticCallee() == nil || provablyNonNil(f, ret.Block(), last) {
								okRet = true
							}
						}
					}
					if cc, ok := last.(*ssa.Call); ok && cc.Call.StaticCallee() == nil && !cc.Call.IsInvoke() {
						okRet = true // result of the handler called with the missing node
					}
					if ph, ok := last.(*ssa.Phi); ok {
						all := true
						for _, e := range ph.Edges {
							if e != errV && globalErrName(e) == "" {
								all = false
							}
							if globalErrName(e) == "ErrValueNotPresent" {
								all = false
							}
						}
						okRet = all
					}
				}
				// the handler-result return in iterate is guarded by herr != nil
				if !okRet {
					bad = fmt.Sprintf("return at %s is reached with the lookup error set but returns %s", r.P.Pos(ret.Pos()), describeErr(last))
				}
			}
			if checked == 0 && bad == "" {
				// pp/pp2-style: the error path may not return at all (ignored recursion results are separate calls)
				bad = "no return is reached on the error path: the lookup error is swallowed"
			}
			r.Check(bad == "", rule, construct, r.P.Pos(c.Pos()), fmt.Sprintf("%d error-path return(s), all returning a real error", checked),
				"a failed node lookup is turned into success or into 'not present': a trie with an absent node answers wrongly instead of failing: "+bad)
		})
	}
	if n < 8 {
		r.Anchor(rule, fmt.Errorf("unresolved anchor: %d getNode call sites, 9 confirmed by reading", n))
	}
}

func describeErr(v ssa.Value) string {
	if nilConst(v) {
		return "nil"
	}
	if g := globalErrName(v); g != "" {
		return g
	}
	return v.String()
}

// sentinelsLeadingTo collects the global error variables X for which a
// comparison `e == X` (true edge) leads to a block satisfying pred.
func sentinelCompares(f *ssa.Function, e ssa.Value) map[string]*ssa.BinOp {
	out := map[string]*ssa.BinOp{}
	engine.Instrs(f, func(in ssa.Instruction) {
		b, ok := in.(*ssa.BinOp)
		if !ok || (b.Op != token.EQL && b.Op != token.NEQ) {
			return
		}
		var other ssa.Value
		if b.X == e {
			other = b.Y
		} else if b.Y == e {
			other = b.X
		} else {
			return
		}
		if g := globalErrName(other); g != "" {
			out[g] = b
		}
	})
	return out
}

func depCount(r *engine.Run) {
	const rule = "DEP-count"
	f := r.Fn(rule, pkgUtil, "MerklePatriciaTrie", "iterate")
	if f == nil {
		return
	}
	// the recursive call inside a loop: in iterate itself, or in a helper that iterate
	// hands the child loop to (and that calls iterate back)
	var rec *ssa.Call
	root := f
	cands := []*ssa.Function{root}
	engine.Instrs(root, func(in ssa.Instruction) {
		if c, ok := in.(*ssa.Call); ok {
			if g := c.Call.StaticCallee(); g != nil && g != root && len(g.Blocks) > 0 && recvNamed(g) == "MerklePatriciaTrie" {
				cands = append(cands, g)
			}
		}
	})
	for _, g := range cands {
		engine.Instrs(g, func(in ssa.Instruction) {
			if c, ok := in.(*ssa.Call); ok && c.Call.StaticCallee() == root && inCycle(c.Block()) && rec == nil {
				rec = c
				f = g
			}
		})
	}
	if f != root {
		r.Touch(f)
	}
	if rec == nil {
		r.Anchor(rule, fmt.Errorf("unresolved anchor: recursive child iteration inside a loop in %s", fn(f)))
		return
	}
	cmp := sentinelCompares(f, rec)
	var counted []string
	// counter: phi with an edge = phi + 1 controlled by the sentinel comparisons
	var counter *ssa.Phi
	engine.Instrs(f, func(in ssa.Instruction) {
		ph, ok := in.(*ssa.Phi)
		if !ok {
			return
		}
		for _, e := range ph.Edges {
			if add, ok := e.(*ssa.BinOp); ok && add.Op == token.ADD {
				if c := constVal(add.Y); c != nil && c.ExactString() == "1" {
					// is the increment reached only through sentinel comparisons?
					facts, ok := engine.PathFacts(f, add.Block(), 4096)
					if !ok {
						continue
					}
					viaSentinel := len(facts) > 0
					for _, p := range facts {
						any := false
						for name, b := range cmp {
							_ = name
							if v, had := p[engine.EqKey(b.X, b.Y)]; had && v {
								any = true
							}
						}
						if !any {
							viaSentinel = false
						}
					}
					if viaSentinel {
						counter = ph
					}
				}
			}
		}
	})
	for name, b := range cmp {
		// true edge of the comparison leads to the increment (not to a return)
		_ = b
		counted = append(counted, name)
	}
	sort.Strings(counted)
	if counter == nil {
		r.Fail(rule, fn(f)+"|counter", r.P.Pos(rec.Pos()), "iterate no longer counts children that report an absent node: the first absent child aborts the traversal, later absent nodes are not reported")
		return
	}
	r.OK(rule, fn(f)+"|counter", r.P.Pos(rec.Pos()), "absent-node sentinels "+strings.Join(counted, ", ")+" increment a counter")
	// returns of the child's error inside the loop: only for non-sentinels
	good := true
	detail := ""
	for _, ret := range engine.Returns(f) {
		if len(ret.Results) != 1 || ret.Results[0] != ssa.Value(rec) {
			continue
		}
		atoms, ok := engine.AtomsOn(f, ret.Block())
		if !ok {
			good, detail = false, "too many paths"
			continue
		}
		for name, b := range cmp {
			if v, had := atoms[engine.EqKey(b.X, b.Y)]; !had || v {
				good = false
				detail = "the child's error is returned from inside the loop although it may be " + name
			}
		}
	}
	r.Check(good, rule, fn(f)+"|no early return", r.P.Pos(rec.Pos()), "the child's error aborts the loop only when it is none of the absent-node sentinels", "the traversal aborts on an absent child: "+detail)
	// the counter variable is a family of phis (loop header / loop post)
	family := map[ssa.Value]bool{counter: true}
	for changed := true; changed; {
		changed = false
		engine.Instrs(f, func(in ssa.Instruction) {
			ph, ok := in.(*ssa.Phi)
			if !ok {
				return
			}
			for _, e := range ph.Edges {
				if family[e] && !family[ph] {
					family[ph] = true
					changed = true
				}
				if _, isPhi := e.(*ssa.Phi); isPhi && family[ph] && !family[e] {
					family[e] = true
					changed = true
				}
			}
		})
	}
	// ErrIteratingChildNodes under counter != 0
	found := false
	for _, ret := range engine.Returns(f) {
		if len(ret.Results) == 1 && globalErrName(ret.Results[0]) == "ErrIteratingChildNodes" {
			facts, ok := engine.FactsOn(f, ret.Block())
			if ok {
				for _, ft := range facts {
					if ft.Kind == "eq" && !ft.Truth && (family[ft.A] && isZero(ft.B) || family[ft.B] && isZero(ft.A)) {
						found = true
					}
				}
			}
		}
	}
	r.Check(found, rule, fn(f)+"|result depends on counter", r.P.Pos(rec.Pos()), "ErrIteratingChildNodes returned under counter != 0", "the branch arm's result does not depend on the count of absent children")
	// AGREE-sentinels
	const rule2 = "AGREE-sentinels"
	h := r.Fn(rule2, pkgUtil, "MerklePatriciaTrie", "HasMissingNodes")
	if h == nil {
		return
	}
	var iterErr ssa.Value
	engine.Instrs(h, func(in ssa.Instruction) {
		if c, ok := in.(*ssa.Call); ok && staticCalleeIs(c, pkgUtil, "MerklePatriciaTrie", "Iterate") {
			iterErr = c
		}
	})
	if iterErr == nil {
		r.Anchor(rule2, fmt.Errorf("unresolved anchor: Iterate call in HasMissingNodes"))
		return
	}
	hc := sentinelCompares(h, iterErr)
	var mapped []string
	for name, b := range hc {
		// true edge must reach `return true, nil`
		okTrue := false
		for _, ret := range engine.Returns(h) {
			if len(ret.Results) == 2 {
				if c := constVal(resultValue(ret, 0)); c != nil && c.ExactString() == "true" {
					paths, ok := engine.PathFacts(h, ret.Block(), 4096)
					if ok {
						for _, p := range paths {
							if v, had := p[engine.EqKey(b.X, b.Y)]; had && v {
								okTrue = true
							}
						}
					}
				}
			}
		}
		if okTrue {
			mapped = append(mapped, name)
		}
	}
	sort.Strings(mapped)
	want := []string{"ErrIteratingChildNodes", "ErrMissingNodes", "ErrNodeNotFound"}
	r.Check(strings.Join(mapped, ",") == strings.Join(counted, ",") && strings.Join(counted, ",") == strings.Join(want, ","), rule2, "iterate/HasMissingNodes|sentinel sets", r.P.Pos(h.Pos()),
		"both sides: "+strings.Join(want, ", "),
		fmt.Sprintf("iterate counts [%s] as absent-node errors, HasMissingNodes maps [%s] to 'missing'; expected [%s] on both sides: an absent node is reported as an unexpected error or not at all", strings.Join(counted, ", "), strings.Join(mapped, ", "), strings.Join(want, ", ")))
	// the detection handler reports ErrMissingNodes for a nil node
	okHandler := false
	for _, a := range h.AnonFuncs {
		for _, ret := range engine.Returns(a) {
			if len(ret.Results) == 1 && globalErrName(ret.Results[0]) == "ErrMissingNodes" {
				atoms, ok := engine.AtomsOn(a, ret.Block())
				if ok {
					for k, v := range atoms {
						if v && strings.Contains(k, "p:node") && strings.Contains(k, "nil") {
							okHandler = true
						}
					}
				}
			}
		}
	}
	r.Check(okHandler, rule2, fn(h)+"|handler", r.P.Pos(h.Pos()), "the detection handler returns ErrMissingNodes exactly for a nil node", "the detection handler does not report ErrMissingNodes for a nil (absent) node")
}

// donorCovered: non-vacuity of FRESH-donor: MergeDB's handler reaches a store
// write with the donor's node, and that path performs no mutation (decided by
// FRESH above); here we only record that the donor source exists.
func donorCovered(r *engine.Run) {
	const rule = "FRESH-donor"
	f := r.Fn(rule, pkgUtil, "MerklePatriciaTrie", "MergeDB")
	if f == nil {
		return
	}
	g := r.P.RepoCG()
	reach := g.Reach(f.AnonFuncs...)
	writes := 0
	for fnc := range reach {
		engine.Instrs(fnc, func(in ssa.Instruction) {
			if c, ok := in.(ssa.CallInstruction); ok && invokeOnField(c, "db", "PutNode") {
				writes++
			}
		})
	}
	r.Check(len(f.AnonFuncs) > 0 && writes > 0, rule, fn(f)+"|donor nodes are stored", r.P.Pos(f.Pos()), fmt.Sprintf("MergeDB's handler reaches %d store write(s) with the donor's node", writes),
		"MergeDB no longer stores the donor's nodes")
	// the donor's node must be stored under its own hash without re-stamping: no SetOrigin reachable with the donor source (FRESH) and key = GetHashBytes(node)
	mset := r.Fn(rule, pkgUtil, "MerklePatriciaTrie", "MergeDB")
	_ = mset
}

// domRecord: every failed node access is recorded: addMissingNodeKeys appends
// its key on every path (no cap, no filter), and getNode calls it on the
// not-found path.
func domRecord(r *engine.Run, rule string) {
	f := r.Fn(rule, pkgUtil, "MerklePatriciaTrie", "addMissingNodeKeys")
	if f == nil {
		return
	}
	stores := map[*ssa.BasicBlock]bool{}
	engine.Instrs(f, func(in ssa.Instruction) {
		st, ok := in.(*ssa.Store)
		if !ok {
			return
		}
		if fld := engine.FieldOf(st.Addr); fld == nil || fld.Name() != "missingNodeKeys" {
			return
		}
		if c, ok := st.Val.(*ssa.Call); ok {
			if b, ok := c.Call.Value.(*ssa.Builtin); ok && b.Name() == "append" {
				if fld := fieldLoadOf(c.Call.Args[0]); fld != nil && fld.Name() == "missingNodeKeys" {
					stores[st.Block()] = true
				}
			}
		}
	})
	n := 0
	for _, ret := range engine.Returns(f) {
		if ret.Block().Comment == "recover" {
			continue
		}
		n++
		good := stores[ret.Block()]
		if !good {
			paths, ok := engine.PathFactsAvoid(f, ret.Block(), stores, 4096)
			good = ok && len(paths) == 0
		}
		r.Check(good && len(stores) > 0, rule, fn(f)+"|append on every path", r.P.Pos(ret.Pos()), "every path appends the key to the recorded missing keys",
			"a failed node access can return without being recorded (cap, filter or early return): the lookup still fails, but the key is not among the reported missing keys, so a repair driven by the report leaves the node absent")
	}
	if n < 1 {
		r.Anchor(rule, fmt.Errorf("unresolved anchor: returns of addMissingNodeKeys"))
	}
	// the call site: getNode records where the store answered ErrNodeNotFound
	if g := r.Fn(rule, pkgUtil, "MerklePatriciaTrie", "getNode"); g != nil {
		sites := 0
		engine.Instrs(g, func(in ssa.Instruction) {
			c, ok := in.(*ssa.Call)
			if !ok || c.Call.StaticCallee() != f {
				return
			}
			sites++
			good := false
			if facts, full := engine.FactsOn(g, c.Block()); full {
				for _, ft := range facts {
					if ft.Kind == "eq" && ft.Truth && (globalErrName(ft.A) == "ErrNodeNotFound" || globalErrName(ft.B) == "ErrNodeNotFound") {
						good = true
					}
				}
			}
			r.Check(good, rule, fn(g)+"|records not-found", r.P.Pos(c.Pos()), "the key is recorded where the store's error tested equal to ErrNodeNotFound",
				"getNode records a missing key on a path where the store did not answer ErrNodeNotFound (or not on the path where it did)")
		})
		if sites == 0 {
			r.Fail(rule, fn(g)+"|records not-found", r.P.Pos(g.Pos()), "getNode no longer records the keys of absent nodes: the trie reports no missing keys although lookups fail")
		}
	}
}

// domNodeFound: a node store answers "found" only for what it holds: the memory
// store returns a node with a nil error only where its map lookup hit; the
// persistent store decodes only where the fetched bytes tested non-empty.
func domNodeFound(r *engine.Run, rule string) {
	n := 0
	if f := r.Fn(rule, pkgUtil, "MemoryNodeDB", "getNode"); f != nil {
		var found ssa.Value
		engine.Instrs(f, func(in ssa.Instruction) {
			if ex, ok := in.(*ssa.Extract); ok && ex.Index == 1 {
				if lk, ok := ex.Tuple.(*ssa.Lookup); ok && lk.CommaOk {
					found = ex
				}
			}
		})
		o := ord{}
		for _, ret := range engine.Returns(f) {
			if len(ret.Results) != 2 || !nilConst(resultValue(ret, 1)) {
				continue
			}
			n++
			good := false
			if found != nil {
				if atoms, full := engine.AtomsOn(f, ret.Block()); full {
					if t, had := atoms[engine.ValKey(found)]; had && t {
						good = true
					}
				}
			}
			r.Check(good, rule, o.next(fn(f)+"|success"), r.P.Pos(ret.Pos()), "a node is returned without error only where the map lookup hit",
				"the memory store reports success on a path where its map lookup may have missed: an absent node is answered with (nil, nil) instead of ErrNodeNotFound, and present nodes may be reported absent")
		}
	}
	if f := r.Fn(rule, pkgUtil, "PNodeDB", "GetNode"); f != nil {
		engine.Instrs(f, func(in ssa.Instruction) {
			c, ok := in.(*ssa.Call)
			if !ok || !staticCalleeIs(c, pkgUtil, "", "CreateNode") {
				return
			}
			n++
			good := false
			if facts, full := engine.FactsOn(f, c.Block()); full {
				for _, ft := range facts {
					if ft.Kind == "eq" && !ft.Truth {
						for _, side := range [][2]ssa.Value{{ft.A, ft.B}, {ft.B, ft.A}} {
							if lc, ok := side[0].(*ssa.Call); ok {
								if b, ok := lc.Call.Value.(*ssa.Builtin); ok && b.Name() == "len" {
									if k, isK := intConst(side[1]); isK && k == 0 {
										good = true
									}
								}
							}
						}
					}
				}
			}
			r.Check(good, rule, fn(f)+"|decode", r.P.Pos(c.Pos()), "the fetched bytes are decoded only where their length tested non-zero",
				"the persistent store decodes what it fetched without testing that anything was found: an absent key is not reported as ErrNodeNotFound")
		})
	}
	if n < 2 {
		r.Anchor(rule, fmt.Errorf("unresolved anchor: %d lookup results of the node stores", n))
	}
}

// orderPublish17: a node merged from another store becomes visible to this trie
// (node cache, change collector) only after its write into the trie's store has
// succeeded: in insertForeignNode the PutNode call dominates cache.Set and
// AddChange, and its error is returned before them. Otherwise a failed write
// leaves a node that the trie reads from its cache and no longer reports missing.
func orderPublish17(r *engine.Run, rule string) {
	f := r.Fn(rule, pkgUtil, "MerklePatriciaTrie", "insertForeignNode")
	if f == nil {
		return
	}
	var put *ssa.Call
	var pubs []*ssa.Call
	engine.Instrs(f, func(in ssa.Instruction) {
		c, ok := in.(*ssa.Call)
		if !ok {
			return
		}
		switch {
		case invokeOnField(c, "db", "PutNode"):
			put = c
		case invokeOnField(c, "ChangeCollector", "AddChange"):
			pubs = append(pubs, c)
		default:
			if rv, is := engine.IsMethodCall(c, "Set"); is {
				if fld := fieldLoadOf(rv); fld != nil && fld.Name() == "cache" {
					pubs = append(pubs, c)
				}
			}
		}
	})
	if put == nil || len(pubs) == 0 {
		r.Anchor(rule, fmt.Errorf("unresolved anchor: store write / publication calls in %s", fn(f)))
		return
	}
	o := ord{}
	for _, p := range pubs {
		good := engine.InstrDominates(put, p)
		if good {
			// and only where the write's error tested nil
			good = false
			if facts, ok := engine.FactsOn(f, p.Block()); ok {
				for _, ft := range facts {
					if ft.Kind == "eq" && ft.Truth && (ft.A == ssa.Value(put) && nilConst(ft.B) || ft.B == ssa.Value(put) && nilConst(ft.A)) {
						good = true
					}
				}
			}
		}
		r.Check(good, rule, o.next(fn(f)+"|publish after write"), r.P.Pos(p.Pos()), "reached only after PutNode returned a nil error",
			"a merged node is put into the trie's cache / change set before (or regardless of whether) its store write succeeded: after a failed write the trie serves the node from its cache and stops reporting it missing, while the store still lacks it")
	}
}

// agreeSentinelWrap: iterate reports an absent node to its callers by identity:
// the branch arm of iterate and HasMissingNodes switch on the sentinel errors.
// An error that comes back from a recursive iterate call therefore has to go up
// unchanged; wrapping it (fmt.Errorf("...: %w", err)) makes it match none of the
// sentinels, the walk aborts and HasMissingNodes answers (false, err) for a trie
// that GetAllMissingNodes still reports as incomplete.
func agreeSentinelWrap(r *engine.Run, rule string) {
	f := r.Fn(rule, pkgUtil, "MerklePatriciaTrie", "iterate")
	if f == nil {
		return
	}
	n := 0
	// iterate and the helpers it hands part of the walk to (they call iterate back)
	root := f
	members := []*ssa.Function{root}
	engine.Instrs(root, func(in ssa.Instruction) {
		c, ok := in.(*ssa.Call)
		if !ok {
			return
		}
		g := c.Call.StaticCallee()
		if g == nil || g == root || len(g.Blocks) == 0 || recvNamed(g) != "MerklePatriciaTrie" {
			return
		}
		back := false
		engine.Instrs(g, func(i2 ssa.Instruction) {
			if c2, ok := i2.(*ssa.Call); ok && c2.Call.StaticCallee() == root {
				back = true
			}
		})
		if back {
			members = append(members, g)
			r.Touch(g)
		}
	})
	for _, f := range members {
		o := ord{}
		engine.Instrs(f, func(in ssa.Instruction) {
			c, ok := in.(*ssa.Call)
			if !ok || c.Call.StaticCallee() != root {
				return
			}
			n++
			var e ssa.Value = c // single error result
			bad := ""
			seen := map[ssa.Value]bool{}
			var follow func(v ssa.Value)
			follow = func(v ssa.Value) {
				if seen[v] {
					return
				}
				seen[v] = true
				for _, ref := range engine.Referrers(v) {
					switch x := ref.(type) {
					case *ssa.Phi:
						follow(x)
					case *ssa.MakeInterface:
						follow(x)
					case *ssa.ChangeInterface:
						follow(x)
					case *ssa.Slice, *ssa.IndexAddr:
					case *ssa.Store:
						// into the variadic argument array of a formatting call
						if ia, ok := x.Addr.(*ssa.IndexAddr); ok {
							follow(ia.X)
						}
					case *ssa.Alloc:
					case *ssa.Call:
						sc := x.Call.StaticCallee()
						if sc != nil && sc.Pkg != nil && (sc.Pkg.Pkg.Path() == "fmt" && sc.Name() == "Errorf" || sc.Pkg.Pkg.Path() == "errors" && (sc.Name() == "Join" || sc.Name() == "New")) {
							// is the constructed error returned?
							for _, r2 := range engine.Referrers(x) {
								if _, isRet := r2.(*ssa.Return); isRet {
									bad = r.P.Pos(x.Pos())
								}
								if ph, isPhi := r2.(*ssa.Phi); isPhi {
									for _, r3 := range engine.Referrers(ph) {
										if _, isRet := r3.(*ssa.Return); isRet {
											bad = r.P.Pos(x.Pos())
										}
									}
								}
							}
						}
					}
				}
			}
			follow(e)
			// the variadic array: new [k]any; stores of iface(e) into its elements; slice passed to Errorf
			engine.Instrs(f, func(i2 ssa.Instruction) {
				st, ok := i2.(*ssa.Store)
				if !ok || !seen[st.Val] {
					return
				}
				ia, ok := st.Addr.(*ssa.IndexAddr)
				if !ok {
					return
				}
				for _, ref := range engine.Referrers(ia.X) {
					if sl, ok := ref.(*ssa.Slice); ok {
						for _, r2 := range engine.Referrers(sl) {
							if call, ok := r2.(*ssa.Call); ok {
								if sc := call.Call.StaticCallee(); sc != nil && sc.Pkg != nil && sc.Pkg.Pkg.Path() == "fmt" && sc.Name() == "Errorf" {
									for _, r3 := range engine.Referrers(call) {
										if _, isRet := r3.(*ssa.Return); isRet {
											bad = r.P.Pos(call.Pos())
										}
									}
								}
							}
						}
					}
				}
			})
			r.Check(bad == "", rule, o.next(fn(f)+"|recursive error"), r.P.Pos(c.Pos()), "the error of the recursive walk goes up unchanged",
				"iterate returns the error of a recursive walk wrapped in a new error ("+bad+"): its callers (the branch arm of iterate, HasMissingNodes) recognise an absent node by comparing with the sentinel errors, so a wrapped ErrMissingNodes / ErrNodeNotFound aborts the walk and the trie is reported as having no missing nodes")
		})
	}
	if n < 2 {
		r.Anchor(rule, fmt.Errorf("unresolved anchor: only %d recursive calls in iterate", n))
	}
}

// whoLimit: MPTMaxAllowableNodeSize bounds the marshalled VALUE handed to Insert.
// An encoded node is larger than its value (prefix, path, origin, type byte); a
// second place that holds whole nodes to the same constant - e.g. the sync
// repair - rejects nodes that Insert accepted, and the repair can never complete.
// Rule: the constant is used only in Insert or in a function all of whose callers
// are Insert (a guard extracted into a helper).
func whoLimit(r *engine.Run, rule string) {
	pk := r.P.Pkgs[engine.RepoMod+"/"+pkgUtil]
	if pk == nil || pk.TypesInfo == nil {
		r.Anchor(rule, fmt.Errorf("unresolved anchor: package %s", pkgUtil))
		return
	}
	insert := r.Fn(rule, pkgUtil, "MerklePatriciaTrie", "Insert")
	if insert == nil {
		return
	}
	cg := r.P.RepoCG()
	n := 0
	bad := ""
	for id, obj := range pk.TypesInfo.Uses {
		if obj == nil || obj.Name() != "MPTMaxAllowableNodeSize" || obj.Pkg() == nil || obj.Pkg().Path() != pk.PkgPath {
			continue
		}
		if strings.HasSuffix(r.P.Fset.Position(id.Pos()).Filename, "_test.go") {
			continue
		}
		n++
		// enclosing function
		var encl *ssa.Function
		for _, f := range funcsOfPkg(r, pkgUtil) {
			if f.Syntax() == nil {
				continue
			}
			if f.Syntax().Pos() <= id.Pos() && id.Pos() <= f.Syntax().End() {
				if encl == nil || f.Syntax().Pos() >= encl.Syntax().Pos() {
					encl = f
				}
			}
		}
		if encl == nil {
			continue // package-level declaration
		}
		top := engine.TopFunc(encl)
		if top == insert {
			continue
		}
		onlyInsert := len(cg.In[top]) > 0
		for _, e := range cg.In[top] {
			if engine.TopFunc(e.Caller) != insert {
				onlyInsert = false
			}
		}
		if !onlyInsert {
			bad = fn(top) + " at " + r.P.Pos(id.Pos())
		}
	}
	if n < 1 {
		r.Anchor(rule, fmt.Errorf("unresolved anchor: no use of MPTMaxAllowableNodeSize found"))
		return
	}
	r.Check(bad == "", rule, "MPTMaxAllowableNodeSize|used for the inserted value only", r.P.Pos(insert.Pos()), "the size limit is applied in Insert (or its guard helper) only",
		"the value size limit is also applied in "+bad+": an encoded node is larger than the value Insert measured, so a node Insert accepted is refused there - a repair from another store stops at that node and the trie keeps missing nodes")
}

// domSurvey: GetAllMissingNodes reports what its recursive survey (the trie
// method that is handed the *[]Key result list) collects. The survey can only
// report an absent node it asked the store for: every return of the survey
// function is dominated by the lookup (getNode) of the key it was handed - no
// depth cut-off, filter or early return before the node is read - and each of
// its recursive calls sits in the arm of a child-carrying node type (extension
// child, branch children), so that every child key is handed on.
func domSurvey(r *engine.Run, rule string) {
	entry := r.Fn(rule, pkgUtil, "MerklePatriciaTrie", "GetAllMissingNodes")
	getNode := r.Fn(rule, pkgUtil, "MerklePatriciaTrie", "getNode")
	if entry == nil || getNode == nil {
		return
	}
	// the survey: a trie method called from the entry (directly) that takes a *[]Key
	var survey *ssa.Function
	engine.Instrs(entry, func(in ssa.Instruction) {
		c, ok := in.(*ssa.Call)
		if !ok {
			return
		}
		g := c.Call.StaticCallee()
		if g == nil || g.Pkg != entry.Pkg {
			return
		}
		for _, p := range g.Params {
			if pt, ok := p.Type().(*types.Pointer); ok {
				if sl, ok := pt.Elem().Underlying().(*types.Slice); ok && strings.HasSuffix(sl.Elem().String(), "Key") {
					survey = g
				}
			}
		}
	})
	if survey == nil || len(survey.Blocks) == 0 {
		r.Anchor(rule, fmt.Errorf("unresolved anchor: survey function (trie method with a *[]Key parameter) called from GetAllMissingNodes"))
		return
	}
	r.Touch(survey)
	// key parameter: the first parameter of type Key
	var key ssa.Value
	for _, p := range survey.Params {
		if strings.HasSuffix(p.Type().String(), "Key") {
			key = p
			break
		}
	}
	var lookups []*ssa.Call
	engine.Instrs(survey, func(in ssa.Instruction) {
		if c, ok := in.(*ssa.Call); ok && c.Call.StaticCallee() == getNode {
			for _, a := range c.Call.Args {
				if a == key {
					lookups = append(lookups, c)
				}
			}
		}
	})
	if key == nil || len(lookups) == 0 {
		r.Anchor(rule, fmt.Errorf("unresolved anchor: lookup of the surveyed key in %s", fn(survey)))
		return
	}
	o := ord{}
	n := 0
	for _, ret := range engine.Returns(survey) {
		if ret.Block().Comment == "recover" {
			continue
		}
		n++
		good := false
		for _, l := range lookups {
			if l.Block() == ret.Block() || l.Block().Dominates(ret.Block()) {
				good = true
			}
		}
		r.Check(good, rule, o.next(fn(survey)+"|return after lookup"), r.P.Pos(ret.Pos()), "the return is reached only after the node of the surveyed key was asked for",
			"the survey of missing nodes can return before it asked the store for the node of the key it was handed (cut-off, filter or early return): an absent node below that point is never reported, so GetAllMissingNodes hands back an incomplete (or empty) list with a nil error and a repair driven by it leaves nodes absent")
	}
	if n < 2 {
		r.Anchor(rule, fmt.Errorf("unresolved anchor: only %d returns in %s", n, fn(survey)))
	}
	// recursion: at least one recursive call fed by an extension's child key and one by a branch child
	rec := 0
	countRec := func(g *ssa.Function) {
		engine.Instrs(g, func(in ssa.Instruction) {
			if c, ok := in.(*ssa.Call); ok && c.Call.StaticCallee() == survey {
				rec++
			}
		})
	}
	countRec(survey)
	// the child loops may live in a helper of the trie that calls the survey back
	engine.Instrs(survey, func(in ssa.Instruction) {
		if c, ok := in.(*ssa.Call); ok {
			if g := c.Call.StaticCallee(); g != nil && g != survey && g != getNode && g.Pkg == survey.Pkg && len(g.Blocks) > 0 && recvNamed(g) == recvNamed(survey) {
				r.Touch(g)
				countRec(g)
			}
		}
	})
	surveyReturns(r, rule, survey, lookups)
	r.Check(rec >= 2, rule, fn(survey)+"|recursion", r.P.Pos(survey.Pos()), fmt.Sprintf("%d recursive calls (extension child, branch children)", rec),
		fmt.Sprintf("the survey recurses at %d site(s) only: the children of extension or branch nodes are not surveyed", rec))
}
