package rules

import (
	"fmt"
	"go/constant"
	"go/token"
	"go/types"
	"strings"

	"golang.org/x/tools/go/ssa"

	"verif/sa/engine"
)

func init() {
	register(&Check{ID: "C01", Pkgs: []string{pkgUtil}, Run: runC01})
}

func runC01(r *engine.Run) {
	r.Rule("DOM-itervalue", "in iterate the value a branch carries is handed to the handler under the value-node bit of the mask alone: a report that also needs the branch bit drops the entries at prefix paths from every values-only iteration")
	r.Rule("DEP-wholevalue", "the decoder of a stored value keeps all of its input and never branches on the content of the bytes (a value that starts with a MessagePack nil code is a value: every cached node is a re-decoded copy, so a decoder that empties it makes the live entry look absent)")
	r.Rule("ORDER-KEY-save", "see C04: the save writes every pending change, keyed by the hash of the node written beside it, in one MultiPutNode outside any loop (a batched writer that resets only one of the two slices files later nodes under keys that are not their hash: the state read back from the store loses values)")
	r.Rule("WHO-readonly", "see C06: a lookup through the transaction cache - the node cache every trie lookup goes through - stores nothing into the cache's pending map (lookups hold only read locks and run in parallel: a memoising lookup is a concurrent map write)")
	r.Rule("DOM-adopt", "see C03: a merge reports success only where this trie's root is the merged root (installed, or already equal): a fast path that returns nil before the deletes are replayed and the root moved - for a layer that created no node because it deleted every entry - leaves the lower trie answering with the dead pairs")
	r.Rule("EXH-U", "every node-kind dispatch of the trie operations (lookup, insert at node / at exhausted path, delete at node and its two inner dispatches, delete at exhausted path, iterate) has an arm for each of *LeafNode, *FullNode, *ExtensionNode; no arm of a concrete kind consists of a panic; a panicking default is tolerated only when the dispatched value cannot be a nil interface (it is not the result of a repo function that can return (nil, ..., nil))")
	r.Rule("DOM-size", "in Insert, the write lock, insert, insertLeaf and setRoot are reached only when len(marshalled value) > MPTMaxAllowableNodeSize tested false and len == 0 tested false; a nil value and an empty encoding route to Delete(path); the value's MarshalMsg is called only where the value tested non-nil, each route to Delete is taken only where the value tested nil or its encoding tested empty, and setRoot stores its argument into the root field")
	r.Rule("DEP-absent", "deleting at an exhausted path on a branch returns ErrValueNotPresent under a test of the branch's HasValue(); deleteAtNode's leaf arm returns ErrValueNotPresent when the path comparison fails; delete of a nil key returns ErrValueNotPresent")
	r.Rule("DOM-ext-nonempty", "every construction of an extension node (NewExtensionNode, insertExtension, store to ExtensionNode.Path in the trie operations) receives a path established non-empty: a literal/append/concat with at least one element, a prefix under a dominating len != 0 test, a suffix X[k:] under a dominating len(X) != k test, an existing extension's path, or a parameter that is non-empty at every call site; an empty-path extension makes its subtree unreachable for lookups")
	r.Rule("FRESH-bytes", "see C03: the byte slices handed out by the node accessors (MarshalMsg, Encode, GetHashBytes, GetValueBytes in core/util) are new buffers on every return: nil, make/conversion results, results of calls that produce new buffers, or appends to such; never a field, element, global or map entry. FRESH-node relies on this, and callers of GetNodeValueRaw own (and may overwrite) the slice they get")
	r.Rule("FRESH-node", "see C03: no trie operation writes in place to node memory shared with the store, the node cache, a pending change or a caller (aliasing changes what other lookups return)")
	r.Rule("WHO-livedelete", "see C04: a node the rebuilt trie still references is never removed from the store (every path below it would become unreadable)")
	r.Rule("DOM-lift", "liftOnlyChild (which replaces a branch by its only child and does not carry a value) is called only with a branch that provably holds no value: SetValue(nil) on that object dominates the call, or it is a clone of a branch whose HasValue() tested false on every path to the call")
	r.Rule("AGREE-fields", "see C14: writer and reader of each node encoding agree on the separator discipline and field order (a node that decodes to something other than what was stored makes lookups on a persistent store return another value)")
	r.Rule("ERR-guard", "see C17: in the trie operations the branch taken when a call failed returns a non-nil error, and no early return hands back an error on the edge where it is nil")
	r.Rule("ERR-dropped", "see C17: the error of every trie / store operation called by the trie operations is looked at")
	r.Rule("AGREE-split", "see C02: a leaf's prefix and path split one key at one point (two entries whose leaves get the same prefix, path and value would share one stored node, and changing one breaks the other)")
	r.Rule("WHO-prev", "see C03: a layered store never writes or deletes in the level below (an older version read through the lower store keeps all its nodes)")
	r.Rule("DEP-linkback", "the key returned by every recursive step of the trie operations (insert, insertLeaf, insertExtension, insertNode, delete and their arms) is installed in the node being rebuilt, handed on, or returned - never only compared")
	r.Rule("DEP-valuestored", "in insertAtNode and insertAfterPathTraversal every path to a success return passes a call that receives the value being inserted (SetValue, insertLeaf, NewFullNode, the recursive insert)")
	r.Rule("DEP-rehome", "a clone of a child that replaces its vanished parent (moved one or more levels up) has its Path reassigned before it is inserted, a leaf also its Prefix")
	r.Rule("DOM-rootinstalled", "every success return of Insert and Delete that follows a trie walk is dominated by setRoot")
	r.Rule("AGREE-childslot", "in the trie operations a child key produced by a call that was given the path remainder P[l:] is filed with PutChild under slot P[l-1] of the same path P, and a child key read with GetChild(P[l-1]) is walked (directly or after getNode) with remainder P[l:]: the path element that selects a slot is exactly the one the remainder skips")
	r.Rule("DOM-keymatch", "the walks decide 'this node is the entry for the key' only under the comparison that establishes it: the lookup returns a leaf's value only where leaf path == remaining path tested true and a branch's own value only where len(path) == 0; deleteAtNode removes, and insertAtNode overwrites in place, the leaf at the position only where path == leaf path tested true; every walk below an extension (insert, delete, the lookup's recursion after getNode of the extension's NodeKey) is reached only where the extension's path tested equal to the path or to the matching prefix of both, and continues with exactly the rest of the path; at an exhausted path a leaf is overwritten in place (insertAfterPathTraversal) or removed (deleteAfterPathTraversal, decided in the function or, per feasible path, at each of its call sites) only where its own path tested empty or equal to the remaining path")
	r.Rule("AGREE-mergepath", "when delete removes the node between two path-carrying nodes the lower one moves up with path = what the vanished node consumed ++ its own whole path: the store to Path of a clone in deleteAtNode/liftOnlyChild is, piece by piece (symbolic evaluation through concat, append chains, literals and conditional extensions), the position extension's whole path or one slot element followed by the whole path of the node that moves up; an extension that adopts its child extension's NodeKey gets the fused path in the same step")
	r.Rule("DOM-childcount", "a branch is dissolved only under the child count that justifies it: liftOnlyChild is called where GetNumChildren() of the position tested equal to 1 plus the number of children cleared on the copy handed to it; the branch is removed, or turned into a leaf carrying its value, only where the count tested 1")
	r.Rule("AGREE-setters", "see C14: the node constructors and setters store every parameter they are given (the walks hand over the right arguments; a constructor that drops one builds another node)")
	r.Rule("DOM-valueat", "in insertAtNode a value is stored on a newly built branch only where the key it belongs to ends there: the payload where matching prefix == path tested true, the split leaf's value where matching prefix == leaf path tested true or the leaf's path is empty")
	r.Rule("WHO-tombstones", "see C03: no lookup of the layered store consults its delete tombstones (a lookup that answered from them would hide a node the level, or the level below, still holds)")
	r.Rule("CLONE-deep", "see C07: Clone() of every node type is a deep copy (the codec round trip), never a value that shares path/key/value memory with the receiver - FRESH-node treats Clone() results as fresh, and an in-place append onto a shallow copy writes into the store's object")
	r.Rule("FRESH-pathbuf", "in the exported Insert no path argument handed to the trie's own unexported methods is the caller's path parameter or a slice of it: the walk builds leaf and extension nodes around sub-slices of the path it is given, and those nodes stay in the store, the cache and the change collector, so the path is copied at the API boundary like the value is - a caller that refills one key buffer per entry must not rewrite the paths of entries it stored before")
	r.Rule("WHO-limit", "see C17: the value size limit MPTMaxAllowableNodeSize is applied to the inserted value only (in Insert or its guard helper): a value Insert accepted gives a node that every store and decoder takes whole - a decoder that cuts its input at the same constant loses the tail of a node whose value is close to the limit, and the lookup returns a truncated or no value")
	r.Rule("LOCK-mpt", "see C16: root, the stores' maps and level links and the collector's maps are accessed only with their owner's mutex held in the required mode")
	r.Rule("ORDER-critical", "see C16: Insert, Delete, MergeChanges and MergeDB are one critical section each")
	r.Rule("LOCK-walk", "see C16: every node fetch of a walk that starts at the trie's root happens with the trie's mutex held - a lookup that releases the lock before it walks down reads nodes a writer has meanwhile replaced and removed, and reports a stored path as absent")
	r.Rule("DOM-cancel", "see C05: AddChange removes the new node's hash from the delete set on every path (an update that is changed back leaves the live node on the delete list: a save with deletes or a merge removes it, and the lookup of a stored path fails)")
	r.NotDec = append(r.NotDec, "that lookups return the last stored value for every history (path arithmetic, slicing, which child is lifted)", "hex validation of Insert/Delete paths (outside the property's quantifier)")
	exhU(r)
	domSize(r)
	depAbsent(r)
	domExtNonEmpty(r, "DOM-ext-nonempty")
	freshNode(r, "C01")
	whoLiveDelete(r, "WHO-livedelete")
	domLift(r, "DOM-lift")
	agreeFields(r)
	errGuard(r, "ERR-guard", "ERR-dropped", mptFuncs(r), 15)
	agreeSplit(r)
	whoPrev(r)
	depLinkBackMPT(r, "DEP-linkback")
	depValueStored(r, "DEP-valuestored")
	depRehome(r, "DEP-rehome")
	domRootInstalled(r, "DOM-rootinstalled")
	agreeChildSlot(r, "AGREE-childslot")
	domKeyMatch(r, "DOM-keymatch")
	domValueAt(r, "DOM-valueat")
	agreeMergePath(r, "AGREE-mergepath")
	domChildCount(r, "DOM-childcount")
	agreeSetters(r, "AGREE-setters")
	whoTombstones(r, "WHO-tombstones")
	cloneDeep(r)
	whoLimit(r, "WHO-limit")
	lockWalk(r, mptLockDiscipline(r))
	freshPathBuf(r, "FRESH-pathbuf")
	domCancel(r)
	domAdopt(r, "DOM-adopt")
	orderKeySave(r)
	whoReadOnly(r, "WHO-readonly")
	iterValueMask(r, "DOM-itervalue")
	wholeValue(r, "DEP-wholevalue")
}

var nodeKinds = []string{"ExtensionNode", "FullNode", "LeafNode"}

// mayReturnNilNil: f has a path returning a nil first result together with a
// nil error (directly or by returning the results of such a callee).
func mayReturnNilNil(f *ssa.Function, seen map[*ssa.Function]bool) bool {
	if f == nil || seen[f] || len(f.Blocks) == 0 {
		return false
	}
	seen[f] = true
	for _, ret := range engine.Returns(f) {
		if len(ret.Results) < 2 {
			continue
		}
		first, last := ret.Results[0], ret.Results[len(ret.Results)-1]
		if nilConst(first) && nilConst(last) {
			return true
		}
		if ex, ok := first.(*ssa.Extract); ok && ex.Index == 0 {
			if c, ok := ex.Tuple.(*ssa.Call); ok {
				if ex2, ok := last.(*ssa.Extract); ok && ex2.Tuple == ex.Tuple {
					if mayReturnNilNil(c.Call.StaticCallee(), seen) {
						return true
					}
				}
			}
		}
	}
	return false
}

// mayBeNilIface: the dispatched value can be a nil interface although no
// error was reported.
func mayBeNilIface(v ssa.Value) (bool, string) {
	if ex, ok := v.(*ssa.Extract); ok && ex.Index == 0 {
		if c, ok := ex.Tuple.(*ssa.Call); ok {
			if g := c.Call.StaticCallee(); g != nil && mayReturnNilNil(g, map[*ssa.Function]bool{}) {
				return true, "result of " + fn(g) + ", which can return (nil, ..., nil)"
			}
		}
	}
	return false, ""
}

type dispatch struct {
	on     ssa.Value
	arms   map[string]*ssa.TypeAssert
	last   *ssa.TypeAssert
	hasNil bool
}

// dispatches groups the comma-ok type assertions of f on Node-typed values.
func dispatches(f *ssa.Function, ifacePkg, ifaceName string) []*dispatch {
	byVal := map[ssa.Value]*dispatch{}
	var order []ssa.Value
	engine.Instrs(f, func(in ssa.Instruction) {
		ta, ok := in.(*ssa.TypeAssert)
		if !ok || !ta.CommaOk || !isNamed(ta.X.Type(), ifacePkg, ifaceName) {
			return
		}
		n := namedOf(ta.AssertedType)
		if n == nil {
			return
		}
		d := byVal[ta.X]
		if d == nil {
			d = &dispatch{on: ta.X, arms: map[string]*ssa.TypeAssert{}}
			byVal[ta.X] = d
			order = append(order, ta.X)
		}
		d.arms[n.Obj().Name()] = ta
		d.last = ta
	})
	// a `case nil` arm shows up as a comparison X == nil controlling a branch
	engine.Instrs(f, func(in ssa.Instruction) {
		b, ok := in.(*ssa.BinOp)
		if !ok || b.Op != token.EQL {
			return
		}
		if d := byVal[b.X]; d != nil && nilConst(b.Y) {
			d.hasNil = true
		}
	})
	var out []*dispatch
	for _, v := range order {
		out = append(out, byVal[v])
	}
	return out
}

func armOK(ta *ssa.TypeAssert) (succ, fail *ssa.BasicBlock) {
	for _, ref := range engine.Referrers(ta) {
		if ex, ok := ref.(*ssa.Extract); ok && ex.Index == 1 {
			for _, r2 := range engine.Referrers(ex) {
				if iff, ok := r2.(*ssa.If); ok {
					return iff.Block().Succs[0], iff.Block().Succs[1]
				}
			}
		}
	}
	return nil, nil
}

func endsInPanic(b *ssa.BasicBlock) bool {
	if b == nil || len(b.Instrs) == 0 {
		return false
	}
	_, ok := b.Instrs[len(b.Instrs)-1].(*ssa.Panic)
	return ok
}

func exhU(r *engine.Run) {
	const rule = "EXH-U"
	// every method of the trie that dispatches on the kind of a node; the
	// count is checked over the whole set (a dispatch may move between helpers)
	total := 0
	for _, f := range mptFuncs(r) {
		if recvNamed(engine.TopFunc(f)) != "MerklePatriciaTrie" {
			continue
		}
		ds := dispatches(f, pkgUtil, "Node")
		for i, d := range ds {
			if len(d.arms) < 2 {
				continue // a single comma-ok assertion, not a kind dispatch
			}
			total++
			construct := fmt.Sprintf("%s|dispatch#%d", fn(f), i+1)
			pos := r.P.Pos(d.last.Pos())
			var missing []string
			for _, k := range nodeKinds {
				if d.arms[k] == nil {
					missing = append(missing, "*"+k)
				}
			}
			noResult := true
			if sig := engine.TopFunc(f).Signature; sig != nil {
				for i := 0; i < sig.Results().Len(); i++ {
					if !isErrorType(sig.Results().At(i).Type()) {
						noResult = false
					}
				}
			}
			_, fallthru := armOK(d.last)
			if len(missing) > 0 && noResult && !endsInPanic(fallthru) {
				// a walk that computes nothing per node (a survey, a printer): a kind without an
				// arm is skipped exactly like a kind with an empty arm
				r.OK(rule, construct+"|arms", pos, "no arm for "+strings.Join(missing, ", ")+": skipped like an empty arm (the function computes no result and the fall-through does not panic)")
			} else if len(missing) > 0 {
				r.Fail(rule, construct+"|arms", pos, "no arm for "+strings.Join(missing, ", ")+": that node kind falls into the default / is silently skipped")
			} else {
				r.OK(rule, construct+"|arms", pos, "arms for *LeafNode, *FullNode, *ExtensionNode")
			}
			for _, k := range nodeKinds {
				ta := d.arms[k]
				if ta == nil {
					continue
				}
				succ, _ := armOK(ta)
				r.Check(!endsInPanic(succ), rule, construct+"|*"+k+" arm", r.P.Pos(ta.Pos()), "arm does real work", "the arm for a node kind that can be stored in a trie consists of a panic: an operation reaching that kind crashes")
			}
			_, fail := armOK(d.last)
			if endsInPanic(fail) && !d.hasNil {
				isNil, why := mayBeNilIface(d.on)
				r.Check(!isNil, rule, construct+"|default", pos, "panicking default unreachable: every kind has an arm and the value is never a nil interface",
					"the dispatch panics in its default arm and the dispatched value can be nil: "+why)
			} else {
				r.OK(rule, construct+"|default", pos, "default does not panic or nil is handled")
			}
		}
	}
	if total < 8 {
		r.Anchor(rule, fmt.Errorf("unresolved anchor: %d node-kind dispatches found in the trie's methods, at least 8 confirmed by reading", total))
	}
}

func domSize(r *engine.Run) {
	const rule = "DOM-size"
	f := r.Fn(rule, pkgUtil, "MerklePatriciaTrie", "Insert")
	if f == nil {
		return
	}
	pk, _ := r.P.Pkg(pkgUtil)
	maxObj, _ := pk.Types.Scope().Lookup("MPTMaxAllowableNodeSize").(*types.Const)
	if maxObj == nil {
		r.Anchor(rule, fmt.Errorf("unresolved anchor: constant MPTMaxAllowableNodeSize"))
		return
	}
	// the marshalled value
	var eval ssa.Value
	engine.Instrs(f, func(in ssa.Instruction) {
		if c, ok := in.(*ssa.Call); ok {
			if recv, ok := engine.IsMethodCall(c, "MarshalMsg"); ok && recv == ssa.Value(f.Params[2]) {
				for _, ref := range engine.Referrers(c) {
					if ex, ok := ref.(*ssa.Extract); ok && ex.Index == 0 {
						eval = ex
					}
				}
			}
		}
	})
	if eval == nil {
		r.Anchor(rule, fmt.Errorf("unresolved anchor: marshalled value in Insert"))
		return
	}
	lenKey := "len(" + engine.ValKey(eval) + ")"
	o := ord{}
	n := 0
	group := opGroup(r, f)
	engine.Instrs(f, func(in ssa.Instruction) {
		c, ok := in.(*ssa.Call)
		if !ok {
			return
		}
		what := ""
		if sc := c.Call.StaticCallee(); sc != nil {
			switch {
			case sc.Name() == "Lock" && engine.MutexKey(c.Call.Args[0]) == "MerklePatriciaTrie.mutex":
				what = "write lock"
			case recvNamed(sc) == "MerklePatriciaTrie" && (sc.Name() == "insert" || sc.Name() == "insertLeaf" || sc.Name() == "setRoot"):
				what = sc.Name()
			case sc != f && inGroup(group, sc) && hasMutationPrimitive(group, sc, 0):
				// the locked part of Insert moved into a helper of its own: the call is the mutation
				what = sc.Name() + " (locks and inserts)"
				n += 2 // stands for the lock and the walk it contains
			}
		}
		if what == "" {
			return
		}
		n++
		facts, ok := engine.FactsOn(f, c.Block())
		sizeOK, emptyOK := false, false
		if ok {
			for _, ft := range facts {
				if ft.Kind == "lt" && !ft.Truth && engine.ValKey(ft.B) == lenKey {
					if cv := constVal(ft.A); cv != nil && constant.Compare(cv, token.EQL, maxObj.Val()) {
						sizeOK = true
					}
				}
				if ft.Kind == "eq" && !ft.Truth && (engine.ValKey(ft.A) == lenKey && isZero(ft.B) || engine.ValKey(ft.B) == lenKey && isZero(ft.A)) {
					emptyOK = true
				}
			}
		}
		if !sizeOK && ok {
			// the guard may live in a helper: g(..., eval, ...) whose error tested nil
			// here, where g returns a nil error only with len(param) > Max false
			for _, ft := range facts {
				if ft.Kind != "eq" || !ft.Truth {
					continue
				}
				for _, side := range [][2]ssa.Value{{ft.A, ft.B}, {ft.B, ft.A}} {
					hc, isCall := side[0].(*ssa.Call)
					if !isCall || !nilConst(side[1]) {
						continue
					}
					g := hc.Call.StaticCallee()
					if g == nil || len(g.Blocks) == 0 {
						continue
					}
					for ai, a := range hc.Call.Args {
						if a == eval && ai < len(g.Params) && sizeGuardIn(g, g.Params[ai], maxObj) {
							sizeOK = true
						}
					}
				}
			}
		}
		r.Check(sizeOK, rule, o.next(fn(f)+"|"+what+"|size"), r.P.Pos(c.Pos()), "reached only with len(value) > MPTMaxAllowableNodeSize false",
			"the trie is locked or modified on a path that has not rejected an over-size value (guard removed, moved after the mutation, or comparing another quantity)")
		r.Check(emptyOK, rule, o.next(fn(f)+"|"+what+"|empty"), r.P.Pos(c.Pos()), "reached only with a non-empty encoding",
			"an empty encoding reaches the insert instead of being treated as a delete")
	})
	if n < 3 {
		r.Anchor(rule, fmt.Errorf("unresolved anchor: mutation primitives in Insert (found %d)", n))
	}
	// nil value / empty encoding route to Delete(path)
	nd := 0
	engine.Instrs(f, func(in ssa.Instruction) {
		c, ok := in.(*ssa.Call)
		if !ok || !staticCalleeIs(c, pkgUtil, "MerklePatriciaTrie", "Delete") {
			return
		}
		nd++
		r.Check(c.Call.Args[1] == ssa.Value(f.Params[1]), rule, o.next(fn(f)+"|route to Delete"), r.P.Pos(c.Pos()), "Delete(path) with the same path", "Insert routes to Delete with a different path")
	})
	if nd < 2 {
		r.Fail(rule, fn(f)+"|empty is delete", r.P.Pos(f.Pos()), fmt.Sprintf("Insert routes to Delete on %d path(s); a nil value and an empty encoding must both be deletes", nd))
	}
	// the value is marshalled only where it tested non-nil, and the two routes to
	// Delete are taken exactly for a nil value / an empty encoding
	valueP := f.Params[2]
	nilFact := func(b *ssa.BasicBlock) (known, isNil bool) {
		facts, ok := engine.FactsOn(f, b)
		if !ok {
			return false, false
		}
		for _, ft := range facts {
			if ft.Kind == "eq" && (ft.A == ssa.Value(valueP) && nilConst(ft.B) || ft.B == ssa.Value(valueP) && nilConst(ft.A)) {
				return true, ft.Truth
			}
		}
		return false, false
	}
	engine.Instrs(f, func(in ssa.Instruction) {
		c, ok := in.(*ssa.Call)
		if !ok {
			return
		}
		if recv, isM := engine.IsMethodCall(c, "MarshalMsg"); isM && recv == ssa.Value(valueP) {
			known, isNil := nilFact(c.Block())
			r.Check(known && !isNil, rule, fn(f)+"|marshal non-nil", r.P.Pos(c.Pos()), "the value is marshalled only where it tested non-nil",
				"Insert calls a method of its value on a path where the value may be nil: a nil value panics instead of being treated as a delete")
		}
		if staticCalleeIs(c, pkgUtil, "MerklePatriciaTrie", "Delete") {
			known, isNil := nilFact(c.Block())
			emptyEnc := false
			if facts, ok := engine.FactsOn(f, c.Block()); ok {
				for _, ft := range facts {
					if ft.Kind == "eq" && ft.Truth && (engine.ValKey(ft.A) == lenKey && isZero(ft.B) || engine.ValKey(ft.B) == lenKey && isZero(ft.A)) {
						emptyEnc = true
					}
				}
			}
			r.Check(known && isNil || emptyEnc, rule, o.next(fn(f)+"|Delete only for nil/empty"), r.P.Pos(c.Pos()), "the route to Delete is taken only where the value tested nil or its encoding tested empty",
				"Insert routes to Delete on a path where the value is neither nil nor empty: storing a value removes the entry instead")
		}
	})
	// setRoot installs what it is given
	if g := r.Fn(rule, pkgUtil, "MerklePatriciaTrie", "setRoot"); g != nil {
		stored := false
		engine.Instrs(g, func(in ssa.Instruction) {
			if st, ok := in.(*ssa.Store); ok {
				if fld := engine.FieldOf(st.Addr); fld != nil && fld.Name() == "root" && stripCT(st.Val) == ssa.Value(g.Params[1]) {
					stored = true
				}
			}
		})
		r.Check(stored, rule, fn(g)+"|installs root", r.P.Pos(g.Pos()), "setRoot stores its argument into the root field",
			"setRoot no longer installs the new root: every insert and delete computes a new trie and then keeps the old one")
	}
}

func isGlobalLoad(v ssa.Value, name string) bool {
	ld, ok := v.(*ssa.UnOp)
	if !ok {
		return false
	}
	g, ok := ld.X.(*ssa.Global)
	return ok && g.Name() == name
}

func depAbsent(r *engine.Run) {
	const rule = "DEP-absent"
	// 1. delete at exhausted path on a branch
	if f := r.Fn(rule, pkgUtil, "MerklePatriciaTrie", "deleteAfterPathTraversal"); f != nil {
		arms := typeArms(f, f.Params[1])
		arm := arms["FullNode"]
		if arm == nil {
			r.Anchor(rule, fmt.Errorf("unresolved anchor: *FullNode arm of %s", fn(f)))
		} else {
			good := false
			for _, ret := range engine.Returns(f) {
				if !arm.blocks[ret.Block()] || len(ret.Results) != 3 || !isGlobalLoad(ret.Results[2], "ErrValueNotPresent") {
					continue
				}
				facts, ok := engine.FactsOn(f, ret.Block())
				if !ok {
					continue
				}
				for _, ft := range facts {
					if ft.Kind == "bool" && !ft.Truth {
						if c, ok := ft.A.(*ssa.Call); ok {
							if recv, ok := engine.IsMethodCall(c, "HasValue"); ok && isNamed(recv.Type(), pkgUtil, "FullNode") {
								good = true
							}
						}
					}
				}
			}
			r.Check(good, rule, fn(f)+"|branch without value", r.P.Pos(f.Pos()), "ErrValueNotPresent returned when the branch has no value",
				"deleting at a branch that holds no value never reads HasValue(): the absent path is reported as deleted (success) instead of not present")
		}
	}
	// 2. leaf arm of deleteAtNode
	if f := r.Fn(rule, pkgUtil, "MerklePatriciaTrie", "deleteAtNode"); f != nil {
		nodeParam := paramRole(f, "node")
		var pathParam ssa.Value
		for _, p := range f.Params {
			if p.Name() == "path" {
				pathParam = p
			}
		}
		if pathParam == nil { // renamed: the last Path-typed parameter
			for _, p := range f.Params {
				if nm, ok := p.Type().(*types.Named); ok && nm.Obj().Name() == "Path" {
					pathParam = p
				}
			}
		}
		arm := typeArms(f, nodeParam)["LeafNode"]
		good := false
		if arm != nil {
			eqs := bytesEqualOn(f, func(v ssa.Value) bool { return v == pathParam }, isFieldLoad("Path"))
			for _, ret := range engine.Returns(f) {
				if !arm.blocks[ret.Block()] || len(ret.Results) != 3 || !isGlobalLoad(ret.Results[2], "ErrValueNotPresent") {
					continue
				}
				for _, e := range eqs {
					if truthAt(f, ret.Block(), e, false) {
						good = true
					}
				}
			}
		}
		r.Check(good, rule, fn(f)+"|leaf path mismatch", r.P.Pos(f.Pos()), "ErrValueNotPresent returned when the leaf's path differs", "deleting under a leaf with a different path does not report ErrValueNotPresent")
	}
	// 2b. the leaf arm of delete-at-exhausted-path is reached only for the leaf that is the entry:
	// every call of deleteAfterPathTraversal is made either after the leaf's path compared equal to the
	// remaining path, or on paths where the node is not a leaf with path elements left
	if dap := r.Fn(rule, pkgUtil, "MerklePatriciaTrie", "deleteAfterPathTraversal"); dap != nil {
		for _, e := range r.P.RepoCG().In[dap] {
			c, ok := e.Site.(*ssa.Call)
			if !ok {
				continue
			}
			f := e.Caller
			nodeArg := c.Call.Args[1]
			paths, okp := engine.PathFacts(f, c.Block(), 4096)
			good := okp && len(paths) > 0
			detail := ""
			// candidate guards
			var eqCalls []*ssa.Call
			engine.Instrs(f, func(in ssa.Instruction) {
				if bc, ok := in.(*ssa.Call); ok && isBytesEq(bc) {
					a, b := stripCT(bc.Call.Args[0]), stripCT(bc.Call.Args[1])
					if isFieldLoad("Path")(a) || isFieldLoad("Path")(b) {
						eqCalls = append(eqCalls, bc)
					}
				}
			})
			var leafOK, lenZero, lenPos []string
			engine.Instrs(f, func(in ssa.Instruction) {
				if ta, ok := in.(*ssa.TypeAssert); ok && ta.CommaOk && ta.X == nodeArg {
					if nm := namedOf(ta.AssertedType); nm != nil && nm.Obj().Name() == "LeafNode" {
						for _, ref := range engine.Referrers(ta) {
							if ex, ok := ref.(*ssa.Extract); ok {
								if ex.Index == 1 {
									leafOK = append(leafOK, engine.ValKey(ex))
								} else {
									// len(leaf.Path) == 0 atoms
									engine.Instrs(f, func(i2 ssa.Instruction) {
										if ld, ok := i2.(*ssa.UnOp); ok {
											if fa, ok := ld.X.(*ssa.FieldAddr); ok && fa.X == ssa.Value(ex) && engine.FieldOf(fa).Name() == "Path" {
												lenZero = append(lenZero, "(c:0 == len("+engine.ValKey(ld)+"))", "(len("+engine.ValKey(ld)+") == c:0)")
												// len(path) > 0 / 0 < len(path) tested false
												lenPos = append(lenPos, "(c:0 < len("+engine.ValKey(ld)+"))")
											}
										}
									})
								}
							}
						}
					}
				}
			})
			for _, p := range paths {
				okPath := false
				for _, ec := range eqCalls {
					if v, had := p[engine.ValKey(ec)]; had && v {
						okPath = true
					}
				}
				for _, k := range leafOK {
					if v, had := p[k]; had && !v {
						okPath = true
					}
				}
				for _, k := range lenZero {
					if v, had := p[k]; had && v {
						okPath = true
					}
				}
				for _, k := range lenPos {
					if v, had := p[k]; had && !v {
						okPath = true
					}
				}
				if !okPath {
					good = false
					detail = "a path reaches the call without comparing the leaf's remaining path"
				}
			}
			r.CallSites++
			r.Check(good, rule, fn(f)+"|exhausted path at a leaf", r.P.Pos(c.Pos()), "delete-at-exhausted-path is reached only when the node is not a leaf with path elements left, or its path equals the remaining path",
				"the path to delete ends at a leaf whose own remaining path is never compared: deleting an absent shorter path removes a longer entry ("+detail+")")
		}
	}
	// 3. nil key
	if f := r.Fn(rule, pkgUtil, "MerklePatriciaTrie", "delete"); f != nil {
		good := false
		for _, ret := range engine.Returns(f) {
			if len(ret.Results) == 3 && isGlobalLoad(ret.Results[2], "ErrValueNotPresent") {
				atoms, ok := engine.AtomsOn(f, ret.Block())
				if ok {
					if v, had := atoms[engine.EqKey(f.Params[1], ssa.NewConst(nil, f.Params[1].Type()))]; had && v {
						good = true
					}
				}
			}
		}
		r.Check(good, rule, fn(f)+"|nil key", r.P.Pos(f.Pos()), "ErrValueNotPresent returned for an absent child / empty trie", "delete of a nil key (absent child or empty trie) does not report ErrValueNotPresent")
	}
}

// ---- DOM-ext-nonempty -------------------------------------------------------

func nonEmptyPath(r *engine.Run, f *ssa.Function, at ssa.Instruction, v ssa.Value, depth int) (bool, string) {
	if depth > 4 {
		return false, "too deep"
	}
	v = stripCT(v)
	// facts at the use
	if facts, ok := engine.FactsOn(f, at.Block()); ok {
		lk := "len(" + engine.ValKey(v) + ")"
		for _, ft := range facts {
			if ft.Kind == "eq" && !ft.Truth && (engine.ValKey(ft.A) == lk && isZero(ft.B) || engine.ValKey(ft.B) == lk && isZero(ft.A)) {
				return true, "under a dominating len != 0 test"
			}
			if ft.Kind == "lt" && ft.Truth && isZero(ft.A) && engine.ValKey(ft.B) == lk {
				return true, "under a dominating len > 0 test"
			}
			// bytes.Equal(v, w) true with w non-empty parameter etc. is not used
		}
	}
	switch x := v.(type) {
	case *ssa.Slice:
		if al, ok := x.X.(*ssa.Alloc); ok && x.Low == nil && x.High == nil {
			if pt, ok := al.Type().Underlying().(*types.Pointer); ok {
				if arr, ok := pt.Elem().Underlying().(*types.Array); ok && arr.Len() >= 1 {
					return true, "literal with at least one element"
				}
			}
		}
		if x.High == nil && x.Low != nil {
			if facts, ok := engine.FactsOn(f, at.Block()); ok {
				lx := "len(" + engine.ValKey(x.X) + ")"
				lo := engine.ValKey(x.Low)
				for _, ft := range facts {
					if ft.Kind == "eq" && !ft.Truth && (engine.ValKey(ft.A) == lx && engine.ValKey(ft.B) == lo || engine.ValKey(ft.B) == lx && engine.ValKey(ft.A) == lo) {
						return true, "suffix X[k:] under a dominating len(X) != k test"
					}
					if ft.Kind == "lt" && ft.Truth && engine.ValKey(ft.A) == lo && engine.ValKey(ft.B) == lx {
						return true, "suffix X[k:] under a dominating k < len(X) test"
					}
				}
			}
			return false, "suffix " + "X[k:] without a dominating comparison of len(X) with k"
		}
		if x.Low == nil && x.High == nil {
			return nonEmptyPath(r, f, at, x.X, depth+1)
		}
	case *ssa.Call:
		if b, ok := x.Call.Value.(*ssa.Builtin); ok && b.Name() == "append" {
			for _, a := range x.Call.Args {
				if ok, why := nonEmptyPath(r, f, at, a, depth+1); ok {
					return true, "append of a non-empty part (" + why + ")"
				}
			}
		}
		if staticCalleeIs(x, pkgUtil, "", "concat") {
			for _, a := range x.Call.Args {
				if ok, why := nonEmptyPath(r, f, at, a, depth+1); ok {
					return true, "concat of a non-empty part (" + why + ")"
				}
			}
		}
	case *ssa.Phi:
		for _, e := range x.Edges {
			if ok, _ := nonEmptyPath(r, f, at, e, depth+1); !ok {
				return false, "one phi edge not established non-empty"
			}
		}
		return true, "every incoming value non-empty"
	case *ssa.UnOp:
		if fa, ok := x.X.(*ssa.FieldAddr); ok && x.Op == token.MUL && isNamed(fa.X.Type(), pkgUtil, "ExtensionNode") && engine.FieldOf(fa).Name() == "Path" {
			return true, "path of an existing extension node (non-empty by this very rule)"
		}
	case *ssa.Parameter:
		g := r.P.RepoCG()
		idx := -1
		for i, p := range f.Params {
			if p == x {
				idx = i
			}
		}
		if idx < 0 || len(g.In[f]) == 0 {
			return false, "parameter of an entry point"
		}
		for _, e := range g.In[f] {
			c, ok := e.Site.(ssa.CallInstruction)
			if !ok || idx >= len(c.Common().Args) {
				return false, "unresolved call site"
			}
			if ok, why := nonEmptyPath(r, e.Caller, e.Site, c.Common().Args[idx], depth+1); !ok {
				return false, "call site " + r.P.Pos(e.Site.Pos()) + ": " + why
			}
		}
		return true, "non-empty at every call site"
	}
	return false, "no accepted form establishes a non-empty path"
}

func domExtNonEmpty(r *engine.Run, rule string) {
	n := 0
	for _, f := range mptFuncs(r) {
		o := ord{}
		engine.Instrs(f, func(in ssa.Instruction) {
			var path ssa.Value
			what := ""
			switch x := in.(type) {
			case *ssa.Call:
				switch {
				case staticCalleeIs(x, pkgUtil, "", "NewExtensionNode"):
					if f.Name() == "insertExtension" {
						return // its path parameter is checked at insertExtension's call sites
					}
					path, what = x.Call.Args[0], "NewExtensionNode"
				case staticCalleeIs(x, pkgUtil, "MerklePatriciaTrie", "insertExtension"):
					path, what = x.Call.Args[2], "insertExtension"
				}
			case *ssa.Store:
				if fa, ok := x.Addr.(*ssa.FieldAddr); ok && isNamed(fa.X.Type(), pkgUtil, "ExtensionNode") && engine.FieldOf(fa).Name() == "Path" {
					path, what = x.Val, "store ExtensionNode.Path"
				}
			}
			if path == nil {
				return
			}
			n++
			good, why := nonEmptyPath(r, f, in, path, 0)
			r.Check(good, rule, o.next(fn(f)+"|"+what), r.P.Pos(in.Pos()), "path non-empty: "+why,
				"an extension node may be created with an empty path ("+why+"): lookups match an extension by a non-empty common prefix, so its whole subtree becomes unreachable")
		})
	}
	if n < 6 {
		r.Anchor(rule, fmt.Errorf("unresolved anchor: only %d extension constructions found", n))
	}
}

// sizeGuardIn: every return of g with a nil error is reached only where
// len(p) > max tested false.
func sizeGuardIn(g *ssa.Function, p ssa.Value, maxObj *types.Const) bool {
	lenKey := "len(" + engine.ValKey(p) + ")"
	any := false
	for _, ret := range engine.Returns(g) {
		if len(ret.Results) == 0 {
			return false
		}
		ev := resultValue(ret, len(ret.Results)-1)
		if !nilConst(ev) {
			continue
		}
		any = true
		facts, ok := engine.FactsOn(g, ret.Block())
		if !ok {
			return false
		}
		good := false
		for _, ft := range facts {
			if ft.Kind == "lt" && !ft.Truth && engine.ValKey(ft.B) == lenKey {
				if cv := constVal(ft.A); cv != nil && constant.Compare(cv, token.EQL, maxObj.Val()) {
					good = true
				}
			}
		}
		if !good {
			return false
		}
	}
	return any
}

// hasMutationPrimitive: g (a helper of Insert's group) takes the trie's write lock
// or calls a walk / setRoot, directly or through another helper of the group.
func hasMutationPrimitive(group []*ssa.Function, g *ssa.Function, depth int) bool {
	if depth > 3 {
		return false
	}
	found := false
	engine.Instrs(g, func(in ssa.Instruction) {
		c, ok := in.(*ssa.Call)
		if !ok {
			return
		}
		sc := c.Call.StaticCallee()
		if sc == nil {
			return
		}
		switch {
		case sc.Name() == "Lock" && len(c.Call.Args) > 0 && engine.MutexKey(c.Call.Args[0]) == "MerklePatriciaTrie.mutex":
			found = true
		case recvNamed(sc) == "MerklePatriciaTrie" && (sc.Name() == "insert" || sc.Name() == "insertLeaf" || sc.Name() == "setRoot"):
			found = true
		case sc != g && inGroup(group, sc) && hasMutationPrimitive(group, sc, depth+1):
			found = true
		}
	})
	return found
}
