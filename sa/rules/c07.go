package rules

import (
	"fmt"
	"go/token"
	"go/types"
	"strings"

	"golang.org/x/tools/go/ssa"

	"verif/sa/engine"
)

// Provenance labels of the state-cache layers.
const (
	labCaller engine.Label = 1 << (20 + iota) // handed in by a caller (parameter)
	labTxn                                    // contents of TransactionCache.cache
	labBlock                                  // contents of BlockCache.cache
	labState                                  // contents of StateCache.cache / per-key maps
)

func labNames(l engine.Label) string {
	var s []string
	if l&labCaller != 0 {
		s = append(s, "caller-owned")
	}
	if l&labTxn != 0 {
		s = append(s, "txn-cache-owned")
	}
	if l&labBlock != 0 {
		s = append(s, "block-cache-owned")
	}
	if l&labState != 0 {
		s = append(s, "state-cache-owned")
	}
	if len(s) == 0 {
		return "clean"
	}
	return strings.Join(s, "+")
}

var cacheTypes = map[string]engine.Label{
	"TransactionCache": labTxn,
	"BlockCache":       labBlock,
	"StateCache":       labState,
	"QueryBlockCache":  labState,
}

func isLRU(t types.Type) bool { return isNamed(t, "hashicorp/golang-lru", "Cache") }

// cacheFlowSpec is the provenance specification shared by C06/C07.
func cacheFlowSpec() engine.FlowSpec {
	return engine.FlowSpec{
		Irrelevant: engine.NoRefs,
		Param: func(p *ssa.Parameter, i int) engine.Label {
			if isNamed(p.Type(), pkgSC, "Value") || isNamed(p.Type(), pkgSC, "valueNode") {
				return labCaller
			}
			if _, ok := p.Type().Underlying().(*types.Interface); ok && p.Name() != "main" {
				// interface{} parameters (CopyFrom(v interface{}))
				return labCaller
			}
			return 0
		},
		HeapLoad: func(ld *ssa.UnOp, base engine.Label) (engine.Label, bool) {
			fld := engine.FieldOf(ld.X)
			if fld == nil {
				return 0, false
			}
			if fld.Name() == "cache" {
				if n := namedOf(ld.X.(*ssa.FieldAddr).X.Type()); n != nil {
					if l, ok := cacheTypes[n.Obj().Name()]; ok && strings.HasSuffix(n.Obj().Pkg().Path(), pkgSC) {
						return l, true
					}
				}
			}
			// other fields of the cache structs (main, hashCache, counters) carry no values
			if n := namedOf(ld.X.(*ssa.FieldAddr).X.Type()); n != nil {
				if _, ok := cacheTypes[n.Obj().Name()]; ok {
					return 0, true
				}
			}
			return 0, false
		},
		Call: func(c ssa.CallInstruction, arg func(ssa.Value) engine.Label) (engine.Label, bool) {
			cc := c.Common()
			if recv, ok := engine.IsMethodCall(c, "Clone"); ok {
				_ = recv
				return 0, true // the result of Clone() is an independent copy (CLONE-deep checks the implementations)
			}
			if extCalleeIs(c, "hashicorp/golang-lru", "", "New") {
				return 0, true
			}
			if extCalleeIs(c, "hashicorp/golang-lru", "Cache", "Get") || extCalleeIs(c, "hashicorp/golang-lru", "Cache", "Peek") {
				return arg(cc.Args[0]) | labState, true
			}
			// delegation to the next layer's Get: that Get is itself checked
			if _, ok := engine.IsMethodCall(c, "Get"); ok {
				var rt types.Type
				if cc.IsInvoke() {
					rt = cc.Value.Type()
				} else {
					rt = cc.Args[0].Type()
				}
				if isNamed(rt, pkgSC, "BlockCacher") || isNamed(rt, pkgSC, "StateCache") || isNamed(rt, pkgSC, "BlockCache") ||
					isNamed(rt, pkgSC, "QueryBlockCache") || isNamed(rt, pkgSC, "TransactionCache") {
					return 0, true
				}
			}
			// a helper method of the same cache that carries part of a lookup (the ancestor walk of
			// StateCache.Get): its own returns are judged where it is defined
			if h := cc.StaticCallee(); h != nil && !cc.IsInvoke() && h.Pkg != nil && strings.HasSuffix(h.Pkg.Pkg.Path(), pkgSC) && h.Object() != nil && !h.Object().Exported() {
				if _, isCache := cacheTypes[recvNamed(h)]; isCache && h.Signature.Results().Len() == 2 && isNamed(h.Signature.Results().At(0).Type(), pkgSC, "Value") {
					return 0, true
				}
			}
			// a package-local constructor of an entry (newLiveNode(e)): what it returns is what its
			// body makes of its parameters - clean when every returned value is (a Clone() result),
			// otherwise as owned as the arguments
			if h := cc.StaticCallee(); h != nil && !cc.IsInvoke() && h.Pkg != nil && strings.HasSuffix(h.Pkg.Pkg.Path(), pkgSC) && len(h.Blocks) > 0 && h.Signature.Recv() == nil && !cacheSummaryBusy[h] {
				if sig := h.Signature; sig.Results().Len() == 1 && isNamed(sig.Results().At(0).Type(), pkgSC, "valueNode") {
					cacheSummaryBusy[h] = true
					fl := engine.RunFlow(h, cacheFlowSpec())
					delete(cacheSummaryBusy, h)
					var out engine.Label
					for _, ret := range engine.Returns(h) {
						out |= fl.Of(ret.Results[0])
					}
					if out&labCaller != 0 {
						out &^= labCaller
						for _, a := range cc.Args {
							out |= arg(a)
						}
					}
					return out, true
				}
			}
			return 0, false
		},
	}
}

var cacheSummaryBusy = map[*ssa.Function]bool{}

func init() {
	register(&Check{ID: "C07", Pkgs: []string{pkgSC, pkgUtil}, Run: runC07})
}

func runC07(r *engine.Run) {
	r.Rule("CLONE-boundary", "every Value that enters a cache map from a caller, leaves one through a return of a cache method, or moves between maps of different layers (txn -> block -> state) has the result of a Clone() call (or nil / a fresh literal) as its only provenance on every path (forward provenance dataflow over go/ssa with field-sensitive local cells and nil-refinement)")
	r.Rule("CLONE-linear", "one Clone() result has one owner: the copy produced by a single Clone() call is not both stored in a cache map and handed out (or stored in two maps) on the same execution; every boundary crossing needs a Clone() call of its own")
	r.Rule("WHO-layers", "BlockCacher.setValue is called only from TransactionCache.Commit; the state cache's key->versions map is installed into only by StateCache.commit (and helpers that exist only for it) and removed from only by Remove - never by a lookup -, the hash links are written only in commit/commitRound; no call path leads from TransactionCache.{Set,Remove,Get} to setValue or from BlockCache.{Set,remove,Get,setValue} to StateCache.commit (repo call graph, interface calls by class hierarchy)")
	r.Rule("CLONE-deep", "for every repo type implementing statecache.Value, Clone() does not return the receiver or anything sharing a reference with it: accepted forms are the codec copy (CreateNode over the receiver's Encode()) or a type without reference fields; CopyFrom stores only what it obtained through Clone()")
	r.Rule("DOM-writekept", "see C06: a write or removal handed to a cache layer (TransactionCache.Set/Remove, BlockCache.Set/setValue/remove) is recorded in that layer's pending map on every feasible path to every return (a store under the key parameter), and these methods never delete from the pending map: a dropped tombstone lets an ancestor's value show through (commit visibility: what a transaction commits is what the block, and after the block's commit its descendants, return)")
	r.Rule("WHO-readonly", "see C06: lookups never store into a pending map - a pending map is the write set that Commit publishes, so a memoised read would be committed as a write and overwrite what another transaction committed in between (writes are private until commit, and only writes are committed)")
	r.Rule("DOM-commit", "StateCache.commit adds the block's entries to the per-key versions maps and publishes the block's link (commitRound stores it); it returns before doing so only where the lookup of the block's own link hit (already committed)")
	r.Rule("KEY-same", "see C06: entries are stored under the key and block hash they belong to, tombstone arms store deleted=true, a transaction's commit forwards its own pairs")
	r.Rule("FRESH-write", "see C06: in TransactionCache.Set, BlockCache.Set and BlockCache.setValue every entry stored into the pending map carries in its data field the result of a Clone() call (provenance dataflow over the local entry), never the previous entry's object refreshed in place")
	r.Rule("DOM-txreset", "see C06: Commit hands the pending writes to the block cache and then empties the transaction's pending map: every return of TransactionCache.Commit is dominated by a store of a new map into the field (or clear / delete of every iterated key) that comes after the hand-over loop. Entries left behind keep answering as own uncommitted writes and are pushed again by the next Commit")
	r.Rule("DOM-commitall", "see C06: inside StateCache.commit's loop over the block's pending map, the next iteration is not reachable without adding the entry to the key's versions map: no write or tombstone of the block is skipped")
	r.Rule("RET-pair", "see C06: the two results of a lookup agree (no miss is turned into a remembered answer)")
	r.Rule("LOCK-commit", "see C08: every write into the key->versions map, a per-key versions map or the block-link map that is reachable from StateCache.commit happens with StateCache.lock held (two committers must not create a key's versions map side by side)")
	r.Rule("WHO-versions", "a per-key versions map is only read or added to (Get, Peek, Add, ContainsOrAdd, PeekOrAdd, Contains, Len, Keys); Purge, Remove and the like are never called on one: versions leave by capacity eviction only, so the lock-free ancestor walk's memo can never become the newest entry of a map that was just emptied")
	r.Rule("ORDER-commitclear", "in StateCache.commit no versions-map Add is reachable after the store that replaces the block's pending map: the pending writes are dropped only after all of them were published")
	r.Rule("WHO-globalcache", "package statecache keeps no cache instance (StateCache, BlockCache, TransactionCache, QueryBlockCache) in a package-level variable: caches are per block / per transaction objects")
	r.Rule("DEP-walk", "see C06: the ancestor walk of StateCache.Get uses only the queried hash and stored links, and memoises exactly the entry it found (all fields, the tombstone flag included) under the queried hash")
	r.Rule("DOM-ownfirst", "see C06: a layer delegates a lookup to the layer below only where its own map has no entry for the key - an own tombstone is an answer (a transaction that removed a key must not see the block's or a sibling's value for it)")
	r.Rule("AGREE-fields", "see C14: per node type the codec's writer and reader agree on separators, field order and which field may contain the separator byte (trie nodes are copied through the cache by encode/decode: a leaf whose value contains ':' must come back whole)")
	r.Rule("AGREE-origin", "see C14: the origin tracker's Read restores exactly what Write wrote, field by field in the same order and byte order (trie nodes are copied through the cache by encode/decode: a copy that loses the version is not the value that was handed in)")
	r.NotDec = append(r.NotDec, "after commit the committed values are what descendant lookups return (value-level; see C06)")
	cloneBoundary(r, "C07")
	cloneLinear(r)
	whoLayers(r)
	cloneDeep(r)
	r.Rule("DOM-sethash", "BlockCache.SetBlockHash stores its argument into blockHash on every path to a return: the commit files the block's entries and its link under that hash, and descendants name it as their previous block - a setter that keeps an earlier hash makes the committed writes of the block unreachable from its descendants")
	domSetHash(r, "DOM-sethash")
	domWriteKept(r, "DOM-writekept")
	whoReadOnly(r, "WHO-readonly")
	domCommitReached(r, "DOM-commit")
	keySame(r)
	freshWrite(r, "FRESH-write")
	domCommitAll(r, "DOM-commitall")
	domTxReset(r, "DOM-txreset")
	retPair(r, "RET-pair")
	lockCommitOnly(r, "LOCK-commit")
	whoVersions(r, "WHO-versions")
	orderCommitClear(r, "ORDER-commitclear")
	whoGlobalCache(r, "WHO-globalcache")
	depWalk(r)
	agreeOrigin(r)
	domOwnFirst(r)
	agreeFields(r)
}

// cloneBoundary checks every sink in package statecache.
func cloneBoundary(r *engine.Run, prop string) {
	const rule = "CLONE-boundary"
	spec := cacheFlowSpec()
	n := 0
	for _, f := range funcsOfPkg(r, pkgSC) {
		if len(f.Blocks) == 0 {
			continue
		}
		recv := recvNamed(f)
		if _, isCache := cacheTypes[recv]; !isCache {
			continue
		}
		r.Touch(f)
		fl := engine.RunFlow(f, spec)
		o := ord{}
		engine.Instrs(f, func(in ssa.Instruction) {
			switch x := in.(type) {
			case *ssa.MapUpdate:
				mt, ok := x.Map.Type().Underlying().(*types.Map)
				if !ok || !isNamed(mt.Elem(), pkgSC, "valueNode") {
					return
				}
				if localMap(x.Map) {
					// a working copy inside the function (a snapshot that is iterated
					// afterwards) is no cache boundary: what is read back out of it keeps
					// the labels of what went in and is judged where it reaches a cache
					return
				}
				layer := fl.Of(x.Map)
				got := fl.Of(x.Value)
				c := o.next(fn(f) + "|map-store")
				n++
				r.Check(got&^layer == 0, rule, c, r.P.Pos(x.Pos()),
					"stored value is "+labNames(got)+" (map layer "+labNames(layer)+")",
					"value stored into the cache map is "+labNames(got&^layer)+" without passing Clone()")
			case *ssa.Call:
				if (extCalleeIs(x, "hashicorp/golang-lru", "Cache", "Add") || extCalleeIs(x, "hashicorp/golang-lru", "Cache", "ContainsOrAdd") || extCalleeIs(x, "hashicorp/golang-lru", "Cache", "PeekOrAdd")) && len(x.Call.Args) == 3 {
					v := through(x.Call.Args[2])
					if !isNamed(v.Type(), pkgSC, "valueNode") {
						return
					}
					got := fl.Of(x.Call.Args[2])
					c := o.next(fn(f) + "|lru-add")
					n++
					r.CallSites++
					r.Check(got&^labState == 0, rule, c, r.P.Pos(x.Pos()),
						"value added to the per-key map is "+labNames(got),
						"value added to the state cache's per-key map is "+labNames(got&^labState)+" without passing Clone()")
				}
			case *ssa.Return:
				for i, res := range x.Results {
					if !isNamed(res.Type(), pkgSC, "Value") {
						continue
					}
					if f.Name() == "Clone" {
						continue
					}
					got := fl.Of(res)
					c := o.next(fmt.Sprintf("%s|return#%d", fn(f), i))
					n++
					r.Check(got == 0, rule, c, r.P.Pos(x.Pos()),
						"returned value is clean (Clone result, nil or delegated lookup)",
						"cache method hands out a value that is "+labNames(got)+" without passing Clone()")
				}
			}
		})
	}
	r.Min(rule, 12)
}

func whoLayers(r *engine.Run) {
	const rule = "WHO-layers"
	g := r.P.RepoCG()
	setValue := r.Fn(rule, pkgSC, "BlockCache", "setValue")
	tcCommit := r.Fn(rule, pkgSC, "TransactionCache", "Commit")
	scCommit := r.Fn(rule, pkgSC, "StateCache", "commit")
	commitRound, _ := r.P.Func(pkgSC, "StateCache", "commitRound") // optional helper: the link may also be written by commit itself
	if setValue == nil || tcCommit == nil || scCommit == nil {
		return
	}
	// 1. who calls setValue (any implementation)
	for _, f := range g.Funcs {
		engine.Instrs(f, func(in ssa.Instruction) {
			c, ok := in.(ssa.CallInstruction)
			if !ok {
				return
			}
			if _, ok := engine.IsMethodCall(c, "setValue"); !ok {
				return
			}
			r.CallSites++
			r.Check(engine.TopFunc(f) == tcCommit, rule, "call:setValue<-"+fn(f), r.P.Pos(in.Pos()),
				"setValue called from TransactionCache.Commit", "BlockCacher.setValue is called outside TransactionCache.Commit: uncommitted transaction data reaches the block cache")
		})
	}
	// 2. writers of StateCache.cache / hashCache
	// installs into the key->versions map belong to commit (and the helpers that exist only for
	// it); removals to Remove. A lookup never installs: a lock-free reader that re-registers the
	// map it fetched at its first step resurrects a map that Remove (or an eviction) has
	// dropped in the meantime, over the fresh one a later commit created - that commit's write is lost
	commitGroup := opGroup(r, scCommit)
	var removeGroup []*ssa.Function
	if rm, err := r.P.Func(pkgSC, "StateCache", "Remove"); err == nil {
		removeGroup = opGroup(r, rm)
	}
	for _, f := range g.Funcs {
		o := ord{}
		engine.Instrs(f, func(in ssa.Instruction) {
			c, ok := in.(*ssa.Call)
			if !ok {
				return
			}
			for _, m := range []string{"Add", "Remove", "Purge", "ContainsOrAdd", "PeekOrAdd", "RemoveOldest", "Resize"} {
				if !extCalleeIs(c, "hashicorp/golang-lru", "Cache", m) {
					continue
				}
				fld := fieldLoadOf(c.Call.Args[0])
				if fld == nil {
					continue
				}
				top := engine.TopFunc(f)
				switch fld.Name() {
				case "cache":
					r.CallSites++
					okWriter := false
					switch m {
					case "Add", "ContainsOrAdd", "PeekOrAdd":
						okWriter = inGroup(commitGroup, top)
					default:
						okWriter = inGroup(removeGroup, top)
					}
					r.Check(okWriter, rule, o.next("write:StateCache.cache<-"+fn(f)), r.P.Pos(in.Pos()),
						"key->versions map: "+m+" in "+top.Name(), "the state cache's key->versions map is written ("+m+") outside the commit path / Remove: an install from a lookup re-registers a map that was dropped in the meantime over the one a later commit created, and that commit's write is lost to every later lookup")
				case "hashCache":
					r.CallSites++
					r.Check(top == commitRound && commitRound != nil || top == scCommit, rule, o.next("write:StateCache.hashCache<-"+fn(f)), r.P.Pos(in.Pos()),
						"block link written by the commit path", "the block-link map is written outside StateCache.commit/commitRound")
				}
			}
		})
	}
	var crCallers []*ssa.Function
	if commitRound != nil {
		crCallers = g.Callers(commitRound)
	}
	for _, c := range crCallers {
		r.Check(c == scCommit, rule, "call:commitRound<-"+fn(c), r.P.Pos(c.Pos()), "commitRound called from commit", "commitRound is called outside StateCache.commit")
	}
	// 3. no downward leak outside Commit
	type rootSet struct {
		recv    string
		methods []string
		target  *ssa.Function
		what    string
	}
	for _, rs := range []rootSet{
		{"TransactionCache", []string{"Set", "Remove", "Get"}, setValue, "a transaction-cache read/write reaches BlockCache.setValue"},
		{"BlockCache", []string{"Set", "remove", "Get", "setValue"}, scCommit, "a block-cache read/write reaches StateCache.commit"},
	} {
		for _, m := range rs.methods {
			root := r.Fn(rule, pkgSC, rs.recv, m)
			if root == nil {
				continue
			}
			reach := g.Reach(root)
			for f := range reach {
				r.Touch(f)
			}
			var w []string
			if reach[rs.target] {
				w = g.PathTo(root, rs.target)
			}
			r.Check(!reach[rs.target], rule, "noreach:"+fn(root)+"->"+fn(rs.target), r.P.Pos(root.Pos()),
				fmt.Sprintf("%d functions reachable, target not among them", len(reach)), rs.what, w...)
		}
	}
	r.Min(rule, 10)
}

func cloneDeep(r *engine.Run) {
	const rule = "CLONE-deep"
	valueT, err := r.P.Type(pkgSC, "Value")
	if !r.Anchor(rule, err) {
		return
	}
	iface := valueT.Underlying().(*types.Interface)
	n := 0
	for _, pk := range r.P.Pkgs {
		if strings.HasSuffix(pk.PkgPath, "/mocks") {
			continue
		}
		sc := pk.Types.Scope()
		for _, name := range sc.Names() {
			tn, ok := sc.Lookup(name).(*types.TypeName)
			if !ok || tn.IsAlias() {
				continue
			}
			if _, isI := tn.Type().Underlying().(*types.Interface); isI {
				continue
			}
			for _, T := range []types.Type{tn.Type(), types.NewPointer(tn.Type())} {
				if !types.Implements(T, iface) {
					continue
				}
				sel := r.P.SSA.MethodSets.MethodSet(T).Lookup(tn.Pkg(), "Clone")
				if sel == nil || len(sel.Index()) != 1 {
					break // promoted from an embedded type: that type is checked itself
				}
				f := r.P.SSA.MethodValue(sel)
				if f == nil || f.Synthetic != "" || len(f.Blocks) == 0 {
					continue
				}
				n++
				r.Touch(f)
				checkCloneImpl(r, rule, tn, f)
				// CopyFrom
				if cs := r.P.SSA.MethodSets.MethodSet(T).Lookup(tn.Pkg(), "CopyFrom"); cs != nil && len(cs.Index()) == 1 {
					if cf := r.P.SSA.MethodValue(cs); cf != nil && cf.Synthetic == "" && len(cf.Blocks) > 0 {
						r.Touch(cf)
						checkCopyFrom(r, rule, cf)
					}
				}
				break
			}
		}
	}
	r.Min(rule, 6)
}

func checkCloneImpl(r *engine.Run, rule string, tn *types.TypeName, f *ssa.Function) {
	elem := tn.Type()
	construct := fn(f)
	if engine.NoRefs(elem) {
		r.OK(rule, construct, r.P.Pos(f.Pos()), "type has no reference-typed field: a copy (or the receiver itself) shares nothing mutable")
		return
	}
	// receiver labelled; CreateNode(reader over Encode()) produces a fresh object
	recvLab := engine.ParamLabel(0)
	spec := engine.FlowSpec{
		Irrelevant: engine.NoRefs,
		Param:      func(p *ssa.Parameter, i int) engine.Label { return engine.ParamLabel(i) },
		Call: func(c ssa.CallInstruction, arg func(ssa.Value) engine.Label) (engine.Label, bool) {
			if staticCalleeIs(c, pkgUtil, "", "CreateNode") {
				return 0, true // decodes from bytes into newly allocated objects (C14/C15 check the decoder)
			}
			if _, ok := engine.IsMethodCall(c, "Encode"); ok {
				return 0, true // a new byte buffer
			}
			return 0, false
		},
	}
	fl := engine.RunFlow(f, spec)
	usesCodec := false
	engine.Instrs(f, func(in ssa.Instruction) {
		if c, ok := in.(ssa.CallInstruction); ok && staticCalleeIs(c, pkgUtil, "", "CreateNode") {
			usesCodec = true
		}
	})
	ok := true
	for _, ret := range engine.Returns(f) {
		for _, res := range ret.Results {
			if fl.Of(res)&recvLab != 0 {
				ok = false
				r.Fail(rule, construct, r.P.Pos(ret.Pos()), "Clone() returns a value that shares references with the receiver (not a deep copy): mutating a handed-out value changes the cached one")
			}
		}
	}
	if ok {
		d := "Clone() result has no provenance in the receiver"
		if usesCodec {
			d = "codec copy: CreateNode over the receiver's Encode()"
		}
		r.OK(rule, construct, r.P.Pos(f.Pos()), d)
	}
}

func checkCopyFrom(r *engine.Run, rule string, f *ssa.Function) {
	spec := engine.FlowSpec{
		Irrelevant: engine.NoRefs,
		Param:      func(p *ssa.Parameter, i int) engine.Label { return engine.ParamLabel(i) },
		Call: func(c ssa.CallInstruction, arg func(ssa.Value) engine.Label) (engine.Label, bool) {
			if _, ok := engine.IsMethodCall(c, "Clone"); ok {
				return 0, true
			}
			return 0, false
		},
	}
	fl := engine.RunFlow(f, spec)
	src := engine.ParamLabel(1)
	ok := true
	stores := 0
	engine.Instrs(f, func(in ssa.Instruction) {
		st, isStore := in.(*ssa.Store)
		if !isStore {
			return
		}
		if _, local := engine.AddrRoot(st.Addr).(*ssa.Alloc); local {
			return
		}
		stores++
		if fl.Of(st.Val)&src != 0 {
			ok = false
			r.Fail(rule, fn(f), r.P.Pos(st.Pos()), "CopyFrom stores data taken from its argument without Clone(): receiver and source share references")
		}
	})
	if ok {
		r.OK(rule, fn(f), r.P.Pos(f.Pos()), fmt.Sprintf("%d stores into the receiver, none with provenance in the argument except through Clone()", stores))
	}
}

// cloneLinear: a single Clone() result must not reach two owners.
func cloneLinear(r *engine.Run) {
	const rule = "CLONE-linear"
	n := 0
	for _, f := range funcsOfPkg(r, pkgSC) {
		if len(f.Blocks) == 0 {
			continue
		}
		if _, isCache := cacheTypes[recvNamed(f)]; !isCache {
			continue
		}
		// one label bit per Clone() call site
		var sites []ssa.Instruction
		engine.Instrs(f, func(in ssa.Instruction) {
			if c, ok := in.(ssa.CallInstruction); ok {
				if _, ok := engine.IsMethodCall(c, "Clone"); ok {
					sites = append(sites, in)
				}
			}
		})
		if len(sites) == 0 || len(sites) > 40 {
			continue
		}
		bit := map[ssa.Instruction]engine.Label{}
		for i, sIn := range sites {
			bit[sIn] = engine.Label(1) << uint(20+i)
		}
		fl := engine.RunFlow(f, engine.FlowSpec{
			Irrelevant: engine.NoRefs,
			Param:      func(p *ssa.Parameter, i int) engine.Label { return 0 },
			HeapLoad:   func(ld *ssa.UnOp, base engine.Label) (engine.Label, bool) { return 0, true },
			Call: func(c ssa.CallInstruction, arg func(ssa.Value) engine.Label) (engine.Label, bool) {
				if b, ok := bit[c.(ssa.Instruction)]; ok {
					return b, true
				}
				return 0, true
			},
		})
		type sink struct {
			in   ssa.Instruction
			lab  engine.Label
			what string
		}
		var sinks []sink
		engine.Instrs(f, func(in ssa.Instruction) {
			switch x := in.(type) {
			case *ssa.MapUpdate:
				if mt, ok := x.Map.Type().Underlying().(*types.Map); ok && isNamed(mt.Elem(), pkgSC, "valueNode") {
					sinks = append(sinks, sink{in, fl.Of(x.Value), "stored in a cache map"})
				}
			case *ssa.Call:
				if (extCalleeIs(x, "hashicorp/golang-lru", "Cache", "Add") || extCalleeIs(x, "hashicorp/golang-lru", "Cache", "ContainsOrAdd") || extCalleeIs(x, "hashicorp/golang-lru", "Cache", "PeekOrAdd")) && len(x.Call.Args) == 3 {
					sinks = append(sinks, sink{in, fl.Of(x.Call.Args[2]), "added to a per-key map"})
				}
			case *ssa.Return:
				for _, res := range x.Results {
					if isNamed(res.Type(), pkgSC, "Value") {
						sinks = append(sinks, sink{in, fl.Of(res), "handed out to the caller"})
					}
				}
			}
		})
		for _, sIn := range sites {
			n++
			b := bit[sIn]
			var owners []sink
			for _, sk := range sinks {
				if sk.lab&b != 0 {
					owners = append(owners, sk)
				}
			}
			shared := ""
			for i := 0; i < len(owners); i++ {
				for j := i + 1; j < len(owners); j++ {
					if owners[i].in != owners[j].in && (engine.ReachableAfter(owners[i].in, owners[j].in) || engine.ReachableAfter(owners[j].in, owners[i].in)) {
						shared = owners[i].what + " at " + r.P.Pos(owners[i].in.Pos()) + " and " + owners[j].what + " at " + r.P.Pos(owners[j].in.Pos())
					}
				}
			}
			c := fmt.Sprintf("%s|Clone@%s", fn(f), strings.TrimPrefix(r.P.Pos(sIn.Pos()), "core/statecache/"))
			c = fn(f) + "|Clone#" + fmt.Sprint(indexOf(sites, sIn)+1)
			r.Check(shared == "", rule, c, r.P.Pos(sIn.Pos()), fmt.Sprintf("copy reaches %d owner(s)", len(owners)),
				"one Clone() result is "+shared+": the cache and the caller (or two cache layers) share one mutable object, so mutating the handed-out value changes what later lookups return")
		}
	}
	r.Min(rule, 6)
}

func indexOf(xs []ssa.Instruction, x ssa.Instruction) int {
	for i, v := range xs {
		if v == x {
			return i
		}
	}
	return -1
}

// domTxReset: Commit hands the transaction's pending writes over to the block
// cache; afterwards the transaction cache holds no own uncommitted writes. If
// the entries stayed, a later lookup through the same transaction cache would
// still answer from them although another transaction of the block has since
// overwritten or removed the key, and the next Commit would push the stale
// entries into the block again.
//
// Rule: every return of (*TransactionCache).Commit is dominated by an emptying
// of the pending map that comes after the hand-over loop: a store of a newly
// made map into the field, clear(field), or a delete of the iterated key in
// every iteration of the hand-over loop.
func domTxReset(r *engine.Run, rule string) {
	f := r.Fn(rule, pkgSC, "TransactionCache", "Commit")
	if f == nil {
		return
	}
	cons := fn(f) + "|pending map emptied"
	isCacheField := func(v ssa.Value) bool {
		fa, ok := v.(*ssa.FieldAddr)
		if !ok || len(f.Params) == 0 || fa.X != ssa.Value(f.Params[0]) {
			return false
		}
		return fieldName(fa) == "TransactionCache.cache"
	}
	loadsCache := func(v ssa.Value) bool {
		ld, ok := v.(*ssa.UnOp)
		return ok && ld.Op == token.MUL && isCacheField(ld.X)
	}
	var handover *ssa.BasicBlock
	var resets []ssa.Instruction
	engine.Instrs(f, func(in ssa.Instruction) {
		switch x := in.(type) {
		case *ssa.Store:
			if _, ok := x.Val.(*ssa.MakeMap); ok && isCacheField(x.Addr) && !inCycle(x.Block()) {
				resets = append(resets, x)
			}
		case *ssa.Call:
			if b, ok := x.Common().Value.(*ssa.Builtin); ok && len(x.Common().Args) > 0 && loadsCache(x.Common().Args[0]) {
				if b.Name() == "clear" && !inCycle(x.Block()) {
					resets = append(resets, x)
				}
				if b.Name() == "delete" && inCycle(x.Block()) {
					if head := loopHeadOf(x.Block()); head != nil && (head == x.Block() || !loopBypass(head, x.Block())) {
						resets = append(resets, x)
					}
				}
			}
			if x.Common().IsInvoke() && x.Common().Method.Name() == "setValue" {
				handover = x.Block()
			}
		}
	})
	if handover == nil {
		r.Anchor(rule, fmt.Errorf("unresolved anchor: the hand-over call (setValue on the block cache) in %s", fn(f)))
		return
	}
	ok := len(resets) > 0
	pos := r.P.Pos(f.Pos())
	for _, b := range f.Blocks {
		ret, isRet := b.Instrs[len(b.Instrs)-1].(*ssa.Return)
		if !isRet || b == f.Recover {
			continue
		}
		dom := false
		for _, rs := range resets {
			eff := rs.Block()
			if _, isCall := rs.(*ssa.Call); isCall && inCycle(eff) {
				// delete of the iterated key in every iteration: the loop empties the map
				eff = loopHeadOf(eff)
			}
			if eff != nil && eff.Dominates(b) {
				dom = true
			}
		}
		if !dom {
			ok = false
			if ret.Pos().IsValid() {
				pos = r.P.Pos(ret.Pos())
			}
		}
	}
	// the emptying may not precede the hand-over
	for _, rs := range resets {
		if _, isDel := rs.(*ssa.Call); isDel && inCycle(rs.Block()) {
			continue
		}
		if rs.Block() != handover && engine.Reachable(rs.Block(), handover) {
			ok = false
			pos = r.P.Pos(rs.Pos())
		}
	}
	r.Check(ok, rule, cons, pos, "every return of Commit follows the hand-over loop and an emptying of the transaction's pending map",
		"Commit can return with the committed entries still in the transaction's pending map: they keep answering lookups as 'own uncommitted writes' after another transaction of the block overwrote or removed the key, and the next Commit of this transaction cache pushes the stale entries over the newer ones")
}

// localMap: the map was made in this function and is never stored anywhere
// (no field, no global, not returned, not handed to a call).
func localMap(m ssa.Value) bool {
	mk, ok := m.(*ssa.MakeMap)
	if !ok {
		return false
	}
	for _, ref := range engine.Referrers(mk) {
		switch u := ref.(type) {
		case *ssa.MapUpdate:
			if u.Map != ssa.Value(mk) {
				return false
			}
		case *ssa.Lookup, *ssa.Range, *ssa.DebugRef:
		case *ssa.Call:
			if b, ok := u.Call.Value.(*ssa.Builtin); !ok || (b.Name() != "len" && b.Name() != "delete") {
				return false
			}
		default:
			return false
		}
	}
	return true
}
