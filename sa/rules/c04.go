package rules

import (
	"fmt"

	"golang.org/x/tools/go/ssa"

	"verif/sa/engine"
)

func init() {
	register(&Check{ID: "C04", Pkgs: []string{pkgUtil}, Run: runC04})
}

// ---- small predicates shared by C04/C05/C14 ---------------------------------

// invokeOnField: c invokes method m on a value loaded from a field named fld.
func invokeOnField(c ssa.CallInstruction, fld string, methods ...string) bool {
	cc := c.Common()
	if !cc.IsInvoke() {
		return false
	}
	f := fieldLoadOf(cc.Value)
	if f == nil || f.Name() != fld {
		return false
	}
	for _, m := range methods {
		if cc.Method.Name() == m {
			return true
		}
	}
	return false
}

func inCycle(b *ssa.BasicBlock) bool {
	for _, s := range b.Succs {
		if s == b || engine.Reachable(s, b) {
			return true
		}
	}
	return false
}

// isInvokeOf: v is the result of invoking method m on recv (looking through
// ChangeType).
func isInvokeOf(v ssa.Value, m string, recv func(ssa.Value) bool) bool {
	v = stripCT(v)
	c, ok := v.(*ssa.Call)
	if !ok {
		return false
	}
	r, ok := engine.IsMethodCall(c, m)
	return ok && recv(r)
}

func isValue(x ssa.Value) func(ssa.Value) bool {
	return func(v ssa.Value) bool { return v == x }
}

func nilConst(v ssa.Value) bool {
	c, ok := v.(*ssa.Const)
	return ok && c.Value == nil
}

func runC04(r *engine.Run) {
	r.Rule("AGREE-fields", "see C14: each node kind decodes exactly the fields it encodes, cutting at the first separator only (an extension's child hash is raw bytes and may contain the separator: a decoder that splits at every separator truncates it, and the subtree below is missing when the saved state is read back)")
	r.Rule("DOM-takeover", "in MergeDB the iteration over the donor store (through which the donor's nodes enter this trie's pending changes) dominates every return: no shortcut - being at the donor's root already, say - skips the take-over, after which a save would write nothing and report success")
	r.Rule("WHO-collect", "the trie's own store is written only by insertNode (PutNode, DeleteNode) and deleteNode (DeleteNode), and the change collector is fed only there; in insertNode the new node is put under GetHashBytes() of that node, every success return either passes AddChange(old, new) or is reached only when old and new hash are equal, and the replaced node is deleted under its own hash; deleteNode records the change before deleting")
	r.Rule("ORDER-KEY-save", "UpdateChanges writes all new nodes with exactly one MultiPutNode call outside any loop and before any delete; keys[i] is GetHashBytes() of the very node stored in nodes[i], which is a copy of the change's New node; every DeleteNode is reached only with includeDeletes true; SaveChanges hands its own store and includeDeletes arguments through unchanged; the save calls no node mutator (SetOrigin, SetVersion, SetValue, PutChild ...) on the copies it writes")
	r.Rule("WHO-batch", "(*PNodeDB).MultiPutNode reaches RocksDB only through WriteBatch.Put inside the loop over keys (key i with the encoding of node i) and exactly one DB.Write of that batch after the loop; no direct DB.Put/PutCF/Delete")
	r.Rule("DOM-cancel", "see C05: a re-created node never stays recorded as deleted (it would be dropped from the save or pruned while live)")
	r.Rule("FRESH-bytes", "see C03: the byte slices handed out by the node accessors (MarshalMsg, Encode, GetHashBytes, GetValueBytes in core/util) are new buffers on every return: nil, make/conversion results, results of calls that produce new buffers, or appends to such; never a field, element, global or map entry. FRESH-node relies on this, and callers of GetNodeValueRaw own (and may overwrite) the slice they get")
	r.Rule("FRESH-node", "see C03: a pending change whose bytes are overwritten in place is saved under a hash that no longer matches it")
	r.Rule("WHO-livedelete", "in the trie operations, a node N fetched with key K (N = getNode(K), or N, K returned together by insert/delete/insertNode) that is handed to deleteNode never has K installed as a child reference (NewExtensionNode / insertExtension / PutChild argument, store to NodeKey) on a path through that deleteNode call: a node the rebuilt trie still references is not removed from the store nor recorded dead")
	r.Rule("DOM-samekey", "in insertNode the change collector is told AddChange(old, new) only when there is no old node or bytes.Equal(old key, new key) tested false: an unchanged re-write does not put a live hash into the dead set")
	r.Rule("ERR-guard", "see C17, applied to the whole package including the node stores and the save path: a failed store write or read is never turned into success")
	r.Rule("ERR-dropped", "see C17: the error of every store operation (PutNode, MultiPutNode, DeleteNode, GetNode, batch writes) is looked at")
	r.Rule("DOM-recorded", "in ChangeCollector.AddChange every store into Changes is keyed by the new node's hash and holds a change whose New field was set to the new node, and every return is reached through such a store except the cancel-out (new node equal to the Old of the chain it closes, bytes.Equal tested true)")
	r.Rule("AGREE-nostamp", "see C03: mergeChanges installs the nodes of the child's change set without re-stamping them (the installer it calls in the replay loop sets no origin/version on the node): a node the child took over from another version keeps the hash the child's root refers to, and the donor store's object is not written")
	r.Rule("DOM-mergeall", "see C03: mergeChanges replays every change of the child through insertNode (a skipped change is missing from the block's change set and hence from the save)")
	r.Rule("ORDER-stamp", "see C02: insertNode stamps the trie version, then hashes, then stores under that hash (a node stored under a hash computed before the stamp is missing under the key the saved root refers to)")
	r.Rule("DOM-merge", "see C03: a stale child is never merged (its nodes refer to nodes a sibling replaced; after the save the root has missing nodes)")
	r.Rule("LOCK-mpt", "see C16: root, the stores' maps and level links and the collector's maps are accessed only with their owner's mutex held in the required mode (a writer under the read lock, or on a root read outside the lock, loses another writer's update)")
	r.Rule("ORDER-critical", "see C16: Insert, Delete, MergeChanges and MergeDB are one critical section each, from the first read of the root to its last update")
	r.Rule("AGREE-snapshot", "see C03: root, changes, deletes and start root handed to the merge come from one GetChanges call")
	r.Rule("CLONE-deep", "see C07: Clone() of every node type is a deep copy (the codec round trip), never a value that shares path/key/value memory with the receiver - FRESH-node treats Clone() results as fresh, and an in-place append onto a shallow copy writes into the store's object")
	r.Rule("ERR-select", "where a function waits for a writer goroutine with a select over the writer's error channel and a completion channel made in the same function, no nil-error return is reachable from the completion case without a further receive on the error channel: both cases can be ready at once (the writer failed and finished before the waiter got there) and select picks at random, so a failed save would sometimes be reported as successful")
	r.Rule("FRESH-pathbuf", "see C01: Insert hands the walk a copy of the caller's path, never the parameter itself or a slice of it (nodes keep sub-slices of the walked path; the saved state of a caller that refills one key buffer would otherwise lose nodes)")
	r.Rule("WHO-deadlist", "see C05: a node that goes through the change collector is never also parked in deleteNodes, the dead list nothing reconciles (re-created later in the round it would still be reported dead, and the prune would delete a node a saved root uses)")
	r.Rule("AGREE-split", "see C02: wherever the trie builds a leaf, its position prefix and its remaining path are cut from the same slice at the same point (prefix + path = the key): the prefix is part of the hash pre-image, so two entries with equal suffix and value but a wrong prefix collapse into one stored node, and deleting one of them records the other's node dead")
	r.Rule("DOM-adopt", "see C03: a merge never reports success while the parent keeps a root different from the child's (a child that collected no new node - it emptied the trie - is merged like any other: the round would otherwise be saved at a stale root)")
	r.Rule("LOCK-snapshot", "see C16: SaveChanges takes its snapshot of the change collector with the trie's read lock held (a snapshot taken in the middle of a merge is complete for neither root, and the save reports success)")
	r.NotDec = append(r.NotDec, "completeness of the change set for every history (needs the map semantics of C01)", "RocksDB's own crash behaviour")
	whoCollect(r)
	orderKeySave(r)
	whoBatch(r)
	freshNode(r, "C04")
	domCancel(r)
	whoLiveDelete(r, "WHO-livedelete")
	domSameKey(r, "DOM-samekey")
	errGuard(r, "ERR-guard", "ERR-dropped", funcsOfPkg(r, pkgUtil), 20)
	domRecorded(r, "DOM-recorded")
	chainStart(r, "DOM-recorded")
	domMergeAll(r, "DOM-mergeall")
	orderStamp(r, "ORDER-stamp")
	domMerge(r)
	cloneUnderLock(r, mptLockDiscipline(r))
	agreeMergeSnapshot(r, "AGREE-snapshot")
	cloneDeep(r)
	whoDeadList(r, "WHO-deadlist")
	agreeSplit(r)
	errSelect(r, "ERR-select", funcsOfPkg(r, pkgUtil), 1)
	domAdopt(r, "DOM-adopt")
	freshPathBuf(r, "FRESH-pathbuf")
	domTakeover(r, "DOM-takeover")
	agreeFields(r)
}

func whoCollect(r *engine.Run) {
	const rule = "WHO-collect"
	stampFn, insertNode := mptStoreFn(r, rule)
	deleteNode := r.Fn(rule, pkgUtil, "MerklePatriciaTrie", "deleteNode")
	if stampFn == nil || deleteNode == nil {
		return
	}
	if insertNode == nil {
		r.Fail(rule, fn(stampFn)+"|PutNode", r.P.Pos(stampFn.Pos()), "insertNode no longer stores the new node")
		return
	}
	// insertForeignNode (sync repair): stores a donor's node under the hash it already has
	foreign, _ := r.P.Func(pkgUtil, "MerklePatriciaTrie", "insertForeignNode")
	if foreign != nil && len(foreign.Blocks) > 0 {
		r.Touch(foreign)
		var put, add *ssa.Call
		engine.Instrs(foreign, func(in ssa.Instruction) {
			if c, ok := in.(*ssa.Call); ok {
				if invokeOnField(c, "db", "PutNode") {
					put = c
				}
				if invokeOnField(c, "ChangeCollector", "AddChange") {
					add = c
				}
			}
		})
		// the node parameter: the (only) parameter of interface type Node, wherever it stands
		nodeP := foreign.Params[len(foreign.Params)-1]
		for _, prm := range foreign.Params[1:] {
			if isNamed(prm.Type(), pkgUtil, "Node") {
				nodeP = prm
			}
		}
		good := put != nil && add != nil && isInvokeOf(put.Call.Args[0], "GetHashBytes", isValue(nodeP)) && put.Call.Args[1] == ssa.Value(nodeP) &&
			nilConst(add.Call.Args[0]) && add.Call.Args[1] == ssa.Value(nodeP)
		if good {
			for _, ret := range engine.Returns(foreign) {
				if len(ret.Results) == 1 && nilConst(ret.Results[0]) && !(engine.InstrDominates(put, ret) && engine.InstrDominates(add, ret)) {
					good = false
				}
			}
		}
		r.Check(good, rule, fn(foreign)+"|put+collect", r.P.Pos(foreign.Pos()), "foreign node stored under its own hash and collected as a new change on every success path",
			"a node merged from another store is not stored under its own hash or not collected as a change")
	}
	n := 0
	for _, f := range funcsOfPkg(r, pkgUtil) {
		top := engine.TopFunc(f)
		if recvNamed(top) != "MerklePatriciaTrie" {
			continue
		}
		o := ord{}
		engine.Instrs(f, func(in ssa.Instruction) {
			c, ok := in.(ssa.CallInstruction)
			if !ok {
				return
			}
			if invokeOnField(c, "db", "PutNode", "MultiPutNode", "DeleteNode", "MultiDeleteNode") {
				n++
				r.CallSites++
				m := c.Common().Method.Name()
				good := top == insertNode && (m == "PutNode" || m == "DeleteNode") || top == deleteNode && m == "DeleteNode" || top == foreign && foreign != nil && m == "PutNode"
				r.Check(good, rule, o.next(fn(f)+"|db."+m), r.P.Pos(in.Pos()), "store write inside insertNode/deleteNode",
					"the trie writes its store outside insertNode/deleteNode: the node is not collected as a change and is missing from the saved state")
			}
			if invokeOnField(c, "ChangeCollector", "AddChange", "DeleteChange") {
				n++
				r.CallSites++
				m := c.Common().Method.Name()
				good := top == insertNode && m == "AddChange" || top == deleteNode && m == "DeleteChange" || top == foreign && foreign != nil && m == "AddChange"
				r.Check(good, rule, o.next(fn(f)+"|collector."+m), r.P.Pos(in.Pos()), "collector fed inside insertNode/deleteNode", "the change collector is fed outside insertNode/deleteNode")
			}
		})
	}
	// insertNode internals
	f := insertNode
	oldP, newP := f.Params[1], f.Params[2]
	var put, del *ssa.Call
	var adds []*ssa.Call
	var hashNew ssa.Value
	engine.Instrs(f, func(in ssa.Instruction) {
		c, ok := in.(*ssa.Call)
		if !ok {
			return
		}
		switch {
		case invokeOnField(c, "db", "PutNode"):
			put = c
		case invokeOnField(c, "db", "DeleteNode"):
			del = c
		case invokeOnField(c, "ChangeCollector", "AddChange"):
			adds = append(adds, c)
		}
	})
	if put == nil {
		r.Fail(rule, fn(f)+"|PutNode", r.P.Pos(f.Pos()), "insertNode no longer stores the new node")
		return
	}
	hashNew = stripCT(put.Call.Args[0])
	r.Check(isInvokeOf(hashNew, "GetHashBytes", isValue(newP)) && put.Call.Args[1] == ssa.Value(newP), rule, fn(f)+"|put key", r.P.Pos(put.Pos()),
		"new node stored under GetHashBytes() of that node", "the new node is stored under a key that is not its own hash")
	for _, a := range adds {
		r.Check(a.Call.Args[0] == ssa.Value(oldP) && a.Call.Args[1] == ssa.Value(newP), rule, fn(f)+"|AddChange args", r.P.Pos(a.Pos()),
			"AddChange(old, new)", "AddChange is not called with (old node, new node)")
	}
	if del != nil {
		k := stripCT(del.Call.Args[0])
		r.Check(isInvokeOf(k, "GetHashBytes", isValue(oldP)), rule, fn(f)+"|delete key", r.P.Pos(del.Pos()), "replaced node deleted under its own hash", "the replaced node is deleted under a key that is not its own hash")
	}
	// success returns: pass AddChange or (old != nil && equal hashes)
	avoid := map[*ssa.BasicBlock]bool{}
	for _, a := range adds {
		avoid[a.Block()] = true
	}
	o := ord{}
	for _, ret := range engine.Returns(f) {
		if len(ret.Results) != 3 || !nilConst(ret.Results[2]) {
			continue
		}
		if !put.Block().Dominates(ret.Block()) {
			r.Fail(rule, o.next(fn(f)+"|success return"), r.P.Pos(ret.Pos()), "insertNode returns success on a path that did not store the new node")
			continue
		}
		// the return follows an AddChange in its own block
		sameBlock := false
		for _, a := range adds {
			if a.Block() == ret.Block() && engine.InstrDominates(a, ret) {
				sameBlock = true
			}
		}
		if sameBlock {
			r.OK(rule, o.next(fn(f)+"|success return"), r.P.Pos(ret.Pos()), "the success return follows AddChange in the same block")
			continue
		}
		paths, ok := engine.PathFactsAvoid(f, ret.Block(), avoid, 4096)
		good := ok
		detail := ""
		for _, p := range paths {
			oldNil, hadOld := p[engine.EqKey(oldP, ssa.NewConst(nil, oldP.Type()))]
			eq := false
			for k, v := range p {
				_ = k
				_ = v
			}
			engine.Instrs(f, func(in ssa.Instruction) {
				c, ok := in.(*ssa.Call)
				if !ok || !isBytesEq(c) {
					return
				}
				a, b := stripCT(c.Call.Args[0]), stripCT(c.Call.Args[1])
				okPair := isInvokeOf(a, "GetHashBytes", isValue(oldP)) && b == hashNew || isInvokeOf(b, "GetHashBytes", isValue(oldP)) && a == hashNew
				if okPair {
					if v, had := pathTruth(p, c); had && v {
						eq = true
					}
				}
			})
			if !(hadOld && !oldNil && eq) {
				good = false
				detail = "a success path skips AddChange although the node is new or its hash changed"
			}
		}
		r.Check(good, rule, o.next(fn(f)+"|success return"), r.P.Pos(ret.Pos()),
			fmt.Sprintf("every success path passes AddChange, or (%d paths) is reached only with old != nil and equal hashes", len(paths)),
			"a (re)created node is not collected as a change: it is missing from the saved state: "+detail)
	}
	// deleteNode: DeleteChange(node) before the store delete, key = own hash
	g := deleteNode
	var dc, dd *ssa.Call
	engine.Instrs(g, func(in ssa.Instruction) {
		c, ok := in.(*ssa.Call)
		if !ok {
			return
		}
		if invokeOnField(c, "ChangeCollector", "DeleteChange") {
			dc = c
		}
		if invokeOnField(c, "db", "DeleteNode") {
			dd = c
		}
	})
	good := dc != nil && dd != nil && dc.Call.Args[0] == ssa.Value(g.Params[1]) && isInvokeOf(dd.Call.Args[0], "GetHashBytes", isValue(g.Params[1]))
	if good {
		for _, ret := range engine.Returns(g) {
			if !dc.Block().Dominates(ret.Block()) {
				good = false
			}
		}
	}
	r.Check(good, rule, fn(g)+"|record+delete", r.P.Pos(g.Pos()), "DeleteChange(node) on every path, store delete under the node's own hash", "deleteNode does not record the removal on every path or deletes under a foreign key")
	if n < 4 {
		r.Anchor(rule, fmt.Errorf("unresolved anchor: only %d store/collector call sites in the trie", n))
	}
}

func orderKeySave(r *engine.Run) {
	const rule = "ORDER-KEY-save"
	f := r.Fn(rule, pkgUtil, "ChangeCollector", "UpdateChanges")
	if f == nil {
		return
	}
	ndb, incl := f.Params[1], f.Params[3]
	var mputs, dels []*ssa.Call
	engine.Instrs(f, func(in ssa.Instruction) {
		c, ok := in.(*ssa.Call)
		if !ok || !c.Call.IsInvoke() {
			return
		}
		switch c.Call.Method.Name() {
		case "MultiPutNode", "PutNode":
			mputs = append(mputs, c)
		case "DeleteNode", "MultiDeleteNode":
			dels = append(dels, c)
		}
	})
	if len(mputs) != 1 || mputs[0].Call.Method.Name() != "MultiPutNode" || mputs[0].Call.Value != ssa.Value(ndb) || inCycle(mputs[0].Block()) {
		r.Fail(rule, fn(f)+"|single batch put", r.P.Pos(f.Pos()), fmt.Sprintf("expected exactly one MultiPutNode on the target store outside any loop, found %d put call(s) (or inside a loop / on another store): the save is no longer one atomic batch", len(mputs)))
		return
	}
	mp := mputs[0]
	r.OK(rule, fn(f)+"|single batch put", r.P.Pos(mp.Pos()), "one MultiPutNode on the target store, outside any loop")
	// the copies are written as the trie built them: the save applies no mutator to a
	// node (its key is the hash of the node as copied; the origin is part of the hash)
	mut := ""
	engine.Instrs(f, func(in ssa.Instruction) {
		c, ok := in.(*ssa.Call)
		if !ok {
			return
		}
		name := ""
		if c.Call.IsInvoke() {
			name = c.Call.Method.Name()
		} else if sc := c.Call.StaticCallee(); sc != nil && sc.Signature.Recv() != nil {
			name = sc.Name()
		}
		if nodeMutators[name] {
			mut = name + " at " + r.P.Pos(c.Pos())
		}
	})
	r.Check(mut == "", rule, fn(f)+"|no mutation of the copies", r.P.Pos(mp.Pos()), "no node mutator is called in the save",
		"the save calls a node mutator ("+mut+") on the nodes it writes: the key each node goes under was computed from the node as copied, and origin, version, value and children are all part of the hash, so the node sits in the store under a key that is not its hash and cannot be read back under the saved root")
	keys, nodes := mp.Call.Args[0], mp.Call.Args[1]
	// keys[i] = GetHashBytes(nodes[i]); nodes[i] = CloneNode(change.New)
	var keyStore, nodeStore *ssa.Store
	engine.Instrs(f, func(in ssa.Instruction) {
		st, ok := in.(*ssa.Store)
		if !ok {
			return
		}
		ia, ok := st.Addr.(*ssa.IndexAddr)
		if !ok {
			return
		}
		if ia.X == keys {
			keyStore = st
		}
		if ia.X == nodes {
			nodeStore = st
		}
	})
	good := keyStore != nil && nodeStore != nil
	detail := "stores into the key/node slices not found"
	recordBlocks := map[*ssa.BasicBlock]bool{}
	if nodeStore != nil {
		recordBlocks[nodeStore.Block()] = true
	}
	if !good {
		// the append form: keys = append(keys, nd.GetHashBytes()); nodes = append(nodes, nd)
		ke, ne := appendedElems(keys), appendedElems(nodes)
		if len(ke) > 0 && len(ne) > 0 {
			okAll := true
			for _, k := range ke {
				okK := false
				if c, ok := stripCT(k.val).(*ssa.Call); ok {
					if recv, ok := engine.IsMethodCall(c, "GetHashBytes"); ok {
						for _, nd := range ne {
							if nd.val == recv && nd.at.Block() == k.at.Block() {
								okK = true
							}
						}
					}
				}
				okAll = okAll && okK
			}
			for _, nd := range ne {
				okN := false
				if c, ok := nd.val.(*ssa.Call); ok {
					if recv, ok := engine.IsMethodCall(c, "CloneNode"); ok {
						if fld := fieldLoadOf(recv); fld != nil && fld.Name() == "New" {
							okN = true
						}
					}
				}
				okAll = okAll && okN
				recordBlocks[nd.at.Block()] = true
			}
			detail = fmt.Sprintf("appended keys are the hashes of the nodes appended beside them, which are copies of change.New: %v", okAll)
			r.Check(okAll, rule, fn(f)+"|keys[i]=hash(nodes[i])", r.P.Pos(mp.Pos()), "every appended key is GetHashBytes() of the node appended with it, a copy of the change's New node", "a saved node is not addressed by its own hash (or the wrong node of the change is saved): "+detail)
			saveEvery(r, rule, f, recordBlocks)
			goto deletes
		}
	}
	if good {
		kidx := engine.ValKey(keyStore.Addr.(*ssa.IndexAddr).Index)
		nidx := engine.ValKey(nodeStore.Addr.(*ssa.IndexAddr).Index)
		hv := stripCT(keyStore.Val)
		okHash := false
		if c, ok := hv.(*ssa.Call); ok {
			if recv, ok := engine.IsMethodCall(c, "GetHashBytes"); ok {
				if ld, ok := recv.(*ssa.UnOp); ok {
					if ia, ok := ld.X.(*ssa.IndexAddr); ok && ia.X == nodes && engine.ValKey(ia.Index) == kidx {
						okHash = true
					}
				} else if recv == nodeStore.Val {
					okHash = true
				}
			}
		}
		okNode := false
		if c, ok := nodeStore.Val.(*ssa.Call); ok {
			if recv, ok := engine.IsMethodCall(c, "CloneNode"); ok {
				if fld := fieldLoadOf(recv); fld != nil && fld.Name() == "New" {
					okNode = true
				}
			}
		}
		good = okHash && okNode && kidx == nidx
		detail = fmt.Sprintf("key is hash of the stored node=%v, stored node is a copy of change.New=%v, same index=%v", okHash, okNode, kidx == nidx)
	}
	r.Check(good, rule, fn(f)+"|keys[i]=hash(nodes[i])", r.P.Pos(mp.Pos()), "keys[i] is GetHashBytes() of nodes[i], a copy of the change's New node", "a saved node is not addressed by its own hash (or the wrong node of the change is saved): "+detail)
	saveEvery(r, rule, f, recordBlocks)
deletes:
	for i, d := range dels {
		construct := fmt.Sprintf("%s|delete#%d", fn(f), i+1)
		atoms, ok := engine.AtomsOn(f, d.Block())
		guarded := false
		if ok {
			v, had := atoms[engine.ValKey(incl)]
			guarded = had && v
		}
		r.Check(guarded, rule, construct+"|guard", r.P.Pos(d.Pos()), "delete reached only with includeDeletes true", "a save without immediate deletes removes previously saved nodes: older roots lose nodes before pruning")
		r.Check(!engine.ReachableAfter(d, mp), rule, construct+"|after-put", r.P.Pos(d.Pos()), "deletes only after the batch put", "a delete can run before the new nodes are written: a crash in between loses live state")
	}
	// SaveChanges passes its parameters through
	s := r.Fn(rule, pkgUtil, "MerklePatriciaTrie", "SaveChanges")
	if s == nil {
		return
	}
	found := false
	for _, fn2 := range append([]*ssa.Function{s}, s.AnonFuncs...) {
		engine.Instrs(fn2, func(in ssa.Instruction) {
			c, ok := in.(*ssa.Call)
			if !ok || !c.Call.IsInvoke() || c.Call.Method.Name() != "UpdateChanges" {
				return
			}
			found = true
			r.CallSites++
			okStore := boundToParam(s, c.Call.Args[0], "ndb")
			okIncl := boundToParam(s, c.Call.Args[2], "includeDeletes")
			r.Check(okStore && okIncl, rule, fn(s)+"|pass-through", r.P.Pos(c.Pos()), "UpdateChanges receives SaveChanges' own store and includeDeletes arguments",
				fmt.Sprintf("SaveChanges does not pass its own arguments through (store=%v, includeDeletes=%v)", okStore, okIncl))
		})
	}
	if !found {
		r.Anchor(rule, fmt.Errorf("unresolved anchor: UpdateChanges call in SaveChanges"))
	}
}

// boundToParam: v is the parameter named name of top, directly, or a load of a
// captured variable / local cell that was stored exactly once, with that parameter.
func boundToParam(top *ssa.Function, v ssa.Value, name string) bool {
	if p, ok := v.(*ssa.Parameter); ok {
		return p.Name() == name && p.Parent() == top
	}
	ld, ok := v.(*ssa.UnOp)
	if !ok {
		return false
	}
	var cell ssa.Value = ld.X
	for depth := 0; depth < 5; depth++ {
		fv, ok := cell.(*ssa.FreeVar)
		if !ok {
			break
		}
		// find the binding in the parent's MakeClosure (nested closures: repeat)
		parent := fv.Parent().Parent()
		if parent == nil {
			return false
		}
		idx := -1
		for i, x := range fv.Parent().FreeVars {
			if x == fv {
				idx = i
			}
		}
		var bound ssa.Value
		engine.Instrs(parent, func(in ssa.Instruction) {
			if mc, ok := in.(*ssa.MakeClosure); ok && mc.Fn == ssa.Value(fv.Parent()) && idx >= 0 && idx < len(mc.Bindings) {
				bound = mc.Bindings[idx]
			}
		})
		if bound == nil {
			return false
		}
		cell = bound
	}
	al, ok := cell.(*ssa.Alloc)
	if !ok {
		return false
	}
	n, good := 0, false
	for _, ref := range engine.Referrers(al) {
		if st, ok := ref.(*ssa.Store); ok && st.Addr == ssa.Value(al) {
			n++
			if p, ok := st.Val.(*ssa.Parameter); ok && p.Name() == name && p.Parent() == top {
				good = true
			}
		}
	}
	return n == 1 && good
}

func whoBatch(r *engine.Run) {
	const rule = "WHO-batch"
	f := r.Fn(rule, pkgUtil, "PNodeDB", "MultiPutNode")
	if f == nil {
		return
	}
	var batch ssa.Value
	var puts, writes []*ssa.Call
	var direct []*ssa.Call
	engine.Instrs(f, func(in ssa.Instruction) {
		c, ok := in.(*ssa.Call)
		if !ok {
			return
		}
		switch {
		case extCalleeIs(c, "linxGnu/grocksdb", "", "NewWriteBatch"):
			batch = c
		case extCalleeIs(c, "linxGnu/grocksdb", "WriteBatch", "Put"):
			puts = append(puts, c)
		case extCalleeIs(c, "linxGnu/grocksdb", "DB", "Write"):
			writes = append(writes, c)
		default:
			for _, m := range []string{"Put", "PutCF", "Delete", "DeleteCF", "Merge", "MergeCF", "SingleDelete"} {
				if extCalleeIs(c, "linxGnu/grocksdb", "DB", m) {
					direct = append(direct, c)
				}
			}
		}
	})
	r.CallSites += len(puts) + len(writes) + len(direct)
	if batch == nil || len(puts) == 0 {
		r.Fail(rule, fn(f)+"|batch", r.P.Pos(f.Pos()), "MultiPutNode does not collect its writes in a WriteBatch: the save is not atomic")
		return
	}
	for _, d := range direct {
		r.Fail(rule, fn(f)+"|direct write", r.P.Pos(d.Pos()), "MultiPutNode writes to RocksDB outside the batch: a crash leaves a partial save")
	}
	good := len(writes) == 1 && writes[0].Call.Args[2] == batch && !inCycle(writes[0].Block())
	if good {
		for _, p := range puts {
			if p.Call.Args[0] != batch || !inCycle(p.Block()) || engine.ReachableAfter(writes[0], p) {
				good = false
			}
		}
	}
	r.Check(good, rule, fn(f)+"|one write after the loop", r.P.Pos(f.Pos()), fmt.Sprintf("%d batch puts inside the loop, one DB.Write of that batch after it", len(puts)),
		"the batch is not written exactly once after all puts (write inside the loop, several writes, or another batch)")
	// key i with encoding of node i
	for i, p := range puts {
		k := stripCT(p.Call.Args[1])
		v := p.Call.Args[2]
		okKey, okVal, sameIdx := false, false, false
		var kidx, vidx string
		if ld, ok := k.(*ssa.UnOp); ok {
			if ia, ok := ld.X.(*ssa.IndexAddr); ok && ia.X == ssa.Value(f.Params[1]) {
				okKey, kidx = true, engine.ValKey(ia.Index)
			}
		}
		if c, ok := v.(*ssa.Call); ok {
			if recv, ok := engine.IsMethodCall(c, "Encode"); ok {
				node := recv
				if cc, ok := recv.(*ssa.Call); ok {
					if r2, ok := engine.IsMethodCall(cc, "CloneNode"); ok {
						node = r2
					}
				}
				if ld, ok := node.(*ssa.UnOp); ok {
					if ia, ok := ld.X.(*ssa.IndexAddr); ok && ia.X == ssa.Value(f.Params[2]) {
						okVal, vidx = true, engine.ValKey(ia.Index)
					}
				}
			}
		}
		sameIdx = okKey && okVal && kidx == vidx
		r.Check(sameIdx, rule, fmt.Sprintf("%s|put#%d key/value", fn(f), i+1), r.P.Pos(p.Pos()), "keys[i] written with the encoding of nodes[i]",
			fmt.Sprintf("the batch does not pair keys[i] with Encode() of nodes[i] (key ok=%v, value ok=%v, same index=%v)", okKey, okVal, sameIdx))
	}
}

// domRecorded: AddChange records the new node. Every return of AddChange is
// reached through a store into Changes under the new node's hash of a change
// whose New field was set to the new node, except the cancel-out return (the
// new node equals the Old of the chain it closes).
func domRecorded(r *engine.Run, rule string) {
	f := r.Fn(rule, pkgUtil, "ChangeCollector", "AddChange")
	if f == nil {
		return
	}
	newP := f.Params[2]
	stores := map[*ssa.BasicBlock]bool{}
	n := 0
	o := ord{}
	engine.Instrs(f, func(in ssa.Instruction) {
		mu, ok := in.(*ssa.MapUpdate)
		if !ok {
			return
		}
		if fld := fieldLoadOf(mu.Map); fld == nil || fld.Name() != "Changes" {
			return
		}
		n++
		// key: GetHash() of the new node
		keyOK := isInvokeOf(mu.Key, "GetHash", isValue(newP))
		// the stored change has New = newNode, assigned before the store
		newSet := false
		for _, ref := range engine.Referrers(mu.Value) {
			if fa, ok := ref.(*ssa.FieldAddr); ok && engine.FieldOf(fa).Name() == "New" {
				for _, r2 := range engine.Referrers(fa) {
					if st, ok := r2.(*ssa.Store); ok && st.Addr == ssa.Value(fa) && st.Val == ssa.Value(newP) && engine.InstrDominates(st, mu) {
						newSet = true
					}
				}
			}
		}
		// ... or the record comes from a constructor of the package whose result has New = the
		// argument the new node is passed for
		if c, ok := mu.Value.(*ssa.Call); ok && !newSet {
			if g := c.Call.StaticCallee(); g != nil && g.Pkg == f.Pkg && len(g.Blocks) > 0 {
				for i, a := range c.Call.Args {
					if a != ssa.Value(newP) || i >= len(g.Params) {
						continue
					}
					engine.Instrs(g, func(in2 ssa.Instruction) {
						if st, ok := in2.(*ssa.Store); ok && st.Val == ssa.Value(g.Params[i]) {
							if fa, ok := st.Addr.(*ssa.FieldAddr); ok && engine.FieldOf(fa).Name() == "New" {
								if _, isAlloc := fa.X.(*ssa.Alloc); isAlloc {
									newSet = true
								}
							}
						}
					})
				}
			}
		}
		if keyOK && newSet {
			stores[mu.Block()] = true
		}
		r.Check(keyOK && newSet, rule, o.next(fn(f)+"|record"), r.P.Pos(mu.Pos()), "the change is stored under the new node's hash with New set to the new node",
			fmt.Sprintf("a change is recorded under a key other than the new node's hash or without the new node (key is the new hash: %v, New assigned: %v): the save writes the wrong node or nothing for this hash", keyOK, newSet))
	})
	// the cancel-out comparison
	var cancel []*ssa.Call
	engine.Instrs(f, func(in ssa.Instruction) {
		if c, ok := in.(*ssa.Call); ok && isBytesEq(c) {
			cancel = append(cancel, c)
		}
	})
	for _, ret := range engine.Returns(f) {
		if ret.Block().Comment == "recover" {
			continue
		}
		n++
		good := stores[ret.Block()]
		if !good {
			paths, ok := engine.PathFactsAvoid(f, ret.Block(), stores, 4096)
			good = ok
			for _, p := range paths {
				cancelled := false
				for _, c := range cancel {
					if v, had := pathTruth(p, c); had && v {
						cancelled = true
					}
				}
				if !cancelled {
					good = false
				}
			}
		}
		r.Check(good, rule, o.next(fn(f)+"|return"), r.P.Pos(ret.Pos()), "every path to the return records the new node or is the cancel-out of a chain that ends where it started",
			"AddChange can return without recording the new node: the node is in the trie but not among the pending changes, so a save does not write it and the saved root has a missing node")
	}
	if n < 5 {
		r.Anchor(rule, fmt.Errorf("unresolved anchor: %d record/return sites in AddChange", n))
	}
}

type appended struct {
	val ssa.Value
	at  ssa.Instruction
}

// appendedElems: the values appended, one at a time, to the slice v reaches
// through phis and append calls (the variadic argument's backing array stores).
func appendedElems(v ssa.Value) []appended {
	var out []appended
	seen := map[ssa.Value]bool{}
	var walk func(x ssa.Value)
	walk = func(x ssa.Value) {
		if x == nil || seen[x] {
			return
		}
		seen[x] = true
		switch y := x.(type) {
		case *ssa.Phi:
			for _, e := range y.Edges {
				walk(e)
			}
		case *ssa.Call:
			b, ok := y.Call.Value.(*ssa.Builtin)
			if !ok || b.Name() != "append" || len(y.Call.Args) != 2 {
				return
			}
			walk(y.Call.Args[0])
			if sl, ok := y.Call.Args[1].(*ssa.Slice); ok {
				if al, ok := sl.X.(*ssa.Alloc); ok {
					for _, ref := range engine.Referrers(al) {
						if ia, ok := ref.(*ssa.IndexAddr); ok {
							for _, r2 := range engine.Referrers(ia) {
								if st, ok := r2.(*ssa.Store); ok && st.Addr == ssa.Value(ia) {
									out = append(out, appended{st.Val, y})
								}
							}
						}
					}
				}
			}
		}
	}
	walk(v)
	return out
}

// saveEvery: every pending change is written: in the loop of UpdateChanges over
// the pending changes, no iteration gets back to the loop head without having
// recorded its node for the batch (no filter, no continue). A change left out
// is a node the new root (or another saved node) refers to by hash and the
// store does not have.
func saveEvery(r *engine.Run, rule string, f *ssa.Function, record map[*ssa.BasicBlock]bool) {
	var head *ssa.BasicBlock
	engine.Instrs(f, func(in ssa.Instruction) {
		nx, ok := in.(*ssa.Next)
		if !ok {
			return
		}
		if rg, ok := nx.Iter.(*ssa.Range); ok {
			if fld := fieldLoadOf(rg.X); fld != nil && fld.Name() == "Changes" {
				head = nx.Block()
			}
		}
	})
	if head == nil || len(record) == 0 {
		r.Anchor(rule, fmt.Errorf("unresolved anchor: loop over the pending changes in %s", fn(f)))
		return
	}
	// body entry: the successor of the head that stays in the loop
	skipped := false
	seen := map[*ssa.BasicBlock]bool{}
	var work []*ssa.BasicBlock
	for _, s := range head.Succs {
		if inCycle(s) && !record[s] {
			work = append(work, s)
			seen[s] = true
		}
	}
	for len(work) > 0 {
		b := work[0]
		work = work[1:]
		for _, s := range b.Succs {
			if s == head {
				skipped = true
				continue
			}
			if seen[s] || record[s] {
				continue
			}
			seen[s] = true
			work = append(work, s)
		}
	}
	r.Check(!skipped, rule, fn(f)+"|every change saved", r.P.Pos(head.Instrs[0].Pos()), "every iteration over the pending changes records its node for the batch",
		"an iteration over the pending changes can return to the loop head without recording its node (a filter / continue): the change is left out of the save, so a node that the saved root or another saved node refers to by hash is missing from the store while the save reports success")
}
