package rules

import (
	"fmt"
	"go/constant"
	"go/token"
	"go/types"
	"sort"
	"strconv"
	"strings"

	"golang.org/x/tools/go/ssa"

	"verif/sa/engine"
)

func init() {
	register(&Check{ID: "C12", Pkgs: []string{pkgWMPT}, Run: runC12})
	register(&Check{ID: "C13", Pkgs: []string{pkgWMPT}, Run: runC13})
}

func runC12(r *engine.Run) {
	r.Rule("PURE-export", "collecting a path export stores into no child slot or value link of an existing node of the trie: what is not sent is replaced by a hash reference in the export only (a subtree collapsed in place is gone while changes are uncommitted or there is no storage, and no block below it can be proven)")
	r.Rule("RACE-loopvar", "a goroutine literal started inside a loop of core/util/wmpt captures no variable that the loop itself rewrites (the module's language version gives one loop variable per loop): the parallel marking of requested keys would skip keys or index past the end")
	r.Rule("DOM-rejectshape", "DeserializeNode and its helpers refuse a record only for its shape (a len(...) comparison, a nil part, a failed kind test), never on a condition over decoded values: the trie keeps weights modulo 2^64 on every side, so a value check in the decoder rejects records and exports the library produced itself")
	r.Rule("PRESENCE-byweight", "no comparison in core/util/wmpt takes a weight of 0 for absence (a weight compared with the constant 0): entries of weight 0 are entries whose hashes their ancestors commit to - a checkpoint copy that skips them, or a rollback that takes a zero-weight root for the empty trie, no longer stands for the checkpoint state")
	r.Rule("FRESH-keybuf", "see C10: a node's key - and a leaf's value bytes, which are the slice the caller handed to Put - is never the base of an append: rewriting the bytes in place changes every other holder of the slice behind its cached hash, which the separately decoded partial trie does not share")
	r.Rule("FRESH-resolved", "see C09: the node resolveHashNode hands to the walk is freshly decoded and kept nowhere else (a decoded-node cache gives two positions with the same hash one object in the source trie, two in the partial trie: an in-place update diverges them)")
	r.Rule("AGREE-branches", "in GetPath every path from entry to the collection of nodes passes through one of the two marking loops (the parallel one over a branch root's children or the sequential one from the root): for every number of requested keys and every root kind the requested paths are marked before the export is assembled")
	r.Rule("AGREE-embed", "writer and reader of the embedded shared-prefix child agree: routingNode.Serialize appends child hash, big-endian child weight, value hash, key in that order and DeserializeNode reads offsets [0:32], [32:40], [40:72], [72:] with the same byte order; collectNodes emits and deserializeTrie consumes in the same pre-order (node first, then children by ascending index / the single value)")
	r.Rule("AGREE-linkback", "whenever markToCollect is called on a position read from a node (a branch's child slot, a shared-prefix node's value) its result is stored back into that same slot: a child that had to be loaded from storage becomes part of the trie that is exported")
	r.Rule("EXPORT-kind", "collectNodes replaces an unrequested node by a bare hash reference only when it is a branch; shared-prefix and value nodes are exported in full, because the importer overwrites the parent's embedded copy with what the export contains and a later delete needs the sibling's kind and key to merge")
	r.Rule("FRESH-copy", "see C10: a CopyRoot snapshot shares no mutable node with the trie it was taken from (a write to the original would change the snapshot's leaf under unchanged ancestors: the export and the partial trie then diverge from the snapshot on the same write)")
	r.Rule("AGREE-sync", "see C11: a commit the caller asked to be durable is fsynced (the collapsed nodes exist only in storage: after a crash the trie reopened from its root cannot be exported)")
	r.Rule("DOM-collected", "every return of GetPath that hands out an export (first result not nil) is dominated by the call of collectNodes: no shortcut in front of the marking and collection exports something else than the trie")
	r.Rule("REF-fieldbuf", "see C10: no method of the weighted trie returns the byte view of a buffer kept in its receiver (an export handed out earlier would be rewritten by the next call)")
	r.Rule("AGREE-limits", "the two wire entry points (path export import and block-proof verification) configure the same CBOR decoding limits (set in the function, in a package-local helper, or where a shared package-level decoding mode is built): a proof or export that one accepts is not rejected by the other for its size; and the importer raises MaxArrayElements above the library default (an export is one array of node records that grows with the number of requested keys)")
	r.Rule("EXH-W", "see C09: markToCollect resolves a collapsed position before interpreting it")
	r.Rule("ORDER-hashfresh", "see C10: in the Serialize methods of the hashed node kinds every read of a cached hash (the receiver's hash field, a child's Hash()) is reached only on paths where the receiver's dirty flag tested false or CalcHash() was called on the receiver: proofs and exported paths (which serialise nodes directly, possibly after an update and before the next Root()/Commit) never carry a stale hash")
	r.Rule("DOM-marked", "in markToCollect every success return of the branch arm and of the shared-prefix arm is dominated by toCollect = true on that node: a node on the path of a requested key is exported in full also when the key is absent below it (a later insert of that key rewrites exactly this node); in GetPath the branch root below which the parallel workers mark is itself marked before the workers start")
	r.Rule("DOM-nodb", "resolve reaches the storage lookup only where t.db != nil tested (or resolveHashNode has a nil-error return under db == nil): a storage-less partial trie keeps an unresolved reference in the branch reduction of delete instead of failing where the full trie succeeds")
	r.Rule("DOM-childhash", "in deserializeTrie the subtree returned by each recursive call is stored into its parent, and only where bytes.Equal(parent's placeholder hash, child hash) tested true; Deserialize marks the decoded root dirty, recomputes its hash and returns success only where the transmitted root hash equals the recomputed one")
	r.Rule("AGREE-persist", "see C10: serialised fields = deserialised fields")
	r.Rule("LOCK-mark", "each worker of GetPath's parallel collection holds a mutex from before its markToCollect call until after the write-back of the marked child (Lock dominates the call, no Unlock in between)")
	r.Rule("AGREE-ref", "every hashNode built in the package has both its hash and its weight set: a reference stands for a subtree's identity and weight")
	r.Rule("REF-shortref", "no hash reference is built from a value of static type *shortNode (its Hash()/CalcHash()/hash field): a shared-prefix node is never replaced by a bare hash of itself - it stays a shortNode with a collapsed value, embedded in its parent branch - so exports and later deletes see the same node kinds as the full trie")
	r.Rule("AGREE-slotpos", "markToCollect descends into branch slot key[pos] continuing at pos+1, and below a shared-prefix node n continuing at pos+len(n.key) only where bytes.Equal(n.key, key[pos:pos+len(n.key)]) tested true: the nodes marked for export are exactly those on the requested key's path")
	r.Rule("AGREE-copyroot", "in CopyRoot of a node kind with children every return not reached under level == collapseLevel is a newly built node of the receiver's own kind whose child slots are filled only by CopyRoot(level+1, collapseLevel) of the children: above the collapse level a snapshot has the same node kinds as the trie (the shallow Copy() turns embedded shared-prefix children into bare hash references)")
	r.Rule("ORDER-errstore", "in the weighted trie a store of the node result of a call that also returns an error into a field or slot of a live (not freshly built) node is reached only where that error tested nil: a failed storage read never erases a slot of the in-memory trie")
	r.NotDec = append(r.NotDec, "root/weight equality after mirrored updates (value-level)", "the import-side hash checks (not necessary for honest exports)")
	agreeBranches(r)
	agreeEmbed(r)
	exhWSubset(r, "EXH-W", "markToCollect")
	linkBack(r)
	exportKind(r)
	agreeLimits(r, "AGREE-limits")
	domCollected(r, "DOM-collected")
	freshCopy(r, "FRESH-copy")
	agreeSync(r, "AGREE-sync")
	refFieldBuf(r, "REF-fieldbuf", funcsOfPkg(r, pkgWMPT))
	orderHashFresh(r, "ORDER-hashfresh")
	domMarked(r, "DOM-marked")
	domNoDB(r, "DOM-nodb")
	domChildHash(r, "DOM-childhash")
	lockMark(r, "LOCK-mark")
	refComplete(r, "AGREE-ref")
	agreePersist(r, "AGREE-persist")
	orderErrStore(r, "ORDER-errstore")
	agreeCopyRoot(r, "AGREE-copyroot")
	agreeSlotPos(r, "AGREE-slotpos")
	refShortRef(r, "REF-shortref")
	freshKeyBuf(r, "FRESH-keybuf")
	freshResolved(r, "FRESH-resolved")
	presenceByWeight(r, "PRESENCE-byweight")
	decoderRejections(r, "DOM-rejectshape")
	pureExport(r, "PURE-export")
	sharedLoopVar(r, "RACE-loopvar", pkgWMPT, 1)
}

func exhWSubset(r *engine.Run, rule string, name string) {
	sub := engine.NewRun(r.Prop, r.Tier, r.P)
	exhW(sub, rule, []string{name})
	for _, o := range sub.Obs {
		if o.Verdict == engine.Unresolved && strings.Contains(o.Construct, "position type tests") {
			continue // the count threshold is for the full set of walks
		}
		r.Obs = append(r.Obs, o)
	}
	for f := range sub.Funcs {
		r.Funcs[f] = true
	}
}

func agreeBranches(r *engine.Run) {
	const rule = "AGREE-branches"
	f := wfn(r, rule, "GetPath")
	mark := wfn(r, rule, "markToCollect")
	collect := wfn(r, rule, "collectNodes")
	if f == nil || mark == nil || collect == nil {
		return
	}
	// blocks of the marking loops
	avoid := map[*ssa.BasicBlock]bool{}
	nloops := 0
	callsMark := func(fn2 *ssa.Function) bool {
		found := false
		engine.Instrs(fn2, func(in ssa.Instruction) {
			if c, ok := in.(*ssa.Call); ok && c.Call.StaticCallee() == mark {
				found = true
			}
		})
		return found
	}
	engine.Instrs(f, func(in ssa.Instruction) {
		c, ok := in.(*ssa.Call)
		if !ok {
			return
		}
		isMark := c.Call.StaticCallee() == mark
		if !isMark {
			for _, a := range c.Call.Args {
				if mc, ok := a.(*ssa.MakeClosure); ok {
					if cf, ok := mc.Fn.(*ssa.Function); ok && callsMark(cf) {
						isMark = true
					}
				}
			}
		}
		if !isMark || !inCycle(c.Block()) {
			return
		}
		nloops++
		// every block on a cycle through this block
		for _, b := range f.Blocks {
			if (b == c.Block() || engine.Reachable(b, c.Block())) && engine.Reachable(c.Block(), b) {
				avoid[b] = true
			}
		}
	})
	if nloops == 0 {
		r.Fail(rule, fn(f)+"|marking loops", r.P.Pos(f.Pos()), "GetPath has no loop that marks the requested keys")
		return
	}
	var cc *ssa.Call
	engine.Instrs(f, func(in ssa.Instruction) {
		if c, ok := in.(*ssa.Call); ok && c.Call.StaticCallee() == collect {
			cc = c
		}
	})
	if cc == nil {
		r.Anchor(rule, fmt.Errorf("unresolved anchor: collectNodes call in GetPath"))
		return
	}
	paths, ok := engine.PathFactsAvoid(f, cc.Block(), avoid, 4096)
	if !ok {
		r.Undec(rule, fn(f)+"|every path marks", r.P.Pos(cc.Pos()), "too many paths")
		return
	}
	detail := ""
	if len(paths) > 0 {
		var ks []string
		for k, v := range paths[0] {
			if v {
				ks = append(ks, k)
			} else {
				ks = append(ks, "!"+k)
			}
		}
		sort.Strings(ks)
		detail = strings.Join(ks, " && ")
	}
	r.Check(len(paths) == 0, rule, fn(f)+"|every path marks", r.P.Pos(cc.Pos()), fmt.Sprintf("%d marking loops; no feasible path reaches the export without passing one", nloops),
		"the export is assembled on a path that skipped both marking loops (requested keys are not marked, everything below the root is collapsed and the partial trie cannot be updated): "+detail)
}

func agreeEmbed(r *engine.Run) {
	const rule = "AGREE-embed"
	w := r.Fn(rule, pkgWMPT, "routingNode", "Serialize")
	rd := branchDecoder(r, rule)
	if w == nil || rd == nil {
		return
	}
	// writer: order of items appended to the embedded child's bytes (branch guarded by child.(*shortNode));
	// the encoding of a child reference may live in a helper of Serialize
	for _, g := range opGroup(r, w) {
		has := false
		engine.Instrs(g, func(in ssa.Instruction) {
			if ta, ok := in.(*ssa.TypeAssert); ok && ta.CommaOk {
				if nm := namedOf(ta.AssertedType); nm != nil && nm.Obj().Name() == "shortNode" {
					has = true
				}
			}
		})
		if has {
			w = g
			break
		}
	}
	var items []string
	var sn ssa.Value
	engine.Instrs(w, func(in ssa.Instruction) {
		if ta, ok := in.(*ssa.TypeAssert); ok && ta.CommaOk {
			if nm := namedOf(ta.AssertedType); nm != nil && nm.Obj().Name() == "shortNode" {
				for _, ref := range engine.Referrers(ta) {
					if ex, ok := ref.(*ssa.Extract); ok && ex.Index == 0 {
						sn = ex
					}
				}
			}
		}
	})
	if sn == nil {
		r.Fail(rule, fn(w)+"|embedded child", r.P.Pos(w.Pos()), "the branch serialisation no longer embeds shared-prefix children: deletes on a partial trie cannot merge without storage")
		return
	}
	var armBlocks map[*ssa.BasicBlock]bool
	{
		ta := sn.(*ssa.Extract).Tuple.(*ssa.TypeAssert)
		succ, _ := armOK(ta)
		armBlocks = map[*ssa.BasicBlock]bool{}
		for _, b := range w.Blocks {
			if succ != nil && succ.Dominates(b) && len(succ.Preds) == 1 {
				armBlocks[b] = true
			}
		}
	}
	order := ""
	for _, b := range w.Blocks {
		if !armBlocks[b] {
			continue
		}
		for _, in := range b.Instrs {
			c, ok := in.(*ssa.Call)
			if !ok {
				continue
			}
			if bi, ok := c.Call.Value.(*ssa.Builtin); ok && bi.Name() == "append" {
				src := c.Call.Args[1]
				switch {
				case isHashCallOnValueOf(src, sn):
					items = append(items, "value.Hash")
				case isMethodResult(src, "Hash"):
					items = append(items, "child.Hash")
				default:
					if ld, ok := src.(*ssa.UnOp); ok {
						if fld := engine.FieldOf(ld.X); fld != nil {
							items = append(items, "child."+fld.Name())
						}
					}
				}
			}
			if sc := c.Call.StaticCallee(); sc != nil && sc.Name() == "AppendUint64" {
				if nm := namedOf(sc.Signature.Recv().Type()); nm != nil {
					order = nm.Obj().Name()
				}
				if isMethodResult(c.Call.Args[len(c.Call.Args)-1], "Weight") {
					items = append(items, "child.Weight")
				}
			}
		}
	}
	wantW := []string{"child.Hash", "child.Weight", "value.Hash", "child.key"}
	r.Check(strings.Join(items, ",") == strings.Join(wantW, ","), rule, fn(w)+"|embedded field order", r.P.Pos(w.Pos()), "writes "+strings.Join(items, ", "),
		"the embedded child is written as ["+strings.Join(items, ", ")+"], the reader expects ["+strings.Join(wantW, ", ")+"]")
	// reader: constant slice bounds on the child bytes and byte order
	type bound struct{ lo, hi string }
	got := map[bound]bool{}
	rorder := ""
	scanReader := func(in ssa.Instruction) {
		switch x := in.(type) {
		case *ssa.Slice:
			if !isByteSlice(x.X.Type()) {
				return
			}
			lo, hi := "", ""
			if x.Low != nil {
				if c := constVal(x.Low); c != nil {
					lo = constant.ToInt(c).ExactString()
				} else {
					lo = "?"
				}
			}
			if x.High != nil {
				if c := constVal(x.High); c != nil {
					hi = constant.ToInt(c).ExactString()
				} else {
					hi = "?"
				}
			}
			got[bound{lo, hi}] = true
		case *ssa.Call:
			if sc := x.Call.StaticCallee(); sc != nil && sc.Name() == "Uint64" && sc.Signature.Recv() != nil {
				if nm := namedOf(sc.Signature.Recv().Type()); nm != nil {
					rorder = nm.Obj().Name()
				}
			}
		}
	}
	// the decoding of one slot may live in a helper of the branch decoder
	for _, g := range opGroup(r, rd) {
		engine.Instrs(g, scanReader)
	}
	wantR := []bound{{"", "32"}, {"32", ""}, {"40", "72"}, {"72", ""}}
	okR := true
	var missing []string
	for _, b := range wantR {
		if b == (bound{"32", ""}) && got[bound{"32", "40"}] {
			continue // the weight cut as [32:40] instead of [32:]: the same eight bytes are read
		}
		if !got[b] {
			okR = false
			missing = append(missing, "["+b.lo+":"+b.hi+"]")
		}
	}
	r.Check(okR, rule, fn(rd)+"|embedded offsets", r.P.Pos(rd.Pos()), "reads [0:32] hash, [32:] weight, [40:72] value hash, [72:] key", "the reader does not slice the embedded child at the offsets the writer produces; missing "+strings.Join(missing, " "))
	r.Check(order != "" && order == rorder, rule, "wmpt.Serialize/DeserializeNode|byte order", r.P.Pos(w.Pos()), "weight written and read as "+order, fmt.Sprintf("weight written with %q, read with %q", order, rorder))
	// pre-order agreement
	for _, spec := range []struct{ name, emit string }{{"collectNodes", "append"}, {"deserializeTrie", "DeserializeNode"}} {
		f := wfn(r, rule, spec.name)
		if f == nil {
			continue
		}
		var first ssa.Instruction
		var recs []ssa.Instruction
		engine.Instrs(f, func(in ssa.Instruction) {
			c, ok := in.(*ssa.Call)
			if !ok {
				return
			}
			if c.Call.StaticCallee() == f {
				recs = append(recs, in)
				return
			}
			if spec.emit == "append" {
				if bi, ok := c.Call.Value.(*ssa.Builtin); ok && bi.Name() == "append" && first == nil {
					first = in
				}
			} else if sc := c.Call.StaticCallee(); sc != nil && sc.Name() == spec.emit {
				first = in
			}
		})
		good := first != nil && len(recs) >= 2
		for _, rc := range recs {
			if first == nil || !engine.InstrDominates(first, rc) {
				good = false
			}
		}
		r.Check(good, rule, fn(f)+"|pre-order", r.P.Pos(f.Pos()), "the node itself is emitted/consumed before its children (branch children in a loop, shared-prefix value)", "the export order (node first, then children) is not kept: import pairs nodes with the wrong positions")
	}
}

func isMethodResult(v ssa.Value, m string) bool {
	c, ok := v.(*ssa.Call)
	if !ok {
		return false
	}
	_, ok = engine.IsMethodCall(c, m)
	return ok
}

// isHashCallOnValueOf: v = (load of sn.value).Hash()
func isHashCallOnValueOf(v ssa.Value, sn ssa.Value) bool {
	c, ok := v.(*ssa.Call)
	if !ok {
		return false
	}
	recv, ok := engine.IsMethodCall(c, "Hash")
	if !ok {
		return false
	}
	ld, ok := recv.(*ssa.UnOp)
	if !ok {
		return false
	}
	fa, ok := ld.X.(*ssa.FieldAddr)
	return ok && fa.X == sn && engine.FieldOf(fa).Name() == "value"
}

// ---- C13 ---------------------------------------------------------------------

func runC13(r *engine.Run) {
	r.Rule("WHO-checkpoint", "the checkpoint (oldRoot) is written by SaveRoot alone: a rollback that resets it makes a second rollback to the same checkpoint install the empty trie")
	r.Rule("DOM-emptied", "where Update/Delete install the empty node as the root after a removal, the installed root reports Dirty(): otherwise the commit of a batch that removes every key is no commit (clean-root shortcut), the created list of the previous commit survives it, and RollbackTrie to a copy taken before the removal deletes the nodes of the state it goes back to")
	r.Rule("PRESENCE-byweight", "no comparison in core/util/wmpt takes a weight of 0 for absence (a weight compared with the constant 0): entries of weight 0 are entries whose hashes their ancestors commit to - a checkpoint copy that skips them, or a rollback that takes a zero-weight root for the empty trie, no longer stands for the checkpoint state")
	r.Rule("AGREE-rollback", "Rollback and RollbackTrie reset the same bookkeeping (created, tempDeleted, deleted) and both delete exactly the hashes in `created` through one batch; RollbackTrie assigns the root from its node argument; the created-hash handler of a commit appends every received hash to the created list")
	r.Rule("AGREE-checkpoint", "the fields of the checkpoint written by SaveRoot (hash, weight of the current root) are exactly those Rollback restores the root from, and SaveRoot resets `created`")
	r.Rule("DOM-created", "see C11: every node a commit writes is recorded as created (also at the collapse level), so that a rollback removes it from storage")
	r.Rule("DEP-checkpoint", "in Rollback every condition that decides which root is installed, and every field of the restored root reference, is computed from the checkpoint (loads below t.oldRoot and constants) only - never from the state being rolled back (t.root, Weight())")
	r.Rule("DOM-sameroot", "every storage delete in RollbackTrie is reached only where bytes.Equal(requested root hash, current root hash) did not test true: asked for the root it already has, RollbackTrie purges nothing")
	r.Rule("DOM-cleanfail", "see C11: a failed delete leaves its search path clean (otherwise the next commit records unchanged checkpoint nodes as created and a rollback deletes them)")
	r.Rule("AGREE-created", "in each arm of commit a node's hash is recorded as created under the same 'hash changed' condition under which its previous hash is recorded as deleted: a node whose hash did not change existed at the checkpoint and must not be removed by a rollback")
	r.Rule("DOM-rollbackinstalls", "every return of RollbackTrie that is reachable after a storage operation is dominated by the store of the node argument into the root field: the rollback, which has no result, installs the requested root also when the purge of the rolled-back commit's nodes fails")
	r.Rule("FRESH-hashbuf", "a node's hash, once computed, is an immutable value: in the weighted trie no value derived from a load of a node's hash field is the destination of copy, the base of append, the target of an element store or, re-sliced, an argument of a call. Hash() hands out the slice itself and the checkpoint, the scheduled deletes and the hash references keep it uncopied")
	r.Rule("DOM-createdkept", "in Commit every reset of the created list (a store of nil / an empty slice into the field, directly or in a callee up to two levels down) is reached only on paths where the root's Dirty() tested true: a Commit that has nothing to save leaves the list a rollback works from alone")
	r.Rule("AGREE-kvops", "see C11: the adapter's Delete is pebble's Delete (a SingleDelete leaves an earlier write of a re-saved node readable: the rollback's purge of created nodes does not remove them)")
	r.Rule("ORDER-stage", "see C11: DeleteNodes deletes only the set staged by the previous pass and stages tempDeleted afterwards (a pass that merges two generations after a failed batch deletes, on retry, the checkpoint's nodes the rolled-back commit replaced)")
	r.Rule("FRESH-copy", "see C10: no return of Copy or CopyRoot is the receiver itself and no child slot of the copy is filled with the receiver's own child object: a checkpoint captured with CopyRoot shares no mutable node with the live trie (insert rewrites value nodes in place, so RollbackTrie to a sharing checkpoint restores the rolled-back value and weight under the checkpoint's root)")
	r.Rule("ORDER-wait", "see C11: Commit closes the created and deleted channels and waits for the collector goroutines before it returns")
	r.Rule("ORDER-joined", "see C11: every collector goroutine signals the WaitGroup Commit waits on, and as many are added as are started (a collector that is not joined appends the checkpoint's replaced hashes after a rollback has reset the lists, and two collection passes later the checkpoint root is deleted from storage)")
	r.NotDec = append(r.NotDec, "resolvability of every checkpoint node after rollback for every history (value-level)")
	agreeRollback(r)
	agreeCheckpoint(r)
	purgeEvery(r, "AGREE-rollback")
	checkpointEvery(r, "AGREE-checkpoint")
	agreeCreated(r)
	domCreated(r, "DOM-created")
	depCheckpoint(r, "DEP-checkpoint")
	domSameRoot(r, "DOM-sameroot")
	rollbackInstalls(r, "AGREE-rollback")
	domCleanFail(r, "DOM-cleanfail")
	domCreatedKept(r, "DOM-createdkept")
	domRollbackInstalls(r, "DOM-rollbackinstalls")
	freshHashBuf(r, "FRESH-hashbuf")
	freshCopy(r, "FRESH-copy")
	orderWait(r, "ORDER-wait")
	orderJoined(r, "ORDER-joined")
	recordsEvery(r, "AGREE-rollback")
	orderStage(r)
	kvAdapter(r, "AGREE-kvops")
	presenceByWeight(r, "PRESENCE-byweight")
	domEmptied(r, "DOM-emptied")
	whoCheckpoint(r, "WHO-checkpoint")
}

func bookkeepingResets(f *ssa.Function) (map[string]bool, bool, bool) {
	reset := map[string]bool{}
	deletesCreated, commits := false, false
	const labCreated engine.Label = 1 << 30
	fl := engine.RunFlow(f, engine.FlowSpec{
		Param: func(p *ssa.Parameter, i int) engine.Label { return 0 },
		HeapLoad: func(ld *ssa.UnOp, base engine.Label) (engine.Label, bool) {
			if fld := engine.FieldOf(ld.X); fld != nil {
				if fld.Name() == "created" {
					return labCreated, true
				}
				return 1 << 31, true
			}
			return base, true
		},
	})
	engine.Instrs(f, func(in ssa.Instruction) {
		switch x := in.(type) {
		case *ssa.Store:
			if fld := engine.FieldOf(x.Addr); fld != nil && nilConst(x.Val) {
				reset[fld.Name()] = true
			}
		case *ssa.Call:
			if b, ok := x.Call.Value.(*ssa.Builtin); ok && b.Name() == "clear" {
				if fld := fieldLoadOf(x.Call.Args[0]); fld != nil {
					reset[fld.Name()] = true
				}
			}
			if x.Call.IsInvoke() && isNamed(x.Call.Value.Type(), pkgStore, "Batcher") {
				switch x.Call.Method.Name() {
				case "Delete":
					if fl.Of(x.Call.Args[0]) == labCreated {
						deletesCreated = true
					}
				case "Commit":
					commits = true
				}
			}
		}
	})
	return reset, deletesCreated, commits
}

func agreeRollback(r *engine.Run) {
	const rule = "AGREE-rollback"
	want := []string{"created", "deleted", "tempDeleted"}
	for _, name := range []string{"Rollback", "RollbackTrie"} {
		f := wfn(r, rule, name)
		if f == nil {
			continue
		}
		reset, del, commit := bookkeepingResets(f)
		// a helper of the same object that the rollback calls with nothing but the
		// receiver (the purge extracted into a method) is part of the rollback
		engine.Instrs(f, func(in ssa.Instruction) {
			c, ok := in.(*ssa.Call)
			if !ok {
				return
			}
			g := c.Call.StaticCallee()
			if g == nil || g == f || len(g.Blocks) == 0 || g.Pkg != f.Pkg || g.Signature.Recv() == nil || len(c.Call.Args) != 1 || c.Call.Args[0] != ssa.Value(f.Params[0]) {
				return
			}
			r2, d2, c2 := bookkeepingResets(g)
			for k := range r2 {
				reset[k] = true
			}
			del = del || d2
			commit = commit || c2
		})
		var missing []string
		for _, w := range want {
			if !reset[w] {
				missing = append(missing, w)
			}
		}
		r.Check(len(missing) == 0, rule, fn(f)+"|resets", r.P.Pos(f.Pos()), "resets created, tempDeleted and deleted",
			"the rollback does not reset "+strings.Join(missing, ", ")+": nodes of the restored checkpoint stay scheduled for deletion (or stale creation records survive) and a later garbage-collection pass or rollback removes live nodes")
		r.Check(del && commit, rule, fn(f)+"|deletes created", r.P.Pos(f.Pos()), "deletes exactly the hashes recorded in `created` through one batch",
			fmt.Sprintf("the rollback does not remove the nodes created since the checkpoint through a committed batch (deletes from created=%v, batch committed=%v)", del, commit))
	}
}

func agreeCheckpoint(r *engine.Run) {
	const rule = "AGREE-checkpoint"
	s := wfn(r, rule, "SaveRoot")
	rb := wfn(r, rule, "Rollback")
	if s == nil || rb == nil {
		return
	}
	written := map[string]string{}
	resetCreated := false
	engine.Instrs(s, func(in ssa.Instruction) {
		st, ok := in.(*ssa.Store)
		if !ok {
			return
		}
		fa, ok := st.Addr.(*ssa.FieldAddr)
		if !ok {
			return
		}
		if engine.FieldOf(fa).Name() == "created" && nilConst(st.Val) {
			resetCreated = true
		}
		if inner, ok := fa.X.(*ssa.FieldAddr); ok && engine.FieldOf(inner).Name() == "oldRoot" {
			src := "?"
			if c, ok := st.Val.(*ssa.Call); ok {
				if recv, ok := engine.IsMethodCall(c, "Hash"); ok && fieldLoadOf(recv) != nil && fieldLoadOf(recv).Name() == "root" {
					src = "root.Hash"
				}
				if recv, ok := engine.IsMethodCall(c, "Weight"); ok && fieldLoadOf(recv) != nil && fieldLoadOf(recv).Name() == "root" {
					src = "root.Weight"
				}
			}
			written[engine.FieldOf(fa).Name()] = src
		}
	})
	r.Check(written["hash"] == "root.Hash" && written["weight"] == "root.Weight", rule, fn(s)+"|checkpoint fields", r.P.Pos(s.Pos()), "checkpoint = (root.Hash(), root.Weight())",
		fmt.Sprintf("SaveRoot does not record the current root's hash and weight (hash<-%s, weight<-%s)", written["hash"], written["weight"]))
	r.Check(resetCreated, rule, fn(s)+"|reset created", r.P.Pos(s.Pos()), "SaveRoot starts a new creation record", "SaveRoot does not reset `created`: a later rollback deletes nodes created before the checkpoint")
	// Rollback builds the restored root from exactly these fields
	read := map[string]bool{}
	engine.Instrs(rb, func(in ssa.Instruction) {
		st, ok := in.(*ssa.Store)
		if !ok {
			return
		}
		fa, ok := st.Addr.(*ssa.FieldAddr)
		if !ok || !isNamed(fa.X.Type(), pkgWMPT, "hashNode") {
			return
		}
		if ld, ok := st.Val.(*ssa.UnOp); ok {
			if src, ok := ld.X.(*ssa.FieldAddr); ok {
				if inner, ok := src.X.(*ssa.FieldAddr); ok && engine.FieldOf(inner).Name() == "oldRoot" && engine.FieldOf(src).Name() == engine.FieldOf(fa).Name() {
					read[engine.FieldOf(fa).Name()] = true
				}
			}
		}
	})
	r.Check(read["hash"] && read["weight"], rule, fn(rb)+"|restore fields", r.P.Pos(rb.Pos()), "restored root = hashNode{checkpoint.hash, checkpoint.weight}",
		fmt.Sprintf("Rollback does not restore the root from the checkpoint's hash and weight (hash=%v weight=%v)", read["hash"], read["weight"]))
}

func agreeCreated(r *engine.Run) {
	const rule = "AGREE-created"
	f := wfn(r, rule, "commit")
	if f == nil {
		return
	}
	createdCh, deleteCh := paramRole(f, "createdChan"), paramRole(f, "deleteChan")
	if createdCh == nil || deleteCh == nil {
		r.Anchor(rule, fmt.Errorf("unresolved anchor: created/deleted channels of %s", fn(f)))
		return
	}
	arms := typeArms(f, f.Params[1])
	n := 0
	for _, kind := range []string{"routingNode", "shortNode", "valueNode"} {
		arm := arms[kind]
		if arm == nil {
			continue
		}
		var cs, ds []chanEvent
		for _, ev := range chanEvents(f, createdCh) {
			if arm.blocks[ev.At.Block()] {
				cs = append(cs, ev)
			}
		}
		for _, ev := range chanEvents(f, deleteCh) {
			if arm.blocks[ev.At.Block()] {
				ds = append(ds, ev)
			}
		}
		if len(cs) == 0 || len(ds) == 0 {
			continue
		}
		n++
		// the condition guarding the deleted-send must also guard the created-send
		good := true
		for _, d := range ds {
			for _, c := range cs {
				if d.Helper != nil || c.Helper != nil {
					// inside a helper: both or neither carry the hash-changed guard
					if (d.GuardA != nil) != (c.GuardA != nil) {
						good = false
					}
					continue
				}
				dAtoms, ok1 := engine.AtomsOn(f, d.At.Block())
				cAtoms, ok2 := engine.AtomsOn(f, c.At.Block())
				if !ok1 || !ok2 {
					good = false
					continue
				}
				for k, v := range dAtoms {
					if !strings.Contains(k, "call@") { // the bytes.Equal(prevHash, n.Hash()) test
						continue
					}
					if cv, had := cAtoms[k]; !had || cv != v {
						good = false
					}
				}
			}
		}
		r.Check(good, rule, fn(f)+"|*"+kind+" arm", r.P.Pos(cs[0].At.Pos()), "created and deleted are recorded under the same hash-changed condition",
			"the node's hash is recorded as created even when it did not change (the previous hash is recorded deleted only when it changed): a rollback then deletes a node that already existed at the checkpoint (SaveRoot; rewrite a key with its old content; Commit; Rollback: checkpoint no longer resolvable)")
	}
	if n < 3 {
		r.Anchor(rule, fmt.Errorf("unresolved anchor: %d arms of commit send on both channels, 3 confirmed by reading", n))
	}
}

// ---- AGREE-linkback --------------------------------------------------------------

func linkBack(r *engine.Run) {
	const rule = "AGREE-linkback"
	mark := wfn(r, rule, "markToCollect")
	if mark == nil {
		return
	}
	n := 0
	var fns []*ssa.Function
	for _, f := range funcsOfPkg(r, pkgWMPT) {
		fns = append(fns, f)
	}
	for _, f := range fns {
		o := ord{}
		engine.Instrs(f, func(in ssa.Instruction) {
			c, ok := in.(*ssa.Call)
			if !ok || c.Call.StaticCallee() != mark {
				return
			}
			pos := c.Call.Args[1]
			ld, isLoad := pos.(*ssa.UnOp)
			if !isLoad {
				return
			}
			addrKey := ""
			switch a := ld.X.(type) {
			case *ssa.IndexAddr:
				if fld := engine.FieldOf(a.X); fld != nil && fld.Name() == "Children" {
					addrKey = engine.ValKey(a)
				}
			case *ssa.FieldAddr:
				if engine.FieldOf(a).Name() == "value" {
					addrKey = engine.ValKey(a)
				}
			}
			if addrKey == "" {
				return // the trie root or a parameter: resolved by the caller
			}
			n++
			r.CallSites++
			var res ssa.Value
			for _, ref := range engine.Referrers(c) {
				if ex, ok := ref.(*ssa.Extract); ok && ex.Index == 0 {
					res = ex
				}
			}
			good := false
			if res != nil {
				engine.Instrs(f, func(i2 ssa.Instruction) {
					if st, ok := i2.(*ssa.Store); ok && st.Val == res && engine.ValKey(st.Addr) == addrKey {
						good = true
					}
				})
			}
			r.Check(good, rule, o.next(fn(f)+"|markToCollect"), r.P.Pos(c.Pos()), "result stored back into the slot the position was read from",
				"the node returned by markToCollect (possibly just loaded from storage) is not stored back into the slot it was read from: the export contains nothing below that slot and the partial trie cannot follow updates of the requested keys")
		})
	}
	if n < 3 {
		r.Anchor(rule, fmt.Errorf("unresolved anchor: %d slot-reading markToCollect calls, 3 confirmed by reading", n))
	}
}

// ---- EXPORT-kind -------------------------------------------------------------------

func exportKind(r *engine.Run) {
	const rule = "EXPORT-kind"
	f := wfn(r, rule, "collectNodes")
	if f == nil {
		return
	}
	n := 0
	engine.Instrs(f, func(in ssa.Instruction) {
		al, ok := in.(*ssa.Alloc)
		if !ok || !isNamed(al.Type(), pkgWMPT, "hashNode") {
			return
		}
		if pt, isPtr := al.Type().(*types.Pointer); !isPtr || namedOf(pt.Elem()) == nil || pt.Elem() != types.Type(namedOf(pt.Elem())) {
			return
		}
		n++
		// every feasible path to the substitution has `node.(*routingNode)` succeeded
		facts, okf := engine.FactsOn(f, al.Block())
		good := false
		if okf {
			for _, ft := range facts {
				if ft.Kind == "bool" && ft.Truth {
					if ex, ok := ft.A.(*ssa.Extract); ok && ex.Index == 1 {
						if ta, ok := ex.Tuple.(*ssa.TypeAssert); ok {
							if nm := namedOf(ta.AssertedType); nm != nil && nm.Obj().Name() == "routingNode" {
								good = true
							}
						}
					}
				}
			}
		}
		r.Check(good, rule, fn(f)+"|hash substitution", r.P.Pos(al.Pos()), "only branches are exported as bare hash references",
			"the export replaces a node by a bare hash reference on a path where it is not known to be a branch: an unrequested shared-prefix/value sibling loses its kind and key in the partial trie, so a delete that folds a two-child branch builds a different node than the full trie (roots diverge)")
	})
	if n == 0 {
		r.Note(rule, fn(f)+"|hash substitution", r.P.Pos(f.Pos()), "collectNodes exports every node in full")
	}
}

// ---- AGREE-limits -------------------------------------------------------------------

func decLimits(f *ssa.Function) map[string]string {
	return decLimitsDepth(f, 0)
}

// decLimitsDepth collects the DecOptions fields set in f or, when f sets none,
// in the package-local helpers it calls (the options may be built in one place).
func decLimitsDepth(f *ssa.Function, depth int) map[string]string {
	out := map[string]string{}
	defer func() {
		if len(out) > 0 || depth > 1 {
			return
		}
		engine.Instrs(f, func(in ssa.Instruction) {
			c, ok := in.(*ssa.Call)
			if !ok {
				return
			}
			g := c.Call.StaticCallee()
			if g == nil || g.Pkg != f.Pkg || len(g.Blocks) == 0 || g == f {
				return
			}
			for k, v := range decLimitsDepth(g, depth+1) {
				out[k] = v
			}
		})
		if len(out) > 0 || f.Pkg == nil {
			return
		}
		// a decoding mode built once and kept in a package-level variable: the
		// options are set where that variable is initialised
		initf := f.Pkg.Func("init")
		if initf == nil {
			return
		}
		engine.Instrs(f, func(in ssa.Instruction) {
			ld, ok := in.(*ssa.UnOp)
			if !ok || ld.Op != token.MUL {
				return
			}
			g, ok := ld.X.(*ssa.Global)
			if !ok || !strings.Contains(g.Type().String(), "cbor") {
				return
			}
			engine.Instrs(initf, func(in2 ssa.Instruction) {
				st, ok := in2.(*ssa.Store)
				if !ok || st.Addr != ssa.Value(g) {
					return
				}
				v := st.Val
				if ex, ok := v.(*ssa.Extract); ok {
					v = ex.Tuple
				}
				if c, ok := v.(*ssa.Call); ok {
					if h := c.Call.StaticCallee(); h != nil && len(h.Blocks) > 0 && h.Pkg == f.Pkg {
						for k, x := range decLimitsDepth(h, depth+1) {
							out[k] = x
						}
						return
					}
				}
				// built inline in the package initialiser
				for k, x := range decLimitsDepth(initf, 2) {
					out[k] = x
				}
			})
		})
	}()
	engine.Instrs(f, func(in ssa.Instruction) {
		st, ok := in.(*ssa.Store)
		if !ok {
			return
		}
		fa, ok := st.Addr.(*ssa.FieldAddr)
		if !ok || !isNamed(fa.X.Type(), "fxamacker/cbor/v2", "DecOptions") {
			return
		}
		if c := constVal(st.Val); c != nil {
			out[engine.FieldOf(fa).Name()] = c.ExactString()
		} else {
			out[engine.FieldOf(fa).Name()] = "?"
		}
	})
	return out
}

func agreeLimits(r *engine.Run, rule string) {
	d := wfn(r, rule, "Deserialize")
	v := wfn(r, rule, "VerifyBlockProof")
	if d == nil || v == nil {
		return
	}
	a, b := decLimits(d), decLimits(v)
	same := len(a) == len(b)
	for k, x := range a {
		if b[k] != x {
			same = false
		}
	}
	r.Check(same && len(a) > 0, rule, "wmpt.Deserialize/VerifyBlockProof|DecOptions", r.P.Pos(v.Pos()), fmt.Sprintf("both decode with %v", a),
		fmt.Sprintf("the export importer decodes with %v but the proof verifier with %v: honest proofs or exports of a deep or wide trie are rejected by one of them", a, b))
	// an export is one CBOR array of node records whose length grows with the number
	// of requested keys: the importer must lift the library's default array limit
	// (131072 elements), or an honest export of a large key set is rejected
	const cborDefaultMaxArray = 131072
	lifted := false
	if x, ok := a["MaxArrayElements"]; ok {
		if n, err := strconv.ParseInt(x, 10, 64); err == nil && n > cborDefaultMaxArray {
			lifted = true
		}
	}
	r.Check(lifted, rule, "wmpt.Deserialize|MaxArrayElements", r.P.Pos(d.Pos()), "the importer raises the CBOR array limit above the library default: "+a["MaxArrayElements"],
		fmt.Sprintf("the export importer decodes with %v: the number of node records in an export is bounded by the CBOR library's default array limit (%d), so the export for a large set of requested keys is produced but cannot be imported", a, cborDefaultMaxArray))
}

// domMarked: every node that markToCollect reaches on the path of a requested
// key is marked for export, also when the key turns out to be absent below it:
// a later insert of that key on the partial trie modifies exactly this node.
func domMarked(r *engine.Run, rule string) {
	f := wfn(r, rule, "markToCollect")
	if f == nil {
		return
	}
	nodeP := paramRole(f, "node")
	arms := typeArms(f, nodeP)
	n := 0
	for _, kind := range []string{"routingNode", "shortNode"} {
		arm := arms[kind]
		if arm == nil {
			r.Anchor(rule, fmt.Errorf("unresolved anchor: *%s arm of markToCollect", kind))
			continue
		}
		var marks []ssa.Instruction
		engine.Instrs(f, func(in ssa.Instruction) {
			st, ok := in.(*ssa.Store)
			if !ok {
				return
			}
			fa, ok := st.Addr.(*ssa.FieldAddr)
			if !ok || fa.X != arm.asserted || engine.FieldOf(fa).Name() != "toCollect" {
				return
			}
			if c, ok := st.Val.(*ssa.Const); ok && c.Value != nil && c.Value.ExactString() == "true" {
				marks = append(marks, st)
			}
		})
		o := ord{}
		for _, ret := range engine.Returns(f) {
			if !arm.blocks[ret.Block()] || len(ret.Results) != 2 || !nilConst(ret.Results[1]) {
				continue
			}
			n++
			good := false
			for _, m := range marks {
				if engine.InstrDominates(m, ret) {
					good = true
				}
			}
			r.Check(good, rule, o.next(fn(f)+"|*"+kind+" arm success"), r.P.Pos(ret.Pos()), "the node is marked (toCollect = true) before the arm returns successfully",
				"a node on the path of a requested key is returned unmarked: it is exported as a bare hash, and an insert of that (absent) key fails or diverges on the partial trie")
		}
	}
	// the shared-prefix arm goes on below the node whenever the node's key matches the
	// requested key at this position: a success return of the arm that is not reached
	// through the recursion on the node's child is reached only where the match failed
	// (bytes.Equal / HasPrefix tested false, or the rest of the key tested shorter than
	// the node's key). The value below a matching leaf may be collapsed to a hash: only
	// the recursion loads it, and an export that carries the bare hash cannot be updated.
	if arm := arms["shortNode"]; arm != nil {
		var rec []*ssa.Call
		engine.Instrs(f, func(in ssa.Instruction) {
			c, ok := in.(*ssa.Call)
			if !ok || c.Call.StaticCallee() != f || !arm.blocks[c.Block()] {
				return
			}
			for _, a := range c.Call.Args {
				if base, fld, ok := loadOfField(a); ok && base == arm.asserted && fld == "value" {
					rec = append(rec, c)
				}
			}
		})
		if len(rec) == 0 {
			r.Anchor(rule, fmt.Errorf("unresolved anchor: recursion of markToCollect on the shared-prefix node's child"))
		} else {
			need := map[string]bool{} // atom key -> truth that establishes the mismatch
			for _, b := range f.Blocks {
				iff, ok := b.Instrs[len(b.Instrs)-1].(*ssa.If)
				if !ok {
					continue
				}
				v := iff.Cond
				for {
					if u, ok := v.(*ssa.UnOp); ok && u.Op == token.NOT {
						v = u.X
						continue
					}
					break
				}
				key, _ := engine.CondAtom(iff.Cond)
				switch x := v.(type) {
				case *ssa.Call:
					if extCalleeIs(x, "bytes", "", "Equal") || extCalleeIs(x, "bytes", "", "HasPrefix") {
						need[key] = false
					}
				case *ssa.BinOp:
					var lo, hi ssa.Value
					switch x.Op {
					case token.LSS:
						lo, hi = x.X, x.Y
					case token.GTR:
						lo, hi = x.Y, x.X
					}
					if hi != nil && isLenOfField(hi, arm.asserted) && !strings.Contains(engine.ValKey(lo), engine.ValKey(hi)) {
						need[key] = true
					}
				}
			}
			avoid := map[*ssa.BasicBlock]bool{}
			for _, c := range rec {
				avoid[c.Block()] = true
			}
			o := ord{}
			for _, ret := range engine.Returns(f) {
				if !arm.blocks[ret.Block()] || len(ret.Results) != 2 || !nilConst(ret.Results[1]) {
					continue
				}
				dominated := false
				for _, c := range rec {
					if c.Block() == ret.Block() || c.Block().Dominates(ret.Block()) {
						dominated = true
					}
				}
				if dominated {
					continue
				}
				n++
				paths, ok := engine.PathFactsAvoid(f, ret.Block(), avoid, 4096)
				good := ok
				for _, p := range paths {
					hit := false
					for k, want := range need {
						if got, has := p[k]; has && got == want {
							hit = true
						}
					}
					if !hit {
						good = false
					}
				}
				r.Check(good, rule, o.next(fn(f)+"|*shortNode arm stops"), r.P.Pos(ret.Pos()), "the arm stops without descending only where the node's key was tested not to match the requested key",
					"markToCollect stops at a shared-prefix node whose key matches the requested key without descending into its child: a child that is collapsed to a hash is never loaded, so the export carries a bare hash for a requested key's value and the partial trie cannot update or delete that key (the full trie can)")
			}
		}
	}
	// GetPath's parallel collection starts below a branch root: the root itself
	// is on every requested path and is marked by GetPath, before the workers start
	gp := wfn(r, rule, "GetPath")
	if gp != nil {
		for _, an := range gp.AnonFuncs {
			engine.Instrs(an, func(in ssa.Instruction) {
				c, ok := in.(*ssa.Call)
				if !ok || c.Call.StaticCallee() != f {
					return
				}
				var nodeArg ssa.Value
				for i, p := range f.Params {
					if ssa.Value(p) == nodeP && i < len(c.Call.Args) {
						nodeArg = c.Call.Args[i]
					}
				}
				arr, _, ok := loadOfIndex(nodeArg)
				if !ok {
					return
				}
				base, ok := childrenOf(arr)
				if !ok {
					return
				}
				// the branch is a captured variable: find its binding at the closure's creation
				var branch ssa.Value
				var made *ssa.MakeClosure
				viaCell := false
				if ld, ok := base.(*ssa.UnOp); ok && ld.Op == token.MUL {
					if _, ok := ld.X.(*ssa.FreeVar); ok {
						base, viaCell = ld.X, true // captured by reference: a cell holding the branch
					}
				}
				if fv, ok := base.(*ssa.FreeVar); ok {
					engine.Instrs(gp, func(in2 ssa.Instruction) {
						mc, ok := in2.(*ssa.MakeClosure)
						if !ok || mc.Fn != ssa.Value(an) {
							return
						}
						for i, v := range an.FreeVars {
							if v == fv && i < len(mc.Bindings) {
								branch, made = mc.Bindings[i], mc
							}
						}
					})
				}
				n++
				good := false
				if branch != nil {
					engine.Instrs(gp, func(in2 ssa.Instruction) {
						st, ok := in2.(*ssa.Store)
						if !ok {
							return
						}
						fa, ok := st.Addr.(*ssa.FieldAddr)
						if !ok || engine.FieldOf(fa).Name() != "toCollect" {
							return
						}
						if viaCell {
							ld, ok := fa.X.(*ssa.UnOp)
							if !ok || ld.Op != token.MUL || ld.X != branch {
								return
							}
						} else if fa.X != branch {
							return
						}
						if k, ok := st.Val.(*ssa.Const); ok && k.Value != nil && k.Value.ExactString() == "true" && engine.InstrDominates(st, made) {
							good = true
						}
					})
				}
				r.Check(good, rule, fn(gp)+"|branch root of the parallel collection", r.P.Pos(c.Pos()), "the branch whose children the workers mark is itself marked before the workers are started",
					"the parallel collection marks the nodes below the root branch but not the root branch itself: collectNodes exports an unmarked branch as a bare hash, so the export consists of the root's hash only")
			})
		}
	}
	if n < 3 {
		r.Anchor(rule, fmt.Errorf("unresolved anchor: %d success returns in the branch/shared-prefix arms of markToCollect", n))
	}
}

// domNoDB: a storage-less (partial) trie keeps an unresolved reference instead
// of failing: resolve reaches the storage lookup only when t.db != nil tested,
// or resolveHashNode itself has a nil-error return under db == nil.
func domNoDB(r *engine.Run, rule string) {
	f := wfn(r, rule, "resolve")
	g := wfn(r, rule, "resolveHashNode")
	if f == nil || g == nil {
		return
	}
	dbNil := func(h *ssa.Function, b *ssa.BasicBlock) (known, isNil bool) {
		atoms, ok := engine.AtomsOn(h, b)
		if !ok {
			return false, false
		}
		for _, blk := range h.Blocks {
			iff, ok := blk.Instrs[len(blk.Instrs)-1].(*ssa.If)
			if !ok {
				continue
			}
			bo, ok := iff.Cond.(*ssa.BinOp)
			if !ok || (bo.Op != token.EQL && bo.Op != token.NEQ) || !nilConst(bo.Y) {
				continue
			}
			if fld := fieldLoadOf(bo.X); fld == nil || fld.Name() != "db" {
				continue
			}
			key, pos := engine.CondAtom(iff.Cond)
			if t, had := atoms[key]; had {
				condTrue := t == pos
				return true, (bo.Op == token.EQL) == condTrue
			}
		}
		return false, false
	}
	n := 0
	engine.Instrs(f, func(in ssa.Instruction) {
		c, ok := in.(*ssa.Call)
		if !ok || c.Call.StaticCallee() != g {
			return
		}
		n++
		known, isNil := dbNil(f, c.Block())
		good := known && !isNil
		if !good {
			// alternative: resolveHashNode tolerates a missing store
			for _, ret := range engine.Returns(g) {
				if len(ret.Results) == 2 && nilConst(resultValue(ret, 1)) {
					if k, isN := dbNil(g, ret.Block()); k && isN {
						good = true
					}
				}
			}
		}
		r.Check(good, rule, fn(f)+"|storage lookup", r.P.Pos(c.Pos()), "the storage lookup is reached only with a store present (db != nil tested); without one the reference is kept unresolved",
			"resolve consults the store without testing that the trie has one: on a partial trie (no store) the branch reduction of delete fails where the full trie succeeds, so the two diverge")
	})
	if n < 1 {
		r.Anchor(rule, fmt.Errorf("unresolved anchor: call of resolveHashNode in resolve"))
	}
}

// depCheckpoint: what Rollback installs as the root is decided by, and built
// from, the checkpoint only (never the state being rolled back).
func depCheckpoint(r *engine.Run, rule string) {
	f := wfn(r, rule, "Rollback")
	if f == nil {
		return
	}
	// onlyCheckpoint: v is computed from constants and loads below t.oldRoot
	helperBad, helperWeight := "", ""
	var onlyCk func(v ssa.Value, depth int) (bool, string)
	onlyCk = func(v ssa.Value, depth int) (bool, string) {
		if depth > 8 {
			return false, "too deep"
		}
		switch x := v.(type) {
		case *ssa.Const:
			return true, ""
		case *ssa.BinOp:
			if ok, why := onlyCk(x.X, depth+1); !ok {
				return false, why
			}
			return onlyCk(x.Y, depth+1)
		case *ssa.UnOp:
			if x.Op == token.MUL {
				if strings.Contains(engine.AddrPath(x.X), "oldRoot") {
					return true, ""
				}
				// a package-level value that no function of the package assigns (the hash of the empty trie)
				if g, ok := x.X.(*ssa.Global); ok && !globalAssigned(r, g) {
					return true, ""
				}
				return false, "reads " + engine.AddrPath(x.X)
			}
			return onlyCk(x.X, depth+1)
		case *ssa.Call:
			if b, ok := x.Call.Value.(*ssa.Builtin); ok && b.Name() == "len" {
				return onlyCk(x.Call.Args[0], depth+1)
			}
			if isBytesEq(x) {
				for _, a := range x.Call.Args {
					if ok, why := onlyCk(a, depth+1); !ok {
						return false, why
					}
				}
				return true, ""
			}
			// a predicate of the trie that exists only for Rollback and itself looks at the checkpoint only
			if g := x.Call.StaticCallee(); g != nil && g != f && inGroup(opGroup(r, f), g) && len(x.Call.Args) == 1 && x.Call.Args[0] == ssa.Value(f.Params[0]) {
				for _, ret := range engine.Returns(g) {
					for _, res := range ret.Results {
						if ok, why := onlyCk(res, depth+1); !ok {
							return false, "helper " + g.Name() + ": " + why
						}
					}
				}
				engine.Instrs(g, func(in ssa.Instruction) {
					if iff, ok := in.(*ssa.If); ok {
						if ok, _ := onlyCk(iff.Cond, depth+1); !ok {
							helperBad = "helper " + g.Name() + " decides by something other than the checkpoint"
						}
						if weightTest(iff.Cond) {
							helperWeight = r.P.Pos(iff.Cond.Pos())
						}
					}
					if b, ok := in.(*ssa.BinOp); ok && weightTest(b) {
						helperWeight = r.P.Pos(b.Pos())
					}
				})
				if helperBad != "" {
					return false, helperBad
				}
				return true, ""
			}
			return false, "calls " + engine.CalleeName(x)
		case *ssa.ChangeType:
			return onlyCk(x.X, depth+1)
		case *ssa.Convert:
			return onlyCk(x.X, depth+1)
		case *ssa.Phi:
			// a || b, a && b: every joined value, and the conditions that select between them
			for _, e := range x.Edges {
				if ok, why := onlyCk(e, depth+1); !ok {
					return false, why
				}
			}
			return true, ""
		}
		return false, fmt.Sprintf("%T", v)
	}
	n := 0
	o := ord{}
	emptinessReported := false
	engine.Instrs(f, func(in ssa.Instruction) {
		st, ok := in.(*ssa.Store)
		if !ok {
			return
		}
		fld := engine.FieldOf(st.Addr)
		if fld == nil || fld.Name() != "root" {
			return
		}
		n++
		// the conditions that decide whether this store executes
		bad := ""
		byWeight := ""
		for _, b := range f.Blocks {
			iff, ok := b.Instrs[len(b.Instrs)-1].(*ssa.If)
			if !ok {
				continue
			}
			decides := false
			for k := range b.Succs {
				if engine.EdgeDominates(b, k, st.Block()) != engine.EdgeDominates(b, 1-k, st.Block()) {
					decides = true
				}
			}
			if !decides {
				continue
			}
			if ok, why := onlyCk(iff.Cond, 0); !ok {
				bad = "the condition at " + r.P.Pos(iff.Pos()) + " " + why
			}
			if weightTest(iff.Cond) {
				byWeight = r.P.Pos(iff.Cond.Pos())
			}
			if helperWeight != "" {
				byWeight = helperWeight
			}
		}
		// a restored reference is built from the checkpoint's fields
		if mi, ok := st.Val.(*ssa.MakeInterface); ok {
			if al, ok := mi.X.(*ssa.Alloc); ok {
				for _, ref := range engine.Referrers(al) {
					if fa, ok := ref.(*ssa.FieldAddr); ok {
						for _, r2 := range engine.Referrers(fa) {
							if s2, ok := r2.(*ssa.Store); ok && s2.Addr == ssa.Value(fa) {
								if ok, why := onlyCk(s2.Val, 0); !ok {
									bad = "field " + engine.FieldOf(fa).Name() + " of the restored root " + why
								}
							}
						}
					}
				}
			}
		}
		if byWeight != "" && !emptinessReported {
			emptinessReported = true
			r.Fail(rule, fn(f)+"|emptiness by hash", byWeight, "whether the checkpoint is the empty trie is decided by its weight: entries of weight 0 are entries, so a checkpoint of total weight 0 that holds keys is rolled back to the empty trie instead of its own root")
		}
		r.Check(bad == "", rule, o.next(fn(f)+"|store root"), r.P.Pos(st.Pos()), "decided by and built from the checkpoint (oldRoot) only",
			"what Rollback installs as the root depends on the state being rolled back ("+bad+"): after a commit that deleted every key, or from an empty checkpoint, the checkpoint is not restored")
	})
	if n < 2 {
		r.Anchor(rule, fmt.Errorf("unresolved anchor: %d stores to root in Rollback", n))
	}
	if !emptinessReported {
		r.OK(rule, fn(f)+"|emptiness by hash", r.P.Pos(f.Pos()), "no weight comparison decides which root is installed")
	}
	// RollbackTrie: the same for the node it is given
	if g := wfn(r, rule, "RollbackTrie"); g != nil {
		pos := ""
		engine.Instrs(g, func(in ssa.Instruction) {
			if iff, ok := in.(*ssa.If); ok && weightTest(iff.Cond) {
				pos = r.P.Pos(iff.Cond.Pos())
			}
		})
		r.Check(pos == "", rule, fn(g)+"|emptiness by hash", r.P.Pos(g.Pos()), "no weight comparison decides which root is installed",
			"whether the requested root is the empty trie is decided by its weight ("+pos+"): a root of total weight 0 that holds keys (entries of weight 0) is replaced by the empty trie")
	}
}

// weightTest: a comparison of a weight (a load of a weight field, a Weight() call) with the constant 0.
func weightTest(c ssa.Value) bool {
	for {
		u, ok := c.(*ssa.UnOp)
		if !ok || u.Op != token.NOT {
			break
		}
		c = u.X
	}
	b, ok := c.(*ssa.BinOp)
	if !ok {
		return false
	}
	x, y := b.X, b.Y
	if isZero(x) {
		x, y = y, x
	}
	if !isZero(y) {
		return false
	}
	if fl := fieldLoadOf(x); fl != nil && fl.Name() == "weight" {
		if _, isLoad := x.(*ssa.UnOp); isLoad {
			return true
		}
	}
	if cc, ok := x.(*ssa.Call); ok {
		if _, ok := engine.IsMethodCall(cc, "Weight"); ok {
			return true
		}
	}
	return false
}

// globalAssigned: some function of the repository (other than a package initialiser) stores into g.
func globalAssigned(r *engine.Run, g *ssa.Global) bool {
	for _, f := range r.P.RepoFuncs() {
		if f.Name() == "init" || strings.HasPrefix(f.Name(), "init#") {
			continue
		}
		found := false
		engine.Instrs(f, func(in ssa.Instruction) {
			if st, ok := in.(*ssa.Store); ok && st.Addr == ssa.Value(g) {
				found = true
			}
		})
		if found {
			return true
		}
	}
	return false
}

// lockMark: in the parallel collection of GetPath each worker marks its key's
// path below a root child while holding that child's mutex: the Lock dominates
// the markToCollect call, and the matching Unlock is deferred or comes after the
// child is written back. Two workers under one root child otherwise each resolve
// their own copy of the collapsed child and the later write-back drops the
// other's marks.
func lockMark(r *engine.Run, rule string) {
	f := wfn(r, rule, "GetPath")
	if f == nil {
		return
	}
	n := 0
	var scan func(g *ssa.Function)
	scan = func(g *ssa.Function) {
		if g.Parent() != nil { // closures only: the workers
			o := ord{}
			engine.Instrs(g, func(in ssa.Instruction) {
				c, ok := in.(*ssa.Call)
				if !ok || c.Call.StaticCallee() == nil || c.Call.StaticCallee().Name() != "markToCollect" {
					return
				}
				n++
				locked := false
				engine.Instrs(g, func(i2 ssa.Instruction) {
					lc, ok := i2.(*ssa.Call)
					if !ok {
						return
					}
					if _, op, isLock := engine.LockOp(lc); isLock && op == "Lock" && engine.InstrDominates(lc, c) {
						// not released before the call
						released := false
						engine.Instrs(g, func(i3 ssa.Instruction) {
							uc, ok := i3.(*ssa.Call)
							if !ok {
								return
							}
							if _, op3, isL := engine.LockOp(uc); isL && op3 == "Unlock" && engine.ReachableAfter(lc, uc) && engine.ReachableAfter(uc, c) {
								released = true
							}
						})
						if !released {
							locked = true
						}
					}
				})
				r.Check(locked, rule, o.next(fn(g)+"|mark under the branch lock"), r.P.Pos(c.Pos()), "the worker holds a mutex from before markToCollect until after the write-back",
					"a worker of the parallel path collection marks (and resolves) a root child without holding that child's lock: two keys under one root child each work on their own copy and the later write-back loses the other key's path")
			})
		}
		for _, a := range g.AnonFuncs {
			scan(a)
		}
	}
	scan(f)
	if n < 1 {
		r.Anchor(rule, fmt.Errorf("unresolved anchor: markToCollect call in a worker of GetPath"))
	}
}

// refComplete: a reference node names its target's hash and carries its weight:
// every hashNode built in the package has both fields set. A weightless
// reference is invisible to the import check (weights are summed from the
// parents' entries) and shows only when a later split reads it.
func refComplete(r *engine.Run, rule string) {
	n := 0
	for _, f := range funcsOfPkg(r, pkgWMPT) {
		if isGenFile(r, f.Pos()) {
			continue
		}
		o := ord{}
		engine.Instrs(f, func(in ssa.Instruction) {
			al, ok := in.(*ssa.Alloc)
			if !ok {
				return
			}
			nm := namedOf(al.Type())
			if nm == nil || nm.Obj().Name() != "hashNode" {
				return
			}
			set := map[string]bool{}
			for _, ref := range engine.Referrers(al) {
				if fa, ok := ref.(*ssa.FieldAddr); ok {
					for _, r2 := range engine.Referrers(fa) {
						if st, ok := r2.(*ssa.Store); ok && st.Addr == ssa.Value(fa) {
							set[engine.FieldOf(fa).Name()] = true
						}
					}
				}
			}
			if len(set) == 0 {
				return // a zero value used as a decode target elsewhere
			}
			n++
			r.Check(set["hash"] && set["weight"], rule, o.next(fn(f)+"|hashNode"), r.P.Pos(al.Pos()), "the reference carries hash and weight",
				fmt.Sprintf("a reference node is built without its %s: the subtree it stands for has no weight (or no identity) wherever the reference itself is read - a split above it computes a wrong branch weight and the roots diverge", map[bool]string{true: "weight", false: "hash"}[set["hash"]]))
		})
	}
	if n < 4 {
		r.Anchor(rule, fmt.Errorf("unresolved anchor: %d hashNode constructions found", n))
	}
}

// domSameRoot: RollbackTrie purges the nodes recorded as created only when it
// really moves to another root: every storage delete in RollbackTrie is reached
// only where the requested root tested different from the current root (or the
// requested root is empty).
func domSameRoot(r *engine.Run, rule string) {
	f := wfn(r, rule, "RollbackTrie")
	if f == nil {
		return
	}
	var eq *ssa.Call
	engine.Instrs(f, func(in ssa.Instruction) {
		if c, ok := in.(*ssa.Call); ok && isBytesEq(c) {
			// the comparison with the current root's hash (there may be others: with the empty trie's hash)
			for _, a := range c.Call.Args {
				if hc, ok := a.(*ssa.Call); ok {
					if recv, ok := engine.IsMethodCall(hc, "Hash"); ok {
						if fl := fieldLoadOf(recv); fl != nil && fl.Name() == "root" {
							eq = c
						}
					}
				}
			}
		}
	})
	n := 0
	o := ord{}
	engine.Instrs(f, func(in ssa.Instruction) {
		c, ok := in.(*ssa.Call)
		if !ok {
			return
		}
		deletes := c.Call.IsInvoke() && c.Call.Method.Name() == "Delete"
		if g := c.Call.StaticCallee(); !deletes && g != nil && g != f && g.Pkg == f.Pkg && len(g.Blocks) > 0 && g.Signature.Recv() != nil {
			// the purge extracted into a method of the trie
			engine.Instrs(g, func(i2 ssa.Instruction) {
				if c2, ok := i2.(*ssa.Call); ok && c2.Call.IsInvoke() && c2.Call.Method.Name() == "Delete" && isNamed(c2.Call.Value.Type(), pkgStore, "Batcher") {
					deletes = true
				}
			})
		}
		if !deletes {
			return
		}
		n++
		good := false
		if eq != nil {
			// no feasible path reaches the delete with the roots tested equal
			paths, okp := engine.PathFacts(f, c.Block(), 4096)
			good = okp
			for _, p := range paths {
				if v, had := pathTruth(p, eq); had && v {
					good = false
				}
			}
		}
		r.Check(good, rule, o.next(fn(f)+"|purge created"), r.P.Pos(c.Pos()), "storage deletes are reached only where the requested root differs from the current one",
			"RollbackTrie deletes the nodes recorded as created also when it is asked for the root it already has: a committed batch without net effect re-saved checkpoint nodes under their own hashes, and the purge removes them")
	})
	if n < 1 || eq == nil {
		r.Anchor(rule, fmt.Errorf("unresolved anchor: storage deletes (%d) / same-root comparison in RollbackTrie", n))
	}
}

// rollbackInstalls: RollbackTrie installs the root it is given (or the empty
// node), and the created-hash handler of a commit records every hash it
// receives, so that a rollback knows what the rolled-back commit wrote.
func rollbackInstalls(r *engine.Run, rule string) {
	if f := wfn(r, rule, "RollbackTrie"); f != nil {
		nodeP := f.Params[1]
		installs := false
		engine.Instrs(f, func(in ssa.Instruction) {
			st, ok := in.(*ssa.Store)
			if !ok {
				return
			}
			if fld := engine.FieldOf(st.Addr); fld != nil && fld.Name() == "root" && dependsOn(st.Val, nodeP) {
				installs = true
			}
		})
		r.Check(installs, rule, fn(f)+"|installs the requested root", r.P.Pos(f.Pos()), "the root field is assigned from the node argument",
			"RollbackTrie no longer installs the root it was asked to go back to: the trie keeps the rolled-back state while its bookkeeping is reset")
	}
	if f := wfn(r, rule, "collectDeleteAndCreated"); f != nil {
		records := false
		var scan func(g *ssa.Function, inHandler bool, depth int)
		scan = func(g *ssa.Function, inHandler bool, depth int) {
			engine.Instrs(g, func(in ssa.Instruction) {
				if c, ok := in.(*ssa.Call); ok && inHandler && depth < 2 {
					// the handler hands each hash to a trie method that does the bookkeeping
					if h := c.Call.StaticCallee(); h != nil && h.Pkg == f.Pkg && len(h.Blocks) > 0 && h != g {
						scan(h, true, depth+1)
					}
				}
				st, ok := in.(*ssa.Store)
				if !ok {
					return
				}
				if fld := engine.FieldOf(st.Addr); fld != nil && fld.Name() == "created" {
					if c, ok := st.Val.(*ssa.Call); ok {
						if b, ok := c.Call.Value.(*ssa.Builtin); ok && b.Name() == "append" && inHandler {
							records = true
						}
					}
				}
			})
			for _, a := range g.AnonFuncs {
				scan(a, true, depth)
			}
		}
		scan(f, false, 0)
		r.Check(records, rule, fn(f)+"|records created hashes", r.P.Pos(f.Pos()), "the created-hash handler appends each received hash to the created list",
			"the hashes of the nodes a commit writes are no longer recorded: a rollback cannot remove what the rolled-back commit created")
	}
}

// domCreatedKept: the created list is what a rollback removes from storage. A
// commit that saves nodes starts a new list; a Commit that finds nothing to
// save (root not dirty) must leave the list of the preceding commit alone,
// otherwise checkpoint / changes / Commit / Commit (periodic flush, retry) /
// rollback leaves every node of the rolled-back commit in storage.
//
// Rule: in Commit every reset of `created` (a store of nil or an empty slice
// into the field, directly or in a callee up to two levels down) is reached
// only on paths where the root's Dirty() tested true.
func domCreatedKept(r *engine.Run, rule string) {
	f := wfn(r, rule, "Commit")
	if f == nil {
		return
	}
	var resetsCreated func(g *ssa.Function, depth int) bool
	resetsCreated = func(g *ssa.Function, depth int) bool {
		found := false
		engine.Instrs(g, func(in ssa.Instruction) {
			switch x := in.(type) {
			case *ssa.Store:
				if fld := engine.FieldOf(x.Addr); fld != nil && fld.Name() == "created" {
					if nilConst(x.Val) {
						found = true
					}
					if ms, ok := x.Val.(*ssa.MakeSlice); ok {
						if k, ok := intConst(ms.Len); ok && k == 0 {
							found = true
						}
					}
					if sl, ok := x.Val.(*ssa.Slice); ok && sl.High != nil {
						if k, ok := intConst(sl.High); ok && k == 0 {
							found = true
						}
					}
				}
			case *ssa.Call:
				if sc := x.Call.StaticCallee(); sc != nil && depth < 2 && len(sc.Blocks) > 0 && sc != g && inRepo(sc) {
					if resetsCreated(sc, depth+1) {
						found = true
					}
				}
			}
		})
		return found
	}
	n := 0
	o := ord{}
	engine.Instrs(f, func(in ssa.Instruction) {
		var site ssa.Instruction
		switch x := in.(type) {
		case *ssa.Store:
			if fld := engine.FieldOf(x.Addr); fld != nil && fld.Name() == "created" {
				if _, isLoadAppend := x.Val.(*ssa.Call); !isLoadAppend {
					site = x
				}
			}
		case *ssa.Call:
			if sc := x.Call.StaticCallee(); sc != nil && len(sc.Blocks) > 0 && inRepo(sc) && sc != f && resetsCreated(sc, 1) {
				site = x
			}
		}
		if site == nil {
			return
		}
		n++
		dirty := false
		if facts, ok := engine.FactsOn(f, site.Block()); ok {
			for _, ft := range facts {
				if ft.Kind != "bool" || !ft.Truth {
					continue
				}
				if c, ok := ft.A.(*ssa.Call); ok && c.Call.IsInvoke() && c.Call.Method.Name() == "Dirty" {
					dirty = true
				}
			}
		}
		r.Check(dirty, rule, o.next(fn(f)+"|created reset"), r.P.Pos(site.Pos()), "the created list is reset only where the root's Dirty() tested true",
			"Commit resets the created list on a path where it has not established that there is anything to save: a Commit with nothing dirty (periodic flush, retry) wipes the list the preceding commit wrote, so a rollback no longer removes the nodes that commit created")
	})
	if n < 1 {
		r.Anchor(rule, fmt.Errorf("unresolved anchor: no reset of the created list reachable from Commit"))
	}
}

// domRollbackInstalls: a rollback has no result: it cannot report that it did
// not happen. Once it has passed its "nothing to do" tests, it installs the
// requested root on every path; a storage failure while purging the rolled-back
// commit's nodes must not leave the trie at the rolled-back root.
//
// Rule: every return of RollbackTrie that is reachable after a storage
// operation (NewBatch / Delete / Commit on the batch) is dominated by the store
// of the node argument into the root field.
func domRollbackInstalls(r *engine.Run, rule string) {
	f := wfn(r, rule, "RollbackTrie")
	if f == nil {
		return
	}
	var rootStore *ssa.Store
	var storageOps []ssa.Instruction
	engine.Instrs(f, func(in ssa.Instruction) {
		switch x := in.(type) {
		case *ssa.Store:
			if fld := engine.FieldOf(x.Addr); fld != nil && fld.Name() == "root" && !nilConst(x.Val) {
				v := stripConv(x.Val)
				if _, isParam := v.(*ssa.Parameter); isParam {
					rootStore = x
				}
				if ph, isPhi := v.(*ssa.Phi); isPhi {
					for _, e := range ph.Edges {
						if _, isParam := stripConv(e).(*ssa.Parameter); isParam {
							rootStore = x
						}
					}
				}
			}
		case *ssa.Call:
			if x.Call.IsInvoke() {
				switch x.Call.Method.Name() {
				case "NewBatch", "Delete", "Commit":
					storageOps = append(storageOps, x)
				}
			}
			if g := x.Call.StaticCallee(); g != nil && g != f && g.Pkg == f.Pkg && len(g.Blocks) > 0 && g.Signature.Recv() != nil {
				engine.Instrs(g, func(i2 ssa.Instruction) {
					if c2, ok := i2.(*ssa.Call); ok && c2.Call.IsInvoke() && (c2.Call.Method.Name() == "Delete" || c2.Call.Method.Name() == "Commit") {
						storageOps = append(storageOps, x)
					}
				})
			}
		}
	})
	if rootStore == nil || len(storageOps) == 0 {
		r.Anchor(rule, fmt.Errorf("unresolved anchor: root store / storage operations in %s", fn(f)))
		return
	}
	bad := ""
	for _, ret := range engine.Returns(f) {
		after := false
		for _, op := range storageOps {
			if engine.ReachableAfter(op, ret) {
				after = true
			}
		}
		if after && !engine.InstrDominates(rootStore, ret) {
			bad = r.P.Pos(ret.Pos())
		}
	}
	r.Check(bad == "", rule, fn(f)+"|root installed on every path", r.P.Pos(rootStore.Pos()), "every return that follows a storage operation is dominated by the installation of the requested root",
		"RollbackTrie can return ("+bad+") after it started purging storage without having installed the requested root: it has no result to report that, so after a storage fault the trie silently stays at the rolled-back commit's root and weight")
}
