package rules

import (
	"fmt"
	"go/types"
	"strings"

	"golang.org/x/tools/go/ssa"

	"verif/sa/engine"
)

const (
	pkgUtil  = "core/util"
	pkgSC    = "core/statecache"
	pkgWMPT  = "core/util/wmpt"
	pkgCur   = "core/currency"
	pkgLog   = "core/logging"
	pkgStore = "core/util/storage"
)

// ord numbers repeated constructs inside one function in source order so that
// the construct key stays stable when unrelated lines move.
type ord map[string]int

func (o ord) next(base string) string {
	o[base]++
	if o[base] == 1 {
		return base
	}
	return fmt.Sprintf("%s#%d", base, o[base])
}

func fn(f *ssa.Function) string { return engine.FuncName(f) }

// namedOf returns the named type behind pointers.
func namedOf(t types.Type) *types.Named {
	for {
		switch x := t.(type) {
		case *types.Pointer:
			t = x.Elem()
		case *types.Named:
			return x
		default:
			return nil
		}
	}
}

// isNamed reports whether t (behind pointers) is the named type pkgSuffix.name.
func isNamed(t types.Type, pkgSuffix, name string) bool {
	n := namedOf(t)
	if n == nil || n.Obj().Pkg() == nil {
		return false
	}
	return n.Obj().Name() == name && strings.HasSuffix(n.Obj().Pkg().Path(), pkgSuffix)
}

// recvNamed returns the receiver's named type name of a method ("" if none).
func recvNamed(f *ssa.Function) string {
	if f == nil || f.Signature.Recv() == nil {
		return ""
	}
	if n := namedOf(f.Signature.Recv().Type()); n != nil {
		return n.Obj().Name()
	}
	return ""
}

// staticCalleeIs reports whether c statically calls pkgSuffix.(recv).name.
func staticCalleeIs(c ssa.CallInstruction, pkgSuffix, recv, name string) bool {
	sc := c.Common().StaticCallee()
	if sc == nil || sc.Name() != name || sc.Pkg == nil {
		return false
	}
	if !strings.HasSuffix(sc.Pkg.Pkg.Path(), pkgSuffix) {
		return false
	}
	return recvNamed(sc) == recv
}

// extCalleeIs matches a static call to a function of a foreign package by
// package path suffix, receiver type name and method name (types-only packages
// have no ssa body but still resolve as *ssa.Function).
func extCalleeIs(c ssa.CallInstruction, pkgSuffix, recv, name string) bool {
	cc := c.Common()
	if cc.IsInvoke() {
		return false
	}
	sc := cc.StaticCallee()
	if sc == nil || sc.Name() != name {
		return false
	}
	var pkg *types.Package
	if sc.Pkg != nil {
		pkg = sc.Pkg.Pkg
	} else if sc.Object() != nil {
		pkg = sc.Object().Pkg()
	}
	if pkg == nil || !strings.HasSuffix(pkg.Path(), pkgSuffix) {
		return false
	}
	return recvNamed(sc) == recv
}

// fieldLoad reports whether v is a load of (or the address of) field fld.
func fieldLoadOf(v ssa.Value) *types.Var {
	if u, ok := v.(*ssa.UnOp); ok {
		return engine.FieldOf(u.X)
	}
	return engine.FieldOf(v)
}

// through strips value-preserving wrappers.
func through(v ssa.Value) ssa.Value {
	for {
		switch x := v.(type) {
		case *ssa.MakeInterface:
			v = x.X
		case *ssa.ChangeInterface:
			v = x.X
		case *ssa.ChangeType:
			v = x.X
		case *ssa.TypeAssert:
			v = x.X
		default:
			return v
		}
	}
}

func funcsOfPkg(r *engine.Run, rel string) []*ssa.Function {
	var out []*ssa.Function
	for _, f := range r.P.RepoFuncs() {
		if f.Pkg != nil && f.Pkg.Pkg.Path() == engine.RepoMod+"/"+rel {
			out = append(out, f)
		} else if f.Pkg == nil && f.Parent() != nil {
			if t := engine.TopFunc(f); t.Pkg != nil && t.Pkg.Pkg.Path() == engine.RepoMod+"/"+rel {
				out = append(out, f)
			}
		}
	}
	return out
}

// paramRole finds a parameter by its source name and, when the name is not
// there (a renamed parameter), by the role's type and position, so that a
// rename does not unhinge a rule.
func paramRole(f *ssa.Function, name string) ssa.Value {
	if f == nil {
		return nil
	}
	for _, p := range f.Params {
		if p.Name() == name {
			return p
		}
	}
	params := f.Params
	if f.Signature.Recv() != nil && len(params) > 0 {
		params = params[1:]
	}
	isNamedT := func(t types.Type, n string) bool {
		nm, ok := t.(*types.Named)
		return ok && nm.Obj().Name() == n
	}
	var matches []ssa.Value
	pick := func(pred func(types.Type) bool) {
		matches = nil
		for _, p := range params {
			if pred(p.Type()) {
				matches = append(matches, p)
			}
		}
	}
	first := func() ssa.Value {
		if len(matches) > 0 {
			return matches[0]
		}
		return nil
	}
	last := func() ssa.Value {
		if len(matches) > 0 {
			return matches[len(matches)-1]
		}
		return nil
	}
	isBytes := func(t types.Type) bool {
		if isNamedT(t, "Path") {
			return true
		}
		if s, ok := t.(*types.Slice); ok {
			b, ok := s.Elem().(*types.Basic)
			return ok && b.Kind() == types.Byte
		}
		return false
	}
	switch name {
	case "node":
		pick(func(t types.Type) bool { return isNamedT(t, "Node") })
		return first()
	case "value":
		pick(func(t types.Type) bool { return isNamedT(t, "Node") })
		if len(matches) > 1 {
			return last()
		}
		return nil
	case "block":
		pick(func(t types.Type) bool { b, ok := t.(*types.Basic); return ok && b.Kind() == types.Uint64 })
		return first()
	case "prefix":
		pick(isBytes)
		return first()
	case "deleteChan", "createdChan":
		pick(func(t types.Type) bool { _, ok := t.Underlying().(*types.Chan); return ok })
		if name == "deleteChan" {
			return first()
		}
		if len(matches) > 1 {
			return matches[1]
		}
		return nil
	case "newRoot", "startRoot":
		pick(func(t types.Type) bool { return isNamedT(t, "Key") })
		if name == "newRoot" {
			return first()
		}
		if len(matches) > 1 {
			return last()
		}
		return nil
	case "ind":
		pick(func(t types.Type) bool {
			p, ok := t.(*types.Pointer)
			if !ok {
				return false
			}
			b, ok := p.Elem().(*types.Basic)
			return ok && b.Kind() == types.Int
		})
		return first()
	}
	return nil
}

// loopHeadOf: the header of the innermost loop containing block b (the nearest
// dominator of b that is the target of a back edge from a block it dominates
// and from which b can come back), nil when b is not in a loop.
func loopHeadOf(b *ssa.BasicBlock) *ssa.BasicBlock {
	for h := b; h != nil; h = h.Idom() {
		for _, p := range h.Preds {
			if h.Dominates(p) && (p == b || engine.Reachable(b, p)) {
				return h
			}
		}
	}
	return nil
}

// loopBypass: inside the loop with the given head, the head can be reached
// again from the loop body without passing through block must.
func loopBypass(head, must *ssa.BasicBlock) bool {
	seen := map[*ssa.BasicBlock]bool{}
	var work []*ssa.BasicBlock
	for _, s := range head.Succs {
		if engine.Reachable(s, head) && s != must {
			work = append(work, s)
			seen[s] = true
		}
	}
	for len(work) > 0 {
		b := work[0]
		work = work[1:]
		for _, s := range b.Succs {
			if s == head {
				return true
			}
			if seen[s] || s == must || !engine.Reachable(s, head) {
				continue
			}
			seen[s] = true
			work = append(work, s)
		}
	}
	return false
}

// mptStoreFn: the trie function that files a node in the store and feeds the
// change collector: insertNode itself, or the method it hands over to after
// stamping (storeNode). Found by structure: the one that calls db.PutNode.
func mptStoreFn(r *engine.Run, rule string) (insertNode, store *ssa.Function) {
	insertNode = r.Fn(rule, pkgUtil, "MerklePatriciaTrie", "insertNode")
	if insertNode == nil {
		return nil, nil
	}
	puts := func(f *ssa.Function) bool {
		found := false
		engine.Instrs(f, func(in ssa.Instruction) {
			if c, ok := in.(*ssa.Call); ok && invokeOnField(c, "db", "PutNode") {
				found = true
			}
		})
		return found
	}
	if puts(insertNode) {
		return insertNode, insertNode
	}
	engine.Instrs(insertNode, func(in ssa.Instruction) {
		c, ok := in.(*ssa.Call)
		if !ok {
			return
		}
		g := c.Call.StaticCallee()
		if g != nil && g != insertNode && len(g.Blocks) > 0 && recvNamed(g) == "MerklePatriciaTrie" && puts(g) {
			store = g
			r.Touch(g)
		}
	})
	return insertNode, store
}

// isNodeInstaller: c installs a node of a change set in the trie (insertNode or
// the store function it hands over to).
func isNodeInstaller(r *engine.Run, c ssa.CallInstruction) bool {
	g := c.Common().StaticCallee()
	if g == nil {
		return false
	}
	ins, st := mptStoreFn(r, "")
	return g == ins || (st != nil && g == st)
}

// callsInstaller: g (a same-receiver helper of the merge) installs nodes: it calls
// insertNode / the store function directly.
func callsInstaller(r *engine.Run, g *ssa.Function) bool {
	if g == nil || len(g.Blocks) == 0 {
		return false
	}
	found := false
	engine.Instrs(g, func(in ssa.Instruction) {
		if c, ok := in.(*ssa.Call); ok && isNodeInstaller(r, c) {
			found = true
		}
	})
	return found
}

// callsNamed: g (a helper of the trie) calls the trie method of that name directly.
func callsNamed(g *ssa.Function, name string) bool {
	if g == nil || len(g.Blocks) == 0 {
		return false
	}
	found := false
	engine.Instrs(g, func(in ssa.Instruction) {
		if c, ok := in.(*ssa.Call); ok {
			if sc := c.Call.StaticCallee(); sc != nil && sc.Name() == name && recvNamed(sc) == recvNamed(g) {
				found = true
			}
		}
	})
	return found
}

// opGroup: f together with the unexported functions of its package that exist
// only to carry part of f's job: reachable from f through static calls and called
// from nowhere outside the group. (The recursive walks and shared primitives have
// other callers and stay out.) Rules that anchor on "what F does" look at the
// group, so that moving a stretch of F into a helper does not hide it.
func opGroup(r *engine.Run, f *ssa.Function) []*ssa.Function {
	if f == nil {
		return nil
	}
	cg := r.P.RepoCG()
	in := map[*ssa.Function]bool{f: true}
	out := []*ssa.Function{f}
	for changed := true; changed; {
		changed = false
		for _, g := range append([]*ssa.Function{}, out...) {
			for _, e := range cg.Out[g] {
				h := e.Callee
				if h == nil || in[h] || h.Pkg != f.Pkg || len(h.Blocks) == 0 || h.Parent() != nil {
					continue
				}
				if h.Object() == nil || h.Object().Exported() {
					continue
				}
				if ci, isCall := e.Site.(ssa.CallInstruction); !isCall || ci.Common().StaticCallee() != h {
					continue
				}
				only := true
				for _, e2 := range cg.In[h] {
					if !in[engine.TopFunc(e2.Caller)] && !in[e2.Caller] {
						only = false
					}
				}
				if only {
					in[h] = true
					out = append(out, h)
					r.Touch(h)
					changed = true
				}
			}
		}
	}
	return out
}

// inGroup reports whether g belongs to the group.
func inGroup(group []*ssa.Function, g *ssa.Function) bool {
	for _, x := range group {
		if x == g {
			return true
		}
	}
	return false
}
