package rules

import (
	"fmt"
	"go/token"
	"go/types"

	"golang.org/x/tools/go/ssa"

	"verif/sa/engine"
)

func init() {
	register(&Check{ID: "C06", Pkgs: []string{pkgSC}, Run: runC06})
}

func runC06(r *engine.Run) {
	r.Rule("WHO-valuestores", "the only fields of StateCache that can hold cached values are the key->versions map and the hash links: a second container (an overlay of the tip's writes) is a second source of answers with its own invalidation, through which a sibling fork's write reaches another fork")
	r.Rule("AGREE-origin", "see C14: the origin tracker is written and read in the same field order: every value the cache stores or hands out is a clone made by Encode + CreateNode, so a writer that swaps origin and version makes a lookup return a node other than the one written (after an odd number of clone steps)")
	r.Rule("DOM-nomapswap", "whenever a per-key versions map is (re)installed in the state cache's key->versions map, any freshly allocated map among its provenance is allocated only on the not-found edge of the lookup of that key: an existing map (holding other blocks' entries) is never replaced")
	r.Rule("DOM-tombstone", "every Clone() of a cache entry's data that is handed out is reached only on paths where the same entry's deleted flag tested false (feasible-path enumeration with structural atom equality)")
	r.Rule("DOM-ownfirst", "TransactionCache.Get and BlockCache.Get delegate to the next layer only on paths where their own map lookup missed; BlockCache.Get continues at its previous block's hash only where the block is known not to be committed, and at its own hash where it is (commit empties the pending map and files the block's writes under its own hash; the marker is a bool field commit sets)")
	r.Rule("DEP-walk", "in StateCache.Get every block hash used to look into the per-key map or the link map is the queried hash or the link stored for the previously used hash (no other source); a memoised entry is stored under the queried hash and is the entry found")
	r.Rule("WHO-readonly", "the lookups of the transaction cache and of the block cache (and everything they reach in those types) never store into their own pending map: a pending map is a write set that Commit publishes, so a memoised read would be flushed as a write and overwrite another transaction's committed write")
	r.Rule("ORDER-publish", "see C08: a block's ancestor link is published only after all of the block's keys are written (a lookup that runs during the commit must not walk past the half-written block)")
	r.Rule("KEY-same", "Set/setValue/remove/commit store an entry under the key (and block hash) they were given; the tombstone arms store deleted=true; Set stores a new composite with deleted=false, never the entry found under the key with its data replaced (it may be a tombstone)")
	r.Rule("DOM-writekept", "a write or removal handed to a cache layer (TransactionCache.Set/Remove, BlockCache.Set/setValue/remove) is recorded in that layer's pending map on every feasible path to every return (a store under the key parameter), and these methods never delete from the pending map: a dropped tombstone lets an ancestor's value show through")
	r.Rule("CAP-absence", "the ancestor walk reads a missing entry in a key's versions map as 'that block did not write the key'; every container installed as a versions map (provenance of the value handed to StateCache.cache.Add) therefore must not be a plain capacity-bounded LRU (whose eviction order is the recency of lookups, so an old entry can outlive newer ones) unless it observes its evictions (constructed with an eviction callback)")
	r.Rule("CLONE-boundary", "see C07: every value a lookup hands out is a Clone() of the stored one - a caller that edits a looked-up value in place must not change what the ancestor block or a sibling fork returns")
	r.Rule("RET-pair", "the two results of every lookup agree: each return of a Get method is the pair of the next layer's Get, (Clone() of an entry's data, true) or (nil, false)")
	r.Rule("DOM-found", "the value returned by a lookup in a cache map (lru Get/Peek) is type-asserted only on paths where the lookup's found flag tested true (a miss is a nil interface; asserting it panics)")
	r.Rule("FRESH-write", "in TransactionCache.Set, BlockCache.Set and BlockCache.setValue every entry stored into the pending map carries in its data field the result of a Clone() call (provenance dataflow over the local entry), never the previous entry's object refreshed in place")
	r.Rule("DOM-txreset", "Commit hands the pending writes to the block cache and then empties the transaction's pending map: every return of TransactionCache.Commit is dominated by a store of a new map into the field (or clear / delete of every iterated key) that comes after the hand-over loop. Entries left behind keep answering as own uncommitted writes and are pushed again by the next Commit")
	r.Rule("DOM-commitall", "inside StateCache.commit's loop over the block's pending map, the next iteration is not reachable without adding the entry to the key's versions map: no write or tombstone of the block is skipped")
	r.Rule("LOCK-commit", "see C08: every write into the key->versions map, a per-key versions map or the block-link map that is reachable from StateCache.commit happens with StateCache.lock held (two committers must not create a key's versions map side by side)")
	r.Rule("WHO-versions", "a per-key versions map is only read or added to (Get, Peek, Add, ContainsOrAdd, PeekOrAdd, Contains, Len, Keys); Purge, Remove and the like are never called on one: versions leave by capacity eviction only, so the lock-free ancestor walk's memo can never become the newest entry of a map that was just emptied")
	r.Rule("ORDER-commitclear", "in StateCache.commit no versions-map Add is reachable after the store that replaces the block's pending map: the pending writes are dropped only after all of them were published")
	r.Rule("WHO-globalcache", "package statecache keeps no cache instance (StateCache, BlockCache, TransactionCache, QueryBlockCache) in a package-level variable: caches are per block / per transaction objects")
	r.Rule("WHO-layers", "see C07: the key->versions map is installed into only by the commit path and removed from only by Remove, never by a lookup (a re-registered stale map hides a later commit's write: the lookup at that block then hits an ancestor's value)")
	r.Rule("CLONE-deep", "see C07: Clone() of every value type the cache holds is a deep copy (a trie branch whose clone shares its value holder is rewritten in place by a later block: the entry an older block committed then answers with the newer value)")
	r.NotDec = append(r.NotDec,
		"hit ratio after LRU eviction (capacity arithmetic)", "equality with the block-tree oracle for every history")
	whoReadOnly(r, "WHO-readonly")
	domNoMapSwap(r)
	domTombstone(r)
	domOwnFirst(r)
	depWalk(r)
	keySame(r)
	domWriteKept(r, "DOM-writekept")
	capAbsence(r, "CAP-absence")
	retPair(r, "RET-pair")
	domFound(r, "DOM-found")
	freshWrite(r, "FRESH-write")
	domCommitAll(r, "DOM-commitall")
	domTxReset(r, "DOM-txreset")
	cloneBoundary(r, "C06")
	if commit := r.Fn("ORDER-publish", pkgSC, "StateCache", "commit"); commit != nil {
		orderPublish(r, commit)
	}
	lockCommitOnly(r, "LOCK-commit")
	whoVersions(r, "WHO-versions")
	orderCommitClear(r, "ORDER-commitclear")
	whoGlobalCache(r, "WHO-globalcache")
	whoLayers(r)
	cloneDeep(r)
	agreeOrigin(r)
	valueStores(r, "WHO-valuestores")
}

// lruCallOnField matches c = (*lru.Cache).<method>(load of <recvType>.<field>, ...).
func lruCallOnField(c ssa.CallInstruction, method, field string) bool {
	if !extCalleeIs(c, "hashicorp/golang-lru", "Cache", method) {
		return false
	}
	fld := fieldLoadOf(c.Common().Args[0])
	return fld != nil && fld.Name() == field
}

func domNoMapSwap(r *engine.Run) {
	const rule = "DOM-nomapswap"
	for _, f := range funcsOfPkg(r, pkgSC) {
		o := ord{}
		engine.Instrs(f, func(in ssa.Instruction) {
			c, ok := in.(*ssa.Call)
			if !ok || !lruCallOnField(c, "Add", "cache") || recvNamed(engine.TopFunc(f)) != "StateCache" {
				return
			}
			r.Touch(f)
			r.CallSites++
			construct := o.next(fn(f) + "|StateCache.cache.Add")
			// provenance of the installed map; a helper of the state cache that gets or
			// creates the map is analysed in its own body, with the key argument mapped
			// to the helper's parameter
			type fresh struct {
				call   *ssa.Call
				in     *ssa.Function
				keyKey string
			}
			var news []fresh
			var bad []string
			var walk func(g *ssa.Function, v ssa.Value, keyKey string, seen map[ssa.Value]bool, depth int)
			walk = func(g *ssa.Function, v ssa.Value, keyKey string, seen map[ssa.Value]bool, depth int) {
				v = through(v)
				if seen[v] {
					return
				}
				seen[v] = true
				switch x := v.(type) {
				case *ssa.Phi:
					for _, e := range x.Edges {
						walk(g, e, keyKey, seen, depth)
					}
				case *ssa.Extract:
					if call, ok := x.Tuple.(*ssa.Call); ok {
						if extCalleeIs(call, "hashicorp/golang-lru", "", "New") {
							news = append(news, fresh{call, g, keyKey})
							return
						}
						if lruCallOnField(call, "Get", "cache") || lruCallOnField(call, "Peek", "cache") {
							if engine.ValKey(through(call.Call.Args[1])) != keyKey {
								bad = append(bad, "map taken from another key's entry at "+r.P.Pos(call.Pos()))
							}
							return
						}
					}
					bad = append(bad, "unrecognised provenance "+v.String())
				case *ssa.Call:
					h := x.Call.StaticCallee()
					if h != nil && inRepo(h) && len(h.Blocks) > 0 && h != g && depth < 2 {
						// the helper's parameter that receives the key
						sub := ""
						for i, a := range x.Call.Args {
							if engine.ValKey(through(a)) == keyKey && i < len(h.Params) {
								sub = engine.ValKey(h.Params[i])
							}
						}
						if sub == "" {
							bad = append(bad, "a helper that is not given the key: "+v.String())
							return
						}
						for _, ret := range engine.Returns(h) {
							for i := range ret.Results {
								if isLRU(ret.Results[i].Type()) || isLRUPtr(ret.Results[i].Type()) {
									walk(h, resultValue(ret, i), sub, map[ssa.Value]bool{}, depth+1)
								}
							}
						}
						return
					}
					bad = append(bad, "unrecognised provenance "+v.String())
				default:
					bad = append(bad, "unrecognised provenance "+v.String())
				}
			}
			walk(f, c.Call.Args[2], engine.ValKey(through(c.Call.Args[1])), map[ssa.Value]bool{}, 0)
			if len(bad) > 0 {
				r.Undec(rule, construct, r.P.Pos(c.Pos()), bad[0])
				return
			}
			okAll := true
			for _, nw := range news {
				// must be guarded by "<Get of the same key> not found"
				guarded := false
				detail := ""
				atoms, full := engine.AtomsOn(nw.in, nw.call.Block())
				if full {
					engine.Instrs(nw.in, func(i2 ssa.Instruction) {
						g, ok := i2.(*ssa.Call)
						if !ok || !(lruCallOnField(g, "Get", "cache") || lruCallOnField(g, "Peek", "cache")) {
							return
						}
						if engine.ValKey(through(g.Call.Args[1])) != nw.keyKey {
							return
						}
						for _, ref := range engine.Referrers(g) {
							if ex, ok := ref.(*ssa.Extract); ok && ex.Index == 1 {
								if v, had := atoms[engine.ValKey(ex)]; had && !v {
									guarded = true
								}
							}
						}
					})
				} else {
					detail = " (too many paths)"
				}
				if !guarded {
					okAll = false
					r.Fail(rule, construct+"|lru.New", r.P.Pos(nw.call.Pos()),
						"a fresh versions map is allocated on a path where the key's existing map was found, and then installed: entries of other blocks for this key are discarded (stale ancestor value served later)"+detail)
				}
			}
			if okAll {
				r.OK(rule, construct, r.P.Pos(c.Pos()), fmt.Sprintf("installed map is the key's existing map or one of %d fresh maps allocated on the not-found edge", len(news)))
			}
		})
	}
	r.Min(rule, 1)
}

func isLRUPtr(t types.Type) bool {
	p, ok := t.Underlying().(*types.Pointer)
	return ok && isLRU(p.Elem())
}

// valueNodeBase: for a value that is `X.data` (Field or load of FieldAddr)
// of a statecache.valueNode, returns the key of X and the keys the deleted
// flag of the same entry would have.
func valueNodeBase(v ssa.Value) (deletedKeys []string, ok bool) {
	switch x := v.(type) {
	case *ssa.Field:
		if isNamed(x.X.Type(), pkgSC, "valueNode") && engine.FieldOf(x).Name() == "data" {
			b := engine.ValKey(x.X)
			return []string{"(" + b + ").deleted"}, true
		}
	case *ssa.UnOp:
		if fa, isFA := x.X.(*ssa.FieldAddr); isFA && x.Op == token.MUL && isNamed(fa.X.Type(), pkgSC, "valueNode") && engine.FieldOf(fa).Name() == "data" {
			// every load of the deleted flag of the same entry (keys carry the load class)
			var out []string
			engine.Instrs(x.Parent(), func(in ssa.Instruction) {
				if ld, ok := in.(*ssa.UnOp); ok && ld.Op == token.MUL {
					if fa2, ok := ld.X.(*ssa.FieldAddr); ok && engine.FieldOf(fa2).Name() == "deleted" && engine.ValKey(fa2.X) == engine.ValKey(fa.X) {
						// the flag read must describe the entry whose data is read: no store
						// to the entry (whole struct or a field) between the two loads
						rewritten := false
						root := engine.AddrRoot(fa.X)
						engine.Instrs(x.Parent(), func(w ssa.Instruction) {
							if st, ok := w.(*ssa.Store); ok && root != nil && engine.AddrRoot(st.Addr) == root {
								if engine.ReachableAfter(ld, w) && engine.ReachableAfter(w, x) {
									rewritten = true
								}
							}
						})
						if !rewritten {
							out = append(out, engine.ValKey(ld))
						}
					}
				}
			})
			return out, true
		}
	}
	return nil, false
}

func domTombstone(r *engine.Run) {
	const rule = "DOM-tombstone"
	for _, f := range funcsOfPkg(r, pkgSC) {
		top := engine.TopFunc(f)
		if _, isCache := cacheTypes[recvNamed(top)]; !isCache || top.Name() != "Get" {
			continue
		}
		r.Touch(f)
		o := ord{}
		engine.Instrs(f, func(in ssa.Instruction) {
			c, ok := in.(*ssa.Call)
			if !ok {
				return
			}
			recv, isClone := engine.IsMethodCall(c, "Clone")
			if !isClone {
				return
			}
			dk, isEntry := valueNodeBase(recv)
			if !isEntry {
				return
			}
			r.CallSites++
			construct := o.next(fn(f) + "|data.Clone")
			atoms, full := engine.AtomsOn(f, c.Block())
			if !full {
				r.Undec(rule, construct, r.P.Pos(c.Pos()), "too many paths")
				return
			}
			good := false
			for _, k := range dk {
				if v, had := atoms[k]; had && !v {
					good = true
				}
			}
			r.Check(good, rule, construct, r.P.Pos(c.Pos()),
				"reached only with the entry's deleted flag false",
				"an entry's data is cloned and handed out on a path that did not test the entry's tombstone: a removed key would hit")
		})
	}
	r.Min(rule, 3)
}

func domOwnFirst(r *engine.Run) {
	const rule = "DOM-ownfirst"
	for _, spec := range []struct{ recv, prevField string }{{"TransactionCache", ""}, {"BlockCache", "prevBlockHash"}} {
		f := r.Fn(rule, pkgSC, spec.recv, "Get")
		if f == nil {
			continue
		}
		var own *ssa.Lookup
		engine.Instrs(f, func(in ssa.Instruction) {
			if l, ok := in.(*ssa.Lookup); ok && l.CommaOk {
				if fld := fieldLoadOf(l.X); fld != nil && fld.Name() == "cache" {
					own = l
				}
			}
		})
		if own == nil {
			r.Anchor(rule, fmt.Errorf("unresolved anchor: own-map lookup in %s", fn(f)))
			continue
		}
		var okKey string
		for _, ref := range engine.Referrers(own) {
			if ex, ok := ref.(*ssa.Extract); ok && ex.Index == 1 {
				okKey = engine.ValKey(ex)
			}
		}
		n := 0
		engine.Instrs(f, func(in ssa.Instruction) {
			c, ok := in.(*ssa.Call)
			if !ok {
				return
			}
			if _, isGet := engine.IsMethodCall(c, "Get"); !isGet {
				return
			}
			var rt types.Type
			if c.Call.IsInvoke() {
				rt = c.Call.Value.Type()
			} else {
				rt = c.Call.Args[0].Type()
			}
			if !(isNamed(rt, pkgSC, "BlockCacher") || isNamed(rt, pkgSC, "StateCache")) {
				return
			}
			n++
			r.CallSites++
			good, why := engine.GuardedBy(f, c.Block(), okKey, false)
			r.Check(good, rule, fn(f)+"|delegate", r.P.Pos(c.Pos()), "delegation only after own-map miss: "+why,
				"the lookup delegates to the lower layer although the own map has an entry (own uncommitted write or tombstone ignored): "+why)
			if spec.prevField != "" {
				args := c.Call.Args
				hashArg := args[len(args)-1]
				// where the lookup continues: at the previous block while the block's writes are in its
				// pending map; at the block's own hash once commit has moved them to the state cache
				// (commit empties the pending map, so a committed block that kept starting at its
				// parent would answer its own keys with an ancestor's value)
				markers, clears := commitMarkers(r)
				type alt struct {
					v    ssa.Value
					from *ssa.BasicBlock
				}
				alts := []alt{{hashArg, c.Block()}}
				if ph, ok := hashArg.(*ssa.Phi); ok {
					alts = nil
					for i, e := range ph.Edges {
						alts = append(alts, alt{e, ph.Block().Preds[i]})
					}
				}
				good2, why2 := true, ""
				for _, a := range alts {
					fld := fieldLoadOf(a.v)
					if fld == nil {
						good2, why2 = false, "the hash handed down is not a field of the block cache"
						break
					}
					committedHere, known := markerFact(f, a.from, markers)
					if !known && a.from != c.Block() {
						// the edge out of the marker test itself: `hash := prev; if committed { hash = own }`
						if iff, ok := a.from.Instrs[len(a.from.Instrs)-1].(*ssa.If); ok {
							cond, neg := iff.Cond, false
							for {
								if u, ok := cond.(*ssa.UnOp); ok && u.Op == token.NOT {
									cond, neg = u.X, !neg
									continue
								}
								break
							}
							if fld := fieldLoadOf(cond); fld != nil && markers[fld.Name()] {
								for si, sb := range a.from.Succs {
									if ph, ok := hashArg.(*ssa.Phi); ok && sb == ph.Block() {
										committedHere, known = (si == 0) != neg, true
									}
								}
							}
						}
					}
					switch fld.Name() {
					case spec.prevField:
						if clears && !(known && !committedHere) {
							good2, why2 = false, "the lookup continues at the previous block on a path where the block may already be committed (commit empties the pending map: the block's own writes are then only under its own hash, and starting at the parent answers them with an ancestor's value)"
						}
					case "blockHash":
						if !(known && committedHere) {
							good2, why2 = false, "the lookup continues at the block's own hash on a path where the block is not known to be committed (an uncommitted block has no link in the state cache: every lookup would miss)"
						}
					default:
						good2, why2 = false, "the hash handed down is neither the previous block's nor the block's own"
					}
				}
				r.Check(good2, rule, fn(f)+"|delegate-hash", r.P.Pos(c.Pos()),
					"continues at the previous block while uncommitted, at the own hash once committed", "BlockCache.Get: "+why2)
			}
		})
		if n == 0 {
			r.Anchor(rule, fmt.Errorf("unresolved anchor: delegation call in %s", fn(f)))
		}
	}
}

func depWalk(r *engine.Run) {
	const rule = "DEP-walk"
	top := r.Fn(rule, pkgSC, "StateCache", "Get")
	if top == nil {
		return
	}
	if len(top.Params) != 3 {
		r.Anchor(rule, fmt.Errorf("unresolved anchor: block-hash parameter of %s", fn(top)))
		return
	}
	depWalkIn(r, rule, top, top.Params[1], top.Params[2])
	// the walk (or part of it) may live in a helper of Get: the helper is analysed with the
	// parameters that receive the queried key and hash at its call site
	group := opGroup(r, top)
	for _, g := range group[1:] {
		for _, e := range r.P.RepoCG().In[g] {
			c, ok := e.Site.(ssa.CallInstruction)
			if !ok || !inGroup(group, engine.TopFunc(e.Caller)) {
				continue
			}
			var keyP, hashP *ssa.Parameter
			for i, a := range c.Common().Args {
				if i >= len(g.Params) {
					break
				}
				if a == ssa.Value(top.Params[1]) {
					keyP = g.Params[i]
				}
				if a == ssa.Value(top.Params[2]) {
					hashP = g.Params[i]
				}
			}
			if hashP != nil {
				depWalkIn(r, rule, g, keyP, hashP)
			}
			break
		}
	}
	r.Min(rule, 4)
}

func depWalkIn(r *engine.Run, rule string, f *ssa.Function, keyParam, hashParam *ssa.Parameter) {
	const (
		labQueried engine.Label = 1 << 30
		labLink    engine.Label = 1 << 31
		labEntry   engine.Label = 1 << 32
		labOther   engine.Label = 1 << 33
	)
	spec := engine.FlowSpec{
		Param: func(p *ssa.Parameter, i int) engine.Label {
			if p == hashParam {
				return labQueried
			}
			return 0
		},
		Call: func(c ssa.CallInstruction, arg func(ssa.Value) engine.Label) (engine.Label, bool) {
			if lruCallOnField(c, "Get", "hashCache") || lruCallOnField(c, "Peek", "hashCache") {
				return labLink, true
			}
			if lruCallOnField(c, "Get", "cache") {
				return 0, true
			}
			if extCalleeIs(c, "hashicorp/golang-lru", "Cache", "Get") || extCalleeIs(c, "hashicorp/golang-lru", "Cache", "Peek") {
				return labEntry, true
			}
			if _, ok := engine.IsMethodCall(c, "Clone"); ok {
				return 0, true
			}
			return 0, false
		},
		Value: func(v ssa.Value, get func(ssa.Value) engine.Label) (engine.Label, bool) {
			if c, ok := v.(*ssa.Const); ok && engine.IsString(c.Type()) {
				return labOther, true
			}
			if b, ok := v.(*ssa.BinOp); ok && engine.IsString(b.Type()) {
				return labOther | get(b.X) | get(b.Y), true
			}
			return 0, false
		},
	}
	fl := engine.RunFlow(f, spec)
	o := ord{}
	engine.Instrs(f, func(in ssa.Instruction) {
		c, ok := in.(*ssa.Call)
		if !ok {
			return
		}
		switch {
		case lruCallOnField(c, "Get", "cache"), lruCallOnField(c, "Add", "cache"):
			// keyed by the key parameter
			k := through(c.Call.Args[1])
			r.CallSites++
			r.Check(keyParam != nil && k == ssa.Value(keyParam), rule, o.next(fn(f)+"|cache-key"), r.P.Pos(c.Pos()),
				"key->versions map addressed by the queried key", "the key->versions map is addressed by something other than the queried key")
		case lruCallOnField(c, "Get", "hashCache"):
			l := fl.Of(c.Call.Args[1])
			r.CallSites++
			r.Check(l != 0 && l&^(labQueried|labLink) == 0, rule, o.next(fn(f)+"|link-lookup"), r.P.Pos(c.Pos()),
				"link looked up for the queried hash or a previously obtained link", "the ancestor walk follows a hash that is neither the queried one nor a stored link")
		case extCalleeIs(c, "hashicorp/golang-lru", "Cache", "Get"):
			l := fl.Of(c.Call.Args[1])
			r.CallSites++
			r.Check(l != 0 && l&^(labQueried|labLink) == 0, rule, o.next(fn(f)+"|version-lookup"), r.P.Pos(c.Pos()),
				"per-key lookup at the queried hash or an ancestor link", "a per-key lookup uses a block hash that is neither the queried one nor on its ancestor chain")
		case extCalleeIs(c, "hashicorp/golang-lru", "Cache", "Add"), extCalleeIs(c, "hashicorp/golang-lru", "Cache", "ContainsOrAdd"), extCalleeIs(c, "hashicorp/golang-lru", "Cache", "PeekOrAdd"):
			lk := fl.Of(c.Call.Args[1])
			lv := fl.Of(c.Call.Args[2])
			r.CallSites++
			r.Check(lk == labQueried, rule, o.next(fn(f)+"|memo-key"), r.P.Pos(c.Pos()),
				"memoised under the queried hash", "the memoised entry is stored under a hash other than the queried one (a later lookup at that other block returns a descendant's or sibling's view)")
			whole := true
			missing := ""
			// a memo rebuilt as a struct literal carries every field of the found entry (the
			// tombstone flag in particular): valueNode{data: v.data} turns a removal into a hit
			mv := c.Call.Args[2]
			if mi, ok := mv.(*ssa.MakeInterface); ok {
				mv = mi.X
			}
			if ld, ok := mv.(*ssa.UnOp); ok {
				if al, ok := ld.X.(*ssa.Alloc); ok {
					if st, ok := al.Type().Underlying().(*types.Pointer).Elem().Underlying().(*types.Struct); ok {
						set := map[string]bool{}
						wholeStore, fieldStore := false, false
						for _, ref := range engine.Referrers(al) {
							if s2, ok := ref.(*ssa.Store); ok && s2.Addr == ssa.Value(al) {
								wholeStore = true // a variable holding an entry, not a literal
							}
							if fa, ok := ref.(*ssa.FieldAddr); ok {
								for _, r2 := range engine.Referrers(fa) {
									if s2, ok := r2.(*ssa.Store); ok && s2.Addr == ssa.Value(fa) {
										fieldStore = true
									}
								}
							}
						}
						if wholeStore || !fieldStore {
							set = nil
						}
						for _, ref := range engine.Referrers(al) {
							if set == nil {
								break
							}
							if fa, ok := ref.(*ssa.FieldAddr); ok {
								for _, r2 := range engine.Referrers(fa) {
									if s2, ok := r2.(*ssa.Store); ok && s2.Addr == ssa.Value(fa) {
										// copied from the same field of an entry
										if _, sf, ok := loadOfFieldOrField(s2.Val); ok && sf == st.Field(fa.Field).Name() {
											set[sf] = true
										}
									}
								}
							}
						}
						for i := 0; set != nil && i < st.NumFields(); i++ {
							if !set[st.Field(i).Name()] {
								whole = false
								missing = st.Field(i).Name()
							}
						}
					}
				}
			}
			r.Check(lv == labEntry && whole, rule, o.next(fn(f)+"|memo-value"), r.P.Pos(c.Pos()),
				"memoised value is the entry found on the chain", "the memoised value is not the entry found on the ancestor chain (a rebuilt entry that lacks field "+missing+": a memo without the tombstone flag turns a removal into a hit on the placeholder value)")
		}
	})
}

func keySame(r *engine.Run) {
	const rule = "KEY-same"
	// map stores keyed by the key parameter
	for _, m := range []struct{ recv, name string }{
		{"TransactionCache", "Set"}, {"TransactionCache", "Remove"},
		{"BlockCache", "Set"}, {"BlockCache", "setValue"}, {"BlockCache", "remove"},
	} {
		f := r.Fn(rule, pkgSC, m.recv, m.name)
		if f == nil {
			continue
		}
		o := ord{}
		n := 0
		engine.Instrs(f, func(in ssa.Instruction) {
			mu, ok := in.(*ssa.MapUpdate)
			if !ok {
				return
			}
			n++
			r.Check(mu.Key == ssa.Value(f.Params[1]), rule, o.next(fn(f)+"|store-key"), r.P.Pos(mu.Pos()),
				"entry stored under the key parameter", "entry stored under a key other than the one given")
		})
		if n == 0 {
			r.Anchor(rule, fmt.Errorf("unresolved anchor: map store in %s", fn(f)))
		}
		if m.name == "Remove" || m.name == "remove" {
			tombstoneStored(r, rule, f)
		}
		if m.name == "Set" {
			liveStored(r, rule, f)
		}
	}
	// TransactionCache.Commit forwards its own pairs
	if f := r.Fn(rule, pkgSC, "TransactionCache", "Commit"); f != nil {
		engine.Instrs(f, func(in ssa.Instruction) {
			c, ok := in.(ssa.CallInstruction)
			if !ok {
				return
			}
			if _, is := engine.IsMethodCall(c, "setValue"); !is {
				return
			}
			args := c.Common().Args
			k, v := args[len(args)-2], args[len(args)-1]
			ek, ok1 := k.(*ssa.Extract)
			ev, ok2 := v.(*ssa.Extract)
			good := ok1 && ok2 && ek.Tuple == ev.Tuple && ek.Index == 1 && ev.Index == 2
			if good {
				nx, isNext := ek.Tuple.(*ssa.Next)
				good = isNext
				if isNext {
					rg, _ := nx.Iter.(*ssa.Range)
					fld := fieldLoadOf(rg.X)
					good = fld != nil && fld.Name() == "cache"
				}
			}
			r.CallSites++
			r.Check(good, rule, fn(f)+"|forward-pair", r.P.Pos(in.Pos()), "commit forwards each (key, entry) pair of its own map unchanged",
				"TransactionCache.Commit does not forward the (key, entry) pairs of its own map")
		})
	}
	// StateCache.commit stores under the block's own hash and the iterated key
	if f := r.Fn(rule, pkgSC, "StateCache", "commit"); f != nil {
		bc := f.Params[1]
		engine.Instrs(f, func(in ssa.Instruction) {
			c, ok := in.(*ssa.Call)
			if !ok {
				return
			}
			if lruCallOnField(c, "Add", "cache") || lruCallOnField(c, "Get", "cache") {
				good := iteratedPendingKey(through(c.Call.Args[1]), 0)
				r.CallSites++
				r.Check(good, rule, fn(f)+"|"+c.Call.StaticCallee().Name()+"-by-iterated-key", r.P.Pos(c.Pos()),
					"key->versions map addressed by the committed entry's key", "commit addresses the key->versions map with something other than the committed entry's key")
				return
			}
			if extCalleeIs(c, "hashicorp/golang-lru", "Cache", "Add") && !lruCallOnField(c, "Add", "hashCache") {
				k := through(c.Call.Args[1])
				good := false
				if ld, ok := k.(*ssa.UnOp); ok {
					if fa, ok := ld.X.(*ssa.FieldAddr); ok && fa.X == ssa.Value(bc) && engine.FieldOf(fa).Name() == "blockHash" {
						good = true
					}
				}
				r.CallSites++
				r.Check(good, rule, fn(f)+"|version-under-own-hash", r.P.Pos(c.Pos()),
					"entry committed under the committing block's hash", "commit stores the entry under a hash other than the committing block's")
			}
		})
	}
	// commitRound links blockHash -> prevHash
	if f, _ := r.P.Func(pkgSC, "StateCache", "commitRound"); f != nil && len(f.Blocks) > 0 {
		r.Touch(f)
		var linkKey, linkVal *ssa.Parameter
		engine.Instrs(f, func(in ssa.Instruction) {
			c, ok := in.(*ssa.Call)
			if !ok || !lruCallOnField(c, "Add", "hashCache") {
				return
			}
			k, v := through(c.Call.Args[1]), through(c.Call.Args[2])
			kp, _ := k.(*ssa.Parameter)
			vp, _ := v.(*ssa.Parameter)
			r.CallSites++
			r.Check(kp != nil && vp != nil && kp != vp, rule, fn(f)+"|link", r.P.Pos(c.Pos()),
				"link stored from one hash parameter to the other", "the block link is not stored as block hash -> previous block hash")
			linkKey, linkVal = kp, vp
		})
		if g := r.Fn(rule, pkgSC, "StateCache", "commit"); g != nil {
			engine.Instrs(g, func(in ssa.Instruction) {
				c, ok := in.(*ssa.Call)
				if !ok || c.Call.StaticCallee() != f {
					return
				}
				a := c.Call.Args
				// the argument that becomes the link's key is the block's own hash, the one
				// that becomes its value the previous block's hash
				var f1, f2 *types.Var
				for i, p := range f.Params {
					if linkVal != nil && p == linkVal && i < len(a) {
						f1 = fieldLoadOf(a[i])
					}
					if linkKey != nil && p == linkKey && i < len(a) {
						f2 = fieldLoadOf(a[i])
					}
				}
				r.CallSites++
				r.Check(f1 != nil && f2 != nil && f1.Name() == "prevBlockHash" && f2.Name() == "blockHash", rule, fn(g)+"|link-args", r.P.Pos(c.Pos()),
					"commit links (prevBlockHash, blockHash) of the committing block", "commit passes the wrong hashes to commitRound")
			})
		}
	}
	r.Min(rule, 10)
}

// liveStored: the entry a Set stores is built from this call alone - a new
// composite whose deleted flag is left (or set) false - never the entry found
// under the key with its data replaced: that one may be the tombstone of an
// earlier Remove in the same transaction, and the write would be committed as
// a removal.
func liveStored(r *engine.Run, rule string, f *ssa.Function) {
	o := ord{}
	engine.Instrs(f, func(in ssa.Instruction) {
		mu, ok := in.(*ssa.MapUpdate)
		if !ok {
			return
		}
		cons := o.next(fn(f) + "|live entry")
		ld, isLoad := mu.Value.(*ssa.UnOp)
		if !isLoad {
			// built by a package-local constructor: every return of it is a new composite with deleted unset
			if c, ok := mu.Value.(*ssa.Call); ok {
				if h := c.Call.StaticCallee(); h != nil && h.Pkg == f.Pkg && len(h.Blocks) > 0 {
					fresh := true
					for _, ret := range engine.Returns(h) {
						if len(ret.Results) != 1 {
							fresh = false
							continue
						}
						l2, ok := ret.Results[0].(*ssa.UnOp)
						if !ok {
							fresh = false
							continue
						}
						a2, ok := engine.AddrRoot(l2.X).(*ssa.Alloc)
						if !ok || liveEntryDefect(r, a2) != "" {
							fresh = false
						}
					}
					if fresh {
						r.Touch(h)
						r.OK(rule, cons, r.P.Pos(mu.Pos()), "Set stores the new live entry built by "+fn(h))
						return
					}
				}
			}
			r.Fail(rule, cons, r.P.Pos(mu.Pos()), "Set stores an entry it did not build itself")
			return
		}
		al, isAlloc := engine.AddrRoot(ld.X).(*ssa.Alloc)
		if !isAlloc {
			r.Undec(rule, cons, r.P.Pos(mu.Pos()), "stored entry is not a local composite")
			return
		}
		bad := liveEntryDefect(r, al)
		r.Check(bad == "", rule, cons, r.P.Pos(mu.Pos()), "Set stores a new entry with deleted=false",
			"Set does not store a new live entry: "+bad+" - a Set that follows a Remove of the same key in one transaction inherits the tombstone flag, and the write is committed as a removal (lookups at the block and its descendants miss the block's own write)")
	})
}

// liveEntryDefect: why the composite in al is not a new live entry ("" when it is).
func liveEntryDefect(r *engine.Run, al *ssa.Alloc) string {
	{
		bad := ""
		for _, ref := range engine.Referrers(al) {
			switch x := ref.(type) {
			case *ssa.Store:
				if x.Addr == ssa.Value(al) { // the whole entry assigned from somewhere
					if _, isConst := x.Val.(*ssa.Const); !isConst {
						bad = "the stored entry starts as a copy of another entry (" + r.P.Pos(x.Pos()) + ")"
					}
				}
			case *ssa.FieldAddr:
				if engine.FieldOf(x).Name() != "deleted" {
					continue
				}
				for _, r2 := range engine.Referrers(x) {
					if st, ok := r2.(*ssa.Store); ok {
						if c := constVal(st.Val); c == nil || c.ExactString() != "false" {
							bad = "the deleted flag of the stored entry is set to something other than false"
						}
					}
				}
			}
		}
		return bad
	}
}

// tombstoneStored: every entry stored by a remove method has deleted=true.
func tombstoneStored(r *engine.Run, rule string, f *ssa.Function) {
	const notTrue engine.Label = 1 << 40
	spec := engine.FlowSpec{
		Param: func(p *ssa.Parameter, i int) engine.Label { return 0 },
		Value: func(v ssa.Value, get func(ssa.Value) engine.Label) (engine.Label, bool) {
			if b, ok := v.Type().Underlying().(*types.Basic); ok && b.Kind() == types.Bool {
				if c, ok := v.(*ssa.Const); ok {
					if c.Value != nil && c.Value.ExactString() == "true" {
						return 0, true
					}
					return notTrue, true
				}
				if _, ok := v.(*ssa.UnOp); ok {
					return 0, false // loads: from cells
				}
				return notTrue, true
			}
			if _, ok := v.(*ssa.Lookup); ok {
				return notTrue, true
			}
			if ex, ok := v.(*ssa.Extract); ok {
				if _, ok := ex.Tuple.(*ssa.Lookup); ok {
					return notTrue, true
				}
			}
			return 0, false
		},
		HeapLoad: func(ld *ssa.UnOp, base engine.Label) (engine.Label, bool) { return notTrue, true },
	}
	fl := engine.RunFlow(f, spec)
	o := ord{}
	engine.Instrs(f, func(in ssa.Instruction) {
		mu, ok := in.(*ssa.MapUpdate)
		if !ok {
			return
		}
		ld, isLoad := mu.Value.(*ssa.UnOp)
		if !isLoad {
			r.Fail(rule, o.next(fn(f)+"|tombstone"), r.P.Pos(mu.Pos()), "a remove arm stores the entry as found, without setting deleted=true: the removed key stays visible")
			return
		}
		al, isAlloc := engine.AddrRoot(ld.X).(*ssa.Alloc)
		if !isAlloc {
			r.Undec(rule, o.next(fn(f)+"|tombstone"), r.P.Pos(mu.Pos()), "stored entry is not a local composite")
			return
		}
		l, found := fl.CellAt(ld, al, ".deleted")
		r.Check(found && l == 0, rule, o.next(fn(f)+"|tombstone"), r.P.Pos(mu.Pos()),
			"entry stored with deleted=true on every path", "a remove arm stores an entry whose deleted flag is not the constant true: the removed key stays visible")
	})
}

// whoReadOnly: TransactionCache.Get / BlockCache.Get do not write their own
// pending maps.
func whoReadOnly(r *engine.Run, rule string) {
	g := r.P.RepoCG()
	for _, spec := range []struct{ recv string }{{"TransactionCache"}, {"BlockCache"}} {
		f := r.Fn(rule, pkgSC, spec.recv, "Get")
		if f == nil {
			continue
		}
		bad := ""
		pos := r.P.Pos(f.Pos())
		n := 0
		for fn2 := range g.Reach(f) {
			if rn := recvNamed(engine.TopFunc(fn2)); rn != "TransactionCache" && rn != "BlockCache" {
				continue
			}
			n++
			engine.Instrs(fn2, func(in ssa.Instruction) {
				var m ssa.Value
				switch x := in.(type) {
				case *ssa.MapUpdate:
					m = x.Map
				case *ssa.Call:
					if b, ok := x.Call.Value.(*ssa.Builtin); ok && (b.Name() == "delete" || b.Name() == "clear") {
						m = x.Call.Args[0]
					}
				case *ssa.Store:
					if fld := engine.FieldOf(x.Addr); fld != nil && fld.Name() == "cache" {
						bad, pos = "replaces its pending map", r.P.Pos(in.Pos())
					}
				}
				if m != nil {
					if fld := fieldLoadOf(m); fld != nil && fld.Name() == "cache" {
						bad, pos = "stores into the pending map of "+recvNamed(engine.TopFunc(fn2))+" (in "+fn(fn2)+")", r.P.Pos(in.Pos())
					}
				}
			})
		}
		r.Check(bad == "", rule, fn(f)+"|no write", pos, fmt.Sprintf("%d functions of the pending-cache types reachable, none writes a pending map", n),
			"a lookup "+bad+": reads become part of the write set that Commit publishes, so a transaction that only read a key overwrites (or resurrects) what another transaction committed meanwhile")
	}
}

// domWriteKept: a write or a removal handed to a cache layer is recorded in that
// layer's pending map on every path: each return of the method is reached only
// through a store into the map (under the key parameter), and the method never
// removes an entry from the map. A tombstone that is dropped (or replaced by
// "no entry") lets the value of an ancestor block or of the layer below show
// through again.
func domWriteKept(r *engine.Run, rule string) {
	n := 0
	for _, m := range []struct{ recv, name string }{
		{"TransactionCache", "Set"}, {"TransactionCache", "Remove"},
		{"BlockCache", "Set"}, {"BlockCache", "setValue"}, {"BlockCache", "remove"},
	} {
		f := r.Fn(rule, pkgSC, m.recv, m.name)
		if f == nil {
			continue
		}
		stores := map[*ssa.BasicBlock]bool{}
		var storeInstrs []*ssa.MapUpdate
		engine.Instrs(f, func(in ssa.Instruction) {
			if mu, ok := in.(*ssa.MapUpdate); ok {
				if fld := fieldLoadOf(mu.Map); fld != nil && fld.Name() == "cache" && mu.Key == ssa.Value(f.Params[1]) {
					stores[mu.Block()] = true
					storeInstrs = append(storeInstrs, mu)
				}
			}
			if c, ok := in.(*ssa.Call); ok {
				if b, ok := c.Call.Value.(*ssa.Builtin); ok && b.Name() == "delete" {
					if fld := fieldLoadOf(c.Call.Args[0]); fld != nil && fld.Name() == "cache" {
						n++
						r.Fail(rule, fn(f)+"|delete from pending map", r.P.Pos(c.Pos()), "a write/remove method deletes an entry from the layer's pending map: the write or tombstone recorded there no longer shadows the layers below")
					}
				}
			}
		})
		o := ord{}
		for _, ret := range engine.Returns(f) {
			if ret.Block().Comment == "recover" {
				continue
			}
			n++
			good := false
			if stores[ret.Block()] {
				for _, mu := range storeInstrs {
					if mu.Block() == ret.Block() {
						good = true
					}
				}
			}
			if !good {
				paths, ok := engine.PathFactsAvoid(f, ret.Block(), stores, 4096)
				if !ok {
					r.Undec(rule, o.next(fn(f)+"|return"), r.P.Pos(ret.Pos()), "too many paths")
					continue
				}
				good = len(paths) == 0
			}
			r.Check(good, rule, o.next(fn(f)+"|return"), r.P.Pos(ret.Pos()), "every feasible path to the return stores an entry under the key parameter into the pending map",
				"the method can return without recording the write/removal in the layer's pending map: a removal that is not recorded as a tombstone lets the value of an ancestor block (or of the layer below) show through again")
		}
	}
	if n < 5 {
		r.Anchor(rule, fmt.Errorf("unresolved anchor: %d returns of write/remove methods found", n))
	}
}

// capAbsence: the ancestor walk of StateCache.Get reads "no entry for block X in
// the key's versions map" as "X did not write the key" and walks on to X's
// parent. That inference needs the versions map to keep every entry that is
// newer (on the chain) than an entry it still holds. A container that evicts by
// recency of use (an LRU, refreshed by the lookups themselves) drops a newer
// entry while an older, recently read one stays: the walk then returns the older
// value as a hit. Obligation: every container installed as a per-key versions
// map is either not constructed with a plain capacity-bounded LRU constructor,
// or observes its evictions (constructed with an eviction callback).
func capAbsence(r *engine.Run, rule string) {
	n := 0
	for _, f := range funcsOfPkg(r, pkgSC) {
		if recvNamed(engine.TopFunc(f)) != "StateCache" {
			continue
		}
		engine.Instrs(f, func(in ssa.Instruction) {
			c, ok := in.(*ssa.Call)
			if !ok || !lruCallOnField(c, "Add", "cache") {
				return
			}
			// provenance of the installed versions map
			seen := map[ssa.Value]bool{}
			var ctors []*ssa.Call
			var walk func(v ssa.Value)
			walk = func(v ssa.Value) {
				if seen[v] {
					return
				}
				seen[v] = true
				switch x := v.(type) {
				case *ssa.MakeInterface:
					walk(x.X)
				case *ssa.TypeAssert:
					walk(x.X)
				case *ssa.ChangeInterface:
					walk(x.X)
				case *ssa.Phi:
					for _, e := range x.Edges {
						walk(e)
					}
				case *ssa.Extract:
					walk(x.Tuple)
				case *ssa.Call:
					if extCalleeIs(x, "hashicorp/golang-lru", "", "New") || extCalleeIs(x, "hashicorp/golang-lru", "", "NewWithEvict") {
						ctors = append(ctors, x)
					}
					// a helper of the state cache that gets or creates the map: what it returns
					if g := x.Call.StaticCallee(); g != nil && inRepo(g) && len(g.Blocks) > 0 && g != f {
						for _, ret := range engine.Returns(g) {
							for i := range ret.Results {
								walk(resultValue(ret, i))
							}
						}
					}
				case *ssa.UnOp:
					// a local spilled to memory: follow its stores
					if al, ok := x.X.(*ssa.Alloc); ok {
						for _, ref := range engine.Referrers(al) {
							if st, ok := ref.(*ssa.Store); ok && st.Addr == ssa.Value(al) {
								walk(st.Val)
							}
						}
					}
				}
			}
			walk(c.Call.Args[2])
			for _, k := range ctors {
				n++
				r.CallSites++
				observed := k.Call.StaticCallee().Name() == "NewWithEvict" && !nilConst(k.Call.Args[1])
				r.Check(observed, rule, fn(f)+"|versions map "+k.Call.StaticCallee().Name(), r.P.Pos(k.Pos()),
					"the versions map observes its evictions",
					"the per-key versions map is a capacity-bounded LRU without an eviction observer, and the ancestor walk reads a missing entry as 'this block did not write the key': once the map is full, an older entry kept alive by lookups outlives newer ones and is returned as a hit for blocks that overwrote or removed the key")
			}
		})
	}
	if n < 1 {
		r.Anchor(rule, fmt.Errorf("unresolved anchor: constructor of the per-key versions map"))
	}
}

// retPair: the two results of a lookup agree. Every return of a Get method is
// (a) the pair returned by the next layer's Get (both results of one call),
// (b) (Clone() of an entry's data, true), or (c) (nil, false). A hit without a
// value, a miss with one, or a found value reported as a miss-with-value are
// all wrong answers.
func retPair(r *engine.Run, rule string) {
	n := 0
	for _, m := range []struct{ recv string }{{"TransactionCache"}, {"BlockCache"}, {"StateCache"}, {"QueryBlockCache"}} {
		top := r.Fn(rule, pkgSC, m.recv, "Get")
		if top == nil {
			continue
		}
		group := opGroup(r, top)
		for _, f := range group {
			if f.Signature.Results().Len() != 2 || !isNamed(f.Signature.Results().At(0).Type(), pkgSC, "Value") {
				continue // not a lookup (a helper that returns a link, a map, ...)
			}
			o := ord{}
			for _, ret := range engine.Returns(f) {
				if ret.Block().Comment == "recover" || len(ret.Results) != 2 {
					continue
				}
				n++
				v, okv := resultValue(ret, 0), resultValue(ret, 1)
				why, bad := "", ""
				ev, isEv := v.(*ssa.Extract)
				eo, isEo := okv.(*ssa.Extract)
				switch {
				case isEv && isEo && ev.Tuple == eo.Tuple && ev.Index == 0 && eo.Index == 1:
					if c, ok := ev.Tuple.(*ssa.Call); ok {
						if _, isGet := engine.IsMethodCall(c, "Get"); isGet {
							why = "returns both results of the next layer's Get"
						}
						if h := c.Call.StaticCallee(); h != nil && h != f && inGroup(group, h) {
							why = "returns both results of " + h.Name() + ", a helper of this lookup (judged there)"
						}
					}
					if why == "" {
						bad = "returns the results of something other than a Get of the next layer"
					}
				default:
					oc, isConst := okv.(*ssa.Const)
					if !isConst || oc.Value == nil {
						bad = "the hit flag is neither a constant nor the next layer's"
						break
					}
					hit := oc.Value.ExactString() == "true"
					if hit {
						if c, ok := v.(*ssa.Call); ok {
							if _, isClone := engine.IsMethodCall(c, "Clone"); isClone {
								why = "hit with a Clone() of the entry's data"
							}
						}
						if why == "" {
							bad = "reports a hit without returning a Clone() of an entry's data"
						}
					} else {
						if nilConst(v) {
							why = "miss with a nil value"
						} else {
							bad = "reports a miss together with a value"
						}
					}
				}
				r.Check(bad == "", rule, o.next(fn(f)+"|return"), r.P.Pos(ret.Pos()), why,
					"the two results of the lookup do not agree: "+bad)
			}
		}
	}
	if n < 10 {
		r.Anchor(rule, fmt.Errorf("unresolved anchor: %d returns of the Get methods found", n))
	}
}

// domCommitReached: StateCache.commit gives up (returns before publishing the
// block) only when the block is already committed, and it does store the
// block's entries and publish its link.
func domCommitReached(r *engine.Run, rule string) {
	f := r.Fn(rule, pkgSC, "StateCache", "commit")
	if f == nil {
		return
	}
	var publish, already *ssa.Call
	stores := 0
	engine.Instrs(f, func(in ssa.Instruction) {
		c, ok := in.(*ssa.Call)
		if !ok {
			return
		}
		if staticCalleeIs(c, pkgSC, "StateCache", "commitRound") {
			publish = c
		}
		if lruCallOnField(c, "Get", "hashCache") && already == nil {
			already = c
		}
		if extCalleeIs(c, "hashicorp/golang-lru", "Cache", "Add") && !lruCallOnField(c, "Add", "cache") && !lruCallOnField(c, "Add", "hashCache") {
			stores++
		}
	})
	r.Check(publish != nil && stores > 0, rule, fn(f)+"|stores and publishes", r.P.Pos(f.Pos()), "commit adds the block's entries to the versions maps and calls commitRound",
		fmt.Sprintf("commit no longer stores the block's entries (%d stores found) or no longer publishes the block's link: committed writes are not what descendant lookups return", stores))
	if g, _ := r.P.Func(pkgSC, "StateCache", "commitRound"); g != nil {
		links := 0
		engine.Instrs(g, func(in ssa.Instruction) {
			if c, ok := in.(*ssa.Call); ok && lruCallOnField(c, "Add", "hashCache") {
				links++
			}
		})
		r.Check(links > 0, rule, fn(g)+"|link stored", r.P.Pos(g.Pos()), "commitRound stores the block's link", "commitRound no longer stores the block -> previous block link: lookups at descendants cannot walk to this block")
	}
	if publish == nil || already == nil {
		if already == nil {
			r.Anchor(rule, fmt.Errorf("unresolved anchor: already-committed test of %s", fn(f)))
		}
		return
	}
	var okv ssa.Value
	for _, ref := range engine.Referrers(already) {
		if ex, isEx := ref.(*ssa.Extract); isEx && ex.Index == 1 {
			okv = ex
		}
	}
	o := ord{}
	for _, ret := range engine.Returns(f) {
		if ret.Block().Comment == "recover" || engine.InstrDominates(publish, ret) {
			continue
		}
		good := false
		if okv != nil {
			if atoms, full := engine.AtomsOn(f, ret.Block()); full {
				if t, had := atoms[engine.ValKey(okv)]; had && t {
					good = true
				}
			}
		}
		r.Check(good, rule, o.next(fn(f)+"|early return"), r.P.Pos(ret.Pos()), "returns without publishing only when the block's link is already present",
			"commit can return without storing and publishing the block although the block was not committed before")
	}
}

// domFound: what an lru lookup returned is interpreted (type-asserted) only
// where the lookup's found flag tested true: a missing entry is a nil interface,
// and asserting it panics in the middle of a lookup.
func domFound(r *engine.Run, rule string) {
	n := 0
	for _, f := range funcsOfPkg(r, pkgSC) {
		if len(f.Blocks) == 0 {
			continue
		}
		o := ord{}
		engine.Instrs(f, func(in ssa.Instruction) {
			c, ok := in.(*ssa.Call)
			if !ok || !(extCalleeIs(c, "hashicorp/golang-lru", "Cache", "Get") || extCalleeIs(c, "hashicorp/golang-lru", "Cache", "Peek")) {
				return
			}
			var val, found ssa.Value
			for _, ref := range engine.Referrers(c) {
				if ex, isEx := ref.(*ssa.Extract); isEx {
					if ex.Index == 0 {
						val = ex
					} else {
						found = ex
					}
				}
			}
			if val == nil {
				return
			}
			for _, ref := range engine.Referrers(val) {
				ta, isTA := ref.(*ssa.TypeAssert)
				if !isTA || ta.CommaOk {
					continue
				}
				n++
				good := false
				if found != nil {
					if atoms, full := engine.AtomsOn(f, ta.Block()); full {
						if t, had := atoms[engine.ValKey(found)]; had && t {
							good = true
						}
					}
				}
				r.Check(good, rule, o.next(fn(f)+"|assert lookup result"), r.P.Pos(ta.Pos()), "asserted only where the lookup's found flag tested true",
					"the result of a cache-map lookup is type-asserted on a path where the lookup may have missed: the nil result panics inside the lookup/commit")
			}
		})
	}
	if n < 4 {
		r.Anchor(rule, fmt.Errorf("unresolved anchor: %d asserted lookup results found", n))
	}
}

// freshWrite: a write stores a fresh copy of what was written. In Set/setValue
// every entry stored into the pending map carries, in its data field, the
// result of Clone() - not the data of the entry that was there before (an
// in-place refresh through CopyFrom depends on what the old value's CopyFrom
// does; the tombstone placeholder's CopyFrom copies nothing).
func freshWrite(r *engine.Run, rule string) {
	const stale engine.Label = 1 << 41
	n := 0
	for _, m := range []struct{ recv, name string }{{"TransactionCache", "Set"}, {"BlockCache", "Set"}, {"BlockCache", "setValue"}} {
		f := r.Fn(rule, pkgSC, m.recv, m.name)
		if f == nil {
			continue
		}
		spec := engine.FlowSpec{
			Param: func(p *ssa.Parameter, i int) engine.Label { return stale },
			Value: func(v ssa.Value, get func(ssa.Value) engine.Label) (engine.Label, bool) {
				if c, ok := v.(*ssa.Call); ok {
					if _, is := engine.IsMethodCall(c, "Clone"); is {
						return 0, true
					}
				}
				if _, ok := v.(*ssa.Lookup); ok {
					return stale, true
				}
				if ex, ok := v.(*ssa.Extract); ok {
					if _, ok := ex.Tuple.(*ssa.Lookup); ok {
						return stale, true
					}
				}
				if c, ok := v.(*ssa.Const); ok && c.IsNil() {
					return 0, true
				}
				return 0, false
			},
			HeapLoad: func(ld *ssa.UnOp, base engine.Label) (engine.Label, bool) { return stale, true },
		}
		fl := engine.RunFlow(f, spec)
		o := ord{}
		engine.Instrs(f, func(in ssa.Instruction) {
			mu, ok := in.(*ssa.MapUpdate)
			if !ok {
				return
			}
			if fld := fieldLoadOf(mu.Map); fld == nil || fld.Name() != "cache" {
				return
			}
			n++
			good := false
			if ld, isLoad := mu.Value.(*ssa.UnOp); isLoad {
				if al, isAlloc := engine.AddrRoot(ld.X).(*ssa.Alloc); isAlloc {
					l, found := fl.CellAt(ld, al, ".data")
					good = found && l == 0
				}
			}
			// the entry built by a package-local constructor: the same requirement on each of its returns
			if c, isCall := mu.Value.(*ssa.Call); isCall && !good {
				if h := c.Call.StaticCallee(); h != nil && h.Pkg == f.Pkg && len(h.Blocks) > 0 && h.Signature.Recv() == nil {
					fl2 := engine.RunFlow(h, spec)
					all, any := true, false
					for _, ret := range engine.Returns(h) {
						ok2 := false
						if len(ret.Results) == 1 {
							if ld, isLoad := ret.Results[0].(*ssa.UnOp); isLoad {
								if al, isAlloc := engine.AddrRoot(ld.X).(*ssa.Alloc); isAlloc {
									l, found := fl2.CellAt(ld, al, ".data")
									ok2 = found && l == 0
								}
							}
						}
						any = true
						if !ok2 {
							all = false
						}
					}
					if all && any {
						good = true
						r.Touch(h)
					}
				}
			}
			r.Check(good, rule, o.next(fn(f)+"|stored data"), r.P.Pos(mu.Pos()), "the stored entry's data is the result of Clone()",
				"a write stores an entry whose data is not a fresh Clone() of the written value (the previous entry's object is reused): what the key then holds depends on the old value's CopyFrom, and the tombstone placeholder's CopyFrom copies nothing, so a value written after a removal is lost")
		})
	}
	if n < 3 {
		r.Anchor(rule, fmt.Errorf("unresolved anchor: %d pending-map stores in the write methods", n))
	}
}

// domCommitAll: commit publishes every entry of the block: inside the loop over
// the block's pending map the next iteration is not reachable without adding
// the entry to the key's versions map.
func domCommitAll(r *engine.Run, rule string) {
	f := r.Fn(rule, pkgSC, "StateCache", "commit")
	if f == nil {
		return
	}
	var add *ssa.Call
	engine.Instrs(f, func(in ssa.Instruction) {
		if c, ok := in.(*ssa.Call); ok && extCalleeIs(c, "hashicorp/golang-lru", "Cache", "Add") && !lruCallOnField(c, "Add", "cache") && !lruCallOnField(c, "Add", "hashCache") && inLoopBody(c.Block()) {
			add = c
		}
	})
	if add == nil {
		r.Fail(rule, fn(f)+"|publishes every entry", r.P.Pos(f.Pos()), "commit no longer adds the block's entries to the versions maps inside its loop")
		return
	}
	head := loopHeadOf(add.Block())
	if head == nil {
		r.Anchor(rule, fmt.Errorf("unresolved anchor: loop head of commit's entry loop"))
		return
	}
	bypass := head != add.Block() && loopBypass(head, add.Block())
	r.Check(!bypass, rule, fn(f)+"|publishes every entry", r.P.Pos(add.Pos()), "every iteration of commit's loop adds the entry to the key's versions map",
		"commit can skip an entry of the block (a path to the next iteration bypasses the versions-map Add): a write or a tombstone of the block is not published, so lookups at the block and its descendants walk past it to an older value")
}

// whoVersions: a per-key versions map (block hash -> entry) only ever grows by
// commit's Add and the lookup's add-if-absent memo; capacity eviction is its only
// removal. Emptying it in place (Purge) or removing single versions while the
// lock-free ancestor walk may be between reading an ancestor's entry and
// memoising it leaves the walk's memo as the only entry: the newer writer's
// version is gone and lookups at its descendants hit the ancestor's value.
func whoVersions(r *engine.Run, rule string) {
	n := 0
	for _, f := range funcsOfPkg(r, pkgSC) {
		if len(f.Blocks) == 0 {
			continue
		}
		o := ord{}
		engine.Instrs(f, func(in ssa.Instruction) {
			c, ok := in.(*ssa.Call)
			if !ok {
				return
			}
			sc := c.Call.StaticCallee()
			if sc == nil || sc.Signature.Recv() == nil || !isLRUPtr(sc.Signature.Recv().Type()) || len(c.Call.Args) == 0 {
				return
			}
			// the receiver is a map taken out of the key->versions map (or a new one), not a field of the state cache
			recv := c.Call.Args[0]
			if _, isField := loadOfFieldAny(recv); isField {
				return
			}
			n++
			switch sc.Name() {
			case "Get", "Peek", "Add", "ContainsOrAdd", "PeekOrAdd", "Contains", "Len", "Keys":
				r.OK(rule, o.next(fn(f)+"|versions."+sc.Name()), r.P.Pos(c.Pos()), "a versions map is only read or added to")
			default:
				r.Fail(rule, o.next(fn(f)+"|versions."+sc.Name()), r.P.Pos(c.Pos()), "a per-key versions map is modified with "+sc.Name()+": versions leave the map by capacity eviction only; emptying it (or removing versions) while the lock-free ancestor walk is between reading an ancestor's entry and memoising it leaves that memo as the newest entry, so lookups at descendants of the real writer return the ancestor's value")
			}
		})
	}
	if n < 3 {
		r.Anchor(rule, fmt.Errorf("unresolved anchor: only %d operations on per-key versions maps found", n))
	}
}

func loadOfFieldAny(v ssa.Value) (string, bool) {
	_, f, ok := loadOfField(v)
	return f, ok
}

// orderCommitClear: the block's pending map is what StateCache.commit publishes.
// It is replaced by an empty one only after every entry was published: if the
// map were emptied first and the publishing loop were interrupted (a value's
// Clone panics; the caller recovers and commits again), the second commit finds
// nothing pending, passes the already-committed test and links a block that
// holds only part of its writes.
func orderCommitClear(r *engine.Run, rule string) {
	f := r.Fn(rule, pkgSC, "StateCache", "commit")
	if f == nil {
		return
	}
	var resets []ssa.Instruction
	var adds []*ssa.Call
	engine.Instrs(f, func(in ssa.Instruction) {
		switch x := in.(type) {
		case *ssa.Store:
			if fa, ok := x.Addr.(*ssa.FieldAddr); ok && fieldName(fa) == "BlockCache.cache" {
				resets = append(resets, x)
			}
		case *ssa.Call:
			// delete(bc.cache, key): an entry leaves the pending map
			if b, ok := x.Call.Value.(*ssa.Builtin); ok && b.Name() == "delete" && len(x.Call.Args) == 2 {
				if ld, ok := x.Call.Args[0].(*ssa.UnOp); ok && ld.Op == token.MUL {
					if fa, ok := ld.X.(*ssa.FieldAddr); ok && fieldName(fa) == "BlockCache.cache" {
						resets = append(resets, x)
					}
				}
			}
			if extCalleeIs(x, "hashicorp/golang-lru", "Cache", "Add") && !lruCallOnField(x, "Add", "cache") && !lruCallOnField(x, "Add", "hashCache") {
				adds = append(adds, x)
			}
		}
	})
	if len(resets) == 0 || len(adds) == 0 {
		r.Anchor(rule, fmt.Errorf("unresolved anchor: reset of the block's pending map (%d) / versions-map Add (%d) in %s", len(resets), len(adds), fn(f)))
		return
	}
	bad := ""
	for _, rs := range resets {
		for _, a := range adds {
			if engine.ReachableAfter(rs, a) {
				bad = r.P.Pos(rs.Pos())
			}
		}
	}
	// one critical section: the block's mutex is not released between the first
	// read of the pending map and its replacement - a transaction that commits into
	// the block in between is in neither the published set nor the new map
	var firstRead ssa.Instruction
	engine.Instrs(f, func(in ssa.Instruction) {
		if ld, ok := in.(*ssa.UnOp); ok && ld.Op == token.MUL {
			if fa, ok := ld.X.(*ssa.FieldAddr); ok && fieldName(fa) == "BlockCache.cache" {
				if firstRead == nil || engine.InstrDominates(ld, firstRead) {
					firstRead = ld
				}
			}
		}
	})
	gap := ""
	if firstRead != nil {
		engine.Instrs(f, func(in ssa.Instruction) {
			c, ok := in.(*ssa.Call)
			if !ok {
				return
			}
			if key, op, isLock := engine.LockOp(c); isLock && key == "BlockCache.mu" && (op == "Unlock" || op == "RUnlock") {
				for _, rs := range resets {
					if _, isStore := rs.(*ssa.Store); isStore && engine.ReachableAfter(firstRead, c) && engine.ReachableAfter(c, rs) {
						gap = r.P.Pos(c.Pos())
					}
				}
			}
		})
	}
	r.Check(gap == "", rule, fn(f)+"|one critical section", r.P.Pos(f.Pos()), "the block's mutex is held from the first read of the pending map to its replacement",
		"commit releases the block's mutex ("+gap+") between reading the pending map and replacing it: a transaction of the block that commits in between is neither published nor kept - its write is lost for good and lookups answer with the ancestor's value")
	r.Check(bad == "", rule, fn(f)+"|pending map cleared last", r.P.Pos(f.Pos()), "no versions-map Add is reachable after the block's pending map was replaced or an entry deleted from it",
		"commit replaces the block's pending map or deletes from it ("+bad+") before all its entries are published: if the publishing loop is interrupted (a Clone panics and the caller recovers), the writes are gone from the block's own view while the block is neither linked nor marked committed - its lookups answer with the parent's values, and a repeated Commit publishes only the rest")
}

// whoGlobalCache: the caches are per block / per transaction objects. A
// package-level cache instance is shared by everything that uses it: empty
// transaction caches handed out over one shared block cache leak each other's
// committed writes.
func whoGlobalCache(r *engine.Run, rule string) {
	pk := r.P.SSAPkgs[engine.RepoMod+"/"+pkgSC]
	if pk == nil {
		r.Anchor(rule, fmt.Errorf("unresolved anchor: package %s", pkgSC))
		return
	}
	bad := ""
	n := 0
	for name, m := range pk.Members {
		g, ok := m.(*ssa.Global)
		if !ok {
			continue
		}
		n++
		t := g.Type()
		for i := 0; i < 3; i++ {
			if p, ok := t.Underlying().(*types.Pointer); ok {
				t = p.Elem()
			}
		}
		if nm := namedOf(t); nm != nil {
			if _, isCache := cacheTypes[nm.Obj().Name()]; isCache {
				bad = name
			}
		}
	}
	r.Check(bad == "", rule, "core/statecache|no package-level cache", "core/statecache", fmt.Sprintf("none of the %d package-level variables is a cache instance", n),
		"the package keeps a cache instance in a package-level variable ("+bad+"): every transaction or block cache built over it shares its contents, so a write committed through one shows up in lookups through another that never wrote it")
}

// loadOfFieldOrField: v reads field f of a struct (through a pointer or by value).
func loadOfFieldOrField(v ssa.Value) (ssa.Value, string, bool) {
	if b, f, ok := loadOfField(v); ok {
		return b, f, true
	}
	if fv, ok := v.(*ssa.Field); ok {
		if st, ok := fv.X.Type().Underlying().(*types.Struct); ok && fv.Field < st.NumFields() {
			return fv.X, st.Field(fv.Field).Name(), true
		}
	}
	return nil, "", false
}

// commitMarkers: the bool fields of BlockCache that StateCache.commit (or a helper
// of it) sets to true, and whether commit replaces the block's pending map.
func commitMarkers(r *engine.Run) (map[string]bool, bool) {
	markers := map[string]bool{}
	clears := false
	commit, err := r.P.Func(pkgSC, "StateCache", "commit")
	if err != nil {
		return markers, false
	}
	for _, g := range opGroup(r, commit) {
		engine.Instrs(g, func(in ssa.Instruction) {
			st, ok := in.(*ssa.Store)
			if !ok {
				return
			}
			fa, ok := st.Addr.(*ssa.FieldAddr)
			if !ok || !isNamed(fa.X.Type(), pkgSC, "BlockCache") {
				return
			}
			fld := engine.FieldOf(fa)
			if fld == nil {
				return
			}
			if fld.Name() == "cache" {
				clears = true
			}
			if c := constVal(st.Val); c != nil && c.ExactString() == "true" {
				markers[fld.Name()] = true
			}
		})
	}
	return markers, clears
}

// markerFact: at block b of f, one of the marker fields of the receiver is known
// true (committed) or false.
func markerFact(f *ssa.Function, b *ssa.BasicBlock, markers map[string]bool) (committed, known bool) {
	facts, ok := engine.FactsOn(f, b)
	if !ok {
		return false, false
	}
	for _, ft := range facts {
		if ft.Kind != "bool" {
			continue
		}
		if fld := fieldLoadOf(ft.A); fld != nil && markers[fld.Name()] {
			return ft.Truth, true
		}
	}
	return false, false
}

// iteratedPendingKey: k is the key variable of a range over a pending map (field
// cache), or over a working copy made in the function whose every entry was
// stored under such a key.
func iteratedPendingKey(k ssa.Value, depth int) bool {
	ex, ok := k.(*ssa.Extract)
	if !ok || ex.Index != 1 || depth > 2 {
		return false
	}
	nx, ok := ex.Tuple.(*ssa.Next)
	if !ok {
		return false
	}
	rg, ok := nx.Iter.(*ssa.Range)
	if !ok {
		return false
	}
	if fld := fieldLoadOf(rg.X); fld != nil && fld.Name() == "cache" {
		return true
	}
	if !localMap(rg.X) {
		return false
	}
	n := 0
	for _, ref := range engine.Referrers(rg.X) {
		if mu, ok := ref.(*ssa.MapUpdate); ok {
			n++
			if !iteratedPendingKey(through(mu.Key), depth+1) {
				return false
			}
		}
	}
	return n > 0
}
