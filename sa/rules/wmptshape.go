package rules

import (
	"fmt"
	"go/token"
	"go/types"
	"sort"
	"strings"

	"golang.org/x/tools/go/ssa"

	"verif/sa/engine"
)

// ---- DOM-memo: CalcHash memoises soundly ------------------------------------------

// domMemo: in each CalcHash of a hashed node kind the cached hash is returned
// without recomputation only where the dirty flag tested false, and the
// recomputed hash (the RawHash result) is both stored into the hash field and
// returned.
func domMemo(r *engine.Run, rule string) {
	n := 0
	for _, kind := range []string{"routingNode", "shortNode", "valueNode"} {
		f := r.Fn(rule, pkgWMPT, kind, "CalcHash")
		if f == nil {
			continue
		}
		recv := f.Params[0]
		var raw *ssa.Call
		engine.Instrs(f, func(in ssa.Instruction) {
			if c, ok := in.(*ssa.Call); ok && c.Call.StaticCallee() != nil && c.Call.StaticCallee().Name() == "RawHash" {
				raw = c
			}
		})
		if raw == nil {
			r.Anchor(rule, fmt.Errorf("unresolved anchor: hash computation of %s", fn(f)))
			continue
		}
		stored := false
		var storeRaw *ssa.Store
		engine.Instrs(f, func(in ssa.Instruction) {
			if st, ok := in.(*ssa.Store); ok {
				if fa, ok := st.Addr.(*ssa.FieldAddr); ok && fa.X == ssa.Value(recv) && engine.FieldOf(fa).Name() == "hash" && st.Val == ssa.Value(raw) {
					stored = true
					storeRaw = st
				}
			}
		})
		n++
		r.Check(stored, rule, fn(f)+"|stores recomputed hash", r.P.Pos(raw.Pos()), "the recomputed hash is stored into the hash field",
			"CalcHash recomputes the hash but does not store it: Hash(), Serialize and the parents keep using the old hash")
		o := ord{}
		for _, ret := range engine.Returns(f) {
			if len(ret.Results) != 1 {
				continue
			}
			v := resultValue(ret, 0)
			if v == ssa.Value(raw) {
				continue
			}
			// a re-read of the hash field after the recomputed hash was stored
			if ld, ok := v.(*ssa.UnOp); ok && storeRaw != nil && engine.InstrDominates(storeRaw, ld) {
				continue
			}
			n++
			// a cached-hash return: dirty must have tested false
			good := false
			if atoms, full := engine.AtomsOn(f, ret.Block()); full {
				engine.Instrs(f, func(in ssa.Instruction) {
					if ld, ok := in.(*ssa.UnOp); ok && ld.Op == token.MUL {
						if fa, ok := ld.X.(*ssa.FieldAddr); ok && fa.X == ssa.Value(recv) && engine.FieldOf(fa).Name() == "dirty" {
							if t, had := atoms[engine.ValKey(ld)]; had && !t {
								good = true
							}
						}
					}
				})
			}
			r.Check(good, rule, o.next(fn(f)+"|cached return"), r.P.Pos(ret.Pos()), "the cached hash is returned only where dirty tested false",
				"CalcHash returns the cached hash on a path where the node may be dirty: the root no longer follows content")
		}
	}
	if n < 5 {
		r.Anchor(rule, fmt.Errorf("unresolved anchor: %d obligations over the CalcHash methods", n))
	}
}

// ---- AGREE-endian: one byte order for every fixed-width field ----------------------

func agreeEndian(r *engine.Run, rule string) {
	orders := map[string][]string{}
	for _, f := range funcsOfPkg(r, pkgWMPT) {
		if isGenFile(r, f.Pos()) {
			continue
		}
		engine.Instrs(f, func(in ssa.Instruction) {
			c, ok := in.(*ssa.Call)
			if !ok {
				return
			}
			sc := c.Call.StaticCallee()
			if sc == nil || sc.Signature.Recv() == nil {
				return
			}
			nm := namedOf(sc.Signature.Recv().Type())
			if nm == nil || nm.Obj().Pkg() == nil || nm.Obj().Pkg().Path() != "encoding/binary" {
				return
			}
			orders[nm.Obj().Name()] = append(orders[nm.Obj().Name()], r.P.Pos(c.Pos()))
		})
	}
	var names []string
	total := 0
	for k, v := range orders {
		names = append(names, k)
		total += len(v)
	}
	sort.Strings(names)
	detail := ""
	if len(names) > 1 {
		minor := names[0]
		for _, k := range names {
			if len(orders[k]) < len(orders[minor]) {
				minor = k
			}
		}
		detail = minor + " at " + strings.Join(orders[minor], ", ")
	}
	r.Check(len(names) == 1, rule, "wmpt|byte order", "-", fmt.Sprintf("all %d fixed-width reads and writes use %v", total, names),
		"the weighted trie mixes byte orders ("+detail+"): a weight written in one order is read (or hashed) in the other, so decoded nodes, proofs and hashes disagree with what was stored")
	if total < 6 {
		r.Anchor(rule, fmt.Errorf("unresolved anchor: %d byte-order uses found", total))
	}
}

// ---- AGREE-persist: every persisted field is read back ----------------------------

func agreePersist(r *engine.Run, rule string) {
	des := r.Fn(rule, pkgWMPT, "", "DeserializeNode")
	if des == nil {
		return
	}
	isPersist := func(t types.Type) *types.Named {
		nm := namedOf(t)
		if nm != nil && strings.HasPrefix(nm.Obj().Name(), "Persist") && nm.Obj().Name() != "PersistNodeBase" && nm.Obj().Name() != "PersistTrie" && nm.Obj().Name() != "PersistTriePair" {
			return nm
		}
		return nil
	}
	// writers and readers anywhere in the package (the codec may be split into
	// helpers): a field is written where it is the target of a store, read where
	// it is loaded
	written := map[string]string{}
	read := map[string]bool{}
	for _, f := range funcsOfPkg(r, pkgWMPT) {
		if isGenFile(r, f.Pos()) {
			continue
		}
		engine.Instrs(f, func(in ssa.Instruction) {
			fa, ok := in.(*ssa.FieldAddr)
			if !ok {
				return
			}
			nm := isPersist(fa.X.Type())
			if nm == nil {
				return
			}
			key := nm.Obj().Name() + "." + engine.FieldOf(fa).Name()
			for _, ref := range engine.Referrers(fa) {
				switch x := ref.(type) {
				case *ssa.Store:
					if x.Addr == ssa.Value(fa) {
						written[key] = r.P.Pos(x.Pos())
					}
				case *ssa.UnOp:
					read[key] = true
				}
			}
		})
	}
	var keys []string
	for k := range written {
		keys = append(keys, k)
	}
	sort.Strings(keys)
	for _, k := range keys {
		r.Check(read[k], rule, "wmpt|"+k, written[k], "written by Serialize and read by DeserializeNode",
			"Serialize persists "+k+" but DeserializeNode never reads it: a node loaded from storage (or from a proof/export) lacks that part")
	}
	var rk []string
	for k := range read {
		rk = append(rk, k)
	}
	sort.Strings(rk)
	for _, k := range rk {
		if _, ok := written[k]; !ok {
			r.Fail(rule, "wmpt|"+k, r.P.Pos(des.Pos()), "DeserializeNode reads "+k+" which no Serialize method writes: decoded nodes carry an empty field where the stored node had content")
		}
	}
	if len(keys) < 8 {
		r.Anchor(rule, fmt.Errorf("unresolved anchor: %d persisted fields found", len(keys)))
	}
}

// ---- DOM-childhash / linkback for the export importer -----------------------------

func domChildHash(r *engine.Run, rule string) {
	f := wfn(r, rule, "deserializeTrie")
	if f == nil {
		return
	}
	n := 0
	o := ord{}
	engine.Instrs(f, func(in ssa.Instruction) {
		c, ok := in.(*ssa.Call)
		if !ok || c.Call.StaticCallee() != f {
			return
		}
		var child ssa.Value
		for _, ref := range engine.Referrers(c) {
			if ex, ok := ref.(*ssa.Extract); ok && ex.Index == 0 {
				child = ex
			}
		}
		n++
		// the link store of the child
		var link *ssa.Store
		if child != nil {
			for _, ref := range engine.Referrers(child) {
				if st, ok := ref.(*ssa.Store); ok && st.Val == child {
					link = st
				}
			}
		}
		if link == nil {
			r.Fail(rule, o.next(fn(f)+"|link child"), r.P.Pos(c.Pos()), "the subtree decoded by the recursive call is not stored into its parent: the imported trie keeps bare hash placeholders, and updates of the requested keys fail or diverge")
			return
		}
		// reached only where the placeholder's hash equals the child's hash
		good := false
		engine.Instrs(f, func(i2 ssa.Instruction) {
			eq, ok := i2.(*ssa.Call)
			if !ok || !isBytesEq(eq) {
				return
			}
			usesChild := false
			for _, a := range eq.Call.Args {
				if hc, ok := stripCT(a).(*ssa.Call); ok {
					if rv, is := engine.IsMethodCall(hc, "Hash"); is && rv == child {
						usesChild = true
					}
				}
			}
			if usesChild && truthAt(f, link.Block(), eq, true) {
				good = true
			}
		})
		r.Check(good, rule, o.next(fn(f)+"|link child"), r.P.Pos(link.Pos()), "the child is linked only where its hash tested equal to the hash its parent committed to",
			"a decoded subtree is linked under its parent without checking that its hash is the one the parent commits to: a spliced export is accepted and only (possibly) caught at the root")
	})
	if n < 2 {
		r.Anchor(rule, fmt.Errorf("unresolved anchor: %d recursive calls in deserializeTrie", n))
	}
	// the root check of Deserialize
	if g := wfn(r, rule, "Deserialize"); g != nil {
		var eq *ssa.Call
		engine.Instrs(g, func(in ssa.Instruction) {
			if c, ok := in.(*ssa.Call); ok && isBytesEq(c) {
				eq = c
			}
		})
		recomputed := false
		engine.Instrs(g, func(in ssa.Instruction) {
			if c, ok := in.(*ssa.Call); ok {
				if _, is := engine.IsMethodCall(c, "CalcHash"); is && eq != nil && engine.ReachableAfter(c, eq) {
					// dirty = true stored before, on the same object
					for _, i2 := range c.Block().Instrs {
						if st, ok := i2.(*ssa.Store); ok {
							if fld := engine.FieldOf(st.Addr); fld != nil && fld.Name() == "dirty" {
								if k, ok := st.Val.(*ssa.Const); ok && k.Value != nil && k.Value.ExactString() == "true" {
									recomputed = true
								}
							}
						}
					}
				}
			}
		})
		okRet := false
		if eq != nil {
			okRet = true
			for _, ret := range engine.Returns(g) {
				if len(ret.Results) == 1 && nilConst(resultValue(ret, 0)) && engine.ReachableAfter(eq, ret) {
					if !truthAt(g, ret.Block(), eq, true) {
						okRet = false
					}
				}
			}
		}
		r.Check(eq != nil && recomputed && okRet, rule, fn(g)+"|root check", r.P.Pos(g.Pos()), "the root is marked dirty and re-hashed, and success is returned only where the transmitted root hash equals the recomputed one",
			fmt.Sprintf("the importer no longer recomputes the root hash from the decoded nodes and compares it with the transmitted one (comparison present: %v, recomputation: %v, success only on equality: %v)", eq != nil, recomputed, okRet))
	}
}

// ---- DOM-proofappend: the prover emits every node it walks through ------------------

func domProofAppend(r *engine.Run, rule string) {
	f := wfn(r, rule, "getBlockProof")
	if f == nil {
		return
	}
	// appends to persistTrie.Pairs
	var appends []ssa.Instruction
	engine.Instrs(f, func(in ssa.Instruction) {
		st, ok := in.(*ssa.Store)
		if !ok {
			return
		}
		if fld := engine.FieldOf(st.Addr); fld != nil && fld.Name() == "Pairs" {
			if c, ok := st.Val.(*ssa.Call); ok {
				if b, ok := c.Call.Value.(*ssa.Builtin); ok && b.Name() == "append" {
					appends = append(appends, st)
				}
			}
		}
	})
	// ... or a call of a package helper that does the append on every path to its return
	// (appendProofNode(persistTrie, data))
	appendsPairs := func(h *ssa.Function) bool {
		var sts []*ssa.Store
		engine.Instrs(h, func(in ssa.Instruction) {
			if st, ok := in.(*ssa.Store); ok {
				if fld := engine.FieldOf(st.Addr); fld != nil && fld.Name() == "Pairs" {
					if c, ok := st.Val.(*ssa.Call); ok {
						if b, ok := c.Call.Value.(*ssa.Builtin); ok && b.Name() == "append" {
							sts = append(sts, st)
						}
					}
				}
			}
		})
		if len(sts) == 0 {
			return false
		}
		for _, ret := range engine.Returns(h) {
			dom := false
			for _, st := range sts {
				if engine.InstrDominates(st, ret) {
					dom = true
				}
			}
			if !dom {
				return false
			}
		}
		return true
	}
	engine.Instrs(f, func(in ssa.Instruction) {
		if c, ok := in.(*ssa.Call); ok {
			if h := c.Call.StaticCallee(); h != nil && h != f && h.Pkg == f.Pkg && len(h.Blocks) > 0 && appendsPairs(h) {
				appends = append(appends, c)
				r.Touch(h)
			}
		}
	})
	nodeP := paramRole(f, "node")
	arms := typeArms(f, nodeP)
	n := 0
	o := ord{}
	dominated := func(at ssa.Instruction) bool {
		for _, a := range appends {
			if engine.InstrDominates(a, at) {
				return true
			}
		}
		return false
	}
	engine.Instrs(f, func(in ssa.Instruction) {
		if c, ok := in.(*ssa.Call); ok && c.Call.StaticCallee() == f {
			// re-entering with the resolved form of the same position is not a descent
			if ex, ok := c.Call.Args[1].(*ssa.Extract); ok {
				if rc, ok := ex.Tuple.(*ssa.Call); ok && rc.Call.StaticCallee() != nil && rc.Call.StaticCallee().Name() == "resolveHashNode" {
					return
				}
			}
			n++
			r.Check(dominated(c), rule, o.next(fn(f)+"|descend"), r.P.Pos(c.Pos()), "the node's serialisation is appended to the proof before the walk descends",
				"the prover descends without emitting the node it is leaving: the proof lacks a node and does not verify")
		}
	})
	for _, kind := range []string{"shortNode", "valueNode"} {
		arm := arms[kind]
		if arm == nil {
			continue
		}
		for _, ret := range engine.Returns(f) {
			if !arm.blocks[ret.Block()] || len(ret.Results) != 2 || !nilConst(resultValue(ret, 1)) {
				continue
			}
			n++
			r.Check(dominated(ret), rule, o.next(fn(f)+"|*"+kind+" success"), r.P.Pos(ret.Pos()), "the node's serialisation is appended before the arm succeeds",
				"an arm of the prover succeeds without emitting its node: the proof lacks a node and does not verify")
		}
	}
	if n < 3 {
		r.Anchor(rule, fmt.Errorf("unresolved anchor: %d descent/success sites in getBlockProof", n))
	}
}

// ---- AGREE-decode: what DeserializeNode rebuilds from a branch / shared prefix -------

func agreeDecode(r *engine.Run, rule string) {
	f := branchDecoder(r, rule)
	if f == nil {
		return
	}
	// (1) the branch weight is accumulated from the decoded child weights
	var weightReads []ssa.Value
	engine.Instrs(f, func(in ssa.Instruction) {
		if c, ok := in.(*ssa.Call); ok {
			if sc := c.Call.StaticCallee(); sc != nil && sc.Name() == "Uint64" && sc.Signature.Recv() != nil {
				if nm := namedOf(sc.Signature.Recv().Type()); nm != nil && nm.Obj().Pkg() != nil && nm.Obj().Pkg().Path() == "encoding/binary" {
					weightReads = append(weightReads, c)
				}
			}
		}
	})
	// the decoding of one slot may live in a helper of the decoder: a call of a
	// helper that reads a weight stands for the read (its node result carries it)
	slotHelper := map[ssa.Value]bool{}
	for _, g := range opGroup(r, f) {
		if g == f {
			continue
		}
		reads := false
		engine.Instrs(g, func(in ssa.Instruction) {
			if c, ok := in.(*ssa.Call); ok {
				if sc := c.Call.StaticCallee(); sc != nil && sc.Name() == "Uint64" && sc.Signature.Recv() != nil {
					if nm := namedOf(sc.Signature.Recv().Type()); nm != nil && nm.Obj().Pkg() != nil && nm.Obj().Pkg().Path() == "encoding/binary" {
						reads = true
					}
				}
			}
		})
		if !reads {
			continue
		}
		engine.Instrs(f, func(in ssa.Instruction) {
			if c, ok := in.(*ssa.Call); ok && c.Call.StaticCallee() == g {
				weightReads = append(weightReads, c)
				slotHelper[c] = true
			}
		})
	}
	// nilSlot: the edge of b on which the node a slot helper returned is nil (an empty slot)
	nilSlot := func(b *ssa.BasicBlock) *ssa.BasicBlock {
		if len(b.Instrs) == 0 {
			return nil
		}
		iff, ok := b.Instrs[len(b.Instrs)-1].(*ssa.If)
		if !ok {
			return nil
		}
		bo, ok := iff.Cond.(*ssa.BinOp)
		if !ok || (bo.Op != token.EQL && bo.Op != token.NEQ) {
			return nil
		}
		x, y := bo.X, bo.Y
		if nilConst(x) {
			x, y = y, x
		}
		if !nilConst(y) {
			return nil
		}
		ex, ok := through(x).(*ssa.Extract)
		if !ok || !slotHelper[ex.Tuple] {
			return nil
		}
		if bo.Op == token.EQL {
			return b.Succs[0]
		}
		return b.Succs[1]
	}
	accumulated := false
	var childStores []*ssa.Store
	engine.Instrs(f, func(in ssa.Instruction) {
		st, ok := in.(*ssa.Store)
		if !ok {
			return
		}
		a := st.Addr
		if ia, ok := a.(*ssa.IndexAddr); ok {
			if fa, ok := ia.X.(*ssa.FieldAddr); ok && engine.FieldOf(fa).Name() == "Children" {
				if nm := namedOf(fa.X.Type()); nm != nil && nm.Obj().Name() == "routingNode" {
					childStores = append(childStores, st)
				}
			}
			return
		}
		if fa, ok := a.(*ssa.FieldAddr); ok && engine.FieldOf(fa).Name() == "weight" {
			if nm := namedOf(fa.X.Type()); nm != nil && nm.Obj().Name() == "routingNode" {
				for _, w := range weightReads {
					if dependsOn(st.Val, w) {
						accumulated = true
					}
				}
			}
		}
	})
	r.Check(accumulated, rule, fn(f)+"|branch weight", r.P.Pos(f.Pos()), "the decoded branch's weight is accumulated from the child weights it read",
		"a decoded branch no longer sums the weights of its children: its weight is zero, so range checks and weight-ordered descents on loaded or proven branches go wrong")
	// (2) every accepted child entry ends up in a child slot: from the block that
	// read a child's weight, the loop head is not reachable without passing a
	// store into Children[i] (or leaving through a return)
	storeBlocks := map[*ssa.BasicBlock]bool{}
	for _, st := range childStores {
		storeBlocks[st.Block()] = true
	}
	linked := len(childStores) > 0
	for _, w := range weightReads {
		wc := w.(*ssa.Call)
		start := wc.Block()
		if storeBlocks[start] || !inLoopBody(start) {
			continue
		}
		// loop head: a block that dominates start and is reachable from it
		seen := map[*ssa.BasicBlock]bool{start: true}
		work := []*ssa.BasicBlock{start}
		for len(work) > 0 {
			b := work[0]
			work = work[1:]
			for _, s := range b.Succs {
				if seen[s] || storeBlocks[s] || s == nilSlot(b) {
					continue
				}
				if _, isRet := s.Instrs[len(s.Instrs)-1].(*ssa.Return); isRet {
					continue
				}
				if s.Dominates(start) && s != start {
					linked = false // reached the loop head again without a store
					continue
				}
				seen[s] = true
				work = append(work, s)
			}
		}
	}
	r.Check(linked, rule, fn(f)+"|child slots", r.P.Pos(f.Pos()), "every accepted child entry of a persisted branch is stored into a child slot",
		"a child entry of a persisted branch is accepted but not stored into the decoded branch: the loaded branch lacks a child its hash commits to")
	// (2b) a decoded shared-prefix node always has a value: what is stored into
	// shortNode.value by the decoder is a freshly built reference, or a result that
	// tested non-nil on every path to the store
	for _, g := range opGroup(r, r.Fn(rule, pkgWMPT, "", "DeserializeNode")) {
		if g == nil {
			continue
		}
		o := ord{}
		engine.Instrs(g, func(in ssa.Instruction) {
			st, ok := in.(*ssa.Store)
			if !ok {
				return
			}
			fa, ok := st.Addr.(*ssa.FieldAddr)
			if !ok || engine.FieldOf(fa) == nil || engine.FieldOf(fa).Name() != "value" {
				return
			}
			if nm := namedOf(fa.X.Type()); nm == nil || nm.Obj().Name() != "shortNode" {
				return
			}
			good := false
			if mi, ok := st.Val.(*ssa.MakeInterface); ok {
				if _, isAlloc := mi.X.(*ssa.Alloc); isAlloc {
					good = true
				}
			}
			if !good {
				if facts, ok := engine.FactsOn(g, st.Block()); ok {
					for _, ft := range facts {
						if ft.Kind == "eq" && !ft.Truth && ((sameVal(ft.A, st.Val) && nilConst(ft.B)) || (sameVal(ft.B, st.Val) && nilConst(ft.A))) {
							good = true
						}
					}
				}
			}
			r.Check(good, rule, o.next(fn(g)+"|short value set"), r.P.Pos(st.Pos()), "the decoded shared-prefix node gets a value that is not nil",
				"a decoded shared-prefix node can get a nil value (the stored result is neither freshly built nor tested non-nil): Serialize, Weight and the walks dereference it - accepted bytes that panic on re-encoding")
		})
	}
	// (3) the shared-prefix node persists its value's hash and weight
	if g := r.Fn(rule, pkgWMPT, "shortNode", "Serialize"); g != nil {
		hashCopied, weightPut := false, false
		engine.Instrs(g, func(in ssa.Instruction) {
			c, ok := in.(*ssa.Call)
			if !ok {
				return
			}
			if b, ok := c.Call.Value.(*ssa.Builtin); ok && b.Name() == "copy" {
				if hc, ok := c.Call.Args[1].(*ssa.Call); ok {
					if _, is := engine.IsMethodCall(hc, "Hash"); is {
						hashCopied = true
					}
				}
			}
			if sc := c.Call.StaticCallee(); sc != nil && (sc.Name() == "PutUint64" || sc.Name() == "AppendUint64") {
				for _, a := range c.Call.Args {
					if wc, ok := a.(*ssa.Call); ok {
						if _, is := engine.IsMethodCall(wc, "Weight"); is {
							weightPut = true
						}
					}
				}
			}
		})
		r.Check(hashCopied && weightPut, rule, fn(g)+"|value reference", r.P.Pos(g.Pos()), "the persisted value reference is filled from the value's Hash() and Weight()",
			fmt.Sprintf("the shared-prefix node no longer persists its value's hash (%v) or weight (%v): the loaded node points nowhere or weighs nothing", hashCopied, weightPut))
	}
}

// ---- DOM-shortkey: a shared-prefix node never has an empty key ----------------------

// domShortKey: every shortNode built by insert/delete gets a key that is
// provably non-empty at the construction site: the walk's key parameter where
// len(key) == 0 tested false, a prefix X[:k] where k == 0 tested false, a
// suffix X[k:] where len(X) == k tested false, a freshly made slice of constant
// positive length or of length n + c (c >= 1), or a composite literal with
// elements. An empty-key node is a second encoding of "the value sits here":
// another hash for the same content, and a later update adds the full weight.
func domShortKey(r *engine.Run, rule string) {
	n := 0
	for _, name := range []string{"insert", "delete"} {
		f := wfn(r, rule, name)
		if f == nil {
			continue
		}
		keyP := f.Params[3]
		if name == "delete" {
			keyP = f.Params[3]
		}
		o := ord{}
		engine.Instrs(f, func(in ssa.Instruction) {
			st, ok := in.(*ssa.Store)
			if !ok {
				return
			}
			fa, ok := st.Addr.(*ssa.FieldAddr)
			if !ok || engine.FieldOf(fa).Name() != "key" {
				return
			}
			if nm := namedOf(fa.X.Type()); nm == nil || nm.Obj().Name() != "shortNode" {
				return
			}
			n++
			facts, _ := engine.FactsOn(f, st.Block())
			eqFalse := func(a ssa.Value, isB func(ssa.Value) bool) bool {
				for _, ft := range facts {
					if ft.Kind != "eq" || ft.Truth {
						continue
					}
					if engine.ValKey(ft.A) == engine.ValKey(a) && isB(ft.B) || engine.ValKey(ft.B) == engine.ValKey(a) && isB(ft.A) {
						return true
					}
				}
				return false
			}
			isZeroV := func(v ssa.Value) bool { return isZero(v) }
			lenOf := func(x ssa.Value) func(ssa.Value) bool {
				return func(v ssa.Value) bool {
					c, ok := v.(*ssa.Call)
					if !ok {
						return false
					}
					b, ok := c.Call.Value.(*ssa.Builtin)
					return ok && b.Name() == "len" && engine.ValKey(c.Call.Args[0]) == engine.ValKey(x)
				}
			}
			why := ""
			v := st.Val
			switch x := v.(type) {
			case *ssa.Parameter:
				if x == keyP {
					// len(key) == 0 false
					for _, ft := range facts {
						if ft.Kind == "eq" && !ft.Truth && (lenOf(x)(ft.A) && isZero(ft.B) || lenOf(x)(ft.B) && isZero(ft.A)) {
							why = "the walk's key where len(key) == 0 tested false"
						}
					}
				}
			case *ssa.Slice:
				switch {
				case x.High != nil && x.Low == nil && eqFalse(x.High, isZeroV):
					why = "a prefix X[:k] where k == 0 tested false"
				case x.Low != nil && x.High == nil && eqFalse(x.Low, lenOf(x.X)):
					why = "a suffix X[k:] where len(X) == k tested false"
				case x.Low == nil && x.High == nil:
					if al, ok := x.X.(*ssa.Alloc); ok {
						if arr, ok := al.Type().Underlying().(*types.Pointer).Elem().Underlying().(*types.Array); ok && arr.Len() >= 1 {
							why = "a literal with elements"
						}
					}
				}
			case *ssa.MakeSlice:
				if k, isK := intConst(x.Len); isK && k >= 1 {
					why = "a made slice of positive constant length"
				} else if b, ok := x.Len.(*ssa.BinOp); ok && b.Op == token.ADD {
					lenOfKey := func(v ssa.Value) bool {
						c, ok := v.(*ssa.Call)
						if !ok {
							return false
						}
						bi, ok := c.Call.Value.(*ssa.Builtin)
						if !ok || bi.Name() != "len" {
							return false
						}
						fld := fieldLoadOf(c.Call.Args[0])
						return fld != nil && fld.Name() == "key"
					}
					if lenOfKey(b.X) || lenOfKey(b.Y) {
						why = "a made slice at least as long as an existing node's key (non-empty by induction)"
					} else if k, isK := intConst(b.Y); isK && k >= 1 {
						why = "a made slice of length n + c, c >= 1"
					} else if k, isK := intConst(b.X); isK && k >= 1 {
						why = "a made slice of length c + n, c >= 1"
					}
				}
			}
			if why == "" {
				// a key put together piece by piece (append chains, make+copy): non-empty when one
				// piece is a single byte or the whole key of an existing shared-prefix node
				if segs, bad := segsOf(v, 0); bad == "" {
					for _, sg := range segs {
						if sg.b != nil {
							why = "a concatenation that contains a single nibble"
						}
						if sg.whole != nil {
							if _, fldName, ok := loadOfField(sg.whole); ok && fldName == "key" {
								why = "a concatenation that contains an existing node's whole key (non-empty by induction)"
							}
						}
					}
				}
			}
			r.Check(why != "", rule, o.next(fn(f)+"|shortNode key"), r.P.Pos(st.Pos()), why,
				"a shared-prefix node is built with a key that is not provably non-empty: with an empty key the value gets a second, non-canonical encoding (another root for the same content) and a later update of that key adds its full weight instead of the difference")
		})
	}
	if n < 3 {
		r.Anchor(rule, fmt.Errorf("unresolved anchor: %d shortNode constructions in insert/delete", n))
	}
}

// ---- FRESH-resolved: a resolved reference is a private, freshly decoded node --------

func freshResolved(r *engine.Run, rule string) {
	f := wfn(r, rule, "resolveHashNode")
	if f == nil {
		return
	}
	var dec *ssa.Call
	engine.Instrs(f, func(in ssa.Instruction) {
		if c, ok := in.(*ssa.Call); ok && c.Call.StaticCallee() != nil && c.Call.StaticCallee().Name() == "DeserializeNode" {
			dec = c
		}
	})
	if dec == nil {
		r.Anchor(rule, fmt.Errorf("unresolved anchor: decoding call in %s", fn(f)))
		return
	}
	var node ssa.Value
	for _, ref := range engine.Referrers(dec) {
		if ex, ok := ref.(*ssa.Extract); ok && ex.Index == 0 {
			node = ex
		}
	}
	o := ord{}
	n := 0
	for _, ret := range engine.Returns(f) {
		if len(ret.Results) != 2 {
			continue
		}
		v := resultValue(ret, 0)
		if nilConst(v) {
			continue
		}
		n++
		r.Check(node != nil && v == node, rule, o.next(fn(f)+"|returned node"), r.P.Pos(ret.Pos()), "the node returned is the one decoded by this call",
			"resolveHashNode returns a node that was not decoded by this call (a cached object): insert, delete and commit change loaded nodes in place, so a shared object no longer is the node its hash names")
	}
	// the decoded node does not escape into the trie's own state
	escapes := ""
	if node != nil {
		for _, ref := range engine.Referrers(node) {
			switch x := ref.(type) {
			case *ssa.Return, *ssa.Extract:
			case *ssa.MakeInterface:
				for _, r2 := range engine.Referrers(x) {
					if _, isRet := r2.(*ssa.Return); !isRet {
						escapes = r.P.Pos(r2.Pos())
					}
				}
			case *ssa.BinOp, *ssa.DebugRef, *ssa.TypeAssert:
				// compared or inspected, not kept
			case *ssa.Call:
				// a method called on the node (node.Hash()) reads it; the node handed to
				// anything else as an argument may be kept there
				if x.Call.IsInvoke() && x.Call.Value == node {
					argToo := false
					for _, a := range x.Call.Args {
						if a == node {
							argToo = true
						}
					}
					if !argToo {
						continue
					}
				}
				escapes = r.P.Pos(ref.Pos())
			default:
				escapes = r.P.Pos(ref.Pos())
			}
		}
	}
	n++
	r.Check(escapes == "", rule, fn(f)+"|no sharing", r.P.Pos(dec.Pos()), "the decoded node is only returned",
		"the freshly decoded node is also kept somewhere else ("+escapes+"): the walk that receives it mutates it in place, and the kept copy goes stale under its hash")
	if n < 2 {
		r.Anchor(rule, fmt.Errorf("unresolved anchor: returns of resolveHashNode"))
	}
}

// ---- FRESH-copy: Copy/CopyRoot of a mutable node never hands out the node itself --------

// A root obtained with CopyRoot is the root of a trie of its own
// (wmpt.New(root, db)) that serves proofs and lookups while the original keeps
// changing. insert updates value nodes in place (weight, value, dirty),
// Serialize/CalcHash write hash and dirty, commit clears dirty: a node object
// that both tries reach is changed under the snapshot (its proofs stop
// verifying against its root) and is marked clean by the snapshot's proof
// generation so the original's commit skips it.
//
// Rule: for every node type of the package some method or trie operation
// writes a field of (a mutable type), no return of its Copy or CopyRoot is the
// receiver itself, and no child slot of the returned copy is filled with a
// child loaded directly from the receiver.
func freshCopy(r *engine.Run, rule string) {
	funcs := funcsOfPkg(r, pkgWMPT)
	mutable := map[string]bool{}
	for _, f := range funcs {
		engine.Instrs(f, func(in ssa.Instruction) {
			st, ok := in.(*ssa.Store)
			if !ok {
				return
			}
			fa, ok := st.Addr.(*ssa.FieldAddr)
			if !ok {
				if ia, ok2 := st.Addr.(*ssa.IndexAddr); ok2 {
					fa, ok = ia.X.(*ssa.FieldAddr)
				}
				if !ok {
					return
				}
			}
			if _, fresh := fa.X.(*ssa.Alloc); fresh {
				return
			}
			if p, ok := fa.X.Type().Underlying().(*types.Pointer); ok {
				if nm := namedOf(p.Elem()); nm != nil {
					mutable[nm.Obj().Name()] = true
				}
			}
		})
	}
	isRecv := func(f *ssa.Function, v ssa.Value) bool {
		seen := map[ssa.Value]bool{}
		var walk func(v ssa.Value) bool
		walk = func(v ssa.Value) bool {
			if seen[v] {
				return false
			}
			seen[v] = true
			switch x := v.(type) {
			case *ssa.Parameter:
				return len(f.Params) > 0 && x == f.Params[0]
			case *ssa.MakeInterface:
				return walk(x.X)
			case *ssa.ChangeType:
				return walk(x.X)
			case *ssa.ChangeInterface:
				return walk(x.X)
			case *ssa.Phi:
				for _, e := range x.Edges {
					if walk(e) {
						return true
					}
				}
			}
			return false
		}
		return walk(v)
	}
	n := 0
	for _, f := range funcs {
		if f.Parent() != nil || f.Signature.Recv() == nil || f.Blocks == nil {
			continue
		}
		if f.Name() != "Copy" && f.Name() != "CopyRoot" {
			continue
		}
		rt := recvNamed(f)
		if rt == "WeightedMerkleTrie" || rt == "" {
			continue
		}
		r.Touch(f)
		if !mutable[rt] {
			r.Note(rule, fn(f), r.P.Pos(f.Pos()), "no field of "+rt+" is ever written after construction: sharing the object is harmless")
			continue
		}
		n++
		bad, pos := "", r.P.Pos(f.Pos())
		for _, ret := range engine.Returns(f) {
			if len(ret.Results) != 1 {
				continue
			}
			if isRecv(f, resultValue(ret, 0)) {
				bad, pos = "returns the node itself", r.P.Pos(ret.Pos())
			}
		}
		// child slots of the copy
		engine.Instrs(f, func(in ssa.Instruction) {
			st, ok := in.(*ssa.Store)
			if !ok || !isNodeIfaceW(st.Val.Type()) {
				return
			}
			ld, ok := st.Val.(*ssa.UnOp)
			if !ok || ld.Op != token.MUL {
				return
			}
			base := ld.X
			if ia, ok := base.(*ssa.IndexAddr); ok {
				base = ia.X
			}
			if fa, ok := base.(*ssa.FieldAddr); ok && len(f.Params) > 0 && fa.X == ssa.Value(f.Params[0]) {
				bad, pos = "fills a child slot of the copy with the receiver's own child object", r.P.Pos(st.Pos())
			}
		})
		// byte fields of the copy: either the source's slice itself (immutable hashes)
		// or a new slice filled with the whole of the source's same field
		engine.Instrs(f, func(in ssa.Instruction) {
			st, ok := in.(*ssa.Store)
			if !ok || !isByteSlice(st.Val.Type()) {
				return
			}
			fa, ok := st.Addr.(*ssa.FieldAddr)
			if !ok {
				return
			}
			if _, fresh := fa.X.(*ssa.Alloc); !fresh || recvNamedType(fa.X.Type()) != rt {
				return
			}
			dst := engine.FieldOf(fa)
			if dst == nil {
				return
			}
			segs, why := segsOf(st.Val, 0)
			good := why == "" && len(segs) == 1 && segs[0].whole != nil
			if good {
				b, fld, ok := loadOfField(segs[0].whole)
				good = ok && len(f.Params) > 0 && b == ssa.Value(f.Params[0]) && fld == dst.Name()
			}
			if !good {
				bad, pos = "gives the copy a "+dst.Name()+" that is not the whole "+dst.Name()+" of the source ("+why+" "+fmtSegs(segs)+")", r.P.Pos(st.Pos())
			}
		})
		r.Check(bad == "", rule, fn(f), pos, "the copy is a new object on every return, its child slots hold copies or hash references, its byte fields are the source's",
			fn(f)+" "+bad+": "+rt+" objects are changed in place (insert updates weight/value/dirty, Serialize and CalcHash write hash and dirty, commit clears dirty), so the snapshot trie built from CopyRoot changes when the original does (its proofs no longer verify against its root) and proof generation on the snapshot marks the shared node clean, which makes the original's commit skip it")
	}
	if n < 4 {
		r.Anchor(rule, fmt.Errorf("unresolved anchor: only %d Copy/CopyRoot methods of mutable node types found", n))
	}
}

func isNodeIfaceW(t types.Type) bool { return isNamed(t, pkgWMPT, "Node") }

// ---- FRESH-hashbuf: a node's hash buffer is never rewritten in place -----------------

// Hash() hands out the node's hash slice itself, and the trie keeps such slices
// without copying: the checkpoint (SaveRoot: oldRoot.hash = root.Hash()), the
// previous hash a commit schedules for deletion, the hash references built by
// Copy/CopyRoot and by the collapse, Root(). That is sound only as long as a
// hash, once computed, is an immutable value: CalcHash installs a NEW slice. A
// recomputation that writes into the old buffer (h.Sum(s.hash[:0]),
// copy(s.hash, ...), append(s.hash[:0], ...)) silently rewrites the saved
// checkpoint hash and the scheduled deletes.
//
// Rule: in the weighted trie no value derived from a load of a node's `hash`
// field is the destination of copy, the base of append, the target of an
// element store, or - re-sliced - an argument of a call.
func freshHashBuf(r *engine.Run, rule string) {
	n := 0
	for _, f := range funcsOfPkg(r, pkgWMPT) {
		if len(f.Blocks) == 0 {
			continue
		}
		o := ord{}
		engine.Instrs(f, func(in ssa.Instruction) {
			ld, ok := in.(*ssa.UnOp)
			if !ok || ld.Op != token.MUL || !isByteSlice(ld.Type()) {
				return
			}
			fld := engine.FieldOf(ld.X)
			if fld == nil || fld.Name() != "hash" {
				return
			}
			n++
			bad := ""
			var badAt ssa.Instruction
			var visit func(v ssa.Value, resliced bool, depth int)
			visit = func(v ssa.Value, resliced bool, depth int) {
				if depth > 4 {
					return
				}
				for _, ref := range engine.Referrers(v) {
					switch x := ref.(type) {
					case *ssa.Slice:
						if x.X == v {
							visit(x, true, depth+1)
						}
					case *ssa.IndexAddr:
						if x.X != v {
							continue
						}
						for _, r2 := range engine.Referrers(x) {
							if st, ok := r2.(*ssa.Store); ok && st.Addr == ssa.Value(x) {
								bad, badAt = "an element of the hash is overwritten", st
							}
						}
					case ssa.CallInstruction:
						cc := x.Common()
						if b, ok := cc.Value.(*ssa.Builtin); ok {
							if (b.Name() == "copy" || b.Name() == "append") && len(cc.Args) > 0 && cc.Args[0] == v {
								bad, badAt = "the hash buffer is the destination of "+b.Name(), x
							}
							continue
						}
						if !resliced {
							continue // handing the hash itself to a call is a read (Equal, Put, Delete ...)
						}
						for _, a := range cc.Args {
							if a == v {
								bad, badAt = "a re-sliced hash buffer is handed to "+engine.CalleeName(x)+" (an output buffer)", x
							}
						}
					}
				}
			}
			visit(ld, false, 0)
			cons := o.next(fn(f) + "|hash read")
			if bad == "" {
				r.OK(rule, cons, r.P.Pos(ld.Pos()), "the loaded hash is only read")
				return
			}
			r.Fail(rule, cons, r.P.Pos(badAt.Pos()), bad+": Hash() hands out this very slice and the checkpoint (SaveRoot), the scheduled deletes of a commit and the hash references of Copy/CopyRoot keep it without copying, so recomputing a hash in place rewrites the saved checkpoint root (Rollback then installs the new root and deletes it; RollbackTrie sees 'same root' and rolls nothing back)")
		})
	}
	if n < 10 {
		r.Anchor(rule, fmt.Errorf("unresolved anchor: only %d loads of node hash fields found", n))
	}
}

// ---- ORDER-errstore: a failed call's node result never reaches the trie ----------------

// Every walker returns (…, Node, error) and returns a nil node together with an
// error. Storing the node result into a slot of a live node before the error
// was looked at erases that slot on a failed storage read: the in-memory trie
// silently loses a subtree while its cached hash and weight still cover it.
//
// Rule: in the weighted trie, a store of the node result of a call that also
// returns an error into a field or slot of an object that is not freshly built
// in this function is reached only where that error tested nil.
func orderErrStore(r *engine.Run, rule string) {
	n := 0
	for _, f := range funcsOfPkg(r, pkgWMPT) {
		if len(f.Blocks) == 0 {
			continue
		}
		o := ord{}
		engine.Instrs(f, func(in ssa.Instruction) {
			c, ok := in.(*ssa.Call)
			if !ok {
				return
			}
			tup, ok := c.Type().(*types.Tuple)
			if !ok {
				return
			}
			ni, ei := -1, -1
			for i := 0; i < tup.Len(); i++ {
				if isNodeIfaceW(tup.At(i).Type()) {
					ni = i
				}
				if isErrorType(tup.At(i).Type()) {
					ei = i
				}
			}
			if ni < 0 || ei < 0 {
				return
			}
			node, errv := extractOf(c, ni), extractOf(c, ei)
			if node == nil {
				return
			}
			for _, ref := range engine.Referrers(node) {
				st, ok := ref.(*ssa.Store)
				if !ok || st.Val != ssa.Value(node) {
					continue
				}
				var base ssa.Value
				switch a := st.Addr.(type) {
				case *ssa.FieldAddr:
					base = a.X
				case *ssa.IndexAddr:
					base = a.X
					if fa, ok := a.X.(*ssa.FieldAddr); ok {
						base = fa.X
					}
				default:
					continue
				}
				// only slots of node objects: the loaders (Deserialize, VerifyBlockProof) replace
				// the trie's root wholesale, on failure as on success
				if nm := namedOf(base.Type()); nm == nil || !strings.HasSuffix(nm.Obj().Name(), "Node") {
					// ... but the root slot of the trie itself counts when the result comes from
					// one of the walks (Update installing what insert/delete returned)
					isWalk := false
					if sc := c.Call.StaticCallee(); sc != nil && (sc.Name() == "insert" || sc.Name() == "delete") && recvNamed(sc) == "WeightedMerkleTrie" {
						isWalk = true
					}
					fa, isFA := st.Addr.(*ssa.FieldAddr)
					if !(isWalk && isFA && engine.FieldOf(fa).Name() == "root") {
						continue
					}
				}
				if al, fresh := base.(*ssa.Alloc); fresh && al.Heap {
					if _, isStruct := al.Type().Underlying().(*types.Pointer).Elem().Underlying().(*types.Struct); isStruct {
						continue // a node being built here: dropped with the error
					}
				}
				if _, local := base.(*ssa.Alloc); local {
					if !base.(*ssa.Alloc).Heap {
						continue
					}
				}
				n++
				good := false
				if errv != nil {
					if facts, ok := engine.FactsOn(f, st.Block()); ok {
						for _, ft := range facts {
							if ft.Kind == "eq" && ft.Truth && (ft.A == ssa.Value(errv) && nilConst(ft.B) || ft.B == ssa.Value(errv) && nilConst(ft.A)) {
								good = true
							}
						}
					}
					// same block, after an `if err != nil` is impossible; a store in the call's own block precedes any test
					if st.Block() == c.Block() {
						good = false
					}
				}
				r.Check(good, rule, o.next(fn(f)+"|node result stored"), r.P.Pos(st.Pos()), "the node result is stored into the live trie only where the call's error tested nil",
					"the node returned by "+engine.CalleeName(c)+" is stored into a live node before its error is checked: on a failed storage read the call returns nil, the slot is erased, and the trie silently loses that subtree while hash and weight of the nodes above still cover it (a retry then exports or proves a different trie)")
			}
		})
	}
	if n < 5 {
		r.Anchor(rule, fmt.Errorf("unresolved anchor: only %d stores of walker results into live nodes found", n))
	}
}

// ---- AGREE-copyroot: a snapshot keeps node kinds above the collapse level ------------------

// CopyRoot(level, collapseLevel) copies the trie down to the collapse level and
// replaces what lies below by hash references. Above that level the copy has to
// be the same trie: same node kinds, children copied by the same method one
// level deeper. The shallow Copy() turns every child - also an embedded
// shared-prefix child - into a bare hash reference; used one level early it
// yields a snapshot with the same root and weight whose exports and later
// deletes diverge from the full trie.
//
// Rule: in CopyRoot of a node kind with children, every return that is not
// reached under level == collapseLevel is a newly built node of the receiver's
// own kind whose child slots are filled only from CopyRoot(level+1,
// collapseLevel) calls.
func agreeCopyRoot(r *engine.Run, rule string) {
	n := 0
	for _, f := range funcsOfPkg(r, pkgWMPT) {
		if f.Parent() != nil || f.Name() != "CopyRoot" || f.Signature.Recv() == nil || len(f.Blocks) == 0 {
			continue
		}
		rt := recvNamed(f)
		if rt == "WeightedMerkleTrie" {
			continue
		}
		// node kinds with children: a struct field of Node type or an array of Node
		hasKids := false
		if p, ok := f.Signature.Recv().Type().Underlying().(*types.Pointer); ok {
			if st, ok := p.Elem().Underlying().(*types.Struct); ok {
				for i := 0; i < st.NumFields(); i++ {
					t := st.Field(i).Type()
					if isNodeIfaceW(t) {
						hasKids = true
					}
					if a, ok := t.Underlying().(*types.Array); ok && isNodeIfaceW(a.Elem()) {
						hasKids = true
					}
				}
			}
		}
		if !hasKids {
			continue
		}
		var ints []ssa.Value
		for _, p := range f.Params[1:] {
			if b, ok := p.Type().Underlying().(*types.Basic); ok && b.Kind() == types.Int {
				ints = append(ints, p)
			}
		}
		if len(ints) != 2 {
			r.Anchor(rule, fmt.Errorf("unresolved anchor: level parameters of %s", fn(f)))
			continue
		}
		lvl, col := ints[0], ints[1]
		r.Touch(f)
		o := ord{}
		for _, ret := range engine.Returns(f) {
			if len(ret.Results) != 1 {
				continue
			}
			n++
			cons := o.next(fn(f) + "|return")
			pos := r.P.Pos(ret.Pos())
			atCollapse := false
			if facts, ok := engine.FactsOn(f, ret.Block()); ok {
				for _, ft := range facts {
					if ft.Kind == "eq" && ft.Truth && (ft.A == lvl && ft.B == col || ft.A == col && ft.B == lvl) {
						atCollapse = true
					}
				}
			}
			if atCollapse {
				r.OK(rule, cons, pos, "reached only at the collapse level: a reference form is what is asked for")
				continue
			}
			v := resultValue(ret, 0)
			if mi, ok := v.(*ssa.MakeInterface); ok {
				v = mi.X
			}
			al, ok := v.(*ssa.Alloc)
			if !ok || recvNamedType(al.Type()) != rt {
				r.Fail(rule, cons, pos, "above the collapse level CopyRoot returns something other than a newly built "+rt+" (e.g. the shallow Copy(), which turns every child into a bare hash reference): the snapshot has the same root and weight but not the same nodes, so exports taken from it and deletes applied to it diverge from the full trie")
				continue
			}
			bad := ""
			engine.Instrs(f, func(in ssa.Instruction) {
				st, ok := in.(*ssa.Store)
				if !ok || !isNodeIfaceW(st.Val.Type()) {
					return
				}
				var base ssa.Value
				switch a := st.Addr.(type) {
				case *ssa.FieldAddr:
					base = a.X
				case *ssa.IndexAddr:
					if fa, ok := a.X.(*ssa.FieldAddr); ok {
						base = fa.X
					}
				}
				if base != ssa.Value(al) {
					return
				}
				c, ok := st.Val.(*ssa.Call)
				if !ok || !(c.Call.IsInvoke() && c.Call.Method.Name() == "CopyRoot" || c.Call.StaticCallee() != nil && c.Call.StaticCallee().Name() == "CopyRoot") {
					bad = "a child slot of the copy is not filled by the child's CopyRoot"
					return
				}
				args := c.Call.Args
				if !c.Call.IsInvoke() {
					args = args[1:]
				}
				if len(args) != 2 || !succOf(args[0], lvl) || args[1] != col {
					bad = "a child is copied with other level arguments than (level+1, collapseLevel)"
				}
			})
			r.Check(bad == "", rule, cons, pos, "a new "+rt+" whose children are CopyRoot(level+1, collapseLevel) copies",
				bad+": the snapshot collapses at another depth than asked for, or keeps other node kinds than the trie it was taken from")
		}
	}
	if n < 4 {
		r.Anchor(rule, fmt.Errorf("unresolved anchor: only %d returns of CopyRoot methods of node kinds with children", n))
	}
}

func recvNamedType(t types.Type) string {
	if nm := namedOf(t); nm != nil {
		return nm.Obj().Name()
	}
	return ""
}

// ---- AGREE-childset: the hash and the serialisation cover the same children -----------------

// A branch's hash is computed over every child slot (an empty slot as the empty
// state). A proof or an export carries the branch's serialisation, from which
// the verifier recomputes that hash: the serialisation must therefore write
// every child that is present. A Serialize that leaves out some present
// children (e.g. weightless ones) produces honest proofs that verify to another
// hash than the trie's root.
//
// Rule: in routingNode.Serialize the write of a child into the persisted child
// list is conditional on nothing but the child's presence (its nil test) and
// its kind (type assertions, which select the layout); any other condition that
// depends on the child makes the written set a proper subset of the hashed set.
func agreeChildSet(r *engine.Run, rule string) {
	f, err := r.P.Func(pkgWMPT, "routingNode", "Serialize")
	if !r.Anchor(rule, err) || len(f.Blocks) == 0 {
		return
	}
	r.Touch(f)
	// child values: Node loaded from an element of a Node array
	isChild := func(v ssa.Value) bool {
		if ix, ok := v.(*ssa.Index); ok {
			return isNodeArray(ix.X)
		}
		arr, _, ok := loadOfIndex(v)
		return ok && isNodeArray(arr)
	}
	var dependsOnChild func(v ssa.Value, depth int) bool
	dependsOnChild = func(v ssa.Value, depth int) bool {
		if v == nil || depth > 6 {
			return false
		}
		if isChild(v) {
			return true
		}
		switch x := v.(type) {
		case *ssa.Call:
			if x.Call.IsInvoke() && dependsOnChild(x.Call.Value, depth+1) {
				return true
			}
			for _, a := range x.Call.Args {
				if dependsOnChild(a, depth+1) {
					return true
				}
			}
		case *ssa.BinOp:
			return dependsOnChild(x.X, depth+1) || dependsOnChild(x.Y, depth+1)
		case *ssa.UnOp:
			return dependsOnChild(x.X, depth+1)
		case *ssa.Extract:
			return dependsOnChild(x.Tuple, depth+1)
		case *ssa.TypeAssert:
			return dependsOnChild(x.X, depth+1)
		case *ssa.Convert:
			return dependsOnChild(x.X, depth+1)
		case *ssa.FieldAddr:
			return dependsOnChild(x.X, depth+1)
		}
		return false
	}
	n := 0
	o := ord{}
	engine.Instrs(f, func(in ssa.Instruction) {
		st, ok := in.(*ssa.Store)
		if !ok {
			return
		}
		ia, ok := st.Addr.(*ssa.IndexAddr)
		if !ok || !isByteSlice(st.Val.Type()) {
			return
		}
		if _, isSl := ia.X.Type().Underlying().(*types.Slice); !isSl {
			return
		}
		n++
		extra := ""
		if facts, ok := engine.FactsOn(f, st.Block()); ok {
			for _, ft := range facts {
				switch ft.Kind {
				case "eq":
					if (isChild(ft.A) && nilConst(ft.B)) || (isChild(ft.B) && nilConst(ft.A)) {
						continue // presence
					}
				case "bool":
					if ex, ok := ft.A.(*ssa.Extract); ok {
						if _, isTA := ex.Tuple.(*ssa.TypeAssert); isTA {
							continue // kind
						}
					}
				}
				if dependsOnChild(ft.A, 0) || dependsOnChild(ft.B, 0) {
					extra = ft.Key
				}
			}
		}
		r.Check(extra == "", rule, o.next(fn(f)+"|child written"), r.P.Pos(st.Pos()), "a child is written whenever it is present (conditions: nil test and kind only)",
			"the serialisation writes a child only under a further condition on the child ("+extra+"), while the branch's hash covers every present child: a branch with such a child serialises to bytes that do not hash back to the trie's root, so honest proofs and exports through it verify to another root")
	})
	if n < 1 {
		r.Anchor(rule, fmt.Errorf("unresolved anchor: no store into the persisted child list in %s", fn(f)))
	}
}

// ---- REF-shortref: a hash reference never stands for a shared-prefix node ---------------------

// The weighted trie relies on one representation invariant for partial tries:
// a hashNode in a branch slot stands for a branch or a value, never for a
// shared-prefix node - those are embedded in the parent branch's serialisation
// and stay shortNodes (with their value collapsed), so that a delete can merge
// them without storage. A walk that replaces a shortNode by a hash reference of
// the shortNode itself (commit at the collapse level) makes exports carry a bare
// hash for that sibling and a later delete wraps the placeholder instead of
// merging the keys: roots diverge from the full trie.
//
// Rule: no hashNode is built whose hash is taken from a value of static type
// *shortNode (its Hash() / hash field) outside the Copy methods of the node
// kinds (snapshots below their collapse level).
func refShortRef(r *engine.Run, rule string) {
	n := 0
	for _, f := range funcsOfPkg(r, pkgWMPT) {
		if len(f.Blocks) == 0 {
			continue
		}
		o := ord{}
		engine.Instrs(f, func(in ssa.Instruction) {
			st, ok := in.(*ssa.Store)
			if !ok {
				return
			}
			fa, ok := st.Addr.(*ssa.FieldAddr)
			if !ok || !isNamedPtr(fa.X.Type(), "hashNode") || engine.FieldOf(fa) == nil || engine.FieldOf(fa).Name() != "hash" {
				return
			}
			n++
			src := stripConv(st.Val)
			from := ""
			if c, ok := src.(*ssa.Call); ok && !c.Call.IsInvoke() {
				if sc := c.Call.StaticCallee(); sc != nil && (sc.Name() == "Hash" || sc.Name() == "CalcHash") && len(c.Call.Args) == 1 && isNamedPtr(c.Call.Args[0].Type(), "shortNode") {
					from = "its " + sc.Name() + "()"
				}
			}
			if b, fld, ok := loadOfField(src); ok && fld == "hash" && isNamedPtr(b.Type(), "shortNode") {
				from = "its hash field"
			}
			r.Check(from == "", rule, o.next(fn(f)+"|hash reference"), r.P.Pos(st.Pos()), "the reference stands for a branch, a value or an unknown kind, not for a shared-prefix node",
				"a hash reference is built for a shared-prefix node itself (from "+from+"): such nodes are embedded in their parent branch and must stay shortNodes (with a collapsed value) so that a delete can merge them; as a bare hash the sibling is exported as a placeholder and a delete that reduces the branch wraps it instead of merging the keys, so the root differs from the full trie's")
		})
	}
	if n < 4 {
		r.Anchor(rule, fmt.Errorf("unresolved anchor: only %d hash references built in the weighted trie", n))
	}
}

// branchDecoder: the function that rebuilds a branch from its persisted form:
// DeserializeNode, or the same-package helper it hands the branch arm to (found
// by structure: the one that stores into the child slots of a routingNode).
func branchDecoder(r *engine.Run, rule string) *ssa.Function {
	f := r.Fn(rule, pkgWMPT, "", "DeserializeNode")
	if f == nil {
		return nil
	}
	storesSlots := func(g *ssa.Function) bool {
		found := false
		engine.Instrs(g, func(in ssa.Instruction) {
			st, ok := in.(*ssa.Store)
			if !ok {
				return
			}
			if ia, ok := st.Addr.(*ssa.IndexAddr); ok {
				if fa, ok := ia.X.(*ssa.FieldAddr); ok && engine.FieldOf(fa) != nil && engine.FieldOf(fa).Name() == "Children" && isNamedPtr(fa.X.Type(), "routingNode") {
					found = true
				}
			}
		})
		return found
	}
	if storesSlots(f) {
		return f
	}
	var out *ssa.Function
	engine.Instrs(f, func(in ssa.Instruction) {
		if c, ok := in.(*ssa.Call); ok {
			if g := c.Call.StaticCallee(); g != nil && g != f && g.Pkg == f.Pkg && len(g.Blocks) > 0 && storesSlots(g) && out == nil {
				out = g
				r.Touch(g)
			}
		}
	})
	if out != nil {
		return out
	}
	return f
}

// ---- FRESH-keybuf: a node's key is never the base of an append ------------------------------

// Keys are cut out of one array: a split gives the upper shared-prefix node
// key[:p] and the new leaf key[p+1:] of the same 64-nibble array, so the upper
// slice has spare capacity over the lower one's bytes. An append onto a node's
// key (or onto a slice that may be one, such as a prefix argument that was set
// to n.key) writes into the other node's key.
//
// Rule: in the weighted trie a value loaded from a node's key field is never
// the base of an append, and is never passed for a parameter that the callee
// appends onto.
func freshKeyBuf(r *engine.Run, rule string) {
	funcs := funcsOfPkg(r, pkgWMPT)
	// parameters used as an append base (through phis)
	appended := map[*ssa.Function]map[int]bool{}
	baseOf := func(f *ssa.Function) map[ssa.Value]bool {
		out := map[ssa.Value]bool{}
		engine.Instrs(f, func(in ssa.Instruction) {
			c, ok := in.(*ssa.Call)
			if !ok {
				return
			}
			if b, ok := c.Call.Value.(*ssa.Builtin); ok && b.Name() == "append" && isByteSlice(c.Call.Args[0].Type()) {
				seen := map[ssa.Value]bool{}
				var walk func(v ssa.Value)
				walk = func(v ssa.Value) {
					if seen[v] {
						return
					}
					seen[v] = true
					out[v] = true
					if ph, ok := v.(*ssa.Phi); ok {
						for _, e := range ph.Edges {
							walk(e)
						}
					}
					// append(x[:n], ...) writes into x's array (a full slice expression x[:n:n] cannot)
					if sl, ok := v.(*ssa.Slice); ok && sl.Max == nil {
						walk(sl.X)
					}
				}
				walk(c.Call.Args[0])
			}
		})
		return out
	}
	bases := map[*ssa.Function]map[ssa.Value]bool{}
	for _, f := range funcs {
		if len(f.Blocks) == 0 {
			continue
		}
		bases[f] = baseOf(f)
		for i, p := range f.Params {
			if bases[f][p] {
				if appended[f] == nil {
					appended[f] = map[int]bool{}
				}
				appended[f][i] = true
			}
		}
	}
	n := 0
	for _, f := range funcs {
		if len(f.Blocks) == 0 {
			continue
		}
		o := ord{}
		engine.Instrs(f, func(in ssa.Instruction) {
			ld, ok := in.(*ssa.UnOp)
			if !ok {
				return
			}
			b, fld, isF := loadOfField(ld)
			isKey := isF && fld == "key" && isNamedPtr(b.Type(), "shortNode")
			// a leaf's value bytes are the caller's slice (Put stores it as given) and are
			// shared by every leaf created from it: rewriting them in place changes other
			// leaves behind their cached hashes
			isVal := isF && fld == "value" && isNamedPtr(b.Type(), "valueNode")
			if !isKey && !isVal {
				return
			}
			n++
			bad := ""
			if bases[f][ld] {
				bad = "is the base of an append"
			}
			// through phis into call arguments
			seen := map[ssa.Value]bool{}
			var follow func(v ssa.Value)
			follow = func(v ssa.Value) {
				if seen[v] {
					return
				}
				seen[v] = true
				for _, ref := range engine.Referrers(v) {
					switch x := ref.(type) {
					case *ssa.Phi:
						if bases[f][x] {
							bad = "may be the base of an append (through " + x.Name() + ")"
						}
						follow(x)
					case *ssa.Call:
						g := x.Call.StaticCallee()
						if g == nil || appended[g] == nil {
							continue
						}
						for i, a := range x.Call.Args {
							if a == v && appended[g][i] {
								bad = "is handed to " + fn(g) + " for a parameter that function appends onto"
							}
						}
					}
				}
			}
			follow(ld)
			if isVal {
				r.Check(bad == "", rule, o.next(fn(f)+"|value read"), r.P.Pos(ld.Pos()), "the leaf's value bytes are read or replaced, never appended onto",
					"a leaf's value bytes "+bad+": the slice is the one the caller handed to Put and may be held by other leaves created from it, so the append rewrites the caller's memory and the content of those leaves behind their cached hashes - the source trie and a partial trie decoded from its export stop agreeing")
				return
			}
			r.Check(bad == "", rule, o.next(fn(f)+"|key read"), r.P.Pos(ld.Pos()), "the node's key is copied or compared, never appended onto",
				"a node's key "+bad+": keys of neighbouring nodes are slices of one array (a split gives the upper node key[:p] and the leaf key[p+1:]), so the append writes into the other node's key - ownership queries name a key that does not exist and a later update of the real key adds a duplicate entry")
		})
	}
	if n < 8 {
		r.Anchor(rule, fmt.Errorf("unresolved anchor: only %d reads of shared-prefix keys found", n))
	}
}
