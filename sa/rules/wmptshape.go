package rules

import (
	"fmt"
	"go/token"
	"go/types"
	"sort"
	"strings"

	"golang.org/x/tools/go/ssa"

	"verif/sa/engine"
)

// ---- DOM-memo: CalcHash memoises soundly ------------------------------------------

// domMemo: in each CalcHash of a hashed node kind the cached hash is returned
// without recomputation only where the dirty flag tested false, and the
// recomputed hash (the RawHash result) is both stored into the hash field and
// returned.
func domMemo(r *engine.Run, rule string) {
	n := 0
	for _, kind := range []string{"routingNode", "shortNode", "valueNode"} {
		f := r.Fn(rule, pkgWMPT, kind, "CalcHash")
		if f == nil {
			continue
		}
		recv := f.Params[0]
		var raw *ssa.Call
		engine.Instrs(f, func(in ssa.Instruction) {
			if c, ok := in.(*ssa.Call); ok && c.Call.StaticCallee() != nil && c.Call.StaticCallee().Name() == "RawHash" {
				raw = c
			}
		})
		if raw == nil {
			r.Anchor(rule, fmt.Errorf("unresolved anchor: hash computation of %s", fn(f)))
			continue
		}
		stored := false
		var storeRaw *ssa.Store
		engine.Instrs(f, func(in ssa.Instruction) {
			if st, ok := in.(*ssa.Store); ok {
				if fa, ok := st.Addr.(*ssa.FieldAddr); ok && fa.X == ssa.Value(recv) && engine.FieldOf(fa).Name() == "hash" && st.Val == ssa.Value(raw) {
					stored = true
					storeRaw = st
				}
			}
		})
		n++
		r.Check(stored, rule, fn(f)+"|stores recomputed hash", r.P.Pos(raw.Pos()), "the recomputed hash is stored into the hash field",
			"CalcHash recomputes the hash but does not store it: Hash(), Serialize and the parents keep using the old hash")
		o := ord{}
		for _, ret := range engine.Returns(f) {
			if len(ret.Results) != 1 {
				continue
			}
			v := resultValue(ret, 0)
			if v == ssa.Value(raw) {
				continue
			}
			// a re-read of the hash field after the recomputed hash was stored
			if ld, ok := v.(*ssa.UnOp); ok && storeRaw != nil && engine.InstrDominates(storeRaw, ld) {
				continue
			}
			n++
			// a cached-hash return: dirty must have tested false
			good := false
			if atoms, full := engine.AtomsOn(f, ret.Block()); full {
				engine.Instrs(f, func(in ssa.Instruction) {
					if ld, ok := in.(*ssa.UnOp); ok && ld.Op == token.MUL {
						if fa, ok := ld.X.(*ssa.FieldAddr); ok && fa.X == ssa.Value(recv) && engine.FieldOf(fa).Name() == "dirty" {
							if t, had := atoms[engine.ValKey(ld)]; had && !t {
								good = true
							}
						}
					}
				})
			}
			r.Check(good, rule, o.next(fn(f)+"|cached return"), r.P.Pos(ret.Pos()), "the cached hash is returned only where dirty tested false",
				"CalcHash returns the cached hash on a path where the node may be dirty: the root no longer follows content")
		}
	}
	if n < 5 {
		r.Anchor(rule, fmt.Errorf("unresolved anchor: %d obligations over the CalcHash methods", n))
	}
}

// ---- AGREE-endian: one byte order for every fixed-width field ----------------------

func agreeEndian(r *engine.Run, rule string) {
	orders := map[string][]string{}
	for _, f := range funcsOfPkg(r, pkgWMPT) {
		if isGenFile(r, f.Pos()) {
			continue
		}
		engine.Instrs(f, func(in ssa.Instruction) {
			c, ok := in.(*ssa.Call)
			if !ok {
				return
			}
			sc := c.Call.StaticCallee()
			if sc == nil || sc.Signature.Recv() == nil {
				return
			}
			nm := namedOf(sc.Signature.Recv().Type())
			if nm == nil || nm.Obj().Pkg() == nil || nm.Obj().Pkg().Path() != "encoding/binary" {
				return
			}
			orders[nm.Obj().Name()] = append(orders[nm.Obj().Name()], r.P.Pos(c.Pos()))
		})
	}
	var names []string
	total := 0
	for k, v := range orders {
		names = append(names, k)
		total += len(v)
	}
	sort.Strings(names)
	detail := ""
	if len(names) > 1 {
		minor := names[0]
		for _, k := range names {
			if len(orders[k]) < len(orders[minor]) {
				minor = k
			}
		}
		detail = minor + " at " + strings.Join(orders[minor], ", ")
	}
	r.Check(len(names) == 1, rule, "wmpt|byte order", "-", fmt.Sprintf("all %d fixed-width reads and writes use %v", total, names),
		"the weighted trie mixes byte orders ("+detail+"): a weight written in one order is read (or hashed) in the other, so decoded nodes, proofs and hashes disagree with what was stored")
	if total < 6 {
		r.Anchor(rule, fmt.Errorf("unresolved anchor: %d byte-order uses found", total))
	}
}

// ---- AGREE-persist: every persisted field is read back ----------------------------

func agreePersist(r *engine.Run, rule string) {
	des := r.Fn(rule, pkgWMPT, "", "DeserializeNode")
	if des == nil {
		return
	}
	isPersist := func(t types.Type) *types.Named {
		nm := namedOf(t)
		if nm != nil && strings.HasPrefix(nm.Obj().Name(), "Persist") && nm.Obj().Name() != "PersistNodeBase" && nm.Obj().Name() != "PersistTrie" && nm.Obj().Name() != "PersistTriePair" {
			return nm
		}
		return nil
	}
	// writers and readers anywhere in the package (the codec may be split into
	// helpers): a field is written where it is the target of a store, read where
	// it is loaded
	written := map[string]string{}
	read := map[string]bool{}
	for _, f := range funcsOfPkg(r, pkgWMPT) {
		if isGenFile(r, f.Pos()) {
			continue
		}
		engine.Instrs(f, func(in ssa.Instruction) {
			fa, ok := in.(*ssa.FieldAddr)
			if !ok {
				return
			}
			nm := isPersist(fa.X.Type())
			if nm == nil {
				return
			}
			key := nm.Obj().Name() + "." + engine.FieldOf(fa).Name()
			for _, ref := range engine.Referrers(fa) {
				switch x := ref.(type) {
				case *ssa.Store:
					if x.Addr == ssa.Value(fa) {
						written[key] = r.P.Pos(x.Pos())
					}
				case *ssa.UnOp:
					read[key] = true
				}
			}
		})
	}
	var keys []string
	for k := range written {
		keys = append(keys, k)
	}
	sort.Strings(keys)
	for _, k := range keys {
		r.Check(read[k], rule, "wmpt|"+k, written[k], "written by Serialize and read by DeserializeNode",
			"Serialize persists "+k+" but DeserializeNode never reads it: a node loaded from storage (or from a proof/export) lacks that part")
	}
	var rk []string
	for k := range read {
		rk = append(rk, k)
	}
	sort.Strings(rk)
	for _, k := range rk {
		if _, ok := written[k]; !ok {
			r.Fail(rule, "wmpt|"+k, r.P.Pos(des.Pos()), "DeserializeNode reads "+k+" which no Serialize method writes: decoded nodes carry an empty field where the stored node had content")
		}
	}
	if len(keys) < 8 {
		r.Anchor(rule, fmt.Errorf("unresolved anchor: %d persisted fields found", len(keys)))
	}
}

// ---- DOM-childhash / linkback for the export importer -----------------------------

func domChildHash(r *engine.Run, rule string) {
	f := wfn(r, rule, "deserializeTrie")
	if f == nil {
		return
	}
	n := 0
	o := ord{}
	engine.Instrs(f, func(in ssa.Instruction) {
		c, ok := in.(*ssa.Call)
		if !ok || c.Call.StaticCallee() != f {
			return
		}
		var child ssa.Value
		for _, ref := range engine.Referrers(c) {
			if ex, ok := ref.(*ssa.Extract); ok && ex.Index == 0 {
				child = ex
			}
		}
		n++
		// the link store of the child
		var link *ssa.Store
		if child != nil {
			for _, ref := range engine.Referrers(child) {
				if st, ok := ref.(*ssa.Store); ok && st.Val == child {
					link = st
				}
			}
		}
		if link == nil {
			r.Fail(rule, o.next(fn(f)+"|link child"), r.P.Pos(c.Pos()), "the subtree decoded by the recursive call is not stored into its parent: the imported trie keeps bare hash placeholders, and updates of the requested keys fail or diverge")
			return
		}
		// reached only where the placeholder's hash equals the child's hash
		good := false
		engine.Instrs(f, func(i2 ssa.Instruction) {
			eq, ok := i2.(*ssa.Call)
			if !ok || !isBytesEq(eq) {
				return
			}
			usesChild := false
			for _, a := range eq.Call.Args {
				if hc, ok := stripCT(a).(*ssa.Call); ok {
					if rv, is := engine.IsMethodCall(hc, "Hash"); is && rv == child {
						usesChild = true
					}
				}
			}
			if usesChild && truthAt(f, link.Block(), eq, true) {
				good = true
			}
		})
		r.Check(good, rule, o.next(fn(f)+"|link child"), r.P.Pos(link.Pos()), "the child is linked only where its hash tested equal to the hash its parent committed to",
			"a decoded subtree is linked under its parent without checking that its hash is the one the parent commits to: a spliced export is accepted and only (possibly) caught at the root")
	})
	if n < 2 {
		r.Anchor(rule, fmt.Errorf("unresolved anchor: %d recursive calls in deserializeTrie", n))
	}
	// the root check of Deserialize
	if g := wfn(r, rule, "Deserialize"); g != nil {
		var eq *ssa.Call
		engine.Instrs(g, func(in ssa.Instruction) {
			if c, ok := in.(*ssa.Call); ok && isBytesEq(c) {
				eq = c
			}
		})
		recomputed := false
		engine.Instrs(g, func(in ssa.Instruction) {
			if c, ok := in.(*ssa.Call); ok {
				if _, is := engine.IsMethodCall(c, "CalcHash"); is && eq != nil && engine.ReachableAfter(c, eq) {
					// dirty = true stored before, on the same object
					for _, i2 := range c.Block().Instrs {
						if st, ok := i2.(*ssa.Store); ok {
							if fld := engine.FieldOf(st.Addr); fld != nil && fld.Name() == "dirty" {
								if k, ok := st.Val.(*ssa.Const); ok && k.Value != nil && k.Value.ExactString() == "true" {
									recomputed = true
								}
							}
						}
					}
				}
			}
		})
		okRet := false
		if eq != nil {
			okRet = true
			for _, ret := range engine.Returns(g) {
				if len(ret.Results) == 1 && nilConst(resultValue(ret, 0)) && engine.ReachableAfter(eq, ret) {
					if !truthAt(g, ret.Block(), eq, true) {
						okRet = false
					}
				}
			}
		}
		r.Check(eq != nil && recomputed && okRet, rule, fn(g)+"|root check", r.P.Pos(g.Pos()), "the root is marked dirty and re-hashed, and success is returned only where the transmitted root hash equals the recomputed one",
			fmt.Sprintf("the importer no longer recomputes the root hash from the decoded nodes and compares it with the transmitted one (comparison present: %v, recomputation: %v, success only on equality: %v)", eq != nil, recomputed, okRet))
	}
}

// ---- DOM-proofappend: the prover emits every node it walks through ------------------

func domProofAppend(r *engine.Run, rule string) {
	f := wfn(r, rule, "getBlockProof")
	if f == nil {
		return
	}
	// appends to persistTrie.Pairs
	var appends []ssa.Instruction
	engine.Instrs(f, func(in ssa.Instruction) {
		st, ok := in.(*ssa.Store)
		if !ok {
			return
		}
		if fld := engine.FieldOf(st.Addr); fld != nil && fld.Name() == "Pairs" {
			if c, ok := st.Val.(*ssa.Call); ok {
				if b, ok := c.Call.Value.(*ssa.Builtin); ok && b.Name() == "append" {
					appends = append(appends, st)
				}
			}
		}
	})
	nodeP := paramRole(f, "node")
	arms := typeArms(f, nodeP)
	n := 0
	o := ord{}
	dominated := func(at ssa.Instruction) bool {
		for _, a := range appends {
			if engine.InstrDominates(a, at) {
				return true
			}
		}
		return false
	}
	engine.Instrs(f, func(in ssa.Instruction) {
		if c, ok := in.(*ssa.Call); ok && c.Call.StaticCallee() == f {
			// re-entering with the resolved form of the same position is not a descent
			if ex, ok := c.Call.Args[1].(*ssa.Extract); ok {
				if rc, ok := ex.Tuple.(*ssa.Call); ok && rc.Call.StaticCallee() != nil && rc.Call.StaticCallee().Name() == "resolveHashNode" {
					return
				}
			}
			n++
			r.Check(dominated(c), rule, o.next(fn(f)+"|descend"), r.P.Pos(c.Pos()), "the node's serialisation is appended to the proof before the walk descends",
				"the prover descends without emitting the node it is leaving: the proof lacks a node and does not verify")
		}
	})
	for _, kind := range []string{"shortNode", "valueNode"} {
		arm := arms[kind]
		if arm == nil {
			continue
		}
		for _, ret := range engine.Returns(f) {
			if !arm.blocks[ret.Block()] || len(ret.Results) != 2 || !nilConst(resultValue(ret, 1)) {
				continue
			}
			n++
			r.Check(dominated(ret), rule, o.next(fn(f)+"|*"+kind+" success"), r.P.Pos(ret.Pos()), "the node's serialisation is appended before the arm succeeds",
				"an arm of the prover succeeds without emitting its node: the proof lacks a node and does not verify")
		}
	}
	if n < 3 {
		r.Anchor(rule, fmt.Errorf("unresolved anchor: %d descent/success sites in getBlockProof", n))
	}
}

// ---- AGREE-decode: what DeserializeNode rebuilds from a branch / shared prefix -------

func agreeDecode(r *engine.Run, rule string) {
	f := r.Fn(rule, pkgWMPT, "", "DeserializeNode")
	if f == nil {
		return
	}
	// (1) the branch weight is accumulated from the decoded child weights
	var weightReads []ssa.Value
	engine.Instrs(f, func(in ssa.Instruction) {
		if c, ok := in.(*ssa.Call); ok {
			if sc := c.Call.StaticCallee(); sc != nil && sc.Name() == "Uint64" && sc.Signature.Recv() != nil {
				if nm := namedOf(sc.Signature.Recv().Type()); nm != nil && nm.Obj().Pkg() != nil && nm.Obj().Pkg().Path() == "encoding/binary" {
					weightReads = append(weightReads, c)
				}
			}
		}
	})
	accumulated := false
	var childStores []*ssa.Store
	engine.Instrs(f, func(in ssa.Instruction) {
		st, ok := in.(*ssa.Store)
		if !ok {
			return
		}
		a := st.Addr
		if ia, ok := a.(*ssa.IndexAddr); ok {
			if fa, ok := ia.X.(*ssa.FieldAddr); ok && engine.FieldOf(fa).Name() == "Children" {
				if nm := namedOf(fa.X.Type()); nm != nil && nm.Obj().Name() == "routingNode" {
					childStores = append(childStores, st)
				}
			}
			return
		}
		if fa, ok := a.(*ssa.FieldAddr); ok && engine.FieldOf(fa).Name() == "weight" {
			if nm := namedOf(fa.X.Type()); nm != nil && nm.Obj().Name() == "routingNode" {
				for _, w := range weightReads {
					if dependsOn(st.Val, w) {
						accumulated = true
					}
				}
			}
		}
	})
	r.Check(accumulated, rule, fn(f)+"|branch weight", r.P.Pos(f.Pos()), "the decoded branch's weight is accumulated from the child weights it read",
		"a decoded branch no longer sums the weights of its children: its weight is zero, so range checks and weight-ordered descents on loaded or proven branches go wrong")
	// (2) every accepted child entry ends up in a child slot: from the block that
	// read a child's weight, the loop head is not reachable without passing a
	// store into Children[i] (or leaving through a return)
	storeBlocks := map[*ssa.BasicBlock]bool{}
	for _, st := range childStores {
		storeBlocks[st.Block()] = true
	}
	linked := len(childStores) > 0
	for _, w := range weightReads {
		wc := w.(*ssa.Call)
		start := wc.Block()
		if storeBlocks[start] || !inLoopBody(start) {
			continue
		}
		// loop head: a block that dominates start and is reachable from it
		seen := map[*ssa.BasicBlock]bool{start: true}
		work := []*ssa.BasicBlock{start}
		for len(work) > 0 {
			b := work[0]
			work = work[1:]
			for _, s := range b.Succs {
				if seen[s] || storeBlocks[s] {
					continue
				}
				if _, isRet := s.Instrs[len(s.Instrs)-1].(*ssa.Return); isRet {
					continue
				}
				if s.Dominates(start) && s != start {
					linked = false // reached the loop head again without a store
					continue
				}
				seen[s] = true
				work = append(work, s)
			}
		}
	}
	r.Check(linked, rule, fn(f)+"|child slots", r.P.Pos(f.Pos()), "every accepted child entry of a persisted branch is stored into a child slot",
		"a child entry of a persisted branch is accepted but not stored into the decoded branch: the loaded branch lacks a child its hash commits to")
	// (3) the shared-prefix node persists its value's hash and weight
	if g := r.Fn(rule, pkgWMPT, "shortNode", "Serialize"); g != nil {
		hashCopied, weightPut := false, false
		engine.Instrs(g, func(in ssa.Instruction) {
			c, ok := in.(*ssa.Call)
			if !ok {
				return
			}
			if b, ok := c.Call.Value.(*ssa.Builtin); ok && b.Name() == "copy" {
				if hc, ok := c.Call.Args[1].(*ssa.Call); ok {
					if _, is := engine.IsMethodCall(hc, "Hash"); is {
						hashCopied = true
					}
				}
			}
			if sc := c.Call.StaticCallee(); sc != nil && (sc.Name() == "PutUint64" || sc.Name() == "AppendUint64") {
				for _, a := range c.Call.Args {
					if wc, ok := a.(*ssa.Call); ok {
						if _, is := engine.IsMethodCall(wc, "Weight"); is {
							weightPut = true
						}
					}
				}
			}
		})
		r.Check(hashCopied && weightPut, rule, fn(g)+"|value reference", r.P.Pos(g.Pos()), "the persisted value reference is filled from the value's Hash() and Weight()",
			fmt.Sprintf("the shared-prefix node no longer persists its value's hash (%v) or weight (%v): the loaded node points nowhere or weighs nothing", hashCopied, weightPut))
	}
}

// ---- DOM-shortkey: a shared-prefix node never has an empty key ----------------------

// domShortKey: every shortNode built by insert/delete gets a key that is
// provably non-empty at the construction site: the walk's key parameter where
// len(key) == 0 tested false, a prefix X[:k] where k == 0 tested false, a
// suffix X[k:] where len(X) == k tested false, a freshly made slice of constant
// positive length or of length n + c (c >= 1), or a composite literal with
// elements. An empty-key node is a second encoding of "the value sits here":
// another hash for the same content, and a later update adds the full weight.
func domShortKey(r *engine.Run, rule string) {
	n := 0
	for _, name := range []string{"insert", "delete"} {
		f := wfn(r, rule, name)
		if f == nil {
			continue
		}
		keyP := f.Params[3]
		if name == "delete" {
			keyP = f.Params[3]
		}
		o := ord{}
		engine.Instrs(f, func(in ssa.Instruction) {
			st, ok := in.(*ssa.Store)
			if !ok {
				return
			}
			fa, ok := st.Addr.(*ssa.FieldAddr)
			if !ok || engine.FieldOf(fa).Name() != "key" {
				return
			}
			if nm := namedOf(fa.X.Type()); nm == nil || nm.Obj().Name() != "shortNode" {
				return
			}
			n++
			facts, _ := engine.FactsOn(f, st.Block())
			eqFalse := func(a ssa.Value, isB func(ssa.Value) bool) bool {
				for _, ft := range facts {
					if ft.Kind != "eq" || ft.Truth {
						continue
					}
					if engine.ValKey(ft.A) == engine.ValKey(a) && isB(ft.B) || engine.ValKey(ft.B) == engine.ValKey(a) && isB(ft.A) {
						return true
					}
				}
				return false
			}
			isZeroV := func(v ssa.Value) bool { return isZero(v) }
			lenOf := func(x ssa.Value) func(ssa.Value) bool {
				return func(v ssa.Value) bool {
					c, ok := v.(*ssa.Call)
					if !ok {
						return false
					}
					b, ok := c.Call.Value.(*ssa.Builtin)
					return ok && b.Name() == "len" && engine.ValKey(c.Call.Args[0]) == engine.ValKey(x)
				}
			}
			why := ""
			v := st.Val
			switch x := v.(type) {
			case *ssa.Parameter:
				if x == keyP {
					// len(key) == 0 false
					for _, ft := range facts {
						if ft.Kind == "eq" && !ft.Truth && (lenOf(x)(ft.A) && isZero(ft.B) || lenOf(x)(ft.B) && isZero(ft.A)) {
							why = "the walk's key where len(key) == 0 tested false"
						}
					}
				}
			case *ssa.Slice:
				switch {
				case x.High != nil && x.Low == nil && eqFalse(x.High, isZeroV):
					why = "a prefix X[:k] where k == 0 tested false"
				case x.Low != nil && x.High == nil && eqFalse(x.Low, lenOf(x.X)):
					why = "a suffix X[k:] where len(X) == k tested false"
				case x.Low == nil && x.High == nil:
					if al, ok := x.X.(*ssa.Alloc); ok {
						if arr, ok := al.Type().Underlying().(*types.Pointer).Elem().Underlying().(*types.Array); ok && arr.Len() >= 1 {
							why = "a literal with elements"
						}
					}
				}
			case *ssa.MakeSlice:
				if k, isK := intConst(x.Len); isK && k >= 1 {
					why = "a made slice of positive constant length"
				} else if b, ok := x.Len.(*ssa.BinOp); ok && b.Op == token.ADD {
					lenOfKey := func(v ssa.Value) bool {
						c, ok := v.(*ssa.Call)
						if !ok {
							return false
						}
						bi, ok := c.Call.Value.(*ssa.Builtin)
						if !ok || bi.Name() != "len" {
							return false
						}
						fld := fieldLoadOf(c.Call.Args[0])
						return fld != nil && fld.Name() == "key"
					}
					if lenOfKey(b.X) || lenOfKey(b.Y) {
						why = "a made slice at least as long as an existing node's key (non-empty by induction)"
					} else if k, isK := intConst(b.Y); isK && k >= 1 {
						why = "a made slice of length n + c, c >= 1"
					} else if k, isK := intConst(b.X); isK && k >= 1 {
						why = "a made slice of length c + n, c >= 1"
					}
				}
			}
			r.Check(why != "", rule, o.next(fn(f)+"|shortNode key"), r.P.Pos(st.Pos()), why,
				"a shared-prefix node is built with a key that is not provably non-empty: with an empty key the value gets a second, non-canonical encoding (another root for the same content) and a later update of that key adds its full weight instead of the difference")
		})
	}
	if n < 3 {
		r.Anchor(rule, fmt.Errorf("unresolved anchor: %d shortNode constructions in insert/delete", n))
	}
}

// ---- FRESH-resolved: a resolved reference is a private, freshly decoded node --------

func freshResolved(r *engine.Run, rule string) {
	f := wfn(r, rule, "resolveHashNode")
	if f == nil {
		return
	}
	var dec *ssa.Call
	engine.Instrs(f, func(in ssa.Instruction) {
		if c, ok := in.(*ssa.Call); ok && c.Call.StaticCallee() != nil && c.Call.StaticCallee().Name() == "DeserializeNode" {
			dec = c
		}
	})
	if dec == nil {
		r.Anchor(rule, fmt.Errorf("unresolved anchor: decoding call in %s", fn(f)))
		return
	}
	var node ssa.Value
	for _, ref := range engine.Referrers(dec) {
		if ex, ok := ref.(*ssa.Extract); ok && ex.Index == 0 {
			node = ex
		}
	}
	o := ord{}
	n := 0
	for _, ret := range engine.Returns(f) {
		if len(ret.Results) != 2 {
			continue
		}
		v := resultValue(ret, 0)
		if nilConst(v) {
			continue
		}
		n++
		r.Check(node != nil && v == node, rule, o.next(fn(f)+"|returned node"), r.P.Pos(ret.Pos()), "the node returned is the one decoded by this call",
			"resolveHashNode returns a node that was not decoded by this call (a cached object): insert, delete and commit change loaded nodes in place, so a shared object no longer is the node its hash names")
	}
	// the decoded node does not escape into the trie's own state
	escapes := ""
	if node != nil {
		for _, ref := range engine.Referrers(node) {
			switch x := ref.(type) {
			case *ssa.Return, *ssa.Extract:
			case *ssa.MakeInterface:
				for _, r2 := range engine.Referrers(x) {
					if _, isRet := r2.(*ssa.Return); !isRet {
						escapes = r.P.Pos(r2.Pos())
					}
				}
			default:
				escapes = r.P.Pos(ref.Pos())
			}
		}
	}
	n++
	r.Check(escapes == "", rule, fn(f)+"|no sharing", r.P.Pos(dec.Pos()), "the decoded node is only returned",
		"the freshly decoded node is also kept somewhere else ("+escapes+"): the walk that receives it mutates it in place, and the kept copy goes stale under its hash")
	if n < 2 {
		r.Anchor(rule, fmt.Errorf("unresolved anchor: returns of resolveHashNode"))
	}
}
