package rules

import (
	"fmt"
	"go/token"
	"go/types"
	"sort"
	"strings"

	"golang.org/x/tools/go/ssa"

	"verif/sa/engine"
)

// fieldGuard says how one field of a shared struct is protected.
type fieldGuard struct {
	kind   string // "lock", "atomic", "immutable", "mutex" (the lock itself)
	lock   string // for kind lock: "Owner.field" of the mutex
	reason string
}

type guardTable map[string]fieldGuard // "Owner.field" -> guard

// exportedEntries returns the exported methods of the owner types plus the
// extra named functions, as the concurrently callable entry set.
func exportedEntries(r *engine.Run, rule, rel string, owners map[string]bool, extra ...[2]string) []*ssa.Function {
	var out []*ssa.Function
	for _, f := range funcsOfPkg(r, rel) {
		if f.Parent() != nil || len(f.Blocks) == 0 {
			continue
		}
		if owners[recvNamed(f)] && f.Object() != nil && f.Object().Exported() {
			out = append(out, f)
		}
	}
	for _, e := range extra {
		if f := r.Fn(rule, rel, e[0], e[1]); f != nil {
			out = append(out, f)
		}
	}
	return out
}

// checkGuards verifies the guarded-by discipline of table over everything
// reachable from entries.
// inferredGuards: guard inferred by checkGuards for a field the table does not
// list ("" = none); pendingTable: such fields noticed by tableComplete (which
// runs first), resolved at the end of checkGuards.
var inferredGuards = map[string]string{}
var pendingTable [][2]string

func checkGuards(r *engine.Run, rule string, entries []*ssa.Function, owners map[string]bool, table guardTable) *engine.LockWorld {
	g := r.P.RepoCG()
	w := engine.NewLockWorld(g, entries)
	var fns []*ssa.Function
	for f := range w.Reached {
		fns = append(fns, f)
	}
	sort.Slice(fns, func(i, j int) bool { return fns[i].Pos() < fns[j].Pos() })
	type agg struct {
		n    int
		bad  []string
		pos  string
		kind string
	}
	per := map[string]*agg{} // construct -> aggregate
	var order []string
	note := func(construct, pos string, ok bool, detail string) {
		a := per[construct]
		if a == nil {
			a = &agg{pos: pos}
			per[construct] = a
			order = append(order, construct)
		}
		a.n++
		if !ok {
			a.bad = append(a.bad, detail)
			if len(a.bad) == 1 {
				a.pos = pos
			}
		}
	}
	atomicSeen := map[string]bool{}
	type unkAccess struct {
		f         *ssa.Function
		a         engine.Access
		construct string
		pos       string
		held      engine.LockSet
	}
	unknown := map[string][]unkAccess{}
	for _, f := range fns {
		r.Touch(f)
		for _, a := range engine.FieldAccesses(f, owners) {
			key := a.Owner + "." + a.Field.Name()
			gd, known := table[key]
			mode := "read"
			if a.Write {
				mode = "write"
			}
			construct := fmt.Sprintf("%s|%s %s", fn(f), mode, key)
			pos := r.P.Pos(a.In.Pos())
			if a.Fresh {
				continue // constructor context: the object is not shared yet
			}
			if !known {
				// a field the table does not know: its guard is inferred from all of its
				// accesses (see inferGuards below)
				unknown[key] = append(unknown[key], unkAccess{f, a, construct, pos, w.HeldAt(a.In)})
				continue
			}
			held := w.HeldAt(a.In)
			switch gd.kind {
			case "mutex":
				// taking the address of the mutex itself
			case "immutable":
				if a.Write {
					note(construct, pos, false, "field is written after construction but readers take no lock ("+gd.reason+")")
				} else {
					note(construct, pos, true, "")
				}
			case "atomic":
				atomicSeen[key] = true
				if !a.Atomic {
					note(construct, pos, false, "plain "+mode+" of a field that is otherwise accessed through sync/atomic (mixed access is a data race); held "+held.String())
				} else {
					note(construct, pos, true, "")
				}
			case "lock":
				need := engine.ModeR
				if a.Write {
					need = engine.ModeW
				}
				if a.Atomic {
					note(construct, pos, false, "atomic access to a lock-guarded field")
					break
				}
				if held[gd.lock] >= need {
					note(construct, pos, true, "")
				} else {
					why := "without " + gd.lock
					if held[gd.lock] == engine.ModeR && need == engine.ModeW {
						why = "under the read lock of " + gd.lock + " only"
					}
					path := strings.Join(w.Witness(f, gd.lock, need), " -> ")
					note(construct, pos, false, fmt.Sprintf("%s %s (%s); held %s; reached via %s", mode, why, a.What, held.String(), path))
				}
			}
		}
	}
	// inferred guards of fields that are not in the table: all accesses atomic;
	// or never written after construction; or one lock held at every access (in
	// write mode at the writes). Anything else is a field without a discipline.
	var ukeys []string
	for k := range unknown {
		ukeys = append(ukeys, k)
	}
	sort.Strings(ukeys)
	for _, key := range ukeys {
		accs := unknown[key]
		allAtomic, anyWrite := true, false
		common := map[string]int{} // lock -> weakest sufficient mode seen so far (0 = not common)
		first := true
		for _, u := range accs {
			if !u.a.Atomic {
				allAtomic = false
			}
			if u.a.Write {
				anyWrite = true
			}
			need := engine.ModeR
			if u.a.Write {
				need = engine.ModeW
			}
			ok := map[string]int{}
			for l, m := range u.held {
				if m >= need {
					ok[l] = 1
				}
			}
			if first {
				common = ok
				first = false
			} else {
				for l := range common {
					if ok[l] == 0 {
						delete(common, l)
					}
				}
			}
		}
		inferred := ""
		switch {
		case allAtomic:
			inferred = "every access goes through sync/atomic"
		case !anyWrite:
			inferred = "never written after construction"
		case len(common) > 0:
			var ls []string
			for l := range common {
				ls = append(ls, l)
			}
			sort.Strings(ls)
			inferred = "every access holds " + ls[0] + " (write mode at the writes)"
		}
		for _, u := range accs {
			if inferred != "" {
				note(u.construct, u.pos, true, "")
				continue
			}
			mode := "read"
			if u.a.Write {
				mode = "write"
			}
			note(u.construct, u.pos, false, fmt.Sprintf("field %s is not in the guard table and its accesses follow no single discipline (not all atomic, written after construction, no lock held at every access in the needed mode): %s holding %s", key, mode, u.held.String()))
		}
		inferredGuards[key] = inferred
	}
	for _, c := range order {
		a := per[c]
		if len(a.bad) == 0 {
			r.OK(rule, c, a.pos, fmt.Sprintf("%d access(es), all under the declared guard", a.n))
		} else {
			r.Fail(rule, c, a.pos, a.bad[0])
		}
	}
	for _, pt := range pendingTable {
		if pt[0] != rule {
			continue
		}
		if g, seen := inferredGuards[pt[1]]; seen && g != "" {
			r.OK(rule, "table|"+pt[1], "-", "field not in the guard table; inferred discipline: "+g)
		} else if !seen {
			r.OK(rule, "table|"+pt[1], "-", "field not in the guard table and never accessed from the analysed entry points")
		}
		// seen with no discipline: already reported per access
	}
	pendingTable = nil
	return w
}

// structFields lists "Owner.field" for every field of the named struct.
func structFields(r *engine.Run, rel, name string) []string {
	n, err := r.P.Type(rel, name)
	if err != nil {
		return nil
	}
	st, ok := n.Underlying().(*types.Struct)
	if !ok {
		return nil
	}
	var out []string
	for i := 0; i < st.NumFields(); i++ {
		out = append(out, name+"."+st.Field(i).Name())
	}
	return out
}

// tableComplete demands a guard entry for every field of the owner structs.
func tableComplete(r *engine.Run, rule, rel string, owners map[string]bool, table guardTable) {
	var names []string
	for o := range owners {
		names = append(names, o)
	}
	sort.Strings(names)
	for _, o := range names {
		fs := structFields(r, rel, o)
		if fs == nil {
			r.Anchor(rule, fmt.Errorf("unresolved anchor: struct %s.%s", rel, o))
			continue
		}
		for _, f := range fs {
			if _, ok := table[f]; !ok {
				pendingTable = append(pendingTable, [2]string{rule, f})
			}
		}
	}
}

// pairUnlock: every acquisition of a mutex is released on every path to a
// return of the acquiring function: a matching Unlock/RUnlock call on the same
// mutex, or a deferred one registered on the path. A path that returns with the
// lock held blocks every later operation on the object.
func pairUnlock(r *engine.Run, rule string, funcs []*ssa.Function, minimum int) {
	n := 0
	for _, f := range funcs {
		if len(f.Blocks) == 0 {
			continue
		}
		o := ord{}
		engine.Instrs(f, func(in ssa.Instruction) {
			c, ok := in.(*ssa.Call)
			if !ok {
				return
			}
			tkey, op, isLock := engine.LockOp(c)
			if !isLock || (op != "Lock" && op != "RLock") {
				return
			}
			want := "Unlock"
			if op == "RLock" {
				want = "RUnlock"
			}
			vkey := engine.ValKey(c.Call.Args[0])
			releases := func(ci ssa.CallInstruction) bool {
				k2, op2, ok2 := engine.LockOp(ci)
				if ok2 && op2 == want && (engine.ValKey(ci.Common().Args[0]) == vkey || k2 == tkey) {
					return true
				}
				// a deferred closure that releases the mutex
				if d, isDefer := ci.(*ssa.Defer); isDefer {
					var body *ssa.Function
					switch fv := d.Call.Value.(type) {
					case *ssa.MakeClosure:
						body, _ = fv.Fn.(*ssa.Function)
					case *ssa.Function:
						body = fv
					}
					if body != nil {
						found := false
						engine.Instrs(body, func(i2 ssa.Instruction) {
							if c2, ok := i2.(ssa.CallInstruction); ok {
								if k3, op3, ok3 := engine.LockOp(c2); ok3 && op3 == want && k3 == tkey {
									found = true
								}
							}
						})
						return found
					}
				}
				return false
			}
			n++
			r.CallSites++
			// search: from the instruction after the acquisition
			type pos struct {
				b *ssa.BasicBlock
				i int
			}
			seen := map[*ssa.BasicBlock]bool{}
			leak := ""
			var walk func(p pos)
			walk = func(p pos) {
				for i := p.i; i < len(p.b.Instrs); i++ {
					switch x := p.b.Instrs[i].(type) {
					case ssa.CallInstruction:
						if releases(x) {
							return
						}
					case *ssa.Return:
						if leak == "" {
							leak = r.P.Pos(x.Pos())
							if leak == "-" {
								leak = "end of function"
							}
						}
						return
					case *ssa.Panic:
						return
					}
				}
				for _, s := range p.b.Succs {
					if !seen[s] {
						seen[s] = true
						walk(pos{s, 0})
					}
				}
			}
			walk(pos{c.Block(), engine.InstrIndex(c) + 1})
			r.Check(leak == "", rule, o.next(fn(f)+"|"+op+" "+tkey), r.P.Pos(c.Pos()), "released ("+want+" or deferred "+want+") on every path to a return",
				"the mutex acquired here is still held on a path to a return ("+leak+"): every later operation that needs it blocks forever")
		})
	}
	// the converse: every release is preceded by its acquisition in the same function
	for _, f := range funcs {
		if len(f.Blocks) == 0 {
			continue
		}
		o := ord{}
		engine.Instrs(f, func(in ssa.Instruction) {
			ci, ok := in.(ssa.CallInstruction)
			if !ok {
				return
			}
			tkey, op, isLock := engine.LockOp(ci)
			if !isLock || (op != "Unlock" && op != "RUnlock") {
				return
			}
			want := "Lock"
			if op == "RUnlock" {
				want = "RLock"
			}
			vkey := engine.ValKey(ci.Common().Args[0])
			good := false
			engine.Instrs(f, func(i2 ssa.Instruction) {
				c2, ok := i2.(*ssa.Call)
				if !ok {
					return
				}
				k2, op2, ok2 := engine.LockOp(c2)
				if ok2 && op2 == want && (k2 == tkey || engine.ValKey(c2.Call.Args[0]) == vkey) && engine.InstrDominates(c2, in) {
					good = true
				}
			})
			r.Check(good, rule, o.next(fn(f)+"|"+op+" "+tkey), r.P.Pos(in.Pos()), "the release is dominated by the matching acquisition",
				"a mutex is released ("+op+") on a path that did not acquire it ("+want+") in this function: unlocking an unlocked mutex is a fatal runtime error, and the section it was meant to protect runs unprotected")
		})
	}
	if n < minimum {
		r.Anchor(rule, fmt.Errorf("unresolved anchor: %d mutex acquisitions found, at least %d expected", n, minimum))
	}
}

// ---- LOCK-reentrant --------------------------------------------------------------

// sync.Mutex and sync.RWMutex are not reentrant. Acquiring a mutex of an object
// while the same goroutine already holds it deadlocks at once for Lock; for
// RLock under RLock it deadlocks as soon as a writer queues up between the two
// acquisitions (a pending Lock blocks new readers), which is a matter of
// schedule and never shows in a sequential test.
//
// The analysis is per object, not per type: a lock is "held on the receiver"
// when the function acquired it through its own receiver, and the fact is
// carried into a callee only along calls made on that same receiver value.
// Within a function the must-lockset is used (held on every path to the call);
// across functions any call chain counts (a deadlock needs one).
func lockReentrant(r *engine.Run, rule string, funcs []*ssa.Function, minimum int) {
	type site struct {
		from *ssa.Function
		at   ssa.Instruction
	}
	inSet := map[*ssa.Function]bool{}
	for _, f := range funcs {
		inSet[f] = true
	}
	recvOf := func(f *ssa.Function) ssa.Value {
		if f.Signature.Recv() == nil || len(f.Params) == 0 || f.Parent() != nil {
			return nil
		}
		return f.Params[0]
	}
	// the mutex operand belongs to the receiver: &recv.f or *(&recv.f), possibly
	// through embedded structs and through pointer fields loaded from it
	// (mc := recv.core; mc.mu): the path of field names from the receiver, "" when
	// the operand is not rooted at the receiver
	ownPath := func(f *ssa.Function, v ssa.Value) string {
		rv := recvOf(f)
		if rv == nil {
			return ""
		}
		if u, ok := v.(*ssa.UnOp); ok && u.Op == token.MUL {
			v = u.X
		}
		path := ""
		for i := 0; i < 8; i++ {
			fa, ok := v.(*ssa.FieldAddr)
			if !ok {
				return ""
			}
			path = "." + fieldName(fa) + path
			if fa.X == rv {
				return path
			}
			v = fa.X
			if u, ok := v.(*ssa.UnOp); ok && u.Op == token.MUL {
				v = u.X
			}
		}
		return ""
	}
	ownMutex := func(f *ssa.Function, v ssa.Value) bool { return ownPath(f, v) != "" }
	local := map[*ssa.Function]*engine.FuncLocks{}
	ownKeys := map[*ssa.Function]map[string]bool{}   // keys f locks through its own receiver, and only through it
	keyPath := map[*ssa.Function]map[string]string{} // ... and the field path from the receiver to that mutex
	for _, f := range funcs {
		if len(f.Blocks) == 0 || recvOf(f) == nil {
			continue
		}
		local[f] = engine.LocksIn(f)
		own, foreign := map[string]bool{}, map[string]bool{}
		paths := map[string]string{}
		engine.Instrs(f, func(in ssa.Instruction) {
			c, ok := in.(*ssa.Call)
			if !ok {
				return
			}
			if key, op, isLock := engine.LockOp(c); isLock && (op == "Lock" || op == "RLock") {
				if p := ownPath(f, c.Call.Args[0]); p != "" && (paths[key] == "" || paths[key] == p) {
					own[key] = true
					paths[key] = p
				} else {
					foreign[key] = true
				}
			}
		})
		for k := range foreign {
			delete(own, k)
		}
		ownKeys[f] = own
		keyPath[f] = paths
	}
	heldAt := func(f *ssa.Function, in ssa.Instruction) map[string]bool {
		out := map[string]bool{}
		if fl := local[f]; fl != nil {
			for k := range fl.At[in] {
				if ownKeys[f][k] {
					out[k+"@"+keyPath[f][k]] = true
				}
			}
		}
		return out
	}
	entry := map[*ssa.Function]map[string]site{}
	for changed := true; changed; {
		changed = false
		for _, f := range funcs {
			rv := recvOf(f)
			if rv == nil || len(f.Blocks) == 0 {
				continue
			}
			engine.Instrs(f, func(in ssa.Instruction) {
				c, ok := in.(*ssa.Call)
				if !ok {
					return
				}
				g := c.Call.StaticCallee()
				if g == nil || !inSet[g] || recvOf(g) == nil || len(c.Call.Args) == 0 || c.Call.Args[0] != rv {
					return
				}
				held := heldAt(f, c)
				for k := range entry[f] {
					held[k] = true
				}
				for k := range held {
					if entry[g] == nil {
						entry[g] = map[string]site{}
					}
					if _, had := entry[g][k]; !had {
						entry[g][k] = site{f, c}
						changed = true
					}
				}
			})
		}
	}
	n := 0
	for _, f := range funcs {
		if len(f.Blocks) == 0 || recvOf(f) == nil {
			continue
		}
		o := ord{}
		engine.Instrs(f, func(in ssa.Instruction) {
			c, ok := in.(*ssa.Call)
			if !ok {
				return
			}
			key, op, isLock := engine.LockOp(c)
			if !isLock || (op != "Lock" && op != "RLock") || !ownMutex(f, c.Call.Args[0]) {
				return
			}
			n++
			cons := o.next(fn(f) + "|" + op + " " + key)
			pos := r.P.Pos(c.Pos())
			kp := key + "@" + ownPath(f, c.Call.Args[0])
			if heldAt(f, c)[kp] {
				r.Fail(rule, cons, pos, op+" of "+key+" while this function already holds it on the same object: sync mutexes are not reentrant")
				return
			}
			if s, held := entry[f][kp]; held {
				chain := []string{fn(f)}
				cur := s
				for i := 0; i < 8; i++ {
					chain = append([]string{fn(cur.from)}, chain...)
					if heldAt(cur.from, cur.at)[kp] {
						break
					}
					nx, ok := entry[cur.from][kp]
					if !ok {
						break
					}
					cur = nx
				}
				r.Fail(rule, cons, pos, op+" of "+key+" on an object whose "+key+" the calling goroutine already holds (call chain "+strings.Join(chain, " -> ")+", first held at "+r.P.Pos(cur.at.Pos())+"): sync mutexes are not reentrant - a second Lock blocks for ever, a second RLock blocks as soon as a writer has queued up in between, and then the writer, this reader and every later operation on the object wait for each other")
				return
			}
			r.OK(rule, cons, pos, "not reachable with the same object's "+key+" held")
		})
	}
	if n < minimum {
		r.Anchor(rule, fmt.Errorf("unresolved anchor: only %d lock acquisitions on the receiver found", n))
	}
}

// ---- LOCK-order ---------------------------------------------------------------------

// lockOrder: two mutexes that are ever held together are always taken in the
// same order. An edge A -> B is recorded wherever B is acquired (Lock or RLock)
// while A is held on every path to that point (intraprocedural must-lockset
// plus the locks held on entry on every call chain from the entry set, so every
// edge is definite). A cycle between distinct locks is an ABBA deadlock for the
// schedule in which each side got its first lock; for read locks it needs a
// writer queued in between, which the trie always has.
//
// Keys are per owner type and field; acquisitions of the same key while it is
// held are the business of LOCK-reentrant and are not edges here.
func lockOrder(r *engine.Run, rule string, w *engine.LockWorld, minAcq int, label ...string) {
	lab := ""
	if len(label) > 0 {
		lab = label[0] + " "
	}
	type edge struct {
		from, to string
		pos      string
		fn       string
	}
	var fns []*ssa.Function
	for f := range w.Reached {
		fns = append(fns, f)
	}
	sort.Slice(fns, func(i, j int) bool { return fns[i].Pos() < fns[j].Pos() })
	edges := map[string]edge{}
	succ := map[string][]string{}
	acq := 0
	for _, f := range fns {
		if len(f.Blocks) == 0 {
			continue
		}
		engine.Instrs(f, func(in ssa.Instruction) {
			c, ok := in.(*ssa.Call)
			if !ok {
				return
			}
			key, op, isLock := engine.LockOp(c)
			if !isLock || (op != "Lock" && op != "RLock") || key == "?" {
				return
			}
			acq++
			for h := range w.HeldAt(in) {
				if h == key || h == "?" {
					continue
				}
				k := h + " -> " + key
				if _, dup := edges[k]; !dup {
					edges[k] = edge{from: h, to: key, pos: r.P.Pos(in.Pos()), fn: fn(f)}
					succ[h] = append(succ[h], key)
				}
			}
		})
	}
	// across objects, one call chain is enough as well: a lock held (on every path) at a call
	// site, and any lock the callee may take on some chain below it. Lock keys are per owner
	// type, so two instances of one type are not told apart: pairs of keys of the same owner
	// type are left to the same-object analysis below, and only edges between different owner
	// types are added here.
	// (Only for a world whose objects are shared by all parties - the state cache with the
	// block caches being committed into it. Among the trie's stores the same key names many
	// private instances - a saver's clone of the change collector, a donor store being
	// iterated - and a type-level cycle there is not a deadlock.)
	if lab != "" {
		cg := r.P.RepoCG()
		memo := map[*ssa.Function]map[string]string{}
		var mayTake func(g *ssa.Function, depth int, seen map[*ssa.Function]bool) map[string]string
		mayTake = func(g *ssa.Function, depth int, seen map[*ssa.Function]bool) map[string]string {
			if g == nil || len(g.Blocks) == 0 || seen[g] || depth > 6 {
				return nil
			}
			if m, ok := memo[g]; ok {
				return m
			}
			seen[g] = true
			out := map[string]string{}
			engine.Instrs(g, func(in ssa.Instruction) {
				if c, ok := in.(*ssa.Call); ok {
					if key, op, isLock := engine.LockOp(c); isLock && (op == "Lock" || op == "RLock") && key != "?" {
						if _, had := out[key]; !had {
							out[key] = fn(g) + " at " + r.P.Pos(c.Pos())
						}
					}
				}
			})
			for _, e := range cg.Out[g] {
				if _, isGo := e.Site.(*ssa.Go); isGo {
					continue
				}
				for k, v := range mayTake(e.Callee, depth+1, seen) {
					if _, had := out[k]; !had {
						out[k] = v
					}
				}
			}
			delete(seen, g)
			memo[g] = out
			return out
		}
		ownerOf := func(key string) string {
			if i := strings.Index(key, "."); i > 0 {
				return key[:i]
			}
			return key
		}
		for _, f := range fns {
			loc := w.Local[f]
			if loc == nil || len(f.Blocks) == 0 {
				continue
			}
			for _, e := range cg.Out[f] {
				if _, isGo := e.Site.(*ssa.Go); isGo {
					continue
				}
				if _, isDefer := e.Site.(*ssa.Defer); isDefer {
					continue
				}
				held := loc.At[e.Site]
				if len(held) == 0 {
					continue
				}
				for k, where := range mayTake(e.Callee, 0, map[*ssa.Function]bool{}) {
					for h := range held {
						if h == k || h == "?" || ownerOf(h) == ownerOf(k) {
							continue
						}
						key := h + " -> " + k
						if _, dup := edges[key]; !dup {
							edges[key] = edge{from: h, to: k, pos: r.P.Pos(e.Site.Pos()), fn: where + " (reached from " + fn(f) + ")"}
							succ[h] = append(succ[h], k)
						}
					}
				}
			}
		}
	}
	// a deadlock needs one call chain, not all: a lock of the receiver that is held
	// (on every path) at a call made on that same receiver, and a lock of the same
	// owner type that the callee takes through its own receiver on some chain of
	// such same-receiver calls. Both locks then belong to one object.
	recvOf := func(f *ssa.Function) ssa.Value {
		if f.Signature.Recv() == nil || len(f.Params) == 0 || f.Parent() != nil {
			return nil
		}
		return f.Params[0]
	}
	ownMutex := func(f *ssa.Function, v ssa.Value) bool {
		rv := recvOf(f)
		if rv == nil {
			return false
		}
		if u, ok := v.(*ssa.UnOp); ok && u.Op == token.MUL {
			v = u.X
		}
		for {
			fa, ok := v.(*ssa.FieldAddr)
			if !ok {
				return false
			}
			if fa.X == rv {
				return true
			}
			v = fa.X
		}
	}
	type acqSite struct {
		key, pos, fn string
	}
	memo := map[*ssa.Function][]acqSite{}
	var takes func(f *ssa.Function, seen map[*ssa.Function]bool) []acqSite
	takes = func(f *ssa.Function, seen map[*ssa.Function]bool) []acqSite {
		if f == nil || len(f.Blocks) == 0 || seen[f] {
			return nil
		}
		if v, ok := memo[f]; ok {
			return v
		}
		seen[f] = true
		var out []acqSite
		rv := recvOf(f)
		engine.Instrs(f, func(in ssa.Instruction) {
			c, ok := in.(*ssa.Call)
			if !ok {
				return
			}
			if key, op, isLock := engine.LockOp(c); isLock {
				if (op == "Lock" || op == "RLock") && key != "?" && ownMutex(f, c.Call.Args[0]) {
					out = append(out, acqSite{key, r.P.Pos(c.Pos()), fn(f)})
				}
				return
			}
			g := c.Call.StaticCallee()
			if g == nil || rv == nil || len(c.Call.Args) == 0 || c.Call.Args[0] != rv || recvOf(g) == nil {
				return
			}
			out = append(out, takes(g, seen)...)
		})
		delete(seen, f)
		memo[f] = out
		return out
	}
	for _, f := range fns {
		rv := recvOf(f)
		if len(f.Blocks) == 0 || rv == nil {
			continue
		}
		loc := w.Local[f]
		if loc == nil {
			continue
		}
		own := map[string]bool{}
		engine.Instrs(f, func(in ssa.Instruction) {
			if c, ok := in.(*ssa.Call); ok {
				if key, op, isLock := engine.LockOp(c); isLock && (op == "Lock" || op == "RLock") && ownMutex(f, c.Call.Args[0]) {
					own[key] = true
				}
			}
		})
		engine.Instrs(f, func(in ssa.Instruction) {
			c, ok := in.(*ssa.Call)
			if !ok {
				return
			}
			g := c.Call.StaticCallee()
			if g == nil || len(c.Call.Args) == 0 || c.Call.Args[0] != rv || recvOf(g) == nil {
				return
			}
			for h := range loc.At[in] {
				if !own[h] {
					continue
				}
				for _, a := range takes(g, map[*ssa.Function]bool{}) {
					if a.key == h {
						continue
					}
					k := h + " -> " + a.key
					if _, dup := edges[k]; !dup {
						edges[k] = edge{from: h, to: a.key, pos: a.pos, fn: a.fn + " (called from " + fn(f) + " at " + r.P.Pos(in.Pos()) + ")"}
						succ[h] = append(succ[h], a.key)
					}
				}
			}
		})
	}
	if acq < minAcq {
		r.Anchor(rule, fmt.Errorf("unresolved anchor: only %d lock acquisitions reachable (at least %d expected)", acq, minAcq))
	}
	var keys []string
	for k := range edges {
		keys = append(keys, k)
	}
	sort.Strings(keys)
	reaches := func(from, to string) bool {
		seen := map[string]bool{from: true}
		work := []string{from}
		for len(work) > 0 {
			x := work[len(work)-1]
			work = work[:len(work)-1]
			for _, s := range succ[x] {
				if s == to {
					return true
				}
				if !seen[s] {
					seen[s] = true
					work = append(work, s)
				}
			}
		}
		return false
	}
	for _, k := range keys {
		e := edges[k]
		back := reaches(e.to, e.from)
		detail := ""
		if back {
			if o, ok := edges[e.to+" -> "+e.from]; ok {
				detail = " (the opposite order is taken in " + o.fn + " at " + o.pos + ")"
			}
		}
		r.Check(!back, rule, lab+"order "+k, e.pos, "acquired in "+e.fn+"; no chain of acquisitions leads back from "+e.to+" to "+e.from,
			e.fn+" acquires "+e.to+" while holding "+e.from+", and elsewhere "+e.from+" is acquired while "+e.to+" is held"+detail+": two goroutines that each got their first lock wait for each other for ever (ABBA deadlock; with read locks as soon as a writer queues up in between)")
	}
	r.OK(rule, lab+"acquisitions", "-", fmt.Sprintf("%d lock acquisitions in %d reachable functions, %d distinct held->acquired pairs", acq, len(fns), len(keys)))
}
