package rules

import (
	"fmt"
	"go/token"
	"go/types"

	"golang.org/x/tools/go/ssa"

	"verif/sa/engine"
)

// Shape rules of the state trie's walks (lookup, insert at node, delete at
// node). Like walkshape.go for the weighted trie: whether the trie is a map
// (C01) depends on each step splitting the path at one position and on each
// "this node is the entry for the key" decision being taken under the
// comparison that establishes it. These clauses are visible in the shape of
// the code; which value a lookup returns for every history is not decided.
//
// Roles: path = the last parameter of type Path; node = the first parameter of
// type Node; payload = the parameter of type MPTSerializable.

func isPathType(t types.Type) bool {
	nm, ok := t.(*types.Named)
	return ok && nm.Obj().Name() == "Path"
}

func mptPathParam(f *ssa.Function) ssa.Value {
	var out ssa.Value
	for i, p := range f.Params {
		if i == 0 && f.Signature.Recv() != nil {
			continue
		}
		if isPathType(p.Type()) {
			out = p
		}
	}
	return out
}

func mptNodeParam(f *ssa.Function) ssa.Value {
	for i, p := range f.Params {
		if i == 0 && f.Signature.Recv() != nil {
			continue
		}
		if nm, ok := p.Type().(*types.Named); ok && nm.Obj().Name() == "Node" {
			return p
		}
	}
	return nil
}

func mptPayloadParam(f *ssa.Function) ssa.Value {
	for i, p := range f.Params {
		if i == 0 && f.Signature.Recv() != nil {
			continue
		}
		if nm, ok := p.Type().(*types.Named); ok && nm.Obj().Name() == "MPTSerializable" {
			return p
		}
	}
	return nil
}

// suffixArg: the argument of c that is a suffix P[l:] of a byte path.
func suffixArg(c *ssa.Call) *ssa.Slice {
	for _, a := range c.Call.Args {
		if sl, ok := stripConv(a).(*ssa.Slice); ok && sl.Low != nil && sl.High == nil && (isByteSlice(sl.Type()) || isPathType(sl.Type())) {
			return sl
		}
	}
	return nil
}

// keyOrigins: the values a child key may be (through phis and conversions).
func keyOrigins(v ssa.Value) []ssa.Value {
	var out []ssa.Value
	seen := map[ssa.Value]bool{}
	var walk func(v ssa.Value)
	walk = func(v ssa.Value) {
		v = stripConv(v)
		if seen[v] {
			return
		}
		seen[v] = true
		if ph, ok := v.(*ssa.Phi); ok {
			for _, e := range ph.Edges {
				walk(e)
			}
			return
		}
		out = append(out, v)
	}
	walk(v)
	return out
}

func samePathExpr(a, b ssa.Value) bool {
	return sameBytes(stripConv(a), stripConv(b))
}

// ---- AGREE-childslot ---------------------------------------------------------------

func agreeChildSlot(r *engine.Run, rule string) {
	n := 0
	for _, f := range mptFuncs(r) {
		if len(f.Blocks) == 0 {
			continue
		}
		o := ord{}
		engine.Instrs(f, func(in ssa.Instruction) {
			c, ok := in.(*ssa.Call)
			if !ok {
				return
			}
			sc := c.Call.StaticCallee()
			if sc == nil || recvNamed(sc) != "FullNode" {
				return
			}
			switch sc.Name() {
			case "PutChild":
				if len(c.Call.Args) != 3 {
					return
				}
				idx := c.Call.Args[1]
				for _, orig := range keyOrigins(c.Call.Args[2]) {
					ex, ok := orig.(*ssa.Extract)
					if !ok {
						continue
					}
					src, ok := ex.Tuple.(*ssa.Call)
					if !ok {
						continue
					}
					sl := suffixArg(src)
					if sl == nil {
						continue
					}
					n++
					arr, j, okI := loadOfIndex(idx)
					good := okI && samePathExpr(arr, sl.X) && succOf(sl.Low, j)
					r.Check(good, rule, o.next(fn(f)+"|PutChild"), r.P.Pos(c.Pos()), "the child built for remainder P[l:] is filed under slot P[l-1]",
						"a child built for the remainder "+exprOf(sl)+" is filed under a slot that is not the path element just before that remainder: the subtree sits in a slot its own path does not lead to, so the entry is unreachable for lookups and a later insert of the same path creates a second one")
				}
			case "GetChild":
				if len(c.Call.Args) != 2 {
					return
				}
				idx := c.Call.Args[1]
				// follow the key into the walk that continues below it
				var sinks []*ssa.Call
				seen := map[ssa.Value]bool{}
				var follow func(v ssa.Value, depth int)
				follow = func(v ssa.Value, depth int) {
					if seen[v] || depth > 6 {
						return
					}
					seen[v] = true
					for _, ref := range engine.Referrers(v) {
						switch x := ref.(type) {
						case *ssa.ChangeType:
							follow(x, depth+1)
						case *ssa.Convert:
							follow(x, depth+1)
						case *ssa.Phi:
							follow(x, depth+1)
						case *ssa.Extract:
							follow(x, depth+1)
						case *ssa.Call:
							g := x.Call.StaticCallee()
							if g == nil || !inRepo(g) {
								continue
							}
							if suffixArg(x) != nil {
								sinks = append(sinks, x)
								continue
							}
							if g.Name() == "getNode" || g.Name() == "GetNode" {
								follow(x, depth+1)
							}
						}
					}
				}
				follow(c, 0)
				for _, s := range sinks {
					sl := suffixArg(s)
					n++
					arr, j, okI := loadOfIndex(idx)
					good := okI && samePathExpr(arr, sl.X) && succOf(sl.Low, j)
					r.Check(good, rule, o.next(fn(f)+"|GetChild"), r.P.Pos(c.Pos()), "the walk continues with remainder P[l:] below slot P[l-1]",
						"the walk descends into a slot that is not selected by the path element just before the remainder "+exprOf(sl)+" it continues with: lookups, updates and deletes of a key follow another key's path")
				}
			}
		})
	}
	if n < 8 {
		r.Anchor(rule, fmt.Errorf("unresolved anchor: only %d slot/remainder pairs found in the trie operations", n))
	}
}

func exprOf(sl *ssa.Slice) string {
	base := bytesID(stripConv(sl.X))
	return base + "[" + lowStr(sl.Low) + ":]"
}

func lowStr(v ssa.Value) string {
	if k, ok := intConst(v); ok {
		return fmt.Sprint(k)
	}
	return v.Name()
}

// ---- DOM-keymatch ---------------------------------------------------------------------

// eqFactsAt: the pairs (a, b) for which a byte-slice equality tested true on
// every feasible path to block b.
func eqFactsAt(f *ssa.Function, b *ssa.BasicBlock) [][2]ssa.Value {
	var out [][2]ssa.Value
	facts, ok := engine.FactsOn(f, b)
	if !ok {
		return nil
	}
	for _, ft := range facts {
		if ft.Kind != "bool" || !ft.Truth {
			continue
		}
		c, ok := ft.A.(*ssa.Call)
		if !ok || !isBytesEq(c) || len(c.Call.Args) != 2 {
			continue
		}
		out = append(out, [2]ssa.Value{stripConv(c.Call.Args[0]), stripConv(c.Call.Args[1])})
	}
	return out
}

func isPathOf(v ssa.Value, obj ssa.Value) bool {
	b, fld, ok := loadOfField(stripConv(v))
	return ok && b == obj && fld == "Path"
}

// prefixOf: v is the result of a matching-prefix helper applied to the walk's
// path and obj's Path (a method or function with two path arguments returning a path).
func prefixOf(v ssa.Value, path, obj ssa.Value) bool {
	c, ok := stripConv(v).(*ssa.Call)
	if !ok || c.Call.StaticCallee() == nil || !inRepo(c.Call.StaticCallee()) {
		return false
	}
	hasPath, hasObj := false, false
	for _, a := range c.Call.Args {
		if stripConv(a) == path {
			hasPath = true
		}
		if isPathOf(a, obj) {
			hasObj = true
		}
	}
	return hasPath && hasObj && (isPathType(c.Type()) || isByteSlice(c.Type()))
}

// matchedWhole: on every path to b, obj.Path tested equal to the walk's path
// ("exact") or to the matching prefix of both ("prefix").
func matchedWhole(f *ssa.Function, b *ssa.BasicBlock, path, obj ssa.Value) (exact, prefix bool, pfx ssa.Value) {
	// bytes.HasPrefix(path, obj.Path) is the same decision spelled with the library
	if facts, ok := engine.FactsOn(f, b); ok {
		for _, ft := range facts {
			if ft.Kind != "bool" || !ft.Truth {
				continue
			}
			if c, ok := ft.A.(*ssa.Call); ok && extCalleeIs(c, "bytes", "", "HasPrefix") && len(c.Call.Args) == 2 {
				if stripConv(c.Call.Args[0]) == path && isPathOf(c.Call.Args[1], obj) {
					prefix = true
				}
			}
		}
	}
	for _, pr := range eqFactsAt(f, b) {
		for _, q := range [][2]ssa.Value{{pr[0], pr[1]}, {pr[1], pr[0]}} {
			if !isPathOf(q[0], obj) {
				continue
			}
			if q[1] == path {
				exact = true
			}
			if prefixOf(q[1], path, obj) {
				prefix, pfx = true, q[1]
			}
		}
	}
	return
}

func asserted(f *ssa.Function, node ssa.Value, kind string) ssa.Value {
	var out ssa.Value
	engine.Instrs(f, func(in ssa.Instruction) {
		ta, ok := in.(*ssa.TypeAssert)
		if !ok || ta.X != node || !isNamedPtr(ta.AssertedType, kind) {
			return
		}
		if ta.CommaOk {
			for _, ref := range engine.Referrers(ta) {
				if ex, ok := ref.(*ssa.Extract); ok && ex.Index == 0 {
					out = ex
				}
			}
		} else {
			out = ta
		}
	})
	return out
}

func domKeyMatch(r *engine.Run, rule string) {
	n := 0
	for _, name := range []string{"getNodeValueRaw", "insertAtNode", "deleteAtNode"} {
		f := r.Fn(rule, pkgUtil, "MerklePatriciaTrie", name)
		if f == nil {
			continue
		}
		path, node := mptPathParam(f), mptNodeParam(f)
		if path == nil || node == nil {
			r.Anchor(rule, fmt.Errorf("unresolved anchor: path/node parameters of %s", fn(f)))
			continue
		}
		leaf, ext := asserted(f, node, "LeafNode"), asserted(f, node, "ExtensionNode")
		if leaf == nil || ext == nil {
			r.Anchor(rule, fmt.Errorf("unresolved anchor: leaf/extension arms of %s", fn(f)))
			continue
		}
		o := ord{}
		// (1) this leaf is the entry
		engine.Instrs(f, func(in ssa.Instruction) {
			switch x := in.(type) {
			case *ssa.Call:
				g := x.Call.StaticCallee()
				if g == nil {
					return
				}
				if name == "getNodeValueRaw" && g.Name() == "GetValueBytes" && len(x.Call.Args) == 1 {
					// the lookup reads the value of the node at the position only where that node is the entry
					n++
					if x.Call.Args[0] == leaf {
						exact, _, _ := matchedWhole(f, x.Block(), path, leaf)
						r.Check(exact, rule, o.next(fn(f)+"|leaf value returned"), r.P.Pos(x.Pos()), "a leaf's value is read only where leaf path == remaining path tested true",
							"the lookup takes a leaf's value on a path where the leaf's path was not established to equal the remaining path: a lookup of one key answers with another key's value")
						return
					}
					used := false
					if facts, ok := engine.FactsOn(f, x.Block()); ok {
						for _, ft := range facts {
							if ft.Kind == "eq" && ft.Truth && (isLenOf(ft.A, path) && isZero(ft.B) || isLenOf(ft.B, path) && isZero(ft.A)) {
								used = true
							}
						}
					}
					r.Check(used, rule, o.next(fn(f)+"|branch value returned"), r.P.Pos(x.Pos()), "a branch's own value is read only where len(path) == 0 tested true",
						"the lookup takes a branch's own value although the remaining path is not used up: every key below that branch answers with the branch's value")
					return
				}
				hasNode := false
				for _, a := range x.Call.Args {
					if a == node {
						hasNode = true
					}
				}
				switch {
				case name == "deleteAtNode" && g.Name() == "deleteAfterPathTraversal" && hasNode && leafArm(f, x.Block(), leaf):
					n++
					exact, _, _ := matchedWhole(f, x.Block(), path, leaf)
					r.Check(exact, rule, o.next(fn(f)+"|leaf removed"), r.P.Pos(x.Pos()), "the leaf is removed only where path == leaf path tested true",
						"delete removes the leaf at the position on a path where the leaf's path was not established to equal the remaining path: deleting an absent key removes another key's entry")
				case name == "insertAtNode" && g.Name() == "insertLeaf" && hasNode && leafArm(f, x.Block(), leaf):
					// the leaf itself is replaced (old node = the position); with the leaf's own path that is an update
					keeps := false
					for _, a := range x.Call.Args {
						if isPathOf(a, leaf) {
							keeps = true
						}
					}
					if !keeps {
						return
					}
					n++
					exact, _, _ := matchedWhole(f, x.Block(), path, leaf)
					r.Check(exact, rule, o.next(fn(f)+"|leaf updated"), r.P.Pos(x.Pos()), "the leaf is overwritten in place only where path == leaf path tested true",
						"insert overwrites the leaf at the position (same path, new value) on a path where the leaf's path was not established to equal the remaining path: storing one key replaces another key's value")
				}
			}
		})
		// (2) descent below an extension
		engine.Instrs(f, func(in ssa.Instruction) {
			c, ok := in.(*ssa.Call)
			if !ok {
				return
			}
			g := c.Call.StaticCallee()
			if g == nil || !inRepo(g) {
				return
			}
			if g.Name() != "insert" && g.Name() != "delete" && g.Name() != "getNode" {
				return
			}
			below := false
			for _, a := range c.Call.Args {
				if b, fld, ok := loadOfField(stripConv(a)); ok && b == ext && fld == "NodeKey" {
					below = true
				}
			}
			if !below {
				return
			}
			walk := c
			if g.Name() == "getNode" {
				// the fetched node is walked by the recursive call
				walk = nil
				if ex := extractOf(c, 0); ex != nil {
					for _, ref := range engine.Referrers(ex) {
						if c2, ok := ref.(*ssa.Call); ok && c2.Call.StaticCallee() == f {
							walk = c2
						}
					}
				}
				if walk == nil {
					return
				}
			}
			n++
			cons := o.next(fn(f) + "|descent below extension")
			pos := r.P.Pos(walk.Pos())
			exact, prefix, pfx := matchedWhole(f, walk.Block(), path, ext)
			// the remainder handed down
			var rem ssa.Value
			for i, a := range walk.Call.Args {
				if i == 0 {
					continue
				}
				if isPathType(a.Type()) {
					rem = a // the last path argument is the remainder
				}
			}
			remOK := false
			switch x := stripConv(rem).(type) {
			case *ssa.Slice:
				if stripConv(x.X) == path && x.High == nil && x.Low != nil {
					if prefix && (pfx != nil && isLenOf(x.Low, pfx) || isLenOfField(x.Low, ext)) {
						remOK = true
					}
					if exact && (isLenOf(x.Low, path) || isLenOfField(x.Low, ext)) {
						remOK = true
					}
				}
			case *ssa.Const:
				remOK = exact
			case *ssa.MakeSlice:
				if k, ok := intConst(x.Len); ok && k == 0 {
					remOK = exact
				}
			default:
				if al, ok := stripConv(rem).(*ssa.Alloc); ok {
					_ = al
				}
			}
			if !remOK && exact {
				// Path{} literal: an empty composite is a nil/zero-length constant or a slice of a zero-length array
				if sl, ok := stripConv(rem).(*ssa.Slice); ok {
					if al, ok := sl.X.(*ssa.Alloc); ok {
						if arr, ok := al.Type().Underlying().(*types.Pointer).Elem().Underlying().(*types.Array); ok && arr.Len() == 0 {
							remOK = true
						}
					}
				}
			}
			r.Check((exact || prefix) && remOK, rule, cons, pos, "reached only where the extension's whole path matched, continuing with exactly the rest of the path",
				fmt.Sprintf("the walk continues below an extension on a path where the extension's whole path was not established to be a prefix of the remaining path (matched: %v), or it does not continue with exactly what is left after the extension's path (%v): a key that diverges inside the extension is looked up, stored or deleted below it, i.e. another key's entry is returned, overwritten or removed", exact || prefix, remOK))
		})
	}
	n += domKeyMatchExhausted(r, rule)
	if n < 10 {
		r.Anchor(rule, fmt.Errorf("unresolved anchor: only %d entry decisions found in lookup/insert/delete at node", n))
	}
}

// leafArm: block b lies in the arm where the position tested to be a leaf.
func leafArm(f *ssa.Function, b *ssa.BasicBlock, leaf ssa.Value) bool {
	ex, ok := leaf.(*ssa.Extract)
	if !ok {
		return true
	}
	facts, okf := engine.FactsOn(f, b)
	if !okf {
		return false
	}
	for _, ft := range facts {
		if ft.Kind == "bool" && ft.Truth {
			if e2, ok := ft.A.(*ssa.Extract); ok && e2.Index == 1 && e2.Tuple == ex.Tuple {
				return true
			}
		}
	}
	return false
}

// ---- DOM-valueat -----------------------------------------------------------------------

// A value is stored on a new branch only where the key it belongs to ends at
// that branch: the payload where the matching prefix equals the walked path,
// an existing leaf's value where the matching prefix equals the leaf's path
// (or the leaf's path is empty).
func domValueAt(r *engine.Run, rule string) {
	f := r.Fn(rule, pkgUtil, "MerklePatriciaTrie", "insertAtNode")
	if f == nil {
		return
	}
	path, node, payload := mptPathParam(f), mptNodeParam(f), mptPayloadParam(f)
	if path == nil || node == nil || payload == nil {
		r.Anchor(rule, fmt.Errorf("unresolved anchor: parameters of %s", fn(f)))
		return
	}
	n := 0
	o := ord{}
	engine.Instrs(f, func(in ssa.Instruction) {
		c, ok := in.(*ssa.Call)
		if !ok {
			return
		}
		g := c.Call.StaticCallee()
		if g == nil {
			return
		}
		var v ssa.Value
		switch {
		case g.Name() == "SetValue" && recvNamed(g) == "FullNode" && len(c.Call.Args) == 2:
			// only branches built here (a clone of the position keeps its place in the trie)
			if bc, ok := c.Call.Args[0].(*ssa.Call); !ok || bc.Call.StaticCallee() == nil || bc.Call.StaticCallee().Name() != "NewFullNode" {
				return
			}
			v = c.Call.Args[1]
		case g.Name() == "NewFullNode" && len(c.Call.Args) == 1:
			v = c.Call.Args[0]
		default:
			return
		}
		if nilConst(v) {
			return
		}
		n++
		cons := o.next(fn(f) + "|value on new branch")
		pos := r.P.Pos(c.Pos())
		facts := eqFactsAt(f, c.Block())
		if stripConv(v) == payload || v == payload {
			good := false
			for _, pr := range facts {
				for _, q := range [][2]ssa.Value{{pr[0], pr[1]}, {pr[1], pr[0]}} {
					if q[0] == path {
						if pc, ok := q[1].(*ssa.Call); ok {
							for _, a := range pc.Call.Args {
								if stripConv(a) == path {
									good = true
								}
							}
						}
					}
				}
			}
			r.Check(good, rule, cons, pos, "the payload is put on the new branch only where matching prefix == path tested true",
				"the value being inserted is stored on the new branch on a path where the walked path was not established to end at that branch: the value is filed under a prefix of its key")
			return
		}
		// the value of an existing node: GetValue() of a leaf
		var owner ssa.Value
		if gc, ok := stripConv(v).(*ssa.Call); ok && gc.Call.StaticCallee() != nil && gc.Call.StaticCallee().Name() == "GetValue" && len(gc.Call.Args) == 1 {
			owner = gc.Call.Args[0]
		}
		if owner == nil {
			r.Fail(rule, cons, pos, "a new branch is given a value that is neither the payload nor the value of the node being split")
			return
		}
		good := false
		for _, pr := range facts {
			for _, q := range [][2]ssa.Value{{pr[0], pr[1]}, {pr[1], pr[0]}} {
				if isPathOf(q[0], owner) && prefixOf(q[1], path, owner) {
					good = true
				}
			}
		}
		if fs, ok := engine.FactsOn(f, c.Block()); ok {
			for _, ft := range fs {
				if ft.Kind == "eq" && ft.Truth && (isLenOfField(ft.A, owner) && isZero(ft.B) || isLenOfField(ft.B, owner) && isZero(ft.A)) {
					good = true
				}
			}
		}
		r.Check(good, rule, cons, pos, "the existing leaf's value is put on the new branch only where matching prefix == leaf path (or the leaf's path is empty) tested true",
			"the existing leaf's value is stored on the new branch on a path where the leaf's path was not established to end at that branch: the old entry moves to a prefix of its key")
	})
	if n < 3 {
		r.Anchor(rule, fmt.Errorf("unresolved anchor: only %d values stored on new branches in insertAtNode", n))
	}
}

// ---- AGREE-mergepath ----------------------------------------------------------------------

// nodeRoot: the node value v was obtained from, looking through type assertions
// and Clone(); cloned reports whether a Clone() was passed on the way.
func nodeRoot(v ssa.Value) (root ssa.Value, cloned bool) {
	for i := 0; i < 8; i++ {
		switch x := v.(type) {
		case *ssa.TypeAssert:
			v = x.X
			continue
		case *ssa.Extract:
			if ta, ok := x.Tuple.(*ssa.TypeAssert); ok {
				v = ta.X
				continue
			}
		case *ssa.MakeInterface:
			v = x.X
			continue
		case *ssa.Call:
			if x.Call.IsInvoke() && (x.Call.Method.Name() == "Clone" || x.Call.Method.Name() == "CloneNode") {
				v, cloned = x.Call.Value, true
				continue
			}
			if sc := x.Call.StaticCallee(); sc != nil && (sc.Name() == "Clone" || sc.Name() == "CloneNode") && len(x.Call.Args) == 1 {
				v, cloned = x.Call.Args[0], true
				continue
			}
		}
		break
	}
	return v, cloned
}

// When delete removes the node between two path-carrying nodes, the lower one
// moves up and its path grows by what the vanished node consumed: the
// extension's whole path in front of the child's whole path, or the branch
// slot's element in front of the only child's whole path. The new Path has to
// be exactly that concatenation (evaluated piece by piece, through concat /
// append / literals), and an extension that takes over its child's NodeKey
// takes over its path in the same step.
func agreeMergePath(r *engine.Run, rule string) {
	n := 0
	for _, name := range []string{"deleteAtNode", "liftOnlyChild"} {
		f := r.Fn(rule, pkgUtil, "MerklePatriciaTrie", name)
		if f == nil {
			continue
		}
		node := mptNodeParam(f)
		if node == nil {
			r.Anchor(rule, fmt.Errorf("unresolved anchor: node parameter of %s", fn(f)))
			continue
		}
		o := ord{}
		pathStoreIn := map[*ssa.BasicBlock]map[ssa.Value]bool{}
		engine.Instrs(f, func(in ssa.Instruction) {
			st, ok := in.(*ssa.Store)
			if !ok {
				return
			}
			fa, ok := st.Addr.(*ssa.FieldAddr)
			if !ok || engine.FieldOf(fa) == nil || engine.FieldOf(fa).Name() != "Path" {
				return
			}
			oroot, cloned := nodeRoot(fa.X)
			if !cloned {
				return
			}
			if pathStoreIn[st.Block()] == nil {
				pathStoreIn[st.Block()] = map[ssa.Value]bool{}
			}
			pathStoreIn[st.Block()][fa.X] = true
			n++
			cons := o.next(fn(f) + "|moved-up path")
			pos := r.P.Pos(st.Pos())
			segs, why := segsOf(st.Val, 0)
			if why != "" || len(segs) == 0 {
				r.Fail(rule, cons, pos, "the new path of a node that moves up is not recognisably a concatenation ("+why+"; recognised pieces "+fmtSegs(segs)+")")
				return
			}
			last := segs[len(segs)-1]
			bad := ""
			if last.whole == nil {
				// a slot element alone: only for an extension over a branch child, which is built with NewExtensionNode, not here
				bad = "the moved-up node's own path is not part of its new path"
			} else {
				lb, lf, ok := loadOfField(stripConv(last.whole))
				lroot, _ := ssa.Value(nil), false
				if ok {
					lroot, _ = nodeRoot(lb)
				}
				switch {
				case !ok || lf != "Path":
					bad = "the last piece of the new path is not a node's whole Path"
				case lroot == node:
					bad = "the new path ends with the vanishing position's own path instead of the lower node's"
				case oroot != node && lroot != oroot:
					bad = "the new path ends with the path of another node than the one that moves up"
				}
			}
			if bad == "" {
				switch len(segs) {
				case 2:
					first := segs[0]
					if first.whole != nil {
						fb, ff, ok := loadOfField(stripConv(first.whole))
						froot, _ := ssa.Value(nil), false
						if ok {
							froot, _ = nodeRoot(fb)
						}
						if !ok || ff != "Path" || froot != node {
							bad = "the new path does not start with the whole path of the extension at the position"
						}
					}
				case 1:
					bad = "nothing is put in front of the moved-up node's own path: the elements the vanished node consumed are lost"
				default:
					bad = "more than two pieces"
				}
			}
			r.Check(bad == "", rule, cons, pos, "new path = what the vanished node consumed (extension path / slot element) ++ the lower node's whole path",
				bad+" (pieces "+fmtSegs(segs)+"): every key below the moved-up node is now reached by other path elements than its own, so lookups miss it and the root differs from the trie that insert builds for the same content")
		})
		// an extension that adopts another extension's NodeKey adopts its path too
		engine.Instrs(f, func(in ssa.Instruction) {
			st, ok := in.(*ssa.Store)
			if !ok {
				return
			}
			fa, ok := st.Addr.(*ssa.FieldAddr)
			if !ok || engine.FieldOf(fa) == nil || engine.FieldOf(fa).Name() != "NodeKey" {
				return
			}
			vb, vf, ok := loadOfField(stripConv(st.Val))
			if !ok || vf != "NodeKey" || !isNamedPtr(vb.Type(), "ExtensionNode") {
				return
			}
			n++
			r.Check(pathStoreIn[st.Block()][fa.X], rule, o.next(fn(f)+"|adopted child key"), r.P.Pos(st.Pos()), "the extension that adopts its child extension's NodeKey gets the fused path in the same step",
				"an extension takes over the NodeKey of the extension below it without extending its own path by that extension's path: the keys below lose the absorbed path elements")
		})
	}
	if n < 4 {
		r.Anchor(rule, fmt.Errorf("unresolved anchor: only %d moved-up paths found in deleteAtNode/liftOnlyChild", n))
	}
}

// ---- DOM-childcount -------------------------------------------------------------------------

// A branch is dissolved only when the child count says so: it is lifted onto
// its only remaining child where the count (before the removal of the child
// that just vanished) tested 2 - or 1 when nothing is removed but its value -,
// and it is removed, or turned into a leaf carrying its value, where the count
// tested 1. Taking these decisions under another count loses children (a
// branch with two more children is replaced by one of them) or keeps a
// non-canonical one-child branch.
func domChildCount(r *engine.Run, rule string) {
	n := 0
	countFact := func(f *ssa.Function, b *ssa.BasicBlock, node ssa.Value) (int64, bool) {
		facts, ok := engine.FactsOn(f, b)
		if !ok {
			return 0, false
		}
		for _, ft := range facts {
			if ft.Kind != "eq" || !ft.Truth {
				continue
			}
			for _, pr := range [][2]ssa.Value{{ft.A, ft.B}, {ft.B, ft.A}} {
				c, ok := pr[0].(*ssa.Call)
				if !ok || c.Call.StaticCallee() == nil || c.Call.StaticCallee().Name() != "GetNumChildren" || len(c.Call.Args) != 1 {
					continue
				}
				if root, _ := nodeRoot(c.Call.Args[0]); root != node {
					continue
				}
				if k, ok := intConst(pr[1]); ok {
					return k, true
				}
			}
		}
		return 0, false
	}
	for _, name := range []string{"deleteAtNode", "deleteAfterPathTraversal"} {
		f := r.Fn(rule, pkgUtil, "MerklePatriciaTrie", name)
		if f == nil {
			continue
		}
		node := mptNodeParam(f)
		if node == nil {
			r.Anchor(rule, fmt.Errorf("unresolved anchor: node parameter of %s", fn(f)))
			continue
		}
		full := asserted(f, node, "FullNode")
		o := ord{}
		engine.Instrs(f, func(in ssa.Instruction) {
			switch x := in.(type) {
			case *ssa.Call:
				g := x.Call.StaticCallee()
				if g == nil {
					return
				}
				switch g.Name() {
				case "liftOnlyChild":
					if len(x.Call.Args) < 3 {
						return
					}
					t := x.Call.Args[2]
					cleared := int64(0)
					for _, ref := range engine.Referrers(t) {
						if pc, ok := ref.(*ssa.Call); ok && pc.Call.StaticCallee() != nil && pc.Call.StaticCallee().Name() == "PutChild" && len(pc.Call.Args) == 3 && pc.Call.Args[0] == t && nilConst(stripConv(pc.Call.Args[2])) && engine.InstrDominates(pc, x) {
							cleared++
						}
					}
					n++
					k, ok := countFact(f, x.Block(), node)
					r.Check(ok && k == 1+cleared, rule, o.next(fn(f)+"|lift"), r.P.Pos(x.Pos()), fmt.Sprintf("the branch is lifted onto its only child where GetNumChildren() == %d tested true (%d child cleared on the copy)", 1+cleared, cleared),
						fmt.Sprintf("the branch is replaced by one of its children on a path where its child count was not established to be %d (found: %v %d): with more children the others are dropped from the trie; with none the lift has nothing to lift", 1+cleared, ok, k))
				case "insertLeaf":
					// the branch itself becomes a leaf carrying its own value
					if full == nil || len(x.Call.Args) < 5 {
						return
					}
					hasNode := x.Call.Args[1] == node
					gv, isGV := stripConv(x.Call.Args[2]).(*ssa.Call)
					if !hasNode || !isGV || gv.Call.StaticCallee() == nil || gv.Call.StaticCallee().Name() != "GetValue" || len(gv.Call.Args) == 0 || gv.Call.Args[0] != full {
						return
					}
					n++
					k, ok := countFact(f, x.Block(), node)
					r.Check(ok && k == 1, rule, o.next(fn(f)+"|branch becomes leaf"), r.P.Pos(x.Pos()), "the branch is turned into a leaf where GetNumChildren() == 1 tested true (its only child just vanished)",
						"a branch is replaced by a leaf that carries only its value on a path where its child count was not established to be 1: the remaining children are dropped from the trie")
				}
			case *ssa.Return:
				if name != "deleteAtNode" || full == nil || len(x.Results) != 3 || !nilConst(x.Results[0]) || !nilConst(x.Results[1]) || !nilConst(x.Results[2]) {
					return
				}
				// only in the branch arm (after the descent into a child)
				inFull := false
				if ex, ok := full.(*ssa.Extract); ok {
					if facts, okf := engine.FactsOn(f, x.Block()); okf {
						for _, ft := range facts {
							if ft.Kind == "bool" && ft.Truth {
								if e2, ok := ft.A.(*ssa.Extract); ok && e2.Index == 1 && e2.Tuple == ex.Tuple {
									inFull = true
								}
							}
						}
					}
				}
				if !inFull {
					return
				}
				n++
				k, ok := countFact(f, x.Block(), node)
				r.Check(ok && k == 1, rule, o.next(fn(f)+"|branch removed"), r.P.Pos(x.Pos()), "the branch is removed where GetNumChildren() == 1 tested true (its only child just vanished)",
					"a branch is removed from the trie on a path where its child count was not established to be 1: its remaining children are dropped")
			}
		})
	}
	if n < 4 {
		r.Anchor(rule, fmt.Errorf("unresolved anchor: only %d branch-dissolving decisions found in deleteAtNode/deleteAfterPathTraversal", n))
	}
}

// ---- DOM-keymatch, exhausted path ---------------------------------------------------------

// When the path is used up at a leaf, that leaf is the entry only if its own
// path is empty; a leaf that still has path elements is another key's entry.
func domKeyMatchExhausted(r *engine.Run, rule string) int {
	n := 0
	// (a) insertAfterPathTraversal overwrites the leaf in place only where its path is empty
	if f := r.Fn(rule, pkgUtil, "MerklePatriciaTrie", "insertAfterPathTraversal"); f != nil {
		node := mptNodeParam(f)
		leaf := asserted(f, node, "LeafNode")
		o := ord{}
		if node != nil && leaf != nil {
			engine.Instrs(f, func(in ssa.Instruction) {
				c, ok := in.(*ssa.Call)
				if !ok || c.Call.StaticCallee() == nil || c.Call.StaticCallee().Name() != "insertLeaf" {
					return
				}
				replaces, keeps := false, false
				for _, a := range c.Call.Args {
					if a == node {
						replaces = true
					}
					if isPathOf(a, leaf) {
						keeps = true
					}
				}
				if !replaces || !keeps {
					return
				}
				n++
				empty := false
				if facts, ok := engine.FactsOn(f, c.Block()); ok {
					for _, ft := range facts {
						if ft.Kind == "eq" && ft.Truth && (isLenOfField(ft.A, leaf) && isZero(ft.B) || isLenOfField(ft.B, leaf) && isZero(ft.A)) {
							empty = true
						}
					}
				}
				r.Check(empty, rule, o.next(fn(f)+"|leaf updated"), r.P.Pos(c.Pos()), "at an exhausted path the leaf is overwritten in place only where len(leaf path) == 0 tested true",
					"the path is used up at a leaf and the leaf is overwritten in place although it was not established that the leaf's own path is empty: storing a key that is a proper prefix of another key replaces that other key's entry")
			})
		}
	}
	// (b) a leaf is removed at an exhausted path only where its path is empty (or equals the remaining path)
	g := r.Fn(rule, pkgUtil, "MerklePatriciaTrie", "deleteAfterPathTraversal")
	if g == nil {
		return n
	}
	gnode := mptNodeParam(g)
	gleaf := asserted(g, gnode, "LeafNode")
	inside := false
	if gleaf != nil {
		engine.Instrs(g, func(in ssa.Instruction) {
			c, ok := in.(*ssa.Call)
			if !ok || c.Call.StaticCallee() == nil || c.Call.StaticCallee().Name() != "deleteNode" || !leafArm(g, c.Block(), gleaf) {
				return
			}
			if facts, ok := engine.FactsOn(g, c.Block()); ok {
				for _, ft := range facts {
					if ft.Kind == "eq" && ft.Truth && (isLenOfField(ft.A, gleaf) && isZero(ft.B) || isLenOfField(ft.B, gleaf) && isZero(ft.A)) {
						inside = true
					}
				}
			}
		})
	}
	cg := r.P.RepoCG()
	o := ord{}
	for _, e := range cg.In[g] {
		c, ok := e.Site.(*ssa.Call)
		if !ok || c.Call.StaticCallee() != g {
			continue
		}
		f := c.Parent()
		n++
		cons := o.next(fn(f) + "|leaf removed at exhausted path")
		if inside {
			r.OK(rule, cons, r.P.Pos(c.Pos()), "deleteAfterPathTraversal itself removes a leaf only where len(leaf path) == 0 tested true")
			continue
		}
		var narg ssa.Value
		for i, p := range g.Params {
			if ssa.Value(p) == gnode && i < len(c.Call.Args) {
				narg = c.Call.Args[i]
			}
		}
		path := mptPathParam(f)
		// the leaf view of the node in the caller
		var okAtom string
		var lf ssa.Value
		engine.Instrs(f, func(in ssa.Instruction) {
			ta, isTA := in.(*ssa.TypeAssert)
			if !isTA || ta.X != narg || !ta.CommaOk || !isNamedPtr(ta.AssertedType, "LeafNode") {
				return
			}
			for _, ref := range engine.Referrers(ta) {
				if ex, ok := ref.(*ssa.Extract); ok {
					if ex.Index == 1 {
						okAtom = engine.ValKey(ex)
					} else {
						lf = ex
					}
				}
			}
		})
		good := false
		why := "the caller never looks at whether the node is a leaf with path elements of its own"
		if okAtom != "" && lf != nil {
			// atom keys that establish "this leaf is the entry"
			type want struct {
				key   string
				truth bool
			}
			var okKeys []want
			engine.Instrs(f, func(in ssa.Instruction) {
				switch x := in.(type) {
				case *ssa.BinOp:
					lenLeft := isLenOfField(x.X, lf) && isZero(x.Y)
					lenRight := isLenOfField(x.Y, lf) && isZero(x.X)
					if !lenLeft && !lenRight {
						return
					}
					// truth of the comparison under which len(leaf path) == 0 holds
					var whenTrue bool
					switch x.Op {
					case token.EQL:
						whenTrue = true
					case token.NEQ:
						whenTrue = false
					case token.GTR: // len > 0  |  0 > len (never)
						if !lenLeft {
							return
						}
						whenTrue = false
					case token.LSS: // 0 < len
						if !lenRight {
							return
						}
						whenTrue = false
					case token.LEQ: // len <= 0
						if !lenLeft {
							return
						}
						whenTrue = true
					case token.GEQ: // 0 >= len
						if !lenRight {
							return
						}
						whenTrue = true
					default:
						return
					}
					key, pos := engine.CondAtom(x)
					okKeys = append(okKeys, want{key, whenTrue == pos})
				case *ssa.Call:
					if isBytesEq(x) && len(x.Call.Args) == 2 && path != nil {
						a, b := stripConv(x.Call.Args[0]), stripConv(x.Call.Args[1])
						if (isPathOf(a, lf) && b == path) || (isPathOf(b, lf) && a == path) {
							okKeys = append(okKeys, want{engine.ValKey(x), true})
						}
					}
				}
			})
			if paths, ok := engine.PathFacts(f, c.Block(), 4096); ok {
				good = true
				for _, p := range paths {
					isLeaf, known := p[okAtom]
					if known && !isLeaf {
						continue
					}
					est := false
					for _, k := range okKeys {
						if v, had := p[k.key]; had && v == k.truth {
							est = true
						}
					}
					if !est {
						good = false
						why = "on some path the node may be a leaf whose own path was not established to be empty (or equal to the remaining path)"
					}
				}
			}
		}
		r.Check(good, rule, cons, r.P.Pos(c.Pos()), "a leaf reaches the removal at an exhausted path only where its own path tested empty (or equal to the remaining path)",
			why+": deleting a key that is a proper prefix of another key removes that other key's entry")
	}
	return n
}
