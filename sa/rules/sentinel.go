package rules

import (
	"fmt"
	"go/constant"
	"go/token"
	"go/types"
	"strings"

	"verif/sa/engine"

	"golang.org/x/tools/go/ssa"
)

// DOM-sentinel: a scan that keeps "the index of the only / first matching slot"
// in one integer together with constants meaning "none" / "several".
//
// Instance: a family of phis of integer type whose leaves are (a) at least one
// value that is used as the index of an N-element array inside a loop (the
// scan index) and (b) constants; where a phi of the family is itself used as
// an index into an N-element array (the use), and that use is guarded by a
// comparison of a family phi with a constant (the decision).
//
// Obligations, all decided over the finite domains involved:
//   - every constant merged into the family lies outside [0,N): a sentinel
//     that equals a slot number is indistinguishable from that slot;
//   - the decision that leads to the use holds for every slot number 0..N-1
//     and fails for every sentinel.
func domSentinel(r *engine.Run, rule string, fns []*ssa.Function) int {
	n := 0
	for _, f := range fns {
		if f == nil || len(f.Blocks) == 0 {
			continue
		}
		// arrayLen(v): v is a pointer to / value of a fixed-size array
		arrayLen := func(x ssa.Value) int64 {
			t := x.Type().Underlying()
			if p, ok := t.(*types.Pointer); ok {
				t = p.Elem().Underlying()
			}
			if a, ok := t.(*types.Array); ok {
				return a.Len()
			}
			return -1
		}
		// index uses: value -> array length
		idxUse := map[ssa.Value][]ssa.Instruction{}
		idxLen := map[ssa.Value]int64{}
		engine.Instrs(f, func(in ssa.Instruction) {
			var x, idx ssa.Value
			switch i := in.(type) {
			case *ssa.IndexAddr:
				x, idx = i.X, i.Index
			case *ssa.Index:
				x, idx = i.X, i.Index
			default:
				return
			}
			if l := arrayLen(x); l > 0 {
				idxUse[idx] = append(idxUse[idx], in)
				idxLen[idx] = l
			}
		})
		// phi families (connected through phi edges)
		fam := map[*ssa.Phi]int{}
		var fams [][]*ssa.Phi
		engine.Instrs(f, func(in ssa.Instruction) {
			ph, ok := in.(*ssa.Phi)
			if !ok {
				return
			}
			if b, ok := ph.Type().Underlying().(*types.Basic); !ok || b.Info()&types.IsInteger == 0 {
				return
			}
			if _, ok := fam[ph]; ok {
				return
			}
			id := len(fams)
			var members []*ssa.Phi
			var walk func(p *ssa.Phi)
			walk = func(p *ssa.Phi) {
				if _, ok := fam[p]; ok {
					return
				}
				fam[p] = id
				members = append(members, p)
				for _, e := range p.Edges {
					if q, ok := e.(*ssa.Phi); ok {
						walk(q)
					}
				}
				for _, ref := range engine.Referrers(p) {
					if q, ok := ref.(*ssa.Phi); ok {
						walk(q)
					}
				}
			}
			walk(ph)
			fams = append(fams, members)
		})
		for _, members := range fams {
			in := map[ssa.Value]bool{}
			for _, m := range members {
				in[m] = true
			}
			var consts []int64
			var scanIdx ssa.Value
			var N int64 = -1
			other := false
			for _, m := range members {
				for _, e := range m.Edges {
					if in[e] {
						continue
					}
					if c, ok := e.(*ssa.Const); ok && c.Value != nil && c.Value.Kind() == constant.Int {
						v, _ := constant.Int64Val(c.Value)
						dup := false
						for _, x := range consts {
							dup = dup || x == v
						}
						if !dup {
							consts = append(consts, v)
						}
						continue
					}
					if l, ok := idxLen[e]; ok {
						scanIdx, N = e, l
						continue
					}
					other = true
				}
			}
			if scanIdx == nil || len(consts) == 0 || other {
				continue
			}
			// the use: a family phi indexing an N-array
			var use ssa.Instruction
			var usePhi *ssa.Phi
			for _, m := range members {
				if l, ok := idxLen[m]; ok && l == N {
					use, usePhi = idxUse[m][0], m
				}
			}
			if use == nil {
				continue
			}
			// the decision: an If on (family phi OP const) one of whose edges dominates the use
			var dec *ssa.BinOp
			var decTrue bool
			var decK int64
			for _, b := range f.Blocks {
				ifi, ok := b.Instrs[len(b.Instrs)-1].(*ssa.If)
				if !ok {
					continue
				}
				bo, ok := ifi.Cond.(*ssa.BinOp)
				if !ok {
					continue
				}
				ph, okp := bo.X.(*ssa.Phi)
				c, okc := bo.Y.(*ssa.Const)
				if !okp || !okc || !in[ph] || c.Value == nil || c.Value.Kind() != constant.Int {
					continue
				}
				// the decision must test the phi that is used, after the scan
				if ph != usePhi {
					continue
				}
				for si, s := range b.Succs {
					if len(s.Preds) == 1 && s.Dominates(use.Block()) {
						dec, decTrue = bo, si == 0
						decK, _ = constant.Int64Val(c.Value)
					}
				}
			}
			if dec == nil {
				continue
			}
			n++
			name := usePhi.Comment
			if name == "" {
				name = usePhi.Name()
			}
			construct := fmt.Sprintf("%s|scan %s over %d slots", fn(f), name, N)
			eval := func(v int64) bool {
				var res bool
				switch dec.Op {
				case token.EQL:
					res = v == decK
				case token.NEQ:
					res = v != decK
				case token.LSS:
					res = v < decK
				case token.LEQ:
					res = v <= decK
				case token.GTR:
					res = v > decK
				case token.GEQ:
					res = v >= decK
				}
				return res == decTrue
			}
			var bad []string
			for _, c := range consts {
				if c >= 0 && c < N {
					bad = append(bad, fmt.Sprintf("the constant %d merged into %s is also the number of a slot: 'nothing found' / 'several found' cannot be told from slot %d", c, name, c))
				} else if eval(c) {
					bad = append(bad, fmt.Sprintf("the decision before the use accepts the sentinel %d", c))
				}
			}
			for v := int64(0); v < N; v++ {
				if !eval(v) {
					bad = append(bad, fmt.Sprintf("the decision `%s %s %d` before the use rejects slot %d", name, dec.Op, decK, v))
					break
				}
			}
			r.Check(len(bad) == 0, rule, construct, r.P.Pos(dec.Pos()),
				fmt.Sprintf("sentinels %v are outside [0,%d); the decision `%s %s %d` accepts exactly the slot numbers", consts, N, name, dec.Op, decK),
				strings.Join(bad, "; "))
		}
	}
	n += domSentinelHelpers(r, rule, fns)
	return n
}

// domSentinelHelpers: the same obligations when the scan lives in a helper that
// returns the slot number or a sentinel and the caller decides on the result.
func domSentinelHelpers(r *engine.Run, rule string, fns []*ssa.Function) int {
	n := 0
	arrayLen := func(x ssa.Value) int64 {
		t := x.Type().Underlying()
		if p, ok := t.(*types.Pointer); ok {
			t = p.Elem().Underlying()
		}
		if a, ok := t.(*types.Array); ok {
			return a.Len()
		}
		return -1
	}
	indexUses := func(f *ssa.Function) (map[ssa.Value]int64, map[ssa.Value]ssa.Instruction) {
		l, u := map[ssa.Value]int64{}, map[ssa.Value]ssa.Instruction{}
		engine.Instrs(f, func(in ssa.Instruction) {
			var x, idx ssa.Value
			switch i := in.(type) {
			case *ssa.IndexAddr:
				x, idx = i.X, i.Index
			case *ssa.Index:
				x, idx = i.X, i.Index
			default:
				return
			}
			if k := arrayLen(x); k > 0 {
				l[idx] = k
				if _, had := u[idx]; !had {
					u[idx] = in
				}
			}
		})
		return l, u
	}
	type summary struct {
		consts []int64
		N      int64
	}
	sums := map[*ssa.Function]summary{}
	for _, g := range fns {
		if g == nil || len(g.Blocks) == 0 || g.Signature.Results().Len() != 1 {
			continue
		}
		if b, ok := g.Signature.Results().At(0).Type().Underlying().(*types.Basic); !ok || b.Kind() != types.Int {
			continue
		}
		idxLen, _ := indexUses(g)
		var consts []int64
		var N int64 = -1
		other := false
		seen := map[ssa.Value]bool{}
		var walk func(v ssa.Value)
		walk = func(v ssa.Value) {
			if seen[v] {
				return
			}
			seen[v] = true
			if l, ok := idxLen[v]; ok { // a value that indexes the slot array (the loop counter, itself a phi in an index loop)
				N = l
				return
			}
			if ph, ok := v.(*ssa.Phi); ok {
				for _, e := range ph.Edges {
					walk(e)
				}
				return
			}
			if c, ok := v.(*ssa.Const); ok && c.Value != nil && c.Value.Kind() == constant.Int {
				k, _ := constant.Int64Val(c.Value)
				consts = append(consts, k)
				return
			}
			other = true
		}
		for _, ret := range engine.Returns(g) {
			if len(ret.Results) == 1 {
				walk(resultValue(ret, 0))
			}
		}
		if N > 0 && len(consts) > 0 && !other {
			sums[g] = summary{consts, N}
		}
	}
	if len(sums) == 0 {
		return 0
	}
	for _, f := range fns {
		if f == nil || len(f.Blocks) == 0 {
			continue
		}
		idxLen, idxUse := indexUses(f)
		engine.Instrs(f, func(in ssa.Instruction) {
			c, ok := in.(*ssa.Call)
			if !ok {
				return
			}
			sm, ok := sums[c.Call.StaticCallee()]
			if !ok {
				return
			}
			l, used := idxLen[c]
			if !used || l != sm.N {
				return
			}
			use := idxUse[c]
			var dec *ssa.BinOp
			var decTrue bool
			var decK int64
			for _, b := range f.Blocks {
				ifi, ok := b.Instrs[len(b.Instrs)-1].(*ssa.If)
				if !ok {
					continue
				}
				bo, ok := ifi.Cond.(*ssa.BinOp)
				if !ok || bo.X != ssa.Value(c) {
					continue
				}
				k, ok := bo.Y.(*ssa.Const)
				if !ok || k.Value == nil || k.Value.Kind() != constant.Int {
					continue
				}
				for si, sblk := range b.Succs {
					if len(sblk.Preds) == 1 && sblk.Dominates(use.Block()) {
						dec, decTrue = bo, si == 0
						decK, _ = constant.Int64Val(k.Value)
					}
				}
			}
			n++
			name := fn(c.Call.StaticCallee())
			construct := fmt.Sprintf("%s|scan result of %s over %d slots", fn(f), name, sm.N)
			if dec == nil {
				r.Fail(rule, construct, r.P.Pos(c.Pos()), "the result of the slot scan "+name+" (a slot number or one of the sentinels) is used as a slot number without a dominating comparison with a constant")
				return
			}
			eval := func(v int64) bool {
				var res bool
				switch dec.Op {
				case token.EQL:
					res = v == decK
				case token.NEQ:
					res = v != decK
				case token.LSS:
					res = v < decK
				case token.LEQ:
					res = v <= decK
				case token.GTR:
					res = v > decK
				case token.GEQ:
					res = v >= decK
				}
				return res == decTrue
			}
			var bad []string
			for _, k := range sm.consts {
				if k >= 0 && k < sm.N {
					bad = append(bad, fmt.Sprintf("the constant %d returned by %s is also the number of a slot", k, name))
				} else if eval(k) {
					bad = append(bad, fmt.Sprintf("the decision before the use accepts the sentinel %d", k))
				}
			}
			for v := int64(0); v < sm.N; v++ {
				if !eval(v) {
					bad = append(bad, fmt.Sprintf("the decision `result %s %d` before the use rejects slot %d", dec.Op, decK, v))
					break
				}
			}
			r.Check(len(bad) == 0, rule, construct, r.P.Pos(dec.Pos()),
				fmt.Sprintf("sentinels %v are outside [0,%d); the decision `result %s %d` accepts exactly the slot numbers", sm.consts, sm.N, dec.Op, decK),
				strings.Join(bad, "; "))
		})
	}
	return n
}
