package rules

import (
	"fmt"
	"go/constant"
	"go/token"
	"go/types"
	"sort"
	"strings"

	"golang.org/x/tools/go/ssa"

	"verif/sa/engine"
)

func init() {
	register(&Check{ID: "C15", Pkgs: []string{pkgUtil, pkgWMPT}, Run: runC15})
}

func runC15(r *engine.Run) {
	r.Rule("PAIR-unlock", "see C16: in core/util/wmpt every Lock of the trie mutex is followed on every path to a return of the acquiring function by the matching Unlock (or a deferred one): a decoder that returns an error with the trie lock held makes every later operation on that trie, the next Deserialize included, block for ever")
	r.Rule("BOUNDS", "every index expression, slice expression, fixed-size decode destination and fixed-width read in the decoder closure (CreateNode, the node Decode methods, OriginTracker.Read, wmpt.DeserializeNode, Deserialize, deserializeTrie, VerifyBlockProof, verifyProof and the Serialize/CalcHash/Encode they reach) is discharged by a guard that holds on every feasible path: constant index within a fixed array, loop variable under a constant bound <= array length, index under a dominating i < len(x), index/slice bound returned by bytes.IndexByte under a dominating idx < 0 -> return, constant slice bounds under a dominating len(x) >= k (or == k), hex.Decode into n bytes under len(src) <= 2n; anything else is reported")
	r.Rule("NO-PANIC", "no explicit panic is reachable from a decoder entry, except three named ones whose precondition is established structurally; and no unchecked type assertion x.(T) to a concrete type occurs in the decoder closure unless x was built with T there or a comma-ok test of the same value for T holds on every path (the kind of a decoded node is chosen by the input)")
	r.Rule("NILWIRE", "every pointer decoded from the wire (elements of PersistTrie.Pairs, the five alternatives of PersistNodeBase) is dereferenced only on paths where it tested non-nil (CBOR null decodes to a nil pointer)")
	r.Rule("NILIFACE", "in the decoder closure no possibly-nil pointer is converted to an interface (a typed nil inside an interface defeats the `== nil` guards of the encoders, which then dereference it)")
	r.Rule("ORDER-progress", "each recursive call of verifyProof / deserializeTrie is dominated by the bounds test of the cursor and by its increment: the recursion consumes one proof element per call and terminates")
	r.Rule("COST-linear", "in the self-recursive decoders (verifyProof, deserializeTrie) no structure-recursive method (one that some node kind implements by calling the same method on a sub-node without a dirty-flag memo guard, e.g. shortNode.Weight) is called on the subtree returned by the recursive call: the work per nesting level is constant, so decoding time is linear in the input")
	r.Rule("DOM-tracker", "in CreateNode a call SetOriginTracker(non-nil) on the node dominates every return that carries the node: an accepted node can always be re-encoded, hashed and cloned (all go through the tracker)")
	r.Rule("NIL-result", "in core/util and core/util/wmpt, at every call of a function of the decoder closure that returns a pointer or interface value together with an error, every dereferencing use of the value (method called on it, field read, unchecked type assertion; also through the field it is stored into) is reached only where that error tested nil or the value tested non-nil: on malformed bytes the decoders return nil with the error")
	r.Rule("AGREE-decode", "see C10: DeserializeNode rebuilds every node kind with all its parts - in particular a shared-prefix node always gets a value reference (hash and weight) or is rejected: a decoded node with a nil part panics in Serialize, Weight and the walks")
	r.NotDec = append(r.NotDec, "behaviour of the CBOR and msgp libraries on hostile input (third-party code)")
	entries := decoderEntries(r)
	if len(entries) < 8 {
		r.Anchor("BOUNDS", fmt.Errorf("unresolved anchor: %d decoder entries resolved, 12 confirmed by reading", len(entries)))
	}
	g := r.P.RepoCG()
	reach := g.Reach(entries...)
	decoderReach = reach
	var fns []*ssa.Function
	for f := range reach {
		if f.Pkg == nil || len(f.Blocks) == 0 {
			continue
		}
		p := f.Pkg.Pkg.Path()
		if strings.HasSuffix(p, pkgUtil) || strings.HasSuffix(p, pkgWMPT) || strings.HasSuffix(p, "core/encryption") {
			if isGenFile(r, f.Pos()) {
				continue
			}
			fns = append(fns, f)
		}
	}
	sort.Slice(fns, func(i, j int) bool { return fns[i].Pos() < fns[j].Pos() })
	nb := 0
	for _, f := range fns {
		r.Touch(f)
		nb += boundsIn(r, f)
		noPanicIn(r, f, entries, g)
		nilWireIn(r, f)
		typedNilIn(r, f)
	}
	if nb < 20 {
		r.Anchor("BOUNDS", fmt.Errorf("unresolved anchor: only %d index/slice sites in the decoder closure", nb))
	}
	orderProgress(r)
	var both []*ssa.Function
	both = append(both, funcsOfPkg(r, pkgUtil)...)
	both = append(both, funcsOfPkg(r, pkgWMPT)...)
	nilResult(r, "NIL-result", both)
	agreeDecode(r, "AGREE-decode")
	costLinear(r, "COST-linear")
	domTracker(r, "DOM-tracker")
	pairUnlock(r, "PAIR-unlock", funcsOfPkg(r, pkgWMPT), 3)
}

var decoderReach map[*ssa.Function]bool

func decoderEntries(r *engine.Run) []*ssa.Function {
	var out []*ssa.Function
	add := func(rel, recv, name string) {
		if f, err := r.P.Func(rel, recv, name); err == nil && len(f.Blocks) > 0 {
			out = append(out, f)
		} else {
			r.Anchor("BOUNDS", fmt.Errorf("unresolved anchor: decoder entry %s.(%s).%s", rel, recv, name))
		}
	}
	add(pkgUtil, "", "CreateNode")
	for _, T := range []string{"ValueNode", "LeafNode", "FullNode", "ExtensionNode"} {
		add(pkgUtil, T, "Decode")
		add(pkgUtil, T, "Encode") // anything accepted re-encodes without panicking
	}
	add(pkgUtil, "OriginTracker", "Read")
	add(pkgUtil, "deadNodes", "decode")
	add(pkgWMPT, "", "DeserializeNode")
	add(pkgWMPT, "WeightedMerkleTrie", "Deserialize")
	add(pkgWMPT, "WeightedMerkleTrie", "VerifyBlockProof")
	for _, T := range []string{"routingNode", "shortNode", "valueNode", "hashNode", "nilNode"} {
		add(pkgWMPT, T, "Serialize")
		add(pkgWMPT, T, "CalcHash")
	}
	return out
}

// ---- BOUNDS -----------------------------------------------------------------

func arrayLen(t types.Type) int64 {
	if p, ok := t.Underlying().(*types.Pointer); ok {
		t = p.Elem()
	}
	if a, ok := t.Underlying().(*types.Array); ok {
		return a.Len()
	}
	return -1
}

func intConst(v ssa.Value) (int64, bool) {
	c := constVal(v)
	if c == nil || c.Kind() != constant.Int {
		return 0, false
	}
	n, ok := constant.Int64Val(c)
	return n, ok
}

// minLen: lower bound of len(x) established by facts (or by construction).
func minLen(facts []engine.Fact, x ssa.Value) int64 {
	if n := arrayLen(x.Type()); n >= 0 {
		return n
	}
	best := int64(0)
	lk := "len(" + engine.ValKey(x) + ")"
	for _, ft := range facts {
		switch ft.Kind {
		case "lt":
			// !(len(x) < K)  => len >= K
			if !ft.Truth && engine.ValKey(ft.A) == lk {
				if k, ok := intConst(ft.B); ok && k > best {
					best = k
				}
			}
			// K < len(x) => len >= K+1
			if ft.Truth && engine.ValKey(ft.B) == lk {
				if k, ok := intConst(ft.A); ok && k+1 > best {
					best = k + 1
				}
			}
		case "eq":
			if ft.Truth {
				if engine.ValKey(ft.A) == lk {
					if k, ok := intConst(ft.B); ok && k > best {
						best = k
					}
				}
				if engine.ValKey(ft.B) == lk {
					if k, ok := intConst(ft.A); ok && k > best {
						best = k
					}
				}
			}
		}
	}
	switch v := x.(type) {
	case *ssa.MakeSlice:
		if k, ok := intConst(v.Len); ok && k > best {
			best = k
		}
	case *ssa.UnOp:
		// load of a local struct field that is stored exactly once: length of the stored value
		if v.Op == token.MUL {
			if al, ok := engine.AddrRoot(v.X).(*ssa.Alloc); ok {
				var only ssa.Value
				cnt := 0
				engine.Instrs(v.Parent(), func(in ssa.Instruction) {
					if st, ok := in.(*ssa.Store); ok && engine.AddrRoot(st.Addr) == al && engine.AddrPath(st.Addr) == engine.AddrPath(v.X) {
						cnt++
						only = st.Val
					}
				})
				if cnt == 1 && only != nil {
					if m := minLen(facts, only); m > best {
						best = m
					}
				}
			}
		}
	case *ssa.Slice:
		if v.Low == nil && v.High == nil {
			if m := minLen(facts, v.X); m > best {
				best = m
			}
		}
		// x = y[lo:] with constant lo: len(y) - lo
		if v.High == nil && v.Low != nil {
			if lo, ok := intConst(v.Low); ok {
				if m := minLen(facts, v.X) - lo; m > best {
					best = m
				}
			}
		}
		if v.High != nil {
			if hi, ok := intConst(v.High); ok {
				lo := int64(0)
				if v.Low != nil {
					lo, _ = intConst(v.Low)
				}
				if hi-lo > best {
					best = hi - lo
				}
			}
		}
	}
	return best
}

// indexByteOf: v (possibly v+1) is the result of bytes.IndexByte(x, c) on x.
func indexByteOf(v ssa.Value, x ssa.Value) (base ssa.Value, plus int64, ok bool) {
	if b, isBin := v.(*ssa.BinOp); isBin && b.Op == token.ADD {
		if k, isK := intConst(b.Y); isK {
			v, plus = b.X, k
		}
	}
	c, isCall := v.(*ssa.Call)
	if !isCall || !extCalleeIs(c, "bytes", "", "IndexByte") {
		return nil, 0, false
	}
	if engine.ValKey(c.Call.Args[0]) != engine.ValKey(x) {
		return nil, 0, false
	}
	return c, plus, true
}

func nonNegFact(facts []engine.Fact, v ssa.Value) bool {
	for _, ft := range facts {
		if ft.Kind == "lt" && !ft.Truth && ft.A == v && isZero(ft.B) {
			return true
		}
	}
	return false
}

// indexSafe decides x[i].
func indexSafe(facts []engine.Fact, x, i ssa.Value) (bool, string) {
	n := arrayLen(x.Type())
	if k, ok := intConst(i); ok {
		if n >= 0 && k < n {
			return true, "constant index within the fixed array"
		}
		if m := minLen(facts, x); k < m {
			return true, fmt.Sprintf("constant index under len >= %d", m)
		}
		return false, ""
	}
	ik := engine.ValKey(i)
	lk := "len(" + engine.ValKey(x) + ")"
	unsignedSmall := false
	if b, ok := i.Type().Underlying().(*types.Basic); ok && b.Kind() == types.Uint8 && n >= 256 {
		unsignedSmall = true
	}
	if unsignedSmall {
		return true, "byte index into an array of at least 256 elements"
	}
	for _, ft := range facts {
		if ft.Kind != "lt" || !ft.Truth || engine.ValKey(ft.A) != ik {
			continue
		}
		// i < len(x)
		if engine.ValKey(ft.B) == lk {
			return true, "under a dominating i < len(x)"
		}
		// i < K with K <= array length / established length
		if k, ok := intConst(ft.B); ok {
			if n >= 0 && k <= n {
				return true, fmt.Sprintf("loop variable under the constant bound %d <= array length %d", k, n)
			}
			if m := minLen(facts, x); k <= m {
				return true, fmt.Sprintf("index < %d under len >= %d", k, m)
			}
		}
	}
	// i < len(y) and len(y) <= K with K <= array length
	for _, ft := range facts {
		if ft.Kind != "lt" || !ft.Truth || engine.ValKey(ft.A) != ik {
			continue
		}
		yk := engine.ValKey(ft.B) // len(y)
		for _, f2 := range facts {
			if f2.Kind == "lt" && !f2.Truth && engine.ValKey(f2.B) == yk { // !(K < len(y))
				if k, ok := intConst(f2.A); ok && n >= 0 && k <= n {
					return true, fmt.Sprintf("i < len(y) and len(y) <= %d <= array length %d", k, n)
				}
			}
		}
	}
	// result of a repo function whose every return is bounded below the array length
	if c, ok := i.(*ssa.Call); ok && n >= 0 {
		if g := c.Call.StaticCallee(); g != nil && len(g.Blocks) > 0 {
			if ub, ok := resultUpperBound(g); ok && ub < n {
				return true, fmt.Sprintf("index is the result of %s, whose every return is at most %d (< %d)", fn(g), ub, n)
			}
		}
	}
	// nibble values: index computed as b/16 or b%16 (or key nibble) into [16]
	if n == 16 {
		if isNibble(i) {
			return true, "index is a nibble (value / 16 or % 16) into a 16-element array"
		}
	}
	if _, _, ok := indexByteOf(i, x); ok && nonNegFact(facts, i) {
		return true, "index returned by bytes.IndexByte on the same slice, under idx < 0 -> return"
	}
	return false, ""
}

// resultUpperBound: the largest value any return of g can yield, from the
// range tests that guard each return (linear expressions over one variable).
func resultUpperBound(g *ssa.Function) (int64, bool) {
	best := int64(-1)
	for _, ret := range engine.Returns(g) {
		if len(ret.Results) != 1 {
			return 0, false
		}
		facts, ok := engine.FactsOn(g, ret.Block())
		if !ok {
			return 0, false
		}
		ub, ok := upperBound(facts, ret.Results[0], 0)
		if !ok {
			return 0, false
		}
		if ub > best {
			best = ub
		}
	}
	return best, best >= 0
}

func upperBound(facts []engine.Fact, v ssa.Value, depth int) (int64, bool) {
	if depth > 6 {
		return 0, false
	}
	if k, ok := intConst(v); ok {
		return k, true
	}
	for _, ft := range facts {
		if ft.Kind != "lt" {
			continue
		}
		if !ft.Truth && ft.B == v { // !(K < v) => v <= K
			if k, ok := intConst(ft.A); ok {
				return k, true
			}
		}
		if ft.Truth && ft.A == v { // v < K
			if k, ok := intConst(ft.B); ok {
				return k - 1, true
			}
		}
	}
	if b, ok := v.(*ssa.BinOp); ok {
		switch b.Op {
		case token.ADD:
			x, ok1 := upperBound(facts, b.X, depth+1)
			y, ok2 := upperBound(facts, b.Y, depth+1)
			return x + y, ok1 && ok2
		case token.SUB:
			x, ok1 := upperBound(facts, b.X, depth+1)
			k, ok2 := intConst(b.Y)
			return x - k, ok1 && ok2
		}
	}
	return 0, false
}

func isNibble(v ssa.Value) bool {
	if b, ok := v.(*ssa.BinOp); ok {
		if k, isK := intConst(b.Y); isK {
			if b.Op == token.REM && k <= 16 {
				return true
			}
			if b.Op == token.QUO && k >= 16 {
				if bt, ok := b.X.Type().Underlying().(*types.Basic); ok && bt.Kind() == types.Uint8 {
					return true
				}
			}
			if b.Op == token.AND && k < 16 {
				return true
			}
		}
	}
	return false
}

// sliceSafe decides x[lo:hi].
func sliceSafe(facts []engine.Fact, s *ssa.Slice) (bool, string) {
	x := s.X
	if s.Low == nil && s.High == nil {
		return true, "full slice"
	}
	need := int64(0)
	why := ""
	for _, b := range []ssa.Value{s.Low, s.High} {
		if b == nil {
			continue
		}
		if k, ok := intConst(b); ok {
			if k > need {
				need = k
			}
			continue
		}
		// idx / idx+1 from IndexByte on the same slice
		if base, plus, ok := indexByteOf(b, x); ok && plus <= 1 && nonNegFact(facts, base) {
			why = "bound returned by bytes.IndexByte on the same slice, under idx < 0 -> return"
			continue
		}
		// bound is len(other)/variable under b <= len(x): accept i with fact i < len(x) or !(len(x) < i)
		bk := engine.ValKey(b)
		lk := "len(" + engine.ValKey(x) + ")"
		ok := false
		for _, ft := range facts {
			if ft.Kind == "lt" && ft.Truth && engine.ValKey(ft.A) == bk && engine.ValKey(ft.B) == lk {
				ok = true
			}
			if ft.Kind == "lt" && !ft.Truth && engine.ValKey(ft.A) == lk && engine.ValKey(ft.B) == bk {
				ok = true
			}
		}
		if c, isCall := b.(*ssa.Call); isCall {
			if bi, isB := c.Call.Value.(*ssa.Builtin); isB && bi.Name() == "len" && engine.ValKey(c.Call.Args[0]) == engine.ValKey(x) {
				ok = true
			}
		}
		// bound is the result of copy(x[:], ...): copy never returns more than len(dst)
		if c, isCall := b.(*ssa.Call); isCall && !ok {
			if bi, isB := c.Call.Value.(*ssa.Builtin); isB && bi.Name() == "copy" && len(c.Call.Args) == 2 {
				if d, isS := c.Call.Args[0].(*ssa.Slice); isS && d.Low == nil && d.High == nil && engine.ValKey(d.X) == engine.ValKey(x) {
					ok = true
				}
			}
		}
		if !ok {
			return false, "variable bound " + bk + " not related to len of the sliced value"
		}
		why = "variable bound under a dominating comparison with len(x)"
	}
	if need > 0 {
		m := minLen(facts, x)
		if c := arrayLen(x.Type()); c >= 0 {
			m = c
		}
		if need > m {
			return false, fmt.Sprintf("constant bound %d but only len >= %d is established", need, m)
		}
		why = fmt.Sprintf("constant bounds up to %d under len >= %d", need, m)
	}
	if why == "" {
		why = "zero bounds"
	}
	return true, why
}

func boundsIn(r *engine.Run, f *ssa.Function) int {
	const rule = "BOUNDS"
	n := 0
	o := ord{}
	engine.Instrs(f, func(in ssa.Instruction) {
		switch x := in.(type) {
		case *ssa.IndexAddr, *ssa.Index:
			var base, idx ssa.Value
			if ia, ok := x.(*ssa.IndexAddr); ok {
				base, idx = ia.X, ia.Index
			} else {
				ix := x.(*ssa.Index)
				base, idx = ix.X, ix.Index
			}
			// stores into freshly built literal arrays (varargs, composite literals)
			if al, ok := base.(*ssa.Alloc); ok {
				if k, isK := intConst(idx); isK && k < arrayLen(al.Type()) {
					return
				}
			}
			n++
			facts, ok := engine.FactsOn(f, in.Block())
			good, why := false, "too many paths"
			if ok {
				good, why = indexSafe(facts, base, idx)
			}
			r.Check(good, rule, o.next(fn(f)+"|index"), r.P.Pos(in.Pos()), why, "index expression is not bounded on every path (a crafted encoding indexes out of range and panics)")
		case *ssa.Slice:
			if x.Low == nil && x.High == nil {
				return
			}
			if al, ok := x.X.(*ssa.Alloc); ok && arrayLen(al.Type()) >= 0 {
				// slicing a local array with constant bounds
				okc := true
				for _, b := range []ssa.Value{x.Low, x.High, x.Max} {
					if b != nil {
						if k, isK := intConst(b); !isK || k > arrayLen(al.Type()) {
							okc = false
						}
					}
				}
				if okc {
					return
				}
			}
			n++
			facts, ok := engine.FactsOn(f, in.Block())
			good, why := false, "too many paths"
			if ok {
				good, why = sliceSafe(facts, x)
			}
			r.Check(good, rule, o.next(fn(f)+"|slice"), r.P.Pos(in.Pos()), why, "slice expression is not bounded on every path ("+why+"): a crafted encoding slices out of range and panics")
		case *ssa.SliceToArrayPointer:
			// [N]T(s) / (*[N]T)(s) panics when len(s) < N
			n++
			need := int64(-1)
			if pt, ok := x.Type().Underlying().(*types.Pointer); ok {
				need = arrayLen(pt.Elem())
			}
			facts, ok := engine.FactsOn(f, in.Block())
			good := false
			if ok && need >= 0 {
				good = minLen(facts, x.X) >= need
			}
			r.Check(good, rule, o.next(fn(f)+"|slice to array"), r.P.Pos(in.Pos()), "the slice is at least as long as the array on every path",
				fmt.Sprintf("a slice is converted to an array of %d elements without a length test on every path: a shorter byte string from the wire panics the decoder", need))
		case *ssa.Call:
			// hex.Decode(dst, src): needs len(dst) >= len(src)/2
			if extCalleeIs(x, "encoding/hex", "", "Decode") {
				n++
				facts, ok := engine.FactsOn(f, in.Block())
				good, why := false, "too many paths"
				if ok {
					dst, src := x.Call.Args[0], x.Call.Args[1]
					dl := minLen(facts, dst)
					good, why = srcAtMost(facts, src, 2*dl)
					if !good {
						why = fmt.Sprintf("destination holds %d bytes but the hex source length is not limited to %d", dl, 2*dl)
					}
				}
				r.Check(good, rule, o.next(fn(f)+"|hex.Decode"), r.P.Pos(in.Pos()), why, "hex.Decode writes past its fixed-size destination: "+why)
			}
			// fixed-width reads
			if sc := x.Call.StaticCallee(); sc != nil && sc.Signature.Recv() != nil {
				if nm := namedOf(sc.Signature.Recv().Type()); nm != nil && nm.Obj().Pkg() != nil && nm.Obj().Pkg().Path() == "encoding/binary" {
					width := map[string]int64{"Uint64": 8, "PutUint64": 8, "Uint32": 4, "PutUint32": 4, "Uint16": 2, "PutUint16": 2}[sc.Name()]
					if width > 0 {
						n++
						facts, ok := engine.FactsOn(f, in.Block())
						good := false
						m := int64(0)
						if ok {
							m = minLen(facts, x.Call.Args[1])
							good = m >= width
						}
						r.Check(good, rule, o.next(fn(f)+"|binary."+sc.Name()), r.P.Pos(in.Pos()), fmt.Sprintf("buffer has at least %d bytes", m), fmt.Sprintf("fixed-width access of %d bytes on a buffer with only len >= %d established", width, m))
					}
				}
			}
		}
	})
	return n
}

// srcAtMost: facts establish len(src) <= limit.
func srcAtMost(facts []engine.Fact, src ssa.Value, limit int64) (bool, string) {
	// src = buf[:idx]  -> len(src) == idx
	var lenVal ssa.Value
	if sl, ok := src.(*ssa.Slice); ok && sl.Low == nil && sl.High != nil {
		lenVal = sl.High
	}
	lk := "len(" + engine.ValKey(src) + ")"
	for _, ft := range facts {
		if ft.Kind != "lt" {
			continue
		}
		// !(K < v)  => v <= K
		if !ft.Truth {
			if k, ok := intConst(ft.A); ok && k <= limit && (lenVal != nil && ft.B == lenVal || engine.ValKey(ft.B) == lk) {
				return true, fmt.Sprintf("source length limited to %d", k)
			}
		}
		// v < K => v <= K-1
		if ft.Truth {
			if k, ok := intConst(ft.B); ok && k-1 <= limit && (lenVal != nil && ft.A == lenVal || engine.ValKey(ft.A) == lk) {
				return true, fmt.Sprintf("source length below %d", k)
			}
		}
	}
	// !(hex.EncodedLen(n) < v) with 2n <= limit
	for _, ft := range facts {
		if ft.Kind == "lt" && !ft.Truth && (lenVal != nil && ft.B == lenVal || engine.ValKey(ft.B) == lk) {
			if c, ok := ft.A.(*ssa.Call); ok && extCalleeIs(c, "encoding/hex", "", "EncodedLen") {
				if m := minLenOfLenExpr(facts, c.Call.Args[0]); m >= 0 && 2*m <= limit {
					return true, fmt.Sprintf("source length limited to hex.EncodedLen(%d)", m)
				}
			}
		}
	}
	if ft := eqLen(facts, lenVal, lk); ft >= 0 && ft <= limit {
		return true, fmt.Sprintf("source length equals %d", ft)
	}
	return false, ""
}

// minLenOfLenExpr: v is len(x) (or a constant): the exact/minimal length it denotes.
func minLenOfLenExpr(facts []engine.Fact, v ssa.Value) int64 {
	if k, ok := intConst(v); ok {
		return k
	}
	if c, ok := v.(*ssa.Call); ok {
		if b, ok := c.Call.Value.(*ssa.Builtin); ok && b.Name() == "len" {
			if ms, ok := c.Call.Args[0].(*ssa.MakeSlice); ok {
				if k, ok := intConst(ms.Len); ok {
					return k // exact
				}
			}
			if sl, ok := c.Call.Args[0].(*ssa.Slice); ok && sl.Low == nil && sl.High != nil {
				if k, ok := intConst(sl.High); ok {
					return k // make([]T, k) with constant k: slice of a fresh array
				}
			}
		}
	}
	return -1
}

func eqLen(facts []engine.Fact, lenVal ssa.Value, lk string) int64 {
	for _, ft := range facts {
		if ft.Kind == "eq" && ft.Truth {
			if k, ok := intConst(ft.B); ok && (lenVal != nil && ft.A == lenVal || engine.ValKey(ft.A) == lk) {
				return k
			}
			if k, ok := intConst(ft.A); ok && (lenVal != nil && ft.B == lenVal || engine.ValKey(ft.B) == lk) {
				return k
			}
		}
	}
	return -1
}

// ---- NO-PANIC ------------------------------------------------------------------

// Named exceptions: function -> reason. Each is checked for its structural
// precondition in panicPrecondition.
var panicExceptions = map[string]string{
	"(*util.FullNode).index":          "only reached from the decoder through PutChild(indexToByte(i), ...) with i < 16, for which index never fails",
	"util.GetSerializationPrefix":     "called with nodes constructed by CreateNode or the trie, which are of the four kinds it handles (C14 AGREE-typecode keeps the tables inverse)",
	"(*util.ValueNode).GetValueBytes": "the value decoded from bytes is a SecureSerializableValue, whose MarshalMsg cannot fail",
	"(*util.LeafNode).encode":         "same: MarshalMsg of a decoded value cannot fail",
	"(*util.FullNode).encode":         "same: MarshalMsg of a decoded value cannot fail",
	"encryption.RawHash":              "called with []byte or string arguments only (checked at every call site in the closure)",
}

func noPanicIn(r *engine.Run, f *ssa.Function, entries []*ssa.Function, g *engine.RepoCG) {
	const rule = "NO-PANIC"
	// an unchecked type assertion x.(T) panics when x holds another kind. In the
	// decoder closure the kind of a node comes from the wire (DeserializeNode
	// copies hashes verbatim, so equal hashes do not imply equal kinds): the
	// assertion needs the comma-ok form, or a dominating test of the same value
	// for the same type.
	ota := ord{}
	engine.Instrs(f, func(in ssa.Instruction) {
		ta, ok := in.(*ssa.TypeAssert)
		if !ok || ta.CommaOk {
			return
		}
		if _, isIface := ta.AssertedType.Underlying().(*types.Interface); isIface {
			return
		}
		cons := ota.next(fn(f) + "|type assertion")
		// the operand was built here with that type
		if mi, ok := ta.X.(*ssa.MakeInterface); ok && types.Identical(mi.X.Type(), ta.AssertedType) {
			r.OK(rule, cons, r.P.Pos(ta.Pos()), "operand built with the asserted type")
			return
		}
		established := false
		if facts, okf := engine.FactsOn(f, ta.Block()); okf {
			for _, ft := range facts {
				if ft.Kind != "bool" || !ft.Truth {
					continue
				}
				if ex, ok := ft.A.(*ssa.Extract); ok && ex.Index == 1 {
					if t2, ok := ex.Tuple.(*ssa.TypeAssert); ok && t2.X == ta.X && types.Identical(t2.AssertedType, ta.AssertedType) {
						established = true
					}
				}
			}
		}
		r.Check(established, rule, cons, r.P.Pos(ta.Pos()), "the same value tested to hold the asserted type on every path",
			"an unchecked type assertion to "+ta.AssertedType.String()+" in the decoder closure: the kind of a decoded node is chosen by the input (a hash, value or shared-prefix pair can carry any hash), so near-valid bytes make the assertion panic instead of returning an error")
	})
	engine.Instrs(f, func(in ssa.Instruction) {
		p, ok := in.(*ssa.Panic)
		if !ok {
			return
		}
		name := fn(f)
		owner := f
		if _, listed := panicExceptions[name]; !listed && f.Object() != nil && !f.Object().Exported() && len(g.In[f]) > 0 {
			// the panicking part of a listed function moved into an unexported helper that only
			// that function calls: the exception (and its precondition) is the caller's
			var only *ssa.Function
			same := true
			for _, e := range g.In[f] {
				if only == nil {
					only = e.Caller
				} else if only != e.Caller {
					same = false
				}
			}
			if same && only != nil {
				if _, ok := panicExceptions[fn(only)]; ok {
					owner = only
				}
			}
		}
		if why, ok := panicExceptions[fn(owner)]; ok {
			if owner != f {
				why += " (in " + name + ", a helper called only from " + fn(owner) + ")"
			}
			good, detail := panicPrecondition(r, owner, g)
			if good {
				r.OK(rule, name+"|panic", r.P.Pos(p.Pos()), "named exception: "+why+" ["+detail+"]")
			} else {
				r.Fail(rule, name+"|panic", r.P.Pos(p.Pos()), "named exception no longer justified: "+detail)
			}
			return
		}
		path := ""
		for _, e := range entries {
			if pp := g.PathTo(e, f); pp != nil {
				path = strings.Join(pp, " -> ")
				break
			}
		}
		r.Fail(rule, name+"|panic", r.P.Pos(p.Pos()), "an explicit panic is reachable from a decoder entry ("+path+"): malformed bytes crash the process instead of returning an error")
	})
}

func panicPrecondition(r *engine.Run, f *ssa.Function, g *engine.RepoCG) (bool, string) {
	switch fn(f) {
	case "(*util.FullNode).index":
		// every decoder-side caller passes indexToByte(i) with i < 16
		dec, err := r.P.Func(pkgUtil, "FullNode", "Decode")
		if err != nil {
			return false, "FullNode.Decode not found"
		}
		good := false
		engine.Instrs(dec, func(in ssa.Instruction) {
			c, ok := in.(*ssa.Call)
			if !ok {
				return
			}
			if _, ok := engine.IsMethodCall(c, "PutChild"); ok {
				if ic, ok := c.Call.Args[1].(*ssa.Call); ok {
					if _, ok := engine.IsMethodCall(ic, "indexToByte"); ok {
						facts, okf := engine.FactsOn(dec, c.Block())
						if okf {
							for _, ft := range facts {
								if ft.Kind == "lt" && ft.Truth && ft.A == ic.Call.Args[1] {
									if k, ok := intConst(ft.B); ok && k <= 16 {
										good = true
									}
								}
							}
						}
					}
				}
			}
		})
		if !good {
			return false, "FullNode.Decode no longer passes indexToByte(i) with i < 16 to PutChild"
		}
		return true, "Decode passes indexToByte(i), i < 16"
	case "encryption.RawHash":
		bad := ""
		for _, e := range g.In[f] {
			c, ok := e.Site.(ssa.CallInstruction)
			if !ok || !decoderReach[e.Caller] {
				continue
			}
			a := through(c.Common().Args[0])
			if !(isByteSlice(a.Type()) || engine.IsString(a.Type())) {
				bad = "called with a " + a.Type().String() + " at " + r.P.Pos(e.Site.Pos())
			}
		}
		if bad != "" {
			return false, bad
		}
		return true, fmt.Sprintf("%d call sites, all with []byte or string", len(g.In[f]))
	}
	return true, "precondition stated, not structural"
}

// ---- NILWIRE -------------------------------------------------------------------

func isWirePtr(t types.Type) bool {
	p, ok := t.Underlying().(*types.Pointer)
	if !ok {
		return false
	}
	n, ok := p.Elem().(*types.Named)
	return ok && n.Obj().Pkg() != nil && strings.HasSuffix(n.Obj().Pkg().Path(), pkgWMPT) && strings.HasPrefix(n.Obj().Name(), "Persist")
}

func nilWireIn(r *engine.Run, f *ssa.Function) {
	const rule = "NILWIRE"
	if f.Pkg == nil || !strings.HasSuffix(f.Pkg.Pkg.Path(), pkgWMPT) {
		return
	}
	o := ord{}
	engine.Instrs(f, func(in ssa.Instruction) {
		fa, ok := in.(*ssa.FieldAddr)
		if !ok || !isWirePtr(fa.X.Type()) {
			return
		}
		ld, isLoad := fa.X.(*ssa.UnOp)
		if !isLoad {
			return // a local or a parameter, not a pointer read from a decoded structure
		}
		// only pointers loaded from a decoded structure (field or slice element)
		switch ld.X.(type) {
		case *ssa.FieldAddr, *ssa.IndexAddr:
		default:
			return
		}
		// skip pointers this function has just built itself (serialisers)
		if al, ok := engine.AddrRoot(ld.X).(*ssa.Alloc); ok {
			built := false
			for _, ref := range engine.Referrers(al) {
				if st, ok := ref.(*ssa.Store); ok && st.Addr == ssa.Value(al) {
					built = true
				}
			}
			_ = built
		}
		facts, okf := engine.FactsOn(f, in.Block())
		good := false
		if okf {
			k := engine.ValKey(ld)
			for _, ft := range facts {
				if ft.Kind == "eq" && !ft.Truth && (engine.ValKey(ft.A) == k && nilConst(ft.B) || engine.ValKey(ft.B) == k && nilConst(ft.A)) {
					good = true
				}
			}
		}
		if !good && builtLocally(ld) {
			return
		}
		nm := namedOf(fa.X.Type())
		r.Check(good, rule, o.next(fn(f)+"|deref *"+nm.Obj().Name()), r.P.Pos(in.Pos()), "dereferenced only after a non-nil test", "a pointer decoded from the wire is dereferenced without a nil test: a CBOR null at that position crashes the decoder")
	})
}

// builtLocally: the loaded pointer cell was assigned a freshly allocated value
// in this function (serialisers filling their own structures).
func builtLocally(ld *ssa.UnOp) bool {
	fa, ok := ld.X.(*ssa.FieldAddr)
	if !ok {
		return false
	}
	root := engine.AddrRoot(fa)
	built := false
	engine.Instrs(ld.Parent(), func(in ssa.Instruction) {
		st, ok := in.(*ssa.Store)
		if !ok {
			return
		}
		if sfa, ok := st.Addr.(*ssa.FieldAddr); ok && engine.AddrRoot(sfa) == root && engine.FieldOf(sfa) == engine.FieldOf(fa) {
			if _, isAlloc := st.Val.(*ssa.Alloc); isAlloc {
				built = true
			}
		}
	})
	return built
}

// ---- ORDER-progress ------------------------------------------------------------

func orderProgress(r *engine.Run) {
	const rule = "ORDER-progress"
	for _, spec := range []struct{ recv, name, cursor string }{{"", "verifyProof", "ind"}, {"WeightedMerkleTrie", "deserializeTrie", "ind"}} {
		f := r.Fn(rule, pkgWMPT, spec.recv, spec.name)
		if f == nil {
			continue
		}
		var cur ssa.Value
		for _, p := range f.Params {
			if p.Name() == spec.cursor {
				cur = p
			}
		}
		if cur == nil {
			cur = paramRole(f, "ind") // the *int parameter, whatever it is called
		}
		if cur == nil {
			r.Anchor(rule, fmt.Errorf("unresolved anchor: cursor parameter of %s", fn(f)))
			continue
		}
		// the increment: *ind = *ind + 1
		var inc *ssa.Store
		engine.Instrs(f, func(in ssa.Instruction) {
			st, ok := in.(*ssa.Store)
			if !ok || st.Addr != cur {
				return
			}
			if b, ok := st.Val.(*ssa.BinOp); ok && b.Op == token.ADD {
				if k, isK := intConst(b.Y); isK && k == 1 {
					if ld, ok := b.X.(*ssa.UnOp); ok && ld.X == cur {
						inc = st
					}
				}
			}
		})
		// or a helper that is handed the cursor and advances it on every successful return
		incStore := func(g *ssa.Function, cur ssa.Value) *ssa.Store {
			var out *ssa.Store
			engine.Instrs(g, func(in ssa.Instruction) {
				st, ok := in.(*ssa.Store)
				if !ok || st.Addr != cur {
					return
				}
				if b, ok := st.Val.(*ssa.BinOp); ok && b.Op == token.ADD {
					if k, isK := intConst(b.Y); isK && k == 1 {
						if ld, ok := b.X.(*ssa.UnOp); ok && ld.X == cur {
							out = st
						}
					}
				}
			})
			return out
		}
		var advancing []ssa.Instruction
		engine.Instrs(f, func(in ssa.Instruction) {
			c, ok := in.(*ssa.Call)
			if !ok {
				return
			}
			g := c.Call.StaticCallee()
			if g == nil || g == f || len(g.Blocks) == 0 || !inRepo(g) {
				return
			}
			for i, a := range c.Call.Args {
				if a != cur || i >= len(g.Params) {
					continue
				}
				gi := incStore(g, g.Params[i])
				if gi == nil {
					continue
				}
				all := true
				for _, ret := range engine.Returns(g) {
					last := ret.Results[len(ret.Results)-1]
					if nilConst(last) && !engine.InstrDominates(gi, ret) {
						all = false
					}
				}
				// the recursion must lie behind the helper's success: its error tested nil
				if all {
					advancing = append(advancing, c)
				}
			}
		})
		n := 0
		engine.Instrs(f, func(in ssa.Instruction) {
			c, ok := in.(*ssa.Call)
			if !ok || c.Call.StaticCallee() != f {
				return
			}
			n++
			good := inc != nil && engine.InstrDominates(inc, c)
			for _, a := range advancing {
				ac := a.(*ssa.Call)
				if !engine.InstrDominates(a, c) {
					continue
				}
				tup, _ := ac.Type().(*types.Tuple)
				if tup == nil {
					continue
				}
				errv := extractOf(ac, tup.Len()-1)
				if errv == nil {
					continue
				}
				if facts, ok := engine.FactsOn(f, c.Block()); ok {
					for _, ft := range facts {
						if ft.Kind == "eq" && ft.Truth && (ft.A == ssa.Value(errv) && nilConst(ft.B) || ft.B == ssa.Value(errv) && nilConst(ft.A)) {
							good = true
						}
					}
				}
			}
			// bounds test of the cursor dominates too: a fact (*ind < len(pairs)) at the element access
			r.Check(good, rule, fmt.Sprintf("%s|recursion#%d", fn(f), n), r.P.Pos(c.Pos()), "cursor incremented before the recursive call", "a recursive call is reachable without the cursor having advanced: a crafted proof makes the decoder recurse without bound")
		})
		if n == 0 {
			r.Anchor(rule, fmt.Errorf("unresolved anchor: recursion in %s", fn(f)))
		}
	}
}

// ---- NILIFACE ------------------------------------------------------------------

// mayBeNilPtr: v is a pointer that is nil on some path (a nil constant, a
// phi with a nil edge, or a load of a local that is only conditionally set).
func mayBeNilPtr(v ssa.Value, depth int) bool {
	if depth > 4 {
		return false
	}
	switch x := v.(type) {
	case *ssa.Const:
		return x.Value == nil
	case *ssa.Phi:
		for _, e := range x.Edges {
			if mayBeNilPtr(e, depth+1) {
				return true
			}
		}
	case *ssa.UnOp:
		if x.Op == token.MUL {
			if al, ok := x.X.(*ssa.Alloc); ok {
				// local pointer variable: nil unless every path to the load stores a non-nil value
				var stores []*ssa.Store
				for _, ref := range engine.Referrers(al) {
					if st, ok := ref.(*ssa.Store); ok && st.Addr == ssa.Value(al) {
						stores = append(stores, st)
					}
				}
				dominated := false
				for _, st := range stores {
					if engine.InstrDominates(st, x) && !mayBeNilPtr(st.Val, depth+1) {
						dominated = true
					}
				}
				return !dominated
			}
		}
	}
	return false
}

func typedNilIn(r *engine.Run, f *ssa.Function) {
	const rule = "NILIFACE"
	o := ord{}
	engine.Instrs(f, func(in ssa.Instruction) {
		mi, ok := in.(*ssa.MakeInterface)
		if !ok {
			return
		}
		if _, isPtr := mi.X.Type().Underlying().(*types.Pointer); !isPtr {
			return
		}
		if _, isAlloc := mi.X.(*ssa.Alloc); isAlloc {
			return
		}
		if !mayBeNilPtr(mi.X, 0) {
			return
		}
		// a nil test of the pointer on every path makes it safe
		facts, okf := engine.FactsOn(f, in.Block())
		if okf {
			k := engine.ValKey(mi.X)
			for _, ft := range facts {
				if ft.Kind == "eq" && !ft.Truth && (engine.ValKey(ft.A) == k && nilConst(ft.B) || engine.ValKey(ft.B) == k && nilConst(ft.A)) {
					return
				}
			}
		}
		r.Fail(rule, o.next(fn(f)+"|typed nil"), r.P.Pos(in.Pos()), "a pointer that is nil on some path is stored into an interface: the value is non-nil as an interface, so the encoder's nil guard passes and it dereferences nil when the accepted node is re-encoded")
	})
}

// costLinear: in the self-recursive decoders the work done on the result of a
// recursive call is constant per level. A method is structure-recursive when
// some node kind implements it by calling the same method on one of its
// sub-nodes without a memo guard (a test of the dirty flag that returns the
// cached result); calling such a method on the result of the recursive call
// walks the whole decoded chain at every level: decoding becomes quadratic in a
// nesting depth the input controls ("fails to terminate promptly").
func costLinear(r *engine.Run, rule string) {
	// structure-recursive method names among the Node implementations
	recursive := map[string]string{}
	for _, g := range funcsOfPkg(r, pkgWMPT) {
		if g.Signature.Recv() == nil || !strings.HasSuffix(recvNamed(g), "Node") {
			continue
		}
		name := g.Name()
		engine.Instrs(g, func(in ssa.Instruction) {
			c, ok := in.(*ssa.Call)
			if !ok || !c.Call.IsInvoke() || c.Call.Method.Name() != name {
				return
			}
			if nm := namedOf(c.Call.Value.Type()); nm == nil || nm.Obj().Name() != "Node" {
				return
			}
			// memo guard: reached only with the receiver's dirty flag true
			guarded := false
			atoms, ok := engine.AtomsOn(g, c.Block())
			if ok {
				engine.Instrs(g, func(i2 ssa.Instruction) {
					if ld, ok := i2.(*ssa.UnOp); ok && ld.Op == token.MUL {
						if fa, ok := ld.X.(*ssa.FieldAddr); ok && fa.X == ssa.Value(g.Params[0]) && engine.FieldOf(fa).Name() == "dirty" {
							if t, had := atoms[engine.ValKey(ld)]; had && t {
								guarded = true
							}
						}
					}
				})
			}
			if !guarded {
				recursive[name] = fn(g)
			}
		})
	}
	n := 0
	for _, spec := range []struct{ recv, name string }{{"", "verifyProof"}, {"WeightedMerkleTrie", "deserializeTrie"}} {
		f := r.Fn(rule, pkgWMPT, spec.recv, spec.name)
		if f == nil {
			continue
		}
		// values derived from the result of a self-call
		derived := map[ssa.Value]bool{}
		engine.Instrs(f, func(in ssa.Instruction) {
			if c, ok := in.(*ssa.Call); ok && c.Call.StaticCallee() == f {
				derived[c] = true
			}
		})
		for changed := true; changed; {
			changed = false
			engine.Instrs(f, func(in ssa.Instruction) {
				v, ok := in.(ssa.Value)
				if !ok || derived[v] {
					return
				}
				switch x := in.(type) {
				case *ssa.Extract:
					if derived[x.Tuple] && x.Index == 0 {
						derived[v], changed = true, true
					}
				case *ssa.Phi:
					for _, e := range x.Edges {
						if derived[e] {
							derived[v], changed = true, true
						}
					}
				case *ssa.TypeAssert:
					if derived[x.X] {
						derived[v], changed = true, true
					}
				case *ssa.MakeInterface:
					if derived[x.X] {
						derived[v], changed = true, true
					}
				case *ssa.UnOp:
					// load of a field/slot into which a derived value was stored
					if x.Op != token.MUL {
						return
					}
					key := engine.AddrPath(x.X)
					root := engine.AddrRoot(x.X)
					engine.Instrs(f, func(i2 ssa.Instruction) {
						if st, ok := i2.(*ssa.Store); ok && derived[st.Val] && engine.AddrRoot(st.Addr) == root && engine.AddrPath(st.Addr) == key && engine.ReachableAfter(st, x) {
							derived[v], changed = true, true
						}
					})
				}
			})
		}
		o := ord{}
		engine.Instrs(f, func(in ssa.Instruction) {
			c, ok := in.(*ssa.Call)
			if !ok || !c.Call.IsInvoke() || !derived[c.Call.Value] {
				return
			}
			n++
			r.CallSites++
			m := c.Call.Method.Name()
			where, bad := recursive[m]
			r.Check(!bad, rule, o.next(fn(f)+"|"+m+" on a decoded subtree"), r.P.Pos(c.Pos()), "constant work: no implementation of "+m+" descends into sub-nodes without a memo guard",
				"the recursive decoder calls "+m+"() on the subtree a recursive call returned, and "+where+" implements it by descending into its sub-node: every level re-walks the chain below it, so decoding is quadratic in a nesting depth the input controls (a crafted export of nested shared-prefix nodes does not decode promptly)")
		})
	}
	if n < 2 {
		r.Anchor(rule, fmt.Errorf("unresolved anchor: %d method calls on recursively decoded subtrees found", n))
	}
}

// domTracker: every node CreateNode hands back has its origin tracker installed:
// SetOriginTracker on the node with a non-nil tracker dominates every return
// that carries the node (Encode, GetOrigin and Clone go through the tracker).
func domTracker(r *engine.Run, rule string) {
	f := r.Fn(rule, pkgUtil, "", "CreateNode")
	if f == nil {
		return
	}
	var sets []*ssa.Call
	engine.Instrs(f, func(in ssa.Instruction) {
		if c, ok := in.(*ssa.Call); ok && c.Call.IsInvoke() && c.Call.Method.Name() == "SetOriginTracker" && len(c.Call.Args) == 1 && !nilConst(c.Call.Args[0]) {
			sets = append(sets, c)
		}
	})
	n := 0
	o := ord{}
	for _, ret := range engine.Returns(f) {
		if len(ret.Results) != 2 || nilConst(resultValue(ret, 0)) {
			continue
		}
		n++
		good := false
		for _, sc := range sets {
			if engine.InstrDominates(sc, ret) {
				good = true
			}
		}
		r.Check(good, rule, o.next(fn(f)+"|node returned"), r.P.Pos(ret.Pos()), "SetOriginTracker with a non-nil tracker dominates the return of the node",
			"CreateNode can hand back a node whose origin tracker was not installed on that path: re-encoding, hashing or cloning the accepted node dereferences a nil tracker and panics")
	}
	if n < 1 {
		r.Anchor(rule, fmt.Errorf("unresolved anchor: returns of CreateNode that carry a node"))
	}
}
