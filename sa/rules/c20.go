package rules

import (
	"fmt"
	"go/token"
	"go/types"
	"strings"

	"golang.org/x/tools/go/ssa"

	"verif/sa/engine"
)

func init() {
	register(&Check{ID: "C20", Pkgs: []string{pkgLog}, Run: runC20})
}

var logOwners = map[string]bool{"MemCore": true, "MemLogger": true, "Ring": true}

var logGuards = guardTable{
	"MemCore.LevelEnabler": {kind: "immutable", reason: "set at construction only"},
	"MemCore.enc":          {kind: "immutable", reason: "set at construction only (With adds fields to the clone's own encoder)"},
	"MemCore.mu":           {kind: "immutable", reason: "pointer set at construction only"},
	"MemCore.root":         {kind: "immutable", reason: "set at construction only"},
	"MemCore.r":            {kind: "lock", lock: "MemCore.mu", reason: "ring cursor: advanced by Write, read by GetLogs"},
	"MemLogger.core":       {kind: "immutable", reason: "set at construction only"},
	"Ring.Value":           {kind: "lock", lock: "MemCore.mu", reason: "slot contents of the shared ring"},
}

func runC20(r *engine.Run) {
	r.Rule("LOCK-ring", "the ring cursor (MemCore.r), every slot value (ring.Ring.Value) and every ring traversal call (Do/Next/Prev/Len/Move) reachable from the exported methods of MemCore/MemLogger is accessed with MemCore.mu held in the required mode, and the mutex locked in a function belongs to the same core value whose ring the function touches")
	r.Rule("AGREE-share", "no MemCore value is copied as a whole (c := *core), and no MemCore is constructed with a by-value copy of another core's ring cursor (a field that Write reassigns): a derived core must not own a second cursor over the shared ring; if it shares the ring it must share the mutex of the same core; in Write the ring cursor and slots are stored only where mc.root == nil tested true (a derived core forwards to its root)")
	r.Rule("FRESH-entry", "no field of a LoggedEntry is stored to unless the entry object was allocated in the same function (entries already handed out by GetLogs are never rewritten)")
	r.Rule("SNAPSHOT-all", "GetLogs visits every slot of the ring: it traverses with ring.Do from the cursor, or with a loop counted up to the ring's Len()/the buffer size; a walk that stops at a sentinel (back at the cursor, first empty slot) is not accepted because it skips the slot it stops at once the ring is full; the visited non-nil slot values are stored into the slice GetLogs returns")
	r.Rule("ORDER-advance", "Write stores the new entry into the slot at the cursor and then advances the cursor by exactly one (*ring.Ring).Next(), in that order, on every path that touches the ring; no return is reached after the ring was consulted without the entry having been stored (no entry handed to the core is dropped, e.g. as a presumed duplicate)")
	r.Rule("PAIR-unlock", "every Lock/RLock of a mutex is followed on every path to a return of the acquiring function by the matching Unlock/RUnlock on the same mutex or by a deferred one registered on the path: no operation returns with the lock held (every later operation on the object would block)")
	r.Rule("REF-pooled", "the byte view (Bytes()) of a pooled zap encoder buffer is only handed to calls while the function owns the buffer: it is never returned, stored, put into a map, sent, given to a goroutine, or used after a Free of that buffer")
	r.Rule("WHO-filter", "the cores of a logger are combined by a plain zapcore.NewTee and core/logging builds no sampling or level-raising core (NewSampler*, NewIncreaseLevelCore, IncreaseLevel): every entry a logger accepts reaches the in-memory core")
	r.Rule("WHO-reorder", "no function of core/logging hands a slice of logged entries to a sorting function (sort.Slice/SliceStable/Sort/Stable, slices.Sort*): the order of a snapshot is the order the ring was written in, never an order derived from a field of the entries (timestamps are taken before the write lock or supplied by the caller)")
	r.Rule("LOCK-reentrant", "see C16: no function acquires a mutex of an object (directly, or through a call on the same receiver) while the calling goroutine already holds that mutex of the same object - here the core's RWMutex reached through the logger's core field; a nested RLock blocks for ever once a writer queues up between the two acquisitions")
	r.Rule("SNAPSHOT-once", "in core/logging no read-lock acquisition of the ring's mutex, and no call of a function that makes one, sits inside a loop: a dump is one snapshot under one hold of the lock (paging through the ring with the lock released between pages repeats and skips entries when writes land in between)")
	r.Rule("AGREE-wiring", "InitLogging tees every in-memory core it creates into exactly one logger (one GetCore() per created MemLogger variable): a core shared by two loggers holds the entries of both")
	r.NotDec = append(r.NotDec, "'exactly the most recent N, newest first' as a sequence property of GetLogs' index arithmetic")
	const rule = "LOCK-ring"
	entries := exportedEntries(r, rule, pkgLog, map[string]bool{"MemCore": true, "MemLogger": true})
	tableComplete(r, rule, pkgLog, map[string]bool{"MemCore": true, "MemLogger": true}, logGuards)
	w := checkGuards(r, rule, entries, logOwners, logGuards)
	// ring traversal calls
	n := 0
	var fns []*ssa.Function
	for f := range w.Reached {
		fns = append(fns, f)
	}
	for _, f := range funcsOfPkg(r, pkgLog) {
		if !w.Reached[f] {
			continue
		}
		o := ord{}
		engine.Instrs(f, func(in ssa.Instruction) {
			c, ok := in.(*ssa.Call)
			if !ok {
				return
			}
			for _, m := range []string{"Do", "Next", "Prev", "Len", "Move", "Link", "Unlink"} {
				if !extCalleeIs(c, "container/ring", "Ring", m) {
					continue
				}
				need := engine.ModeR
				if m == "Link" || m == "Unlink" {
					need = engine.ModeW
				}
				held := w.HeldAt(in)
				n++
				r.CallSites++
				r.Check(held["MemCore.mu"] >= need, rule, o.next(fn(f)+"|ring."+m), r.P.Pos(in.Pos()),
					"ring traversal under MemCore.mu; held "+held.String(),
					"the shared ring is traversed without the core's mutex while writers advance the cursor and replace slots; held "+held.String())
			}
		})
		sameCore(r, rule, f)
	}
	if n == 0 {
		r.Anchor(rule, fmt.Errorf("unresolved anchor: no ring traversal reachable from the logger API"))
	}
	r.Min(rule, 6)
	agreeShare(r)
	freshEntry(r)
	orderAdvance(r)
	snapshotAll(r)
	pairUnlock(r, "PAIR-unlock", funcsOfPkg(r, pkgLog), 2)
	refPooled(r, "REF-pooled")
	whoFilter(r, "WHO-filter")
	snapshotCollects(r, "SNAPSHOT-all")
	writeAtRoot(r, "AGREE-share")
	whoReorder(r, "WHO-reorder")
	shareLevel(r, "AGREE-share")
	lockReentrant(r, "LOCK-reentrant", funcsOfPkg(r, pkgLog), 2)
	agreeWiring(r, "AGREE-wiring")
	snapshotOnce(r, "SNAPSHOT-once")
}

// sameCore: within one function, the core whose mu is locked is the core
// whose r is accessed.
func sameCore(r *engine.Run, rule string, f *ssa.Function) {
	var lockBases, ringBases []ssa.Value
	engine.Instrs(f, func(in ssa.Instruction) {
		fa, ok := in.(*ssa.FieldAddr)
		if !ok || !isNamed(fa.X.Type(), pkgLog, "MemCore") {
			return
		}
		switch engine.FieldOf(fa).Name() {
		case "mu":
			for _, ref := range engine.Referrers(fa) {
				if ld, ok := ref.(*ssa.UnOp); ok {
					for _, r2 := range engine.Referrers(ld) {
						if c, ok := r2.(ssa.CallInstruction); ok {
							if n := c.Common().StaticCallee(); n != nil && (n.Name() == "Lock" || n.Name() == "RLock") {
								lockBases = append(lockBases, fa.X)
							}
						}
					}
				}
			}
		case "r":
			if _, fresh := engine.AddrRoot(fa.X).(*ssa.Alloc); !fresh { // constructor context exempt
				ringBases = append(ringBases, fa.X)
			}
		}
	})
	if len(lockBases) == 0 || len(ringBases) == 0 {
		return
	}
	good := true
	for _, rb := range ringBases {
		match := false
		for _, lb := range lockBases {
			if engine.ValKey(lb) == engine.ValKey(rb) {
				match = true
			}
		}
		if !match {
			good = false
		}
	}
	r.Check(good, rule, fn(f)+"|same-core", r.P.Pos(f.Pos()), "the locked mutex and the accessed ring belong to the same core value",
		"the function locks one core's mutex but touches another core's ring")
}

func agreeShare(r *engine.Run) {
	const rule = "AGREE-share"
	n := 0
	for _, f := range funcsOfPkg(r, pkgLog) {
		o := ord{}
		engine.Instrs(f, func(in ssa.Instruction) {
			al, ok := in.(*ssa.Alloc)
			if !ok || !isNamed(al.Type(), pkgLog, "MemCore") {
				return
			}
			if pt, isPtr := al.Type().(*types.Pointer); !isPtr || namedOf(pt.Elem()) == nil || pt.Elem() != types.Type(namedOf(pt.Elem())) {
				return // a local variable holding a *MemCore, not a MemCore object
			}
			n++
			r.Touch(f)
			construct := o.next(fn(f) + "|new MemCore")
			var rSrc, muSrc ssa.Value
			var rVal ssa.Value
			for _, ref := range engine.Referrers(al) {
				fa, ok := ref.(*ssa.FieldAddr)
				if !ok {
					continue
				}
				for _, r2 := range engine.Referrers(fa) {
					st, ok := r2.(*ssa.Store)
					if !ok || st.Addr != ssa.Value(fa) {
						continue
					}
					src := coreFieldSource(st.Val)
					switch engine.FieldOf(fa).Name() {
					case "r":
						rSrc, rVal = src, st.Val
					case "mu":
						muSrc = src
					}
				}
			}
			_ = rVal
			if rSrc == nil {
				r.OK(rule, construct, r.P.Pos(al.Pos()), "the new core does not take its ring from an existing core (fresh ring or none)")
				return
			}
			// ring taken from an existing core: a by-value cursor copy
			detail := "the new core copies the ring cursor of an existing core by value; Write reassigns the cursor, so the copy diverges and the derived logger overwrites retained entries at stale positions"
			if muSrc == nil || engine.ValKey(muSrc) != engine.ValKey(rSrc) {
				detail += "; it also does not share that core's mutex (two locks guard one ring)"
			}
			r.Fail(rule, construct, r.P.Pos(al.Pos()), detail)
		})
	}
	// a whole-struct copy of a core (c := *core) copies the cursor just the same
	for _, f := range funcsOfPkg(r, pkgLog) {
		o := ord{}
		engine.Instrs(f, func(in ssa.Instruction) {
			ld, ok := in.(*ssa.UnOp)
			if !ok || ld.Op != token.MUL {
				return
			}
			nm := namedOf(ld.Type())
			if nm == nil || nm.Obj().Name() != "MemCore" || nm.Obj().Pkg() == nil || !strings.HasSuffix(nm.Obj().Pkg().Path(), pkgLog) {
				return
			}
			if _, isStruct := ld.Type().Underlying().(*types.Struct); !isStruct {
				return
			}
			r.Fail(rule, o.next(fn(f)+"|copy of a MemCore"), r.P.Pos(ld.Pos()),
				"a MemCore is copied as a whole (c := *core): the copy has a ring cursor of its own, Write advances only one of them, so the loggers built on the copy overwrite retained entries at stale positions or the snapshot is taken from a cursor that no longer moves")
		})
	}
	if n == 0 {
		r.Anchor(rule, fmt.Errorf("unresolved anchor: no MemCore construction found"))
	}
}

// coreFieldSource: if v is a load of a field of an existing MemCore, returns
// that core value.
func coreFieldSource(v ssa.Value) ssa.Value {
	ld, ok := v.(*ssa.UnOp)
	if !ok || ld.Op != token.MUL {
		return nil
	}
	fa, ok := ld.X.(*ssa.FieldAddr)
	if !ok || !isNamed(fa.X.Type(), pkgLog, "MemCore") {
		return nil
	}
	return fa.X
}

func freshEntry(r *engine.Run) {
	const rule = "FRESH-entry"
	n := 0
	for _, f := range funcsOfPkg(r, pkgLog) {
		o := ord{}
		engine.Instrs(f, func(in ssa.Instruction) {
			st, ok := in.(*ssa.Store)
			if !ok {
				return
			}
			fa, ok := st.Addr.(*ssa.FieldAddr)
			if !ok || !isNamed(fa.X.Type(), "zaptest/observer", "LoggedEntry") {
				return
			}
			n++
			r.Touch(f)
			_, fresh := engine.AddrRoot(fa.X).(*ssa.Alloc)
			r.Check(fresh, rule, o.next(fn(f)+"|store LoggedEntry."+engine.FieldOf(fa).Name()), r.P.Pos(st.Pos()),
				"entry object allocated in this function", "a LoggedEntry that was not allocated here (taken from the ring, possibly already returned by GetLogs) is rewritten in place")
		})
	}
	// a Write that stores a fresh composite literal has no field stores outside the literal: count the slot store instead
	if w := r.Fn(rule, pkgLog, "MemCore", "Write"); w != nil {
		engine.Instrs(w, func(in ssa.Instruction) {
			st, ok := in.(*ssa.Store)
			if !ok {
				return
			}
			fa, ok := st.Addr.(*ssa.FieldAddr)
			if !ok || !isNamed(fa.X.Type(), "container/ring", "Ring") || engine.FieldOf(fa).Name() != "Value" {
				return
			}
			n++
			v := through(st.Val)
			_, fresh := v.(*ssa.Alloc)
			r.Check(fresh, rule, fn(w)+"|slot value", r.P.Pos(st.Pos()), "the slot receives an entry object allocated by this write",
				"the slot keeps or receives an entry object that is not allocated by this write")
		})
	}
	if n == 0 {
		r.Anchor(rule, fmt.Errorf("unresolved anchor: no entry store found"))
	}
}

func orderAdvance(r *engine.Run) {
	const rule = "ORDER-advance"
	w := r.Fn(rule, pkgLog, "MemCore", "Write")
	if w == nil {
		return
	}
	var slotStores, advances []*ssa.Store
	badAdvance := ""
	engine.Instrs(w, func(in ssa.Instruction) {
		st, ok := in.(*ssa.Store)
		if !ok {
			return
		}
		fa, ok := st.Addr.(*ssa.FieldAddr)
		if !ok {
			return
		}
		switch {
		case isNamed(fa.X.Type(), "container/ring", "Ring") && engine.FieldOf(fa).Name() == "Value":
			// slot must be the cursor: base is a load of MemCore.r
			if coreFieldSource(fa.X) != nil {
				slotStores = append(slotStores, st)
			} else {
				badAdvance = "the entry is stored into a slot that is not the one at the cursor"
			}
		case isNamed(fa.X.Type(), pkgLog, "MemCore") && engine.FieldOf(fa).Name() == "r":
			c, ok := st.Val.(*ssa.Call)
			if ok && extCalleeIs(c, "container/ring", "Ring", "Next") && coreFieldSource(c.Call.Args[0]) != nil {
				advances = append(advances, st)
			} else {
				badAdvance = "the cursor is reassigned to something other than cursor.Next()"
			}
		}
	})
	if badAdvance != "" {
		r.Fail(rule, fn(w), r.P.Pos(w.Pos()), badAdvance)
		return
	}
	if len(slotStores) == 0 || len(advances) == 0 {
		r.Fail(rule, fn(w), r.P.Pos(w.Pos()), fmt.Sprintf("Write has %d slot stores and %d cursor advances: an entry is not stored at the cursor or the cursor does not move (every write lands in the same slot)", len(slotStores), len(advances)))
		return
	}
	good := true
	for _, a := range advances {
		dom := false
		for _, s := range slotStores {
			if engine.InstrDominates(s, a) {
				dom = true
			}
		}
		if !dom {
			good = false
		}
		for _, s := range slotStores {
			if engine.ReachableAfter(a, s) {
				good = false
			}
		}
	}
	// no drop: a return that is reached after the ring was looked at (a load of the
	// cursor) is reached only through the slot store - Write never decides that an
	// entry it was handed does not need a slot
	for _, ret := range engine.Returns(w) {
		if ret.Block().Comment == "recover" {
			continue
		}
		touched := false
		engine.Instrs(w, func(in ssa.Instruction) {
			// the ring is consulted: one of its methods is called or a slot is addressed
			// (a nil test of the cursor pointer alone reads nothing of the ring)
			consulted := false
			switch x := in.(type) {
			case *ssa.Call:
				for _, m := range []string{"Prev", "Next", "Len", "Do", "Move"} {
					if extCalleeIs(x, "container/ring", "Ring", m) {
						consulted = true
					}
				}
			case *ssa.FieldAddr:
				if isNamed(x.X.Type(), "container/ring", "Ring") {
					consulted = true
				}
			}
			if !consulted {
				return
			}
			if in.Block() == ret.Block() || in.Block().Dominates(ret.Block()) {
				touched = true
			}
		})
		if !touched {
			continue // the forwarding path of a derived core
		}
		stored := false
		for _, st := range slotStores {
			if engine.InstrDominates(st, ret) {
				stored = true
			}
		}
		if !stored {
			good = false
			badAdvance = "a return of Write is reached after the ring was consulted but without the entry having been stored (" + r.P.Pos(ret.Pos()) + "): an entry handed to the core is dropped"
		}
	}
	// every return that follows a slot store also follows an advance
	for _, s := range slotStores {
		for _, ret := range engine.Returns(w) {
			if !engine.ReachableAfter(s, ret) {
				continue
			}
			passes := false
			for _, a := range advances {
				if engine.InstrDominates(a, ret) {
					passes = true
				}
			}
			if !passes {
				good = false
			}
		}
	}
	detail := "Write does not store at the cursor and then advance by one on every path"
	if badAdvance != "" {
		detail += ": " + badAdvance
	}
	r.Check(good, rule, fn(w), r.P.Pos(w.Pos()), "slot store at the cursor dominates the single Next() advance; no store after the advance; no return after consulting the ring without the store",
		detail)
}

func snapshotAll(r *engine.Run) {
	const rule = "SNAPSHOT-all"
	f := r.Fn(rule, pkgLog, "MemLogger", "GetLogs")
	if f == nil {
		return
	}
	var do *ssa.Call
	steps := 0
	engine.Instrs(f, func(in ssa.Instruction) {
		c, ok := in.(*ssa.Call)
		if !ok {
			return
		}
		if extCalleeIs(c, "container/ring", "Ring", "Do") {
			if coreFieldSource(c.Call.Args[0]) != nil {
				do = c
			}
		}
		if extCalleeIs(c, "container/ring", "Ring", "Next") || extCalleeIs(c, "container/ring", "Ring", "Prev") {
			if inLoopBody(c.Block()) {
				steps++
			}
		}
	})
	switch {
	case do != nil && steps == 0:
		fresh := true
		for _, ret := range engine.Returns(f) {
			if ret.Block().Comment != "recover" && !engine.InstrDominates(do, ret) {
				fresh = false
			}
		}
		r.Check(fresh, rule, fn(f)+"|traversal", r.P.Pos(do.Pos()), "ring.Do from the cursor visits all slots, on every path to every return",
			"GetLogs can return without traversing the ring (a cached result): whatever validates the cache is not the ring's content, so entries written since are missing from the answer")
	case steps > 0:
		// counted loop: some loop condition compares a counter with Len() or a constant
		counted := false
		engine.Instrs(f, func(in ssa.Instruction) {
			iff, ok := in.(*ssa.If)
			if !ok {
				return
			}
			b, ok := iff.Cond.(*ssa.BinOp)
			if !ok || (b.Op != token.LSS && b.Op != token.LEQ && b.Op != token.GTR && b.Op != token.GEQ) {
				return
			}
			for _, side := range []ssa.Value{b.X, b.Y} {
				if _, isK := intConst(side); isK {
					counted = true
				}
				if c, ok := side.(*ssa.Call); ok && extCalleeIs(c, "container/ring", "Ring", "Len") {
					counted = true
				}
			}
		})
		if counted {
			r.OK(rule, fn(f)+"|traversal", r.P.Pos(f.Pos()), "loop counted up to the ring length")
		} else {
			r.Undec(rule, fn(f)+"|traversal", r.P.Pos(f.Pos()), "GetLogs walks the ring with a sentinel-terminated loop instead of ring.Do or a loop counted to Len(): once the ring is full such a walk skips the slot it stops at (a retained entry is lost from the snapshot)")
		}
	default:
		r.Fail(rule, fn(f)+"|traversal", r.P.Pos(f.Pos()), "GetLogs no longer traverses the ring")
	}
}

// snapshotCollects: what the traversal visits ends up in the result: in GetLogs
// (including the traversal callback) a non-nil slot value is stored into the
// slice GetLogs returns.
func snapshotCollects(r *engine.Run, rule string) {
	f := r.Fn(rule, pkgLog, "MemLogger", "GetLogs")
	if f == nil {
		return
	}
	collects := false
	var scan func(g *ssa.Function)
	scan = func(g *ssa.Function) {
		engine.Instrs(g, func(in ssa.Instruction) {
			st, ok := in.(*ssa.Store)
			if !ok {
				return
			}
			if _, isIdx := st.Addr.(*ssa.IndexAddr); !isIdx {
				return
			}
			// the stored value derives from the callback's argument / a slot value
			v := st.Val
			for {
				if ta, ok := v.(*ssa.TypeAssert); ok {
					v = ta.X
					continue
				}
				break
			}
			if p, ok := v.(*ssa.Parameter); ok && g != f && p == g.Params[0] {
				collects = true
			}
			if fld := fieldLoadOf(v); fld != nil && fld.Name() == "Value" {
				collects = true
			}
		})
		for _, a := range g.AnonFuncs {
			scan(a)
		}
	}
	scan(f)
	r.Check(collects, rule, fn(f)+"|collects", r.P.Pos(f.Pos()), "the visited slot values are stored into the returned slice",
		"GetLogs traverses the ring but no longer stores the visited entries into its result: retained entries are lost from every snapshot")
}

// writeAtRoot: only the root core stores into the ring; a derived core forwards
// to its root (the single cursor under the single mutex).
func writeAtRoot(r *engine.Run, rule string) {
	f := r.Fn(rule, pkgLog, "MemCore", "Write")
	if f == nil {
		return
	}
	n := 0
	o := ord{}
	engine.Instrs(f, func(in ssa.Instruction) {
		st, ok := in.(*ssa.Store)
		if !ok {
			return
		}
		fld := engine.FieldOf(st.Addr)
		if fld == nil || (fld.Name() != "Value" && fld.Name() != "r") {
			return
		}
		n++
		good := false
		if facts, full := engine.FactsOn(f, st.Block()); full {
			for _, ft := range facts {
				if ft.Kind == "eq" && ft.Truth {
					for _, side := range [][2]ssa.Value{{ft.A, ft.B}, {ft.B, ft.A}} {
						if fl := fieldLoadOf(side[0]); fl != nil && fl.Name() == "root" && nilConst(side[1]) {
							good = true
						}
					}
				}
			}
		}
		r.Check(good, rule, o.next(fn(f)+"|store "+fld.Name()), r.P.Pos(st.Pos()), "the ring is written only where mc.root == nil tested true (the core is the root)",
			"a core writes the ring cursor or a slot on a path where it may be a derived core: derived loggers then write under their own mutex (or into no ring at all) instead of forwarding to the root")
	})
	if n < 2 {
		r.Anchor(rule, fmt.Errorf("unresolved anchor: %d ring stores in MemCore.Write", n))
	}
}

// refPooled: zap's encoders render into buffers of a process-wide pool
// (buffer.Buffer); Bytes() is a view of the pooled memory. Once the buffer is
// freed, any goroutine that logs gets it back and overwrites it. The dump may
// therefore use the view only while it owns the buffer: the slice is handed to
// calls (the writer), it is never returned or stored, and nothing uses it after
// a Free of its buffer.
func refPooled(r *engine.Run, rule string) {
	n := 0
	for _, f := range funcsOfPkg(r, pkgLog) {
		if len(f.Blocks) == 0 {
			continue
		}
		o := ord{}
		engine.Instrs(f, func(in ssa.Instruction) {
			c, ok := in.(*ssa.Call)
			if !ok || !extCalleeIs(c, "go.uber.org/zap/buffer", "Buffer", "Bytes") {
				return
			}
			n++
			buf := c.Call.Args[0]
			bad := ""
			var frees []ssa.Instruction
			deferredFree := false
			engine.Instrs(f, func(in2 ssa.Instruction) {
				ci, ok := in2.(ssa.CallInstruction)
				if !ok {
					return
				}
				if extCalleeIs(ci, "go.uber.org/zap/buffer", "Buffer", "Free") && len(ci.Common().Args) > 0 && ci.Common().Args[0] == buf {
					if _, isDefer := in2.(*ssa.Defer); isDefer {
						deferredFree = true
					} else {
						frees = append(frees, in2)
					}
				}
			})
			var visit func(v ssa.Value, depth int)
			visit = func(v ssa.Value, depth int) {
				if depth > 4 {
					return
				}
				for _, ref := range engine.Referrers(v) {
					switch x := ref.(type) {
					case *ssa.Return:
						bad = "is returned"
						if deferredFree {
							bad = "is returned while the buffer is freed by a deferred Free (the caller receives memory that is already back in the pool)"
						}
					case *ssa.Store:
						if x.Val != v {
							continue
						}
						if al, ok := x.Addr.(*ssa.Alloc); ok {
							// a local cell (named result spilled because of a defer): follow its loads
							for _, r2 := range engine.Referrers(al) {
								if ld, ok := r2.(*ssa.UnOp); ok && ld.Op == token.MUL {
									visit(ld, depth+1)
								}
							}
							continue
						}
						bad = "is stored"
					case *ssa.MakeInterface, *ssa.Slice, *ssa.Phi, *ssa.ChangeType, *ssa.Convert:
						if _, isConv := x.(*ssa.Convert); isConv {
							continue // string(b) copies
						}
						visit(x.(ssa.Value), depth+1)
					case *ssa.MapUpdate, *ssa.Send:
						bad = "is put into a map / sent on a channel"
					case ssa.CallInstruction:
						if _, isGo := x.(*ssa.Go); isGo {
							bad = "is handed to a new goroutine"
						}
						for _, fr := range frees {
							if engine.ReachableAfter(fr, x) {
								bad = "is used after the buffer was freed"
							}
						}
					}
				}
			}
			visit(c, 0)
			r.Check(bad == "", rule, o.next(fn(f)+"|buffer view"), r.P.Pos(c.Pos()), "the view of the pooled buffer is only handed to calls while the buffer is owned",
				"the byte view of a pooled encoder buffer "+bad+": after Free any logging goroutine reuses the buffer, so the line being written to a slow client is overwritten with another entry (entries missing or corrupted in the dump, and a data race)")
		})
	}
	if n < 1 {
		r.Anchor(rule, fmt.Errorf("unresolved anchor: no Bytes() view of an encoder buffer found in core/logging"))
	}
}

// whoFilter: every entry a logger accepts reaches the in-memory core: the cores
// are combined by a plain Tee and the package puts no sampling or level-raising
// core in front of it (zap's sampler drops entries that repeat a message more
// than N times per tick - the buffer would no longer hold the most recent
// entries written).
func whoFilter(r *engine.Run, rule string) {
	tee := 0
	bad := ""
	for _, f := range funcsOfPkg(r, pkgLog) {
		engine.Instrs(f, func(in ssa.Instruction) {
			c, ok := in.(ssa.CallInstruction)
			if !ok {
				return
			}
			sc := c.Common().StaticCallee()
			if sc == nil || sc.Pkg == nil {
				return
			}
			p := sc.Pkg.Pkg.Path()
			if !strings.HasPrefix(p, "go.uber.org/zap") {
				return
			}
			switch {
			case sc.Name() == "NewTee":
				tee++
			case strings.HasPrefix(sc.Name(), "NewSampler"), sc.Name() == "NewIncreaseLevelCore", sc.Name() == "IncreaseLevel", sc.Name() == "NewLazyWith":
				bad = sc.Name() + " at " + r.P.Pos(in.Pos())
			}
		})
	}
	if tee < 1 {
		r.Anchor(rule, fmt.Errorf("unresolved anchor: the Tee that feeds the in-memory core"))
		return
	}
	r.Check(bad == "", rule, "core/logging|cores combined by a plain Tee", "core/logging/logger.go", "no sampling or level-raising core is built in the package",
		"the package builds a filtering core ("+bad+"): entries that the sampler drops never reach the in-memory core, so the buffer does not hold the most recent entries written (a burst of one message leaves 1 in N)")
}
