package rules

import (
	"fmt"
	"go/token"
	"sort"
	"strings"

	"golang.org/x/tools/go/ssa"

	"verif/sa/engine"
)

func init() {
	register(&Check{ID: "C11", Pkgs: []string{pkgWMPT, pkgStore}, Run: runC11})
}

func runC11(r *engine.Run) {
	r.Rule("LOOP-remove", "in core/util/wmpt an in-place removal at the loop index (s = append(s[:i], s[i+1:]...)) is not followed by an unconditional increment of the index: the element that moved into the slot would never be examined, so of two adjacent hashes that were both written again only the first is taken off the collection list")
	r.Rule("RACE-captured", "a function literal started as a goroutine inside a loop (errgroup.Go, go statement) in core/util/wmpt stores into no variable captured from the enclosing function: the parallel commit of the root's subtrees keeps each subtree's result in the goroutine that produced it")
	r.Rule("DOM-save", "in commit each arm of a kind that can be saved (branch, shared-prefix, value) calls Save(batcher) on the node before every success return of that arm, and descends into its dirty children first (branch: loop over all 16 slots; shared-prefix: its value); Commit saves the root likewise")
	r.Rule("DOM-created", "in commit every node put into the batch is also reported on the created channel (and its previous hash, when different, on the deleted channel) on every success path of its arm, including the collapse-level paths: the created report is what cancels a pending delete of the same hash and what a rollback removes")
	r.Rule("WHO-scheduled", "insert schedules a hash for collection only for the shared-prefix node it splits (the scheduled hash is Hash() of a value of static type *shortNode): a position it overwrites may receive content that hashes as before, and whether the old hash dies is commit's decision under its hash-changed test")
	r.Rule("ORDER-survivor", "see C09: the hash of a node that stays in the trie is never scheduled for deletion")
	r.Rule("WHO-nodelete", "no function reachable from Commit calls Batcher.Delete or StorageAdapter.Delete: a crash before the caller commits the batch cannot have removed anything")
	r.Rule("ORDER-stage", "in DeleteNodes the keys handed to Delete derive only from the `deleted` set; the staged set (tempDeleted) is moved into `deleted` only after that batch and after `deleted` was cleared (two-phase deletion)")
	r.Rule("AGREE-purge", "every trie field from which DeleteNodes (now or at a later pass) feeds storage deletes is purged of a hash that a commit re-creates: the created-hash handler must remove the hash from `deleted` and from `tempDeleted`")
	r.Rule("WHO-dirtyclear", "the dirty flag doubles as 'not saved yet' for Commit, so stores of dirty=false may be reachable only from entry points that save the node (Commit) or that work on freshly decoded nodes (Deserialize, VerifyBlockProof), not from read-only entry points")
	r.Rule("DOM-unchanged", "in commit every send of a node's previous hash on the deleted channel is reached only when bytes.Equal(previous hash, the node's new Hash()) tested false: a dirty node that hashes as before is the live node and must not be collected")
	r.Rule("REF-shared", "storage is addressed, and garbage is collected, by node hash; that is sound only if equal content at two positions cannot be one stored node: some node field set by insert must derive from the walk's prefix (a position component in the hashed state). Otherwise deleting or replacing content at one position collects the node another position still uses")
	r.Rule("FRESH-hashbuf", "see C13: a node's hash buffer is never rewritten in place (the previous hash a commit schedules for deletion and the hash references of collapsed nodes alias it)")
	r.Rule("FRESH-copy", "see C10: for every node type of the weighted trie whose fields are written after construction (insert updates value nodes in place; Serialize/CalcHash/commit write hash and dirty), no return of Copy or CopyRoot is the receiver itself and no child slot of the copy is filled with the receiver's own child object: a CopyRoot snapshot shares no mutable node with the trie it was taken from (proof generation on a snapshot would otherwise clear the dirty flag of a node the original has not saved yet, and Commit skips it)")
	r.Rule("ERR-guard", "see C17, applied to the weighted trie: a failed Save, storage read or batch operation is never turned into success")
	r.Rule("ERR-dropped", "see C17: the error of every trie / storage operation of the weighted trie is looked at (deliberate drops in the rollback paths are listed with reasons)")
	r.Rule("AGREE-persist", "see C10: every field Serialize writes is read back by DeserializeNode (a reopened trie is rebuilt from exactly what was saved)")
	r.Rule("DOM-memo", "see C09: CalcHash stores what it recomputes (Save writes the node under Hash())")
	r.Rule("AGREE-decode", "see C10: DeserializeNode accumulates a branch's weight from the child weights it reads and stores every accepted child entry into a child slot; shortNode.Serialize fills the persisted value reference from the value's Hash() and Weight()")
	r.Rule("AGREE-kvops", "each operation of the pebble adapter maps to the pebble operation of the same meaning (Put -> Set, Delete -> Delete, Get -> Get; never SingleDelete, which is only sound for keys written once), and the batch's Put and Delete hold the batch's mutex (Commit saves the subtrees of a branch root from parallel goroutines into one batch)")
	r.Rule("AGREE-sync", "the storage batch's Commit(sync) passes pebble.Sync exactly on the path where its sync parameter is true and pebble.NoSync where it is false (a commit the caller asked to be durable is fsynced)")
	r.Rule("DOM-cleanfail", "in delete no store dirty = true can be followed by a recursive delete call (nodes are marked only after the delete below them returned): a failed delete (absent key) leaves its search path clean, so the next commit does not re-save unchanged nodes")
	r.Rule("ORDER-joined", "every goroutine the weighted trie starts that writes trie state (the collectors of Commit) signals the WaitGroup on every path to its end (Done dominates every return, or is deferred), and the function that starts them adds exactly as many to the WaitGroup as it starts: the wait of ORDER-wait covers every collector")
	r.Rule("ORDER-wait", "Commit defers a closure that closes the created and deleted channels and then waits for the collector goroutines (sync.WaitGroup.Wait): the bookkeeping is complete when Commit returns")
	r.Rule("FRESH-resolved", "see C09: a resolved reference is a private, freshly decoded node (a memoised object is served under a hash it no longer has, so the live trie and the reopened one differ)")
	r.Rule("DEP-linkback", "see C09: the subtree returned by every recursive insert/delete/commit call is linked back on every success path (a dropped hash reference leaves a hollow branch in memory while storage has the content)")
	r.Rule("FRESH-keybuf", "see C09: a value loaded from a shared-prefix node's key field is never the base of an append (a split gives the upper node key[:p] of the array that also holds the sibling leaf's key: hashing by appending onto the key rewrites that leaf's key in memory, and the next commit saves the clobbered key)")
	r.Rule("DOM-dirty", "see C09: every store to a hashed field of a node (value, weight, key, children) is accompanied by dirty=true on every path: commit saves only dirty nodes, so a node whose weight or value changed without the flag keeps its old stored record and the reopened trie differs from the live one")
	r.NotDec = append(r.NotDec, "that a reopened trie is observationally identical (value-level)", "atomicity of the storage engine's batches (the atomic unit by the property's quantifier)")
	domSave(r)
	domCreated(r, "DOM-created")
	orderSurvivor(r, "ORDER-survivor")
	whoScheduled(r, "WHO-scheduled")
	whoNoDelete(r)
	orderStage(r)
	agreePurge(r)
	whoDirtyClear(r)
	domUnchanged(r, "DOM-unchanged")
	refShared(r, "REF-shared")
	agreeSync(r, "AGREE-sync")
	kvAdapter(r, "AGREE-kvops")
	orderWait(r, "ORDER-wait")
	orderJoined(r, "ORDER-joined")
	recordsEvery(r, "AGREE-purge")
	domCleanFail(r, "DOM-cleanfail")
	agreePersist(r, "AGREE-persist")
	freshCopy(r, "FRESH-copy")
	freshHashBuf(r, "FRESH-hashbuf")
	domMemo(r, "DOM-memo")
	freshKeyBuf(r, "FRESH-keybuf")
	domDirty(r)
	agreeDecode(r, "AGREE-decode")
	errGuard(r, "ERR-guard", "ERR-dropped", funcsOfPkg(r, pkgWMPT), 10)
	freshResolved(r, "FRESH-resolved")
	depLinkBack(r, "DEP-linkback")
	raceCaptured(r, "RACE-captured", pkgWMPT, 1)
	loopRemove(r, "LOOP-remove", pkgWMPT)
}

func domSave(r *engine.Run) {
	const rule = "DOM-save"
	f := wfn(r, rule, "commit")
	if f == nil {
		return
	}
	arms := typeArms(f, f.Params[1])
	for _, kind := range []string{"routingNode", "shortNode", "valueNode"} {
		arm := arms[kind]
		if arm == nil {
			r.Fail(rule, fn(f)+"|*"+kind+" arm", r.P.Pos(f.Pos()), "commit has no arm for *"+kind+": dirty nodes of that kind are never saved")
			continue
		}
		var save *ssa.Call
		for b := range arm.blocks {
			for _, in := range b.Instrs {
				if c, ok := in.(*ssa.Call); ok {
					if recv, ok := engine.IsMethodCall(c, "Save"); ok && recv == arm.asserted && c.Call.Args[len(c.Call.Args)-1] == ssa.Value(f.Params[2]) {
						save = c
					}
				}
			}
		}
		if save == nil {
			r.Fail(rule, fn(f)+"|*"+kind+" arm|Save", r.P.Pos(f.Pos()), "the arm never puts the node into the batch: a committed trie cannot be reopened from storage")
			continue
		}
		good := true
		for _, ret := range engine.Returns(f) {
			if !arm.blocks[ret.Block()] || len(ret.Results) != 2 || !nilConst(ret.Results[1]) {
				continue
			}
			if !engine.InstrDominates(save, ret) {
				good = false
			}
		}
		r.Check(good, rule, fn(f)+"|*"+kind+" arm|Save", r.P.Pos(save.Pos()), "Save(batcher) dominates every success return of the arm", "a success return of the arm is reachable without the node having been put into the batch")
		// descent into children before saving
		if kind != "valueNode" {
			var rec *ssa.Call
			for b := range arm.blocks {
				for _, in := range b.Instrs {
					if c, ok := in.(*ssa.Call); ok && c.Call.StaticCallee() == f {
						rec = c
					}
				}
			}
			goodRec := rec != nil && !engine.ReachableAfter(save, rec)
			if goodRec && kind == "routingNode" {
				goodRec = inLoopBody(rec.Block())
				// loop bound = array length (16)
				bound := false
				for b := range arm.blocks {
					for _, in := range b.Instrs {
						if bo, ok := in.(*ssa.BinOp); ok && bo.Op.String() == "<" {
							if c := constVal(bo.Y); c != nil && c.ExactString() == "16" {
								bound = true
							}
						}
					}
				}
				goodRec = goodRec && bound
			}
			r.Check(goodRec, rule, fn(f)+"|*"+kind+" arm|children first", r.P.Pos(f.Pos()), "dirty children are committed (all slots) before the node itself is saved", "the arm does not commit all of its dirty children before saving itself: unsaved children are referenced by a saved parent")
		}
	}
	// Commit: root saved; non-branch root goes through commit
	c := wfn(r, rule, "Commit")
	if c != nil {
		var save, viaCommit *ssa.Call
		engine.Instrs(c, func(in ssa.Instruction) {
			if cl, ok := in.(*ssa.Call); ok {
				if _, ok := engine.IsMethodCall(cl, "Save"); ok {
					save = cl
				}
				if cl.Call.StaticCallee() == f {
					viaCommit = cl
				}
			}
		})
		childCommit := false
		for _, a := range c.AnonFuncs {
			engine.Instrs(a, func(in ssa.Instruction) {
				if cl, ok := in.(*ssa.Call); ok {
					if cl.Call.StaticCallee() == f {
						childCommit = true
					} else if h := cl.Call.StaticCallee(); h != nil && h.Pkg == c.Pkg && recvNamed(h) == recvNamed(c) && len(h.Blocks) > 0 {
						// the closure's body moved into a method of the trie that commits the child
						engine.Instrs(h, func(in2 ssa.Instruction) {
							if c2, ok := in2.(*ssa.Call); ok && c2.Call.StaticCallee() == f {
								childCommit = true
								r.Touch(h)
							}
						})
					}
				}
			})
		}
		r.Check(save != nil && viaCommit != nil && childCommit, rule, fn(c)+"|root", r.P.Pos(c.Pos()), "branch root: children committed in parallel then root.Save; other roots: commit(root)",
			fmt.Sprintf("Commit does not save the root on every kind (root.Save=%v, commit(root)=%v, children committed=%v)", save != nil, viaCommit != nil, childCommit))
		// every success return saved the root, or found it clean
		if save != nil && viaCommit != nil {
			bad := ""
			for _, ret := range engine.Returns(c) {
				if ret.Block().Comment == "recover" || len(ret.Results) != 2 || !nilConst(resultValue(ret, 1)) {
					continue
				}
				if engine.InstrDominates(save, ret) || engine.InstrDominates(viaCommit, ret) {
					continue
				}
				clean := false
				if facts, ok := engine.FactsOn(c, ret.Block()); ok {
					for _, ft := range facts {
						if ft.Kind == "bool" && !ft.Truth {
							if dc, ok := ft.A.(*ssa.Call); ok && dc.Call.IsInvoke() && dc.Call.Method.Name() == "Dirty" {
								if fl := fieldLoadOf(dc.Call.Value); fl != nil && fl.Name() == "root" {
									clean = true
								}
							}
						}
					}
				}
				if !clean {
					bad = r.P.Pos(ret.Pos())
				}
			}
			r.Check(bad == "", rule, fn(c)+"|root saved on every success", r.P.Pos(c.Pos()), "every success return of Commit saved the root or found it clean",
				"Commit reports success ("+bad+") for a dirty root without having saved it (a shortcut for 'no subtree was written'): a root that changed without a dirty child - a child was removed, a weight changed - is not in the batch, and the trie cannot be reopened from the root hash the commit reports")
		}
	}
}

func whoNoDelete(r *engine.Run) {
	const rule = "WHO-nodelete"
	c := wfn(r, rule, "Commit")
	if c == nil {
		return
	}
	g := r.P.RepoCG()
	reach := g.Reach(c)
	bad := 0
	for f := range reach {
		if f.Pkg == nil || !strings.HasSuffix(f.Pkg.Pkg.Path(), pkgWMPT) {
			continue
		}
		r.Touch(f)
		engine.Instrs(f, func(in ssa.Instruction) {
			cl, ok := in.(ssa.CallInstruction)
			if !ok || !cl.Common().IsInvoke() || cl.Common().Method.Name() != "Delete" {
				return
			}
			if isNamed(cl.Common().Value.Type(), pkgStore, "Batcher") || isNamed(cl.Common().Value.Type(), pkgStore, "StorageAdapter") {
				bad++
				r.Fail(rule, fn(f)+"|storage Delete", r.P.Pos(in.Pos()), "a storage delete is reachable from Commit: "+strings.Join(g.PathTo(c, f), " -> "))
			}
		})
	}
	if bad == 0 {
		r.OK(rule, fn(c)+"|no delete reachable", r.P.Pos(c.Pos()), fmt.Sprintf("%d functions reachable from Commit, none deletes from storage", len(reach)))
	}
}

func orderStage(r *engine.Run) {
	const rule = "ORDER-stage"
	f := wfn(r, rule, "DeleteNodes")
	if f == nil {
		return
	}
	const (
		labDeleted engine.Label = 1 << 30
		labTemp    engine.Label = 1 << 31
		labOther   engine.Label = 1 << 32
	)
	fl := engine.RunFlow(f, engine.FlowSpec{
		Param: func(p *ssa.Parameter, i int) engine.Label { return 0 },
		HeapLoad: func(ld *ssa.UnOp, base engine.Label) (engine.Label, bool) {
			if fld := engine.FieldOf(ld.X); fld != nil {
				switch fld.Name() {
				case "deleted":
					return labDeleted, true
				case "tempDeleted":
					return labTemp, true
				case "db":
					return 0, true
				}
				return labOther, true
			}
			return base, true // element of an already labelled slice / map
		},
	})
	var dels, commits, stages, clears []ssa.Instruction
	group := opGroup(r, f)
	spec := engine.FlowSpec{
		Param: func(p *ssa.Parameter, i int) engine.Label { return 0 },
		HeapLoad: func(ld *ssa.UnOp, base engine.Label) (engine.Label, bool) {
			if fld := engine.FieldOf(ld.X); fld != nil {
				switch fld.Name() {
				case "deleted":
					return labDeleted, true
				case "tempDeleted":
					return labTemp, true
				case "db":
					return 0, true
				}
				return labOther, true
			}
			return base, true
		},
	}
	engine.Instrs(f, func(in ssa.Instruction) {
		switch x := in.(type) {
		case *ssa.Call:
			// the delete batch moved into a helper of DeleteNodes: the call stands for the
			// deletes and the batch commit it contains (its keys are judged in the helper)
			if h := x.Call.StaticCallee(); h != nil && h != f && inGroup(group, h) {
				flh := engine.RunFlow(h, spec)
				engine.Instrs(h, func(i2 ssa.Instruction) {
					c2, ok := i2.(*ssa.Call)
					if !ok || !c2.Call.IsInvoke() || !isNamed(c2.Call.Value.Type(), pkgStore, "Batcher") {
						return
					}
					switch c2.Call.Method.Name() {
					case "Delete":
						dels = append(dels, in)
						r.CallSites++
						r.Check(flh.Of(c2.Call.Args[0]) == labDeleted, rule, fn(h)+"|deleted keys", r.P.Pos(i2.Pos()), "keys come from the `deleted` set only", "DeleteNodes deletes keys that do not come (only) from the `deleted` set: nodes staged in this pass are removed without the grace pass")
					case "Commit":
						commits = append(commits, in)
					}
				})
			}
			if x.Call.IsInvoke() && isNamed(x.Call.Value.Type(), pkgStore, "Batcher") {
				switch x.Call.Method.Name() {
				case "Delete":
					dels = append(dels, in)
					l := fl.Of(x.Call.Args[0])
					r.CallSites++
					r.Check(l == labDeleted, rule, fn(f)+"|deleted keys", r.P.Pos(in.Pos()), "keys come from the `deleted` set only", "DeleteNodes deletes keys that do not come (only) from the `deleted` set: nodes staged in this pass are removed without the grace pass")
				case "Commit":
					commits = append(commits, in)
				}
			}
			if b, ok := x.Call.Value.(*ssa.Builtin); ok && b.Name() == "clear" {
				if fld := fieldLoadOf(x.Call.Args[0]); fld != nil && fld.Name() == "deleted" {
					clears = append(clears, in)
				}
			}
		case *ssa.MapUpdate:
			if fld := fieldLoadOf(x.Map); fld != nil && fld.Name() == "deleted" {
				stages = append(stages, in)
				l := fl.Of(x.Key)
				r.Check(l == labTemp, rule, fn(f)+"|staged keys", r.P.Pos(in.Pos()), "the next pass's set is filled from tempDeleted only", "the next pass's delete set is filled from something other than tempDeleted")
			}
		}
	})
	if len(dels) == 0 || len(stages) == 0 || len(clears) == 0 || len(commits) == 0 {
		r.Fail(rule, fn(f)+"|two phases", r.P.Pos(f.Pos()), fmt.Sprintf("DeleteNodes has %d deletes, %d batch commits, %d clears, %d staging stores: the two-phase structure is gone", len(dels), len(commits), len(clears), len(stages)))
		return
	}
	good := true
	for _, s := range stages {
		for _, d := range append(append([]ssa.Instruction{}, dels...), commits...) {
			if engine.ReachableAfter(s, d) {
				good = false
			}
		}
		for _, c := range clears {
			if engine.ReachableAfter(s, c) || !engine.InstrDominates(c, s) {
				good = false
			}
		}
	}
	r.Check(good, rule, fn(f)+"|stage after delete", r.P.Pos(f.Pos()), "staging happens after the delete batch and after the clear", "tempDeleted is moved into `deleted` before this pass's batch or before the clear: nodes are deleted one pass early or the staged set is wiped")
	// tempDeleted reset
	reset := false
	engine.Instrs(f, func(in ssa.Instruction) {
		if st, ok := in.(*ssa.Store); ok && nilConst(st.Val) {
			if fld := engine.FieldOf(st.Addr); fld != nil && fld.Name() == "tempDeleted" {
				reset = true
			}
		}
	})
	r.Check(reset, rule, fn(f)+"|reset staged", r.P.Pos(f.Pos()), "tempDeleted reset after staging", "tempDeleted is not reset after staging: the same hashes are staged again on every pass")
}

func agreePurge(r *engine.Run) {
	const rule = "AGREE-purge"
	f := wfn(r, rule, "collectDeleteAndCreated")
	if f == nil {
		return
	}
	// the closure draining createdChan
	var handler *ssa.Function
	for _, a := range f.AnonFuncs {
		for _, fv := range a.FreeVars {
			if fv.Name() == "createdChan" {
				handler = a
			}
		}
	}
	if handler == nil {
		// renamed channel: the handler is the closure that records created hashes
		for _, a := range f.AnonFuncs {
			engine.Instrs(a, func(in ssa.Instruction) {
				if st, ok := in.(*ssa.Store); ok {
					if fld := engine.FieldOf(st.Addr); fld != nil && fld.Name() == "created" {
						handler = a
					}
				}
			})
		}
	}
	if handler == nil {
		// the bookkeeping moved into a trie method the closure calls for each hash
		for _, a := range f.AnonFuncs {
			engine.Instrs(a, func(in ssa.Instruction) {
				c, ok := in.(*ssa.Call)
				if !ok {
					return
				}
				if h := c.Call.StaticCallee(); h != nil && h.Pkg == f.Pkg && len(h.Blocks) > 0 {
					engine.Instrs(h, func(in2 ssa.Instruction) {
						if st, ok := in2.(*ssa.Store); ok {
							if fld := engine.FieldOf(st.Addr); fld != nil && fld.Name() == "created" {
								handler = a
							}
						}
					})
				}
			})
		}
	}
	if handler == nil {
		r.Anchor(rule, fmt.Errorf("unresolved anchor: created-hash handler in %s", fn(f)))
		return
	}
	r.Touch(handler)
	purged := map[string]bool{}
	// the handler's body, and the trie methods it hands each received hash to
	bodies := []*ssa.Function{handler}
	engine.Instrs(handler, func(in ssa.Instruction) {
		if c, ok := in.(*ssa.Call); ok {
			if h := c.Call.StaticCallee(); h != nil && h.Pkg == f.Pkg && len(h.Blocks) > 0 && recvNamed(h) == recvNamed(f) {
				bodies = append(bodies, h)
				r.Touch(h)
			}
		}
	})
	for _, body := range bodies {
		purgeScan(body, purged)
	}
	// tempDeleted is still being appended to by the other collector while the commit runs, so
	// its purge may also sit behind the join: in the closure Commit defers, after Wait, a step
	// (inline or a trie method) that rewrites tempDeleted from a computation that reads created
	if !purged["tempDeleted"] {
		if cm := wfn(r, rule, "Commit"); cm != nil {
			for _, a := range cm.AnonFuncs {
				var wait *ssa.Call
				engine.Instrs(a, func(in ssa.Instruction) {
					if c, ok := in.(*ssa.Call); ok && extCalleeIs(c, "sync", "WaitGroup", "Wait") {
						wait = c
					}
				})
				if wait == nil {
					continue
				}
				filters := func(g *ssa.Function) bool {
					stores, reads := false, false
					engine.Instrs(g, func(in ssa.Instruction) {
						if st, ok := in.(*ssa.Store); ok {
							if fld := engine.FieldOf(st.Addr); fld != nil && fld.Name() == "tempDeleted" {
								stores = true
							}
						}
						if ld, ok := in.(*ssa.UnOp); ok {
							if fld := engine.FieldOf(ld.X); fld != nil && fld.Name() == "created" {
								reads = true
							}
						}
					})
					return stores && reads
				}
				engine.Instrs(a, func(in ssa.Instruction) {
					c, ok := in.(*ssa.Call)
					if !ok || !engine.ReachableAfter(wait, c) {
						return
					}
					if h := c.Call.StaticCallee(); h != nil && h.Pkg == f.Pkg && len(h.Blocks) > 0 && filters(h) {
						purged["tempDeleted"] = true
						r.Touch(h)
					}
				})
				if filters(a) {
					purged["tempDeleted"] = true
				}
			}
		}
	}
	// fields that feed DeleteNodes' deletes, now or after staging
	feeds := []string{"deleted", "tempDeleted"}
	for _, fld := range feeds {
		r.Check(purged[fld], rule, fn(handler)+"|purge "+fld, r.P.Pos(handler.Pos()), "a re-created hash is removed from "+fld,
			"a hash that a commit re-creates is not removed from "+fld+", which DeleteNodes later turns into storage deletes: delete + re-add of identical content followed by garbage collection removes live nodes")
	}
}

func purgeScan(handler *ssa.Function, purged map[string]bool) {
	engine.Instrs(handler, func(in ssa.Instruction) {
		switch x := in.(type) {
		case *ssa.Call:
			if b, ok := x.Call.Value.(*ssa.Builtin); ok && b.Name() == "delete" {
				if fld := fieldLoadOf(x.Call.Args[0]); fld != nil {
					purged[fld.Name()] = true
				}
			}
		case *ssa.Store:
			if fld := engine.FieldOf(x.Addr); fld != nil && fld.Name() == "tempDeleted" {
				purged["tempDeleted"] = true
			}
		}
	})
}

func whoDirtyClear(r *engine.Run) {
	const rule = "WHO-dirtyclear"
	g := r.P.RepoCG()
	// functions that store dirty=false
	clearers := map[*ssa.Function]bool{}
	for _, f := range funcsOfPkg(r, pkgWMPT) {
		engine.Instrs(f, func(in ssa.Instruction) {
			st, ok := in.(*ssa.Store)
			if !ok {
				return
			}
			if fld := engine.FieldOf(st.Addr); fld != nil && fld.Name() == "dirty" {
				if c := constVal(st.Val); c != nil && c.ExactString() == "false" {
					clearers[f] = true
				}
			}
		})
	}
	if len(clearers) == 0 {
		r.Anchor(rule, fmt.Errorf("unresolved anchor: no store of dirty=false found"))
		return
	}
	allowed := map[string]string{
		"Commit":           "puts the node into the batch",
		"Deserialize":      "works on nodes just decoded from an export",
		"VerifyBlockProof": "works on nodes just decoded from a proof",
	}
	var entries []*ssa.Function
	for _, f := range funcsOfPkg(r, pkgWMPT) {
		if f.Parent() == nil && recvNamed(f) == "WeightedMerkleTrie" && f.Object() != nil && f.Object().Exported() && len(f.Blocks) > 0 {
			entries = append(entries, f)
		}
	}
	sort.Slice(entries, func(i, j int) bool { return entries[i].Name() < entries[j].Name() })
	for _, e := range entries {
		reach := g.Reach(e)
		var hit *ssa.Function
		for c := range clearers {
			if reach[c] && (hit == nil || fn(c) < fn(hit)) {
				hit = c
			}
		}
		if hit == nil {
			continue
		}
		r.Touch(e)
		if why, ok := allowed[e.Name()]; ok {
			r.OK(rule, fn(e)+"|clears dirty", r.P.Pos(e.Pos()), "allowed: "+why)
			continue
		}
		r.Fail(rule, fn(e)+"|clears dirty", r.P.Pos(e.Pos()),
			"a read-only entry point clears the dirty flag that Commit uses as 'not saved yet' (via "+strings.Join(g.PathTo(e, hit), " -> ")+"): calling it before Commit makes Commit skip the unsaved nodes, so the committed root cannot be reopened")
	}
}

// domCreated: Save(batcher) implies a created-channel send on every success path.
func domCreated(r *engine.Run, rule string) {
	f := wfn(r, rule, "commit")
	if f == nil {
		return
	}
	createdCh := paramRole(f, "createdChan")
	if createdCh == nil {
		r.Anchor(rule, fmt.Errorf("unresolved anchor: created channel of %s", fn(f)))
		return
	}
	arms := typeArms(f, f.Params[1])
	n := 0
	for _, kind := range []string{"routingNode", "shortNode", "valueNode"} {
		arm := arms[kind]
		if arm == nil {
			continue
		}
		var save *ssa.Call
		var sends []ssa.Instruction
		for b := range arm.blocks {
			for _, in := range b.Instrs {
				if x, ok := in.(*ssa.Call); ok {
					if recv, ok := engine.IsMethodCall(x, "Save"); ok && recv == arm.asserted {
						save = x
					}
				}
			}
		}
		for _, ev := range chanEvents(f, createdCh) {
			if !arm.blocks[ev.At.Block()] || ev.Val == nil {
				continue
			}
			if hc, ok := ev.Val.(*ssa.Call); ok {
				if recv, ok := engine.IsMethodCall(hc, "Hash"); ok && recv == arm.asserted {
					sends = append(sends, ev.At)
				}
			}
		}
		if save == nil {
			continue
		}
		o := ord{}
		for _, ret := range engine.Returns(f) {
			if !arm.blocks[ret.Block()] || len(ret.Results) != 2 || !nilConst(ret.Results[1]) || !engine.InstrDominates(save, ret) {
				continue
			}
			n++
			good := false
			for _, sd := range sends {
				if engine.InstrDominates(sd, ret) && engine.InstrDominates(save, sd) {
					good = true
				}
			}
			r.Check(good, rule, o.next(fn(f)+"|*"+kind+" arm success"), r.P.Pos(ret.Pos()), "saved node reported as created before the return",
				"a node is put into the batch but not reported as created on this path (collapse-level shortcut?): a pending delete of the same hash is not cancelled (garbage collection removes the live node) and a rollback leaves the node in storage")
		}
	}
	if n < 4 {
		r.Anchor(rule, fmt.Errorf("unresolved anchor: %d save-then-return paths in commit, 4 confirmed by reading", n))
	}
}

// domUnchanged: in commit the previous hash of a node is scheduled for
// collection only when it differs from the node's new hash: a node that is
// dirty but hashes as before (a value changed and changed back between two
// commits) is the live node, and collecting its hash deletes it.
func domUnchanged(r *engine.Run, rule string) {
	total := 0
	for _, name := range []string{"commit", "Commit"} {
		total += domUnchangedIn(r, rule, name)
	}
	if total < 4 {
		r.Anchor(rule, fmt.Errorf("unresolved anchor: %d sends on the deleted channel in commit/Commit", total))
	}
}

func domUnchangedIn(r *engine.Run, rule, name string) int {
	f := wfn(r, rule, name)
	if f == nil {
		return 0
	}
	deleteCh := paramRole(f, "deleteChan")
	if deleteCh == nil {
		// the exported entry creates the channel and hands it to the collector
		engine.Instrs(f, func(in ssa.Instruction) {
			if c, ok := in.(*ssa.Call); ok && c.Call.StaticCallee() != nil && c.Call.StaticCallee().Name() == "collectDeleteAndCreated" && len(c.Call.Args) > 1 {
				deleteCh = c.Call.Args[1]
			}
		})
	}
	if deleteCh == nil {
		r.Anchor(rule, fmt.Errorf("unresolved anchor: deleted channel of %s", fn(f)))
		return 0
	}
	n := 0
	o := ord{}
	isHashCall := func(v ssa.Value) bool {
		hc, isCall := v.(*ssa.Call)
		if !isCall {
			return false
		}
		_, isHash := engine.IsMethodCall(hc, "Hash")
		return isHash
	}
	for _, ev := range chanEvents(f, deleteCh) {
		n++
		good := false
		if ev.Helper != nil {
			// guarded inside the helper: the sent value is compared with a Hash() the caller passes
			if ev.Val != nil && ev.GuardA != nil && ev.GuardB != nil {
				if ev.GuardA == ev.Val && isHashCall(ev.GuardB) || ev.GuardB == ev.Val && isHashCall(ev.GuardA) {
					good = true
				}
			}
		}
		if !good {
			at := ev.At
			engine.Instrs(f, func(i2 ssa.Instruction) {
				c, ok := i2.(*ssa.Call)
				if !ok || !isBytesEq(c) || ev.Val == nil {
					return
				}
				a, b := stripCT(c.Call.Args[0]), stripCT(c.Call.Args[1])
				if a != ev.Val && b != ev.Val {
					return
				}
				other := a
				if a == ev.Val {
					other = b
				}
				if !isHashCall(other) {
					return
				}
				if truthAt(f, at.Block(), c, false) {
					good = true
				}
			})
		}
		r.Check(good, rule, o.next(fn(f)+"|schedule previous hash"), r.P.Pos(ev.At.Pos()), "reached only when bytes.Equal(previous hash, new Hash()) tested false",
			"the previous hash of a saved node is scheduled for collection without testing that the hash changed: a node that is dirty but hashes as before is live, and two collection passes later it is deleted from storage")
	}
	return n
}

// refShared: storage is addressed by node hash and garbage collection deletes by
// hash. Two positions holding equal content are then ONE stored node, so
// collecting the hash when one position goes away is only sound if equal content
// at different positions cannot hash equally (a position component - something
// derived from the walk's prefix - is part of the node state that is hashed) or
// the collection is reference-guarded. The rule checks the first: some store to
// a field of a trie node in insert derives from the prefix parameter.
func refShared(r *engine.Run, rule string) {
	f := wfn(r, rule, "insert")
	if f == nil {
		return
	}
	prefix := paramRole(f, "prefix")
	if prefix == nil {
		r.Anchor(rule, fmt.Errorf("unresolved anchor: prefix parameter of %s", fn(f)))
		return
	}
	// hash-keyed collection exists?
	sched := 0
	for _, g := range funcsOfPkg(r, pkgWMPT) {
		engine.Instrs(g, func(in ssa.Instruction) {
			if st, ok := in.(*ssa.Store); ok {
				if fld := engine.FieldOf(st.Addr); fld != nil && fld.Name() == "tempDeleted" {
					if c, ok := st.Val.(*ssa.Call); ok {
						if b, ok := c.Call.Value.(*ssa.Builtin); ok && b.Name() == "append" {
							sched++
						}
					}
				}
			}
		})
	}
	if sched == 0 {
		r.OK(rule, "wmpt|hash-keyed collection", r.P.Pos(f.Pos()), "no hash is scheduled for collection")
		return
	}
	positional := ""
	engine.Instrs(f, func(in ssa.Instruction) {
		st, ok := in.(*ssa.Store)
		if !ok {
			return
		}
		fa, ok := st.Addr.(*ssa.FieldAddr)
		if !ok {
			return
		}
		nm := namedOf(fa.X.Type())
		if nm == nil || !strings.HasSuffix(nm.Obj().Name(), "Node") {
			return
		}
		if derivesFromBytes(st.Val, prefix) {
			positional = nm.Obj().Name() + "." + engine.FieldOf(fa).Name()
		}
	})
	// also composite literals / constructor arguments built from the prefix
	engine.Instrs(f, func(in ssa.Instruction) {
		st, ok := in.(*ssa.Store)
		if !ok || positional != "" {
			return
		}
		if fa, ok := st.Addr.(*ssa.FieldAddr); ok {
			if al, ok := fa.X.(*ssa.Alloc); ok {
				if nm := namedOf(al.Type()); nm != nil && strings.HasSuffix(nm.Obj().Name(), "Node") && derivesFromBytes(st.Val, prefix) {
					positional = nm.Obj().Name() + "." + engine.FieldOf(fa).Name()
				}
			}
		}
	})
	r.Check(positional != "", rule, "wmpt.WeightedMerkleTrie|content-only node hashes with hash-keyed collection", r.P.Pos(f.Pos()),
		"node state carries the position ("+positional+")",
		fmt.Sprintf("nodes are stored and collected by hash (%d scheduling sites) while no node field ever derives from the walk's prefix: equal content at two positions is one stored node, and deleting or replacing it at one position collects it for both", sched))
}

// derivesFromBytes: v is computed from target by slicing, appending, copying or
// conversion only (not through a call that merely received it).
func derivesFromBytes(v, target ssa.Value) bool {
	seen := map[ssa.Value]bool{}
	var walk func(x ssa.Value) bool
	walk = func(x ssa.Value) bool {
		if x == nil || seen[x] {
			return false
		}
		seen[x] = true
		if x == target {
			return true
		}
		switch y := x.(type) {
		case *ssa.Slice:
			return walk(y.X)
		case *ssa.ChangeType:
			return walk(y.X)
		case *ssa.Convert:
			return walk(y.X)
		case *ssa.MakeInterface:
			return walk(y.X)
		case *ssa.Phi:
			for _, e := range y.Edges {
				if walk(e) {
					return true
				}
			}
		case *ssa.Call:
			if b, ok := y.Call.Value.(*ssa.Builtin); ok && b.Name() == "append" {
				for _, a := range y.Call.Args {
					if walk(a) {
						return true
					}
				}
			}
		}
		return false
	}
	return walk(v)
}

// chanCell: a channel variable captured by closures lives in a cell; loads of
// the same cell name the same channel.
func chanCell(v ssa.Value) ssa.Value {
	// chan T handed over as chan<- T is the same channel
	for {
		if ct, ok := v.(*ssa.ChangeType); ok {
			v = ct.X
			continue
		}
		break
	}
	if u, ok := v.(*ssa.UnOp); ok && u.Op == token.MUL {
		if al, ok := u.X.(*ssa.Alloc); ok {
			return al
		}
	}
	return v
}

// ---- channel events: sends made directly or through a small helper ------------------

// chanEvent is one "hash v is sent on channel ch" at instruction At of the
// caller: a direct send, or a call of a helper that receives the channel and
// sends one of its parameters on it.
type chanEvent struct {
	At  ssa.Instruction
	Val ssa.Value // the value sent, in terms of the caller
	// Guard: the send happens only where bytes.Equal(GuardA, GuardB) tested false
	// (caller terms); nil when unguarded or guarded in the caller itself.
	GuardA, GuardB ssa.Value
	Helper         *ssa.Function
}

func chanEvents(f *ssa.Function, ch ssa.Value) []chanEvent {
	var out []chanEvent
	engine.Instrs(f, func(in ssa.Instruction) {
		switch x := in.(type) {
		case *ssa.Send:
			if chanCell(x.Chan) == chanCell(ch) {
				out = append(out, chanEvent{At: x, Val: x.X})
			}
		case *ssa.Call:
			g := x.Call.StaticCallee()
			if g == nil || g == f || len(g.Blocks) == 0 {
				return
			}
			// a recursive function is a walk of its own (analysed by itself), not a helper
			selfRec := false
			engine.Instrs(g, func(i2 ssa.Instruction) {
				if c2, ok := i2.(*ssa.Call); ok && c2.Call.StaticCallee() == g {
					selfRec = true
				}
			})
			if selfRec {
				return
			}
			for ai, a := range x.Call.Args {
				if chanCell(a) != chanCell(ch) || ai >= len(g.Params) {
					continue
				}
				gp := g.Params[ai]
				argOf := func(v ssa.Value) ssa.Value {
					for j, p := range g.Params {
						if ssa.Value(p) == v && j < len(x.Call.Args) {
							return x.Call.Args[j]
						}
					}
					return nil
				}
				engine.Instrs(g, func(i2 ssa.Instruction) {
					sd, ok := i2.(*ssa.Send)
					if !ok || sd.Chan != ssa.Value(gp) {
						return
					}
					ev := chanEvent{At: x, Val: argOf(sd.X), Helper: g}
					// guard inside the helper
					engine.Instrs(g, func(i3 ssa.Instruction) {
						eq, ok := i3.(*ssa.Call)
						if !ok || !isBytesEq(eq) {
							return
						}
						if truthAt(g, sd.Block(), eq, false) {
							ev.GuardA, ev.GuardB = argOf(stripCT(eq.Call.Args[0])), argOf(stripCT(eq.Call.Args[1]))
						}
					})
					out = append(out, ev)
				})
			}
		}
	})
	return out
}

// agreeSync: the storage batch honours the caller's durability request:
// pebble.Sync is passed to the batch commit exactly where the sync parameter is
// true, pebble.NoSync where it is false.
func agreeSync(r *engine.Run, rule string) {
	f, err := r.P.Func("core/util/storage/kv", "batch", "Commit")
	if err != nil || f == nil || len(f.Blocks) == 0 {
		r.Anchor(rule, fmt.Errorf("unresolved anchor: kv batch Commit"))
		return
	}
	r.Touch(f)
	syncP := f.Params[1]
	optName := func(v ssa.Value) string {
		if ld, ok := v.(*ssa.UnOp); ok {
			if g, ok := ld.X.(*ssa.Global); ok {
				return g.Name()
			}
		}
		if mi, ok := v.(*ssa.MakeInterface); ok {
			return optNameOf(mi.X)
		}
		return ""
	}
	_ = optName
	n := 0
	o := ord{}
	check := func(v ssa.Value, at *ssa.BasicBlock, pos string) {
		name := optNameOf(v)
		if name != "Sync" && name != "NoSync" {
			r.Undec(rule, o.next(fn(f)+"|option"), pos, "the write option handed to the store is not one of pebble.Sync / pebble.NoSync")
			return
		}
		n++
		atoms, ok := engine.AtomsOn(f, at)
		t, had := atoms[engine.ValKey(syncP)]
		good := ok && had && t == (name == "Sync")
		r.Check(good, rule, o.next(fn(f)+"|"+name), pos, "pebble."+name+" is used exactly where the sync parameter is "+fmt.Sprint(name == "Sync"),
			"the batch commit passes pebble."+name+" on a path where the caller's sync flag is not "+fmt.Sprint(name == "Sync")+": a commit the caller asked to be durable is not fsynced (a crash loses the committed root), or the reverse")
	}
	engine.Instrs(f, func(in ssa.Instruction) {
		c, ok := in.(*ssa.Call)
		if !ok || !extCalleeIs(c, "cockroachdb/pebble", "Batch", "Commit") {
			return
		}
		opt := c.Call.Args[1]
		if ph, ok := opt.(*ssa.Phi); ok {
			for i, e := range ph.Edges {
				check(e, ph.Block().Preds[i], r.P.Pos(c.Pos()))
			}
			return
		}
		check(opt, c.Block(), r.P.Pos(c.Pos()))
	})
	if n < 2 {
		r.Anchor(rule, fmt.Errorf("unresolved anchor: %d write options in the kv batch Commit", n))
	}
}

func optNameOf(v ssa.Value) string {
	for {
		switch x := v.(type) {
		case *ssa.MakeInterface:
			v = x.X
			continue
		case *ssa.ChangeType:
			v = x.X
			continue
		case *ssa.UnOp:
			if g, ok := x.X.(*ssa.Global); ok {
				return g.Name()
			}
		case *ssa.Global:
			return x.Name()
		}
		return ""
	}
}

// domCleanFail: a delete that fails (the key is not there) leaves no trace: in
// delete no store of dirty = true can be followed by an error return. A path
// marked dirty by a failed delete is re-saved by the next commit under its
// unchanged hashes and listed as created, so a rollback deletes checkpoint
// nodes.
func domCleanFail(r *engine.Run, rule string) {
	f := wfn(r, rule, "delete")
	if f == nil {
		return
	}
	var recs []*ssa.Call
	engine.Instrs(f, func(in ssa.Instruction) {
		if c, ok := in.(*ssa.Call); ok && c.Call.StaticCallee() == f {
			recs = append(recs, c)
		}
	})
	n := 0
	o := ord{}
	engine.Instrs(f, func(in ssa.Instruction) {
		st, ok := in.(*ssa.Store)
		if !ok {
			return
		}
		if fld := engine.FieldOf(st.Addr); fld == nil || fld.Name() != "dirty" {
			return
		}
		if k, ok := st.Val.(*ssa.Const); !ok || k.Value == nil || k.Value.ExactString() != "true" {
			return
		}
		n++
		bad := ""
		for _, c := range recs {
			if engine.ReachableAfter(st, c) {
				bad = r.P.Pos(c.Pos())
			}
		}
		r.Check(bad == "", rule, o.next(fn(f)+"|dirty"), r.P.Pos(st.Pos()), "the node is marked dirty only after the recursive delete below it has returned",
			"delete marks a node dirty before the recursive delete below it (at "+bad+") has succeeded: a delete of an absent key leaves its search path dirty, the next commit re-saves those nodes under their unchanged hashes and records them as created, and a rollback then deletes checkpoint nodes")
	})
	if n < 2 || len(recs) < 2 {
		r.Anchor(rule, fmt.Errorf("unresolved anchor: %d dirty stores / %d recursive calls in delete", n, len(recs)))
	}
}

// orderWait: Commit hands its bookkeeping back complete: on every way out of
// Commit the two channels are closed and the collector goroutines are waited
// for (a deferred closure that closes both channels and then calls Wait, or the
// same calls before every return).
func orderWait(r *engine.Run, rule string) {
	f := wfn(r, rule, "Commit")
	if f == nil {
		return
	}
	good := false
	for _, a := range f.AnonFuncs {
		closes, waitAfter := 0, false
		var lastClose ssa.Instruction
		engine.Instrs(a, func(in ssa.Instruction) {
			c, ok := in.(*ssa.Call)
			if !ok {
				return
			}
			if b, ok := c.Call.Value.(*ssa.Builtin); ok && b.Name() == "close" {
				closes++
				lastClose = c
			}
			if extCalleeIs(c, "sync", "WaitGroup", "Wait") && lastClose != nil && engine.ReachableAfter(lastClose, c) {
				waitAfter = true
			}
		})
		if closes >= 2 && waitAfter {
			// is this closure deferred in Commit?
			engine.Instrs(f, func(in ssa.Instruction) {
				if d, ok := in.(*ssa.Defer); ok {
					if mc, ok := d.Call.Value.(*ssa.MakeClosure); ok && mc.Fn == ssa.Value(a) {
						good = true
					}
				}
			})
		}
	}
	r.Check(good, rule, fn(f)+"|waits for the collectors", r.P.Pos(f.Pos()), "a deferred closure closes both channels and then waits for the collector goroutines",
		"Commit can return before its collector goroutines have drained the created/deleted channels: the created list and the collection set are incomplete when the caller commits the batch, rolls back or collects garbage")
}
