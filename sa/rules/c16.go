package rules

import (
	"fmt"
	"go/token"
	"sort"
	"strings"

	"golang.org/x/tools/go/ssa"

	"verif/sa/engine"
)

func init() {
	register(&Check{ID: "C16", Pkgs: []string{pkgUtil}, Run: runC16})
}

var mptOwners = map[string]bool{"MerklePatriciaTrie": true, "MemoryNodeDB": true, "LevelNodeDB": true, "ChangeCollector": true}

var mptGuards = guardTable{
	"MerklePatriciaTrie.mutex":           {kind: "mutex"},
	"MerklePatriciaTrie.root":            {kind: "lock", lock: "MerklePatriciaTrie.mutex", reason: "root key: read lock for lookups, write lock for updates"},
	"MerklePatriciaTrie.db":              {kind: "immutable", reason: "set by the constructor only (SetNodeDB rebases the LevelNodeDB instead)"},
	"MerklePatriciaTrie.ChangeCollector": {kind: "immutable", reason: "set by the constructor only; the collector has its own lock"},
	"MerklePatriciaTrie.Version":         {kind: "immutable", reason: "written only by SetVersion (atomic), which is outside the property's operation set; the operations read it"},
	"MerklePatriciaTrie.missingNodeKeys": {kind: "lock", lock: "MerklePatriciaTrie.missingMu", reason: "appended by lookups that run under the trie's read lock, so it needs its own mutex"},
	"MerklePatriciaTrie.missingMu":       {kind: "mutex"},
	"MerklePatriciaTrie.cache":           {kind: "immutable", reason: "set by the constructor only; the transaction cache has its own lock"},
	"MerklePatriciaTrie.deleteNodes":     {kind: "lock", lock: "MerklePatriciaTrie.mutex", reason: "appended by MergeDB, read by GetDeletes"},

	"MemoryNodeDB.Nodes": {kind: "lock", lock: "MemoryNodeDB.mutex", reason: "plain map"},
	"MemoryNodeDB.mutex": {kind: "mutex"},

	"LevelNodeDB.mutex":            {kind: "mutex"},
	"LevelNodeDB.current":          {kind: "lock", lock: "LevelNodeDB.mutex", reason: "rewritten by RebaseCurrentDB"},
	"LevelNodeDB.prev":             {kind: "lock", lock: "LevelNodeDB.mutex", reason: "rewritten by SetPrev/RebaseCurrentDB"},
	"LevelNodeDB.version":          {kind: "lock", lock: "LevelNodeDB.mutex", reason: "rewritten when a child is merged, read by GetDBVersion"},
	"LevelNodeDB.DeletedNodes":     {kind: "lock", lock: "LevelNodeDB.mutex", reason: "plain map"},
	"LevelNodeDB.PropagateDeletes": {kind: "immutable", reason: "set by the constructor only"},

	"ChangeCollector.startRoot": {kind: "immutable", reason: "set by the constructor only"},
	"ChangeCollector.Changes":   {kind: "lock", lock: "ChangeCollector.mutex", reason: "plain map"},
	"ChangeCollector.Deletes":   {kind: "lock", lock: "ChangeCollector.mutex", reason: "plain map"},
	"ChangeCollector.mutex":     {kind: "mutex"},
}

// mptOps is the property's operation set on one trie (plus the other exported
// read accessors); SetVersion is deliberately not in it.
var mptOps = []string{"Insert", "Delete", "GetNodeValue", "GetNodeValueRaw", "Iterate", "IterateFrom", "GetChanges", "GetDeletes",
	"GetChangeCount", "SaveChanges", "GetRoot", "HasMissingNodes", "GetMissingNodeKeys", "GetAllMissingNodes", "MergeMPTChanges",
	"MergeChanges", "MergeDB", "Validate", "PrettyPrint", "GetNodeDB", "SetNodeDB", "GetVersion", "Cache"}

func mptEntries(r *engine.Run, rule string) []*ssa.Function {
	var entries []*ssa.Function
	for _, m := range mptOps {
		if f := r.Fn(rule, pkgUtil, "MerklePatriciaTrie", m); f != nil {
			entries = append(entries, f)
		}
	}
	entries = append(entries, exportedEntries(r, rule, pkgUtil, map[string]bool{"MemoryNodeDB": true, "LevelNodeDB": true, "ChangeCollector": true})...)
	return entries
}

func runC16(r *engine.Run) {
	r.Rule("ERR-select", "see C04: where SaveChanges waits on the writer's error and done channels, the done case looks at the error channel again before reporting success (both can be ready; select picks at random)")
	r.Rule("RACE-captured", "see C11: a function literal started as a goroutine inside a loop in core/util stores into no variable captured from the enclosing function (parallel workers that report failure into one shared error variable race on it whenever two of them fail)")
	r.Rule("COPY-lock", "every method of a struct of core/util that holds a mutex has a pointer receiver (see C08)")
	r.Rule("LOCK-mpt", "guarded-by discipline over every function reachable from the trie operations named in the property and from the exported methods of MemoryNodeDB/LevelNodeDB/ChangeCollector: root, deleteNodes, the stores' maps and level links and the collector's maps are accessed only with their owner's mutex held in the required mode (interprocedural must-lockset; writes need the write lock), constructor-only fields are never rewritten; `go` bodies start with nothing held")
	r.Rule("LOCK-walk", "every node fetch of the trie (getNode) that is reachable from the operations that start at the trie's own root happens with the trie's mutex held (read or write): a walk holds the lock from reading the root to the last node, because writers physically remove replaced nodes. Named exception: IterateFrom starts from a node key supplied by the caller, reads no guarded state and is synchronised by its caller")
	r.Rule("LOCK-snapshot", "SaveChanges takes its snapshot (ChangeCollector.Clone) with the trie's read lock held and writes from that snapshot, never from the live collector: one update is a sequence of AddChange calls that is atomic only under the trie lock; ChangeCollector.Clone copies every node it puts into the snapshot with CloneNode(); MerklePatriciaTrie.GetChanges reads the root, the changes and the deletes while it holds the trie's lock itself (one instant, not three separately locked getters)")
	r.Rule("ORDER-critical", "Insert, Delete, MergeChanges and MergeDB acquire the trie's write lock before the first read of the root and keep it (deferred unlock) until after the last root update: each mutating operation is a single critical section")
	r.Rule("LOCK-reentrant", "no Lock or RLock of a mutex is reachable while the same goroutine already holds that mutex of the same object: held-on-receiver facts (must-lockset inside a function) are carried into callees only along calls made on the same receiver value, over every call chain; sync mutexes are not reentrant (a second RLock deadlocks as soon as a writer queues up between the two)")
	r.Rule("LOCK-order", "two mutexes that are ever held together are always taken in the same order: an edge A -> B is recorded wherever B is acquired while A is held on every path (must-lockset, interprocedural over every function reachable from the entry set), and the graph over the distinct lock keys (owner type.field) has no cycle - a cycle is an ABBA deadlock that only a particular interleaving shows")
	r.Rule("LOCK-statecache", "see C08: the state cache's plain fields are accessed only under their owner's mutex and its sync/atomic counters never plainly - getNode updates the transaction cache's hit/miss counters for every visited node while readers hold only the trie's read lock")
	r.Rule("REF-livechange", "the change collector rewrites the change objects it holds in place (AddChange assigns the New field of the object found in its Changes map) under its own lock; therefore no function hands out a *NodeChange obtained from that map (into a slice element, an append or a return value): readers of a change set hold no lock, so GetChanges and the like hand out copies")
	r.Rule("REF-poolput", "no function of the repository (the hash helpers the trie calls under its read lock included) touches an object after handing it back to a sync.Pool with Put: the next Get may give it to a concurrent caller")
	r.Rule("PAIR-unlock", "every Lock/RLock of a mutex is followed on every path to a return of the acquiring function by the matching Unlock/RUnlock on the same mutex or by a deferred one registered on the path: no operation returns with the lock held (every later operation on the object would block)")
	r.Rule("WHO-readonly", "see C06: lookups of the transaction cache never store into its pending map (trie readers run in parallel under the trie's read lock and share one transaction cache)")
	r.NotDec = append(r.NotDec, "linearizability of histories (needs executions)", "SetVersion concurrent with operations (outside the property's operation set)")
	const rule = "LOCK-mpt"
	entries := mptEntries(r, rule)
	tableComplete(r, rule, pkgUtil, mptOwners, mptGuards)
	w := checkGuards(r, rule, entries, mptOwners, mptGuards)
	r.Min(rule, 60)
	orderCritical(r, w)
	lockWalk(r, w)
	cloneUnderLock(r, w)
	cloneSnapshotDeep(r, "LOCK-snapshot")
	lockOneSnapshot(r, "LOCK-snapshot")
	pairUnlock(r, "PAIR-unlock", funcsOfPkg(r, pkgUtil), 10)
	lockReentrant(r, "LOCK-reentrant", funcsOfPkg(r, pkgUtil), 20)
	lockOrder(r, "LOCK-order", w, 40)
	refPoolPut(r, "REF-poolput")
	refLiveChange(r, "REF-livechange")
	// the trie's readers call into the transaction cache (hit/miss counters, lookups) while
	// they hold only the trie's read lock: the cache's own discipline is part of this property
	wsc := checkGuards(r, "LOCK-statecache", exportedEntries(r, "LOCK-statecache", pkgSC, scOwners), scOwners, scGuards)
	lockOrder(r, "LOCK-order", wsc, 10, "statecache")
	whoReadOnly(r, "WHO-readonly")
	copyLock(r, "COPY-lock", pkgUtil)
	raceCaptured(r, "RACE-captured", pkgUtil, 0)
	errSelect(r, "ERR-select", funcsOfPkg(r, pkgUtil), 1)
}

func orderCritical(r *engine.Run, w *engine.LockWorld) {
	const rule = "ORDER-critical"
	for _, m := range []string{"Insert", "Delete", "MergeChanges", "MergeDB"} {
		f := r.Fn(rule, pkgUtil, "MerklePatriciaTrie", m)
		if f == nil {
			continue
		}
		// the critical section may live in a helper that exists only for this operation
		// (validation in the exported method, locking and the walk in the helper): then the
		// exported method must not look at the root itself, and the helper is what is judged
		if !takesTrieLock(f) && !touchesRootField(f) {
			var cand []*ssa.Function
			for _, h := range opGroup(r, f)[1:] {
				if takesTrieLock(h) {
					cand = append(cand, h)
				}
			}
			if len(cand) == 1 {
				f = cand[0]
			}
		}
		// exactly one Lock on the trie mutex; unlock only by defer; all root
		// accesses (direct or through callees) after it
		var locks []ssa.Instruction
		explicitUnlock := false
		deferred := false
		engine.Instrs(f, func(in ssa.Instruction) {
			c, ok := in.(ssa.CallInstruction)
			if !ok {
				return
			}
			sc := c.Common().StaticCallee()
			if sc == nil || len(c.Common().Args) == 0 || engine.MutexKey(c.Common().Args[0]) != "MerklePatriciaTrie.mutex" {
				return
			}
			switch sc.Name() {
			case "Lock":
				locks = append(locks, in)
			case "Unlock":
				if _, isDefer := in.(*ssa.Defer); isDefer {
					deferred = true
				} else {
					explicitUnlock = true
				}
			}
		})
		if len(locks) != 1 || explicitUnlock || !deferred {
			// Insert delegates to Delete on some paths before locking: those paths take the lock in Delete
			r.Fail(rule, fn(f), r.P.Pos(f.Pos()), fmt.Sprintf("expected exactly one write-lock acquisition released by defer (found %d locks, explicit unlock=%v, deferred unlock=%v): the operation is not one critical section", len(locks), explicitUnlock, deferred))
			continue
		}
		// every call into the trie's own mutating helpers and every root access is dominated by the Lock
		good := true
		detail := ""
		engine.Instrs(f, func(in ssa.Instruction) {
			touches := false
			switch x := in.(type) {
			case *ssa.FieldAddr:
				if isNamed(x.X.Type(), pkgUtil, "MerklePatriciaTrie") && engine.FieldOf(x).Name() == "root" {
					touches = true
				}
			case *ssa.Call:
				if sc := x.Call.StaticCallee(); sc != nil && recvNamed(sc) == "MerklePatriciaTrie" && sc.Object() != nil && !sc.Object().Exported() {
					touches = true
				}
				// an exported accessor of the same trie that reads the root (GetRoot): the value it
				// hands back is a snapshot taken outside the critical section
				if sc := x.Call.StaticCallee(); sc != nil && recvNamed(sc) == "MerklePatriciaTrie" && len(x.Call.Args) > 0 && len(f.Params) > 0 && x.Call.Args[0] == ssa.Value(f.Params[0]) && readsField(sc, "root") && sc != f {
					if sc.Name() != "Delete" && sc.Name() != "Insert" { // delegation to the other mutator takes its own lock
						touches = true
					}
				}
			}
			if touches && !engine.InstrDominates(locks[0], in) {
				good = false
				detail = "root access or internal helper call at " + r.P.Pos(in.Pos()) + " is not dominated by the write-lock acquisition"
			}
		})
		r.Check(good, rule, fn(f), r.P.Pos(locks[0].Pos()), "one write-lock acquisition dominating every root access and internal helper call, released by defer",
			"the mutating operation reads or updates trie state outside its critical section: "+detail)
	}
}

func lockWalk(r *engine.Run, w *engine.LockWorld) {
	const rule = "LOCK-walk"
	getNode := r.Fn(rule, pkgUtil, "MerklePatriciaTrie", "getNode")
	iterFrom := r.Fn(rule, pkgUtil, "MerklePatriciaTrie", "IterateFrom")
	if getNode == nil {
		return
	}
	// lock world without the named exception as an entry
	var entries []*ssa.Function
	for _, m := range mptOps {
		if m == "IterateFrom" {
			continue
		}
		if f, err := r.P.Func(pkgUtil, "MerklePatriciaTrie", m); err == nil {
			entries = append(entries, f)
		}
	}
	w2 := engine.NewLockWorld(r.P.RepoCG(), entries)
	n := 0
	var fns []*ssa.Function
	for f := range w2.Reached {
		fns = append(fns, f)
	}
	sort.Slice(fns, func(i, j int) bool { return fns[i].Pos() < fns[j].Pos() })
	for _, f := range fns {
		o := ord{}
		engine.Instrs(f, func(in ssa.Instruction) {
			c, ok := in.(*ssa.Call)
			if !ok || c.Call.StaticCallee() != getNode {
				return
			}
			n++
			r.CallSites++
			held := w2.HeldAt(in)
			r.Check(held["MerklePatriciaTrie.mutex"] >= engine.ModeR, rule, o.next(fn(f)+"|getNode"), r.P.Pos(in.Pos()), "node fetched under the trie mutex; held "+held.String(),
				"a node is fetched without the trie's mutex (reached via "+strings.Join(w2.Witness(f, "MerklePatriciaTrie.mutex", engine.ModeR), " -> ")+"): a writer can remove the node between the reader's root read and this fetch, so a lookup of a key that was present throughout fails with node-not-found")
		})
	}
	if iterFrom != nil {
		r.Note(rule, fn(iterFrom)+"|named exception", r.P.Pos(iterFrom.Pos()), "IterateFrom walks from a caller-supplied node key without the trie lock (caller synchronises)")
	}
	if n < 8 {
		r.Anchor(rule, fmt.Errorf("unresolved anchor: %d getNode call sites reached, 9 confirmed by reading", n))
	}
}

func cloneUnderLock(r *engine.Run, w *engine.LockWorld) {
	const rule = "LOCK-snapshot"
	f := r.Fn(rule, pkgUtil, "MerklePatriciaTrie", "SaveChanges")
	if f == nil {
		return
	}
	var clone *ssa.Call
	engine.Instrs(f, func(in ssa.Instruction) {
		if c, ok := in.(*ssa.Call); ok && invokeOnField(c, "ChangeCollector", "Clone") {
			clone = c
		}
	})
	if clone == nil {
		r.Fail(rule, fn(f)+"|snapshot", r.P.Pos(f.Pos()), "SaveChanges does not snapshot the change collector: it writes from the live collector while updates add and remove changes (a save can contain the new leaf together with the old branch: the complete trie of no root the trie ever had)")
		return
	}
	held := w.HeldAt(clone)
	r.Check(held["MerklePatriciaTrie.mutex"] >= engine.ModeR, rule, fn(f)+"|snapshot under lock", r.P.Pos(clone.Pos()), "snapshot taken with the trie mutex held; "+held.String(), "the snapshot is taken without the trie's mutex: it can be taken in the middle of an update")
	// UpdateChanges runs on the snapshot
	good := false
	for _, g := range append([]*ssa.Function{f}, f.AnonFuncs...) {
		engine.Instrs(g, func(in ssa.Instruction) {
			c, ok := in.(*ssa.Call)
			if !ok || !c.Call.IsInvoke() || c.Call.Method.Name() != "UpdateChanges" {
				return
			}
			v := c.Call.Value
			if v == ssa.Value(clone) {
				good = true
			}
			if ld, ok := v.(*ssa.UnOp); ok {
				// captured variable bound to the clone
				if fv, ok := ld.X.(*ssa.FreeVar); ok {
					engine.Instrs(f, func(i2 ssa.Instruction) {
						if st, ok := i2.(*ssa.Store); ok && st.Val == ssa.Value(clone) {
							if al, ok := st.Addr.(*ssa.Alloc); ok && al.Comment == fv.Name() {
								good = true
							}
						}
					})
				}
			}
			if fv, ok := v.(*ssa.FreeVar); ok {
				for i, x := range g.FreeVars {
					if x == fv {
						engine.Instrs(f, func(i2 ssa.Instruction) {
							if mc, ok := i2.(*ssa.MakeClosure); ok && mc.Fn == ssa.Value(g) && i < len(mc.Bindings) && mc.Bindings[i] == ssa.Value(clone) {
								good = true
							}
						})
					}
				}
			}
		})
	}
	r.Check(good, rule, fn(f)+"|writes from the snapshot", r.P.Pos(clone.Pos()), "UpdateChanges is invoked on the snapshot", "UpdateChanges is not invoked on the snapshot taken under the lock")
}

// cloneSnapshotDeep: the snapshot SaveChanges works from shares no node object
// with the live collector: every node ChangeCollector.Clone puts into the new
// collector (New/Old of a change, a dead node) is the result of CloneNode().
func cloneSnapshotDeep(r *engine.Run, rule string) {
	f := r.Fn(rule, pkgUtil, "ChangeCollector", "Clone")
	if f == nil {
		return
	}
	isCloneNode := func(v ssa.Value) bool {
		for {
			switch x := v.(type) {
			case *ssa.MakeInterface:
				v = x.X
				continue
			case *ssa.ChangeInterface:
				v = x.X
				continue
			}
			break
		}
		c, ok := v.(*ssa.Call)
		if !ok {
			return false
		}
		_, is := engine.IsMethodCall(c, "CloneNode")
		return is
	}
	n := 0
	o := ord{}
	engine.Instrs(f, func(in ssa.Instruction) {
		switch x := in.(type) {
		case *ssa.Store:
			fa, ok := x.Addr.(*ssa.FieldAddr)
			if !ok {
				return
			}
			nm := namedOf(fa.X.Type())
			if nm == nil || nm.Obj().Name() != "NodeChange" {
				return
			}
			name := engine.FieldOf(fa).Name()
			if name != "New" && name != "Old" {
				return
			}
			n++
			r.Check(isCloneNode(x.Val), rule, o.next(fn(f)+"|change."+name), r.P.Pos(x.Pos()), "copied with CloneNode()",
				"the snapshot of the pending changes shares a node object with the live collector: a concurrent update rewrites what the save is writing")
		case *ssa.MapUpdate:
			if fld := fieldLoadOf(x.Map); fld != nil && fld.Name() == "Deletes" {
				n++
				r.Check(isCloneNode(x.Value), rule, o.next(fn(f)+"|dead node"), r.P.Pos(x.Pos()), "copied with CloneNode()",
					"the snapshot of the dead nodes shares a node object with the live collector")
			}
		}
	})
	if n < 3 {
		r.Anchor(rule, fmt.Errorf("unresolved anchor: %d node copies in ChangeCollector.Clone", n))
	}
}

// lockOneSnapshot: the trie's change-set getters read everything they return
// during one continuous hold of the trie's lock: in MerklePatriciaTrie.GetChanges
// the root, the changes and the deletes are read while mpt.mutex is held by
// GetChanges itself (not by three getters that each lock on their own), so the
// triple belongs to one instant.
func lockOneSnapshot(r *engine.Run, rule string) {
	f := r.Fn(rule, pkgUtil, "MerklePatriciaTrie", "GetChanges")
	if f == nil {
		return
	}
	fl := engine.LocksIn(f)
	n := 0
	o := ord{}
	check := func(in ssa.Instruction, what string) {
		n++
		held := fl.At[in]
		ok := held != nil && held["MerklePatriciaTrie.mutex"] >= engine.ModeR
		r.Check(ok, rule, o.next(fn(f)+"|"+what), r.P.Pos(in.Pos()), "read while GetChanges itself holds the trie's lock",
			"GetChanges reads "+what+" without holding the trie's lock across all of its reads: root, changes and deletes can come from different instants (or from the middle of an update), so the change set does not belong to the root it is returned with")
	}
	engine.Instrs(f, func(in ssa.Instruction) {
		switch x := in.(type) {
		case *ssa.Call:
			if x.Call.IsInvoke() && (x.Call.Method.Name() == "GetChanges" || x.Call.Method.Name() == "GetDeletes") {
				check(x, "the collector's "+x.Call.Method.Name()+"()")
			}
			if sc := x.Call.StaticCallee(); sc != nil && recvNamed(sc) == "MerklePatriciaTrie" && sc.Name() == "GetRoot" {
				check(x, "the root (through GetRoot, which locks on its own)")
			}
		case *ssa.UnOp:
			if fld := fieldLoadOf(x); fld != nil && fld.Name() == "root" && x.Op == token.MUL {
				check(x, "the root")
			}
		}
	})
	if n < 3 {
		r.Anchor(rule, fmt.Errorf("unresolved anchor: %d reads in MerklePatriciaTrie.GetChanges", n))
	}
}

// mptLockDiscipline: the guarded-by discipline and the single-critical-section
// rule of the state trie, for the sequential properties whose operations are
// exposed to concurrent callers all the same (a mutating operation that works
// on a root it read outside its critical section loses another writer's
// update: the root no longer follows the content).
func mptLockDiscipline(r *engine.Run) *engine.LockWorld {
	const rule = "LOCK-mpt"
	entries := mptEntries(r, rule)
	w := checkGuards(r, rule, entries, mptOwners, mptGuards)
	r.Min(rule, 60)
	orderCritical(r, w)
	return w
}

// readsField: g loads the named field of its receiver.
func readsField(g *ssa.Function, name string) bool {
	if g == nil || len(g.Blocks) == 0 {
		return false
	}
	found := false
	engine.Instrs(g, func(in ssa.Instruction) {
		if fa, ok := in.(*ssa.FieldAddr); ok && len(g.Params) > 0 && fa.X == ssa.Value(g.Params[0]) {
			if fld := engine.FieldOf(fa); fld != nil && fld.Name() == name {
				found = true
			}
		}
	})
	return found
}

func takesTrieLock(g *ssa.Function) bool {
	found := false
	engine.Instrs(g, func(in ssa.Instruction) {
		if c, ok := in.(*ssa.Call); ok {
			if sc := c.Call.StaticCallee(); sc != nil && sc.Name() == "Lock" && len(c.Call.Args) > 0 && engine.MutexKey(c.Call.Args[0]) == "MerklePatriciaTrie.mutex" {
				found = true
			}
		}
	})
	return found
}

func touchesRootField(g *ssa.Function) bool {
	found := false
	engine.Instrs(g, func(in ssa.Instruction) {
		if fa, ok := in.(*ssa.FieldAddr); ok && isNamed(fa.X.Type(), pkgUtil, "MerklePatriciaTrie") && engine.FieldOf(fa).Name() == "root" {
			found = true
		}
		if c, ok := in.(*ssa.Call); ok {
			if sc := c.Call.StaticCallee(); sc != nil && recvNamed(sc) == "MerklePatriciaTrie" && sc.Object() != nil && sc.Object().Exported() && readsField(sc, "root") && sc.Name() != "Delete" && sc.Name() != "Insert" {
				found = true
			}
		}
	})
	return found
}
