package rules

import (
	"fmt"

	"golang.org/x/tools/go/ssa"

	"verif/sa/engine"
)

func init() {
	register(&Check{ID: "C16", Pkgs: []string{pkgUtil}, Run: runC16})
}

var mptOwners = map[string]bool{"MerklePatriciaTrie": true, "MemoryNodeDB": true, "LevelNodeDB": true, "ChangeCollector": true}

var mptGuards = guardTable{
	"MerklePatriciaTrie.mutex":           {kind: "mutex"},
	"MerklePatriciaTrie.root":            {kind: "lock", lock: "MerklePatriciaTrie.mutex", reason: "root key: read lock for lookups, write lock for updates"},
	"MerklePatriciaTrie.db":              {kind: "immutable", reason: "set by the constructor only (SetNodeDB rebases the LevelNodeDB instead)"},
	"MerklePatriciaTrie.ChangeCollector": {kind: "immutable", reason: "set by the constructor only; the collector has its own lock"},
	"MerklePatriciaTrie.Version":         {kind: "immutable", reason: "written only by SetVersion (atomic), which is outside the property's operation set; the operations read it"},
	"MerklePatriciaTrie.missingNodeKeys": {kind: "lock", lock: "MerklePatriciaTrie.missingMu", reason: "appended by lookups that run under the trie's read lock, so it needs its own mutex"},
	"MerklePatriciaTrie.missingMu":       {kind: "mutex"},
	"MerklePatriciaTrie.cache":           {kind: "immutable", reason: "set by the constructor only; the transaction cache has its own lock"},
	"MerklePatriciaTrie.deleteNodes":     {kind: "lock", lock: "MerklePatriciaTrie.mutex", reason: "appended by MergeDB, read by GetDeletes"},

	"MemoryNodeDB.Nodes": {kind: "lock", lock: "MemoryNodeDB.mutex", reason: "plain map"},
	"MemoryNodeDB.mutex": {kind: "mutex"},

	"LevelNodeDB.mutex":            {kind: "mutex"},
	"LevelNodeDB.current":          {kind: "lock", lock: "LevelNodeDB.mutex", reason: "rewritten by RebaseCurrentDB"},
	"LevelNodeDB.prev":             {kind: "lock", lock: "LevelNodeDB.mutex", reason: "rewritten by SetPrev/RebaseCurrentDB"},
	"LevelNodeDB.version":          {kind: "lock", lock: "LevelNodeDB.mutex", reason: "rewritten when a child is merged, read by GetDBVersion"},
	"LevelNodeDB.DeletedNodes":     {kind: "lock", lock: "LevelNodeDB.mutex", reason: "plain map"},
	"LevelNodeDB.PropagateDeletes": {kind: "immutable", reason: "set by the constructor only"},

	"ChangeCollector.startRoot": {kind: "immutable", reason: "set by the constructor only"},
	"ChangeCollector.Changes":   {kind: "lock", lock: "ChangeCollector.mutex", reason: "plain map"},
	"ChangeCollector.Deletes":   {kind: "lock", lock: "ChangeCollector.mutex", reason: "plain map"},
	"ChangeCollector.mutex":     {kind: "mutex"},
}

// mptOps is the property's operation set on one trie (plus the other exported
// read accessors); SetVersion is deliberately not in it.
var mptOps = []string{"Insert", "Delete", "GetNodeValue", "GetNodeValueRaw", "Iterate", "IterateFrom", "GetChanges", "GetDeletes",
	"GetChangeCount", "SaveChanges", "GetRoot", "HasMissingNodes", "GetMissingNodeKeys", "GetAllMissingNodes", "MergeMPTChanges",
	"MergeChanges", "MergeDB", "Validate", "PrettyPrint", "GetNodeDB", "SetNodeDB", "GetVersion", "Cache"}

func mptEntries(r *engine.Run, rule string) []*ssa.Function {
	var entries []*ssa.Function
	for _, m := range mptOps {
		if f := r.Fn(rule, pkgUtil, "MerklePatriciaTrie", m); f != nil {
			entries = append(entries, f)
		}
	}
	entries = append(entries, exportedEntries(r, rule, pkgUtil, map[string]bool{"MemoryNodeDB": true, "LevelNodeDB": true, "ChangeCollector": true})...)
	return entries
}

func runC16(r *engine.Run) {
	r.Rule("LOCK-mpt", "guarded-by discipline over every function reachable from the trie operations named in the property and from the exported methods of MemoryNodeDB/LevelNodeDB/ChangeCollector: root, deleteNodes, the stores' maps and level links and the collector's maps are accessed only with their owner's mutex held in the required mode (interprocedural must-lockset; writes need the write lock), constructor-only fields are never rewritten; `go` bodies start with nothing held")
	r.Rule("ORDER-critical", "Insert, Delete, MergeChanges and MergeDB acquire the trie's write lock before the first read of the root and keep it (deferred unlock) until after the last root update: each mutating operation is a single critical section")
	r.NotDec = append(r.NotDec, "linearizability of histories (needs executions)", "SetVersion concurrent with operations (outside the property's operation set)")
	const rule = "LOCK-mpt"
	entries := mptEntries(r, rule)
	tableComplete(r, rule, pkgUtil, mptOwners, mptGuards)
	w := checkGuards(r, rule, entries, mptOwners, mptGuards)
	r.Min(rule, 60)
	orderCritical(r, w)
}

func orderCritical(r *engine.Run, w *engine.LockWorld) {
	const rule = "ORDER-critical"
	for _, m := range []string{"Insert", "Delete", "MergeChanges", "MergeDB"} {
		f := r.Fn(rule, pkgUtil, "MerklePatriciaTrie", m)
		if f == nil {
			continue
		}
		// exactly one Lock on the trie mutex; unlock only by defer; all root
		// accesses (direct or through callees) after it
		var locks []ssa.Instruction
		explicitUnlock := false
		deferred := false
		engine.Instrs(f, func(in ssa.Instruction) {
			c, ok := in.(ssa.CallInstruction)
			if !ok {
				return
			}
			sc := c.Common().StaticCallee()
			if sc == nil || len(c.Common().Args) == 0 || engine.MutexKey(c.Common().Args[0]) != "MerklePatriciaTrie.mutex" {
				return
			}
			switch sc.Name() {
			case "Lock":
				locks = append(locks, in)
			case "Unlock":
				if _, isDefer := in.(*ssa.Defer); isDefer {
					deferred = true
				} else {
					explicitUnlock = true
				}
			}
		})
		if len(locks) != 1 || explicitUnlock || !deferred {
			// Insert delegates to Delete on some paths before locking: those paths take the lock in Delete
			r.Fail(rule, fn(f), r.P.Pos(f.Pos()), fmt.Sprintf("expected exactly one write-lock acquisition released by defer (found %d locks, explicit unlock=%v, deferred unlock=%v): the operation is not one critical section", len(locks), explicitUnlock, deferred))
			continue
		}
		// every call into the trie's own mutating helpers and every root access is dominated by the Lock
		good := true
		detail := ""
		engine.Instrs(f, func(in ssa.Instruction) {
			touches := false
			switch x := in.(type) {
			case *ssa.FieldAddr:
				if isNamed(x.X.Type(), pkgUtil, "MerklePatriciaTrie") && engine.FieldOf(x).Name() == "root" {
					touches = true
				}
			case *ssa.Call:
				if sc := x.Call.StaticCallee(); sc != nil && recvNamed(sc) == "MerklePatriciaTrie" && sc.Object() != nil && !sc.Object().Exported() {
					touches = true
				}
			}
			if touches && !engine.InstrDominates(locks[0], in) {
				good = false
				detail = "root access or internal helper call at " + r.P.Pos(in.Pos()) + " is not dominated by the write-lock acquisition"
			}
		})
		r.Check(good, rule, fn(f), r.P.Pos(locks[0].Pos()), "one write-lock acquisition dominating every root access and internal helper call, released by defer",
			"the mutating operation reads or updates trie state outside its critical section: "+detail)
	}
}
