package rules

import (
	"fmt"
	"go/token"
	"go/types"
	"sort"
	"strings"

	"golang.org/x/tools/go/ssa"

	"verif/sa/engine"
)

// Shape rules of the weighted trie's two rebuilding walks (insert, delete).
//
// The walks split a nibble key while they descend: one nibble selects a child
// slot, a shared-prefix node consumes len(n.key) nibbles, a split consumes the
// common prefix plus one nibble on either side. Whether the trie stays a map
// (C09) depends on each of these splits being made at one position: the slot a
// subtree is filed under must be the nibble its key remainder skips, a
// shared-prefix node may only be descended when its whole key matched, a merge
// must concatenate exactly the keys of the two nodes it fuses, and the weights
// must be folded with the right operator. Every clause below is a necessary
// condition that is visible in the shape of the code; the numeric equalities
// themselves (total weight = sum of the live weights) are not decided.
//
// Roles are found by type and position (key = last []byte parameter, node =
// first Node parameter, payload = last Node parameter), never by name.

// ---- small structural helpers -------------------------------------------------

func stripConv(v ssa.Value) ssa.Value {
	for {
		switch x := v.(type) {
		case *ssa.Convert:
			v = x.X
			continue
		case *ssa.ChangeType:
			v = x.X
			continue
		}
		return v
	}
}

// loadOfField: v = *(&base.field)
func loadOfField(v ssa.Value) (base ssa.Value, field string, ok bool) {
	ld, isLd := v.(*ssa.UnOp)
	if !isLd || ld.Op != token.MUL {
		return nil, "", false
	}
	fa, isFA := ld.X.(*ssa.FieldAddr)
	if !isFA {
		return nil, "", false
	}
	fld := engine.FieldOf(fa)
	if fld == nil {
		return nil, "", false
	}
	return fa.X, fld.Name(), true
}

// loadOfIndex: v = *(&arr[idx])
func loadOfIndex(v ssa.Value) (arr, idx ssa.Value, ok bool) {
	ld, isLd := v.(*ssa.UnOp)
	if !isLd || ld.Op != token.MUL {
		return nil, nil, false
	}
	ia, isIA := ld.X.(*ssa.IndexAddr)
	if !isIA {
		return nil, nil, false
	}
	return ia.X, ia.Index, true
}

// childrenOf: arr is &X.Children (a pointer to the slot array of X)
func childrenOf(arr ssa.Value) (ssa.Value, bool) {
	fa, ok := arr.(*ssa.FieldAddr)
	if !ok {
		return nil, false
	}
	p, ok := fa.X.Type().Underlying().(*types.Pointer)
	if !ok {
		return nil, false
	}
	st, ok := p.Elem().Underlying().(*types.Struct)
	if !ok || fa.Field >= st.NumFields() {
		return nil, false
	}
	if a, ok := st.Field(fa.Field).Type().Underlying().(*types.Array); ok && isNodeIfaceW(a.Elem()) {
		return fa.X, true
	}
	return nil, false
}

// sameBytes: the same byte-slice expression (the same value, or two loads of the
// same field of the same object).
func sameBytes(a, b ssa.Value) bool {
	if a == b {
		return true
	}
	ba, fa, oka := loadOfField(a)
	bb, fb, okb := loadOfField(b)
	return oka && okb && ba == bb && fa == fb
}

func sameIndex(a, b ssa.Value) bool {
	if a == b {
		return true
	}
	if ca, ok := intConst(a); ok {
		cb, ok2 := intConst(b)
		return ok2 && ca == cb
	}
	aa, ia, oka := loadOfIndex(a)
	ab, ib, okb := loadOfIndex(b)
	if oka && okb {
		return sameBytes(aa, ab) && sameIndex(ia, ib)
	}
	return false
}

// succOf: l == j+1
func succOf(l, j ssa.Value) bool {
	if cl, ok := intConst(l); ok {
		cj, ok2 := intConst(j)
		return ok2 && cl == cj+1
	}
	if b, ok := l.(*ssa.BinOp); ok && b.Op == token.ADD {
		if c, ok := intConst(b.Y); ok && c == 1 && sameIndex(b.X, j) {
			return true
		}
		if c, ok := intConst(b.X); ok && c == 1 && sameIndex(b.Y, j) {
			return true
		}
	}
	return false
}

type wWalk struct {
	f                 *ssa.Function // the function analysed: the walk itself or a helper that stands for one of its arms
	root              *ssa.Function // the walk function (recursive calls target it)
	key, node, value  ssa.Value     // roles in f (nil when f has no such parameter)
	iKey, iNode, iVal int           // argument positions in calls of root
	calls             []*ssa.Call   // calls of root made in f
}

func lastBytesParam(f *ssa.Function) ssa.Value {
	var out ssa.Value
	for i, p := range f.Params {
		if i == 0 && f.Signature.Recv() != nil {
			continue
		}
		if isByteSlice(p.Type()) {
			out = p
		}
	}
	return out
}

func newWalk(r *engine.Run, rule, name string) *wWalk {
	ws := walks(r, rule, name)
	if len(ws) == 0 {
		return nil
	}
	return ws[0]
}

// walks: the walk function and the helpers that stand for one of its arms. A
// helper is a repository function of the same package that the walk calls with
// its position node (or a type-asserted view of it) or its payload and whose
// results it returns as its own (same result types): extracting an arm into a
// method must not hide the arm from the rules. The first element is the walk.
func walks(r *engine.Run, rule, name string) []*wWalk {
	root := wfn(r, rule, name)
	if root == nil {
		return nil
	}
	rk, rn, rv := lastBytesParam(root), paramRole(root, "node"), paramRole(root, "value")
	iKey, iNode, iVal := -1, -1, -1
	for i, p := range root.Params {
		switch ssa.Value(p) {
		case rk:
			iKey = i
		case rn:
			iNode = i
		case rv:
			iVal = i
		}
	}
	if rk == nil || rn == nil || iKey < 0 || iNode < 0 {
		r.Anchor(rule, fmt.Errorf("unresolved anchor: key/node parameters of %s", fn(root)))
		return nil
	}
	mk := func(f *ssa.Function) *wWalk {
		w := &wWalk{f: f, root: root, iKey: iKey, iNode: iNode, iVal: iVal}
		if f == root {
			w.key, w.node, w.value = rk, rn, rv
		} else {
			w.key, w.node, w.value = lastBytesParam(f), paramRole(f, "node"), paramRole(f, "value")
			if w.value == nil && w.node != nil {
				// a helper with two Node parameters: position first, payload last; with one: the position
				var nodes []ssa.Value
				for i, p := range f.Params {
					if i == 0 && f.Signature.Recv() != nil {
						continue
					}
					if isNodeIfaceW(p.Type()) {
						nodes = append(nodes, p)
					}
				}
				if len(nodes) >= 2 {
					w.value = nodes[len(nodes)-1]
				}
			}
		}
		engine.Instrs(f, func(in ssa.Instruction) {
			if c, ok := in.(*ssa.Call); ok && c.Call.StaticCallee() == root {
				w.calls = append(w.calls, c)
			}
		})
		return w
	}
	out := []*wWalk{mk(root)}
	seen := map[*ssa.Function]bool{root: true}
	derived := func(v ssa.Value) bool {
		v = stripConv(v)
		if v == rn || (rv != nil && v == rv) {
			return true
		}
		if src := typeAssertSource(v); src != nil && src == rn {
			return true
		}
		if mi, ok := v.(*ssa.MakeInterface); ok {
			if src := typeAssertSource(mi.X); src != nil && src == rn {
				return true
			}
		}
		return false
	}
	sameResults := func(g *ssa.Function) bool {
		a, b := root.Signature.Results(), g.Signature.Results()
		if a.Len() != b.Len() {
			return false
		}
		for i := 0; i < a.Len(); i++ {
			if !types.Identical(a.At(i).Type(), b.At(i).Type()) {
				return false
			}
		}
		return true
	}
	engine.Instrs(root, func(in ssa.Instruction) {
		c, ok := in.(*ssa.Call)
		if !ok {
			return
		}
		g := c.Call.StaticCallee()
		if g == nil || seen[g] || len(g.Blocks) == 0 || g.Pkg != root.Pkg || !sameResults(g) {
			return
		}
		takes := false
		for _, a := range c.Call.Args {
			if derived(a) {
				takes = true
			}
		}
		if !takes {
			return
		}
		seen[g] = true
		r.Touch(g)
		out = append(out, mk(g))
	})
	return out
}

func allWalks(r *engine.Run, rule string, names ...string) []*wWalk {
	var out []*wWalk
	for _, n := range names {
		out = append(out, walks(r, rule, n)...)
	}
	return out
}

func extractOf(c *ssa.Call, i int) *ssa.Extract {
	for _, ref := range engine.Referrers(c) {
		if ex, ok := ref.(*ssa.Extract); ok && ex.Index == i {
			return ex
		}
	}
	return nil
}

// prefixCalls: calls of a two-slice helper returning int (commonPrefix) on the
// walk's key and the key of shared-prefix node n.
func (w *wWalk) prefixCalls(n ssa.Value) []ssa.Value {
	var out []ssa.Value
	engine.Instrs(w.f, func(in ssa.Instruction) {
		c, ok := in.(*ssa.Call)
		if !ok || c.Call.IsInvoke() || c.Call.StaticCallee() == nil || c.Call.StaticCallee() == w.f || len(c.Call.Args) != 2 {
			return
		}
		if b, ok := c.Type().Underlying().(*types.Basic); !ok || b.Kind() != types.Int {
			return
		}
		hasKey, hasNKey := false, false
		for _, a := range c.Call.Args {
			if a == w.key {
				hasKey = true
			}
			if b, fld, ok := loadOfField(a); ok && b == n && isByteSlice(a.Type()) {
				_ = fld
				hasNKey = true
			}
		}
		if hasKey && hasNKey {
			out = append(out, c)
		}
	})
	return out
}

func isLenOfField(v ssa.Value, n ssa.Value) bool {
	c, ok := v.(*ssa.Call)
	if !ok {
		return false
	}
	b, ok := c.Call.Value.(*ssa.Builtin)
	if !ok || b.Name() != "len" {
		return false
	}
	base, _, ok := loadOfField(c.Call.Args[0])
	return ok && base == n && isByteSlice(c.Call.Args[0].Type())
}

func isLenOf(v ssa.Value, x ssa.Value) bool {
	c, ok := v.(*ssa.Call)
	if !ok {
		return false
	}
	b, ok := c.Call.Value.(*ssa.Builtin)
	return ok && b.Name() == "len" && c.Call.Args[0] == x
}

func oneOf(v ssa.Value, set []ssa.Value) bool {
	for _, x := range set {
		if x == v {
			return true
		}
	}
	return false
}

// wholeKeyMatched: on every feasible path to block b, the common prefix of the
// walk's key and n's key tested equal to (or not shorter than) len(n.key).
func (w *wWalk) wholeKeyMatched(b *ssa.BasicBlock, n ssa.Value, ps []ssa.Value) bool {
	facts, ok := engine.FactsOn(w.f, b)
	if !ok {
		return false
	}
	for _, ft := range facts {
		switch ft.Kind {
		case "eq":
			if ft.Truth && (oneOf(ft.A, ps) && isLenOfField(ft.B, n) || oneOf(ft.B, ps) && isLenOfField(ft.A, n)) {
				return true
			}
		case "lt":
			if !ft.Truth && oneOf(ft.A, ps) && isLenOfField(ft.B, n) {
				return true
			}
		}
	}
	return false
}

// ---- AGREE-slot ----------------------------------------------------------------

func agreeSlot(r *engine.Run, rule string) {
	n := 0
	for _, w := range allWalks(r, rule, "insert", "delete") {
		name := w.root.Name()
		_ = name
		o := ord{}
		for _, c := range w.calls {
			karg := c.Call.Args[w.iKey]
			if karg == w.key {
				continue // the resolved node is walked with the same key
			}
			cons := o.next(fn(w.f) + "|descent")
			pos := r.P.Pos(c.Pos())
			sl, ok := karg.(*ssa.Slice)
			if !ok || sl.High != nil || sl.Max != nil || sl.Low == nil {
				n++
				r.Fail(rule, cons, pos, "the key handed to the recursive walk is not a suffix K[l:] of a key being split: the child is built for a key that is not the remainder of the one it is filed under")
				continue
			}
			type slot struct {
				base, idx ssa.Value
				what      string
			}
			var slots []slot
			if arr, idx, ok := loadOfIndex(c.Call.Args[w.iNode]); ok {
				if base, ok := childrenOf(arr); ok {
					slots = append(slots, slot{base, idx, "the slot descended into"})
				}
			}
			if ex := extractOf(c, 1); ex != nil {
				for _, ref := range engine.Referrers(ex) {
					st, ok := ref.(*ssa.Store)
					if !ok || st.Val != ssa.Value(ex) {
						continue
					}
					if ia, ok := st.Addr.(*ssa.IndexAddr); ok {
						if base, ok := childrenOf(ia.X); ok {
							slots = append(slots, slot{base, ia.Index, "the slot the rebuilt child is stored in"})
						}
					}
				}
			}
			if len(slots) == 0 {
				continue // descent below a shared-prefix node: DOM-shortmatch
			}
			n++
			bad := ""
			for _, s := range slots {
				arr, j, ok := loadOfIndex(s.idx)
				if !ok || !sameBytes(arr, sl.X) {
					bad = s.what + " is not selected by a nibble of the key whose remainder is passed down"
					break
				}
				if !succOf(sl.Low, j) {
					bad = s.what + " is selected by nibble [" + strings.TrimPrefix(engine.ValKey(j), "c:") + "] but the remainder passed down starts at [" + strings.TrimPrefix(engine.ValKey(sl.Low), "c:") + "]: the nibble that selects the slot must be exactly the one the remainder skips"
					break
				}
				if s.base != slots[0].base || !sameIndex(s.idx, slots[0].idx) {
					bad = "the rebuilt child is stored in another slot than the one descended into"
					break
				}
			}
			r.Check(bad == "", rule, cons, pos, "slot = K[l-1], remainder = K[l:], same slot for descent and link-back",
				bad+": keys below this branch are stored under a slot that their own nibbles do not lead to, so lookups, proofs and later updates miss them")
		}
	}
	if n < 4 {
		r.Anchor(rule, fmt.Errorf("unresolved anchor: only %d slot descents found in insert/delete", n))
	}
}

// ---- DOM-shortmatch -------------------------------------------------------------

func domShortMatch(r *engine.Run, rule string) {
	n := 0
	for _, w := range allWalks(r, rule, "insert", "delete") {
		name := w.root.Name()
		_ = name
		o := ord{}
		for _, c := range w.calls {
			base, fld, ok := loadOfField(c.Call.Args[w.iNode])
			if !ok || !isNamedPtr(base.Type(), "shortNode") {
				continue
			}
			_ = fld
			n++
			cons := o.next(fn(w.f) + "|descent below shared prefix")
			pos := r.P.Pos(c.Pos())
			ps := w.prefixCalls(base)
			sl, ok := c.Call.Args[w.iKey].(*ssa.Slice)
			if !ok || sl.X != w.key || sl.High != nil || sl.Low == nil {
				r.Fail(rule, cons, pos, "the key passed below the shared-prefix node is not the walk's key with the node's key cut off the front")
				continue
			}
			if !(isLenOfField(sl.Low, base) || oneOf(sl.Low, ps)) {
				r.Fail(rule, cons, pos, "the remainder passed below the shared-prefix node does not start after len(node key) nibbles")
				continue
			}
			r.Check(w.wholeKeyMatched(c.Block(), base, ps), rule, cons, pos, "reached only where commonPrefix(node key, key) tested equal to / not below len(node key)",
				"the walk descends below a shared-prefix node on a path where the node's whole key was not established to be a prefix of the walked key: a key that diverges inside the shared prefix is inserted below it / deleted from below it, i.e. another key's entry is overwritten or removed")
		}
	}
	if n < 2 {
		r.Anchor(rule, fmt.Errorf("unresolved anchor: only %d descents below shared-prefix nodes found", n))
	}
}

func isNamedPtr(t types.Type, name string) bool {
	p, ok := t.Underlying().(*types.Pointer)
	if !ok {
		return false
	}
	nm := namedOf(p.Elem())
	return nm != nil && nm.Obj().Name() == name
}

// ---- DOM-deletematch -------------------------------------------------------------

// weightSource: the node whose weight v is (Weight() call on it or a load of its
// weight field).
func weightSource(v ssa.Value) ssa.Value {
	v = stripConv(v)
	if c, ok := v.(*ssa.Call); ok {
		if c.Call.IsInvoke() && c.Call.Method.Name() == "Weight" {
			return c.Call.Value
		}
		if sc := c.Call.StaticCallee(); sc != nil && sc.Name() == "Weight" && len(c.Call.Args) == 1 {
			return c.Call.Args[0]
		}
	}
	if b, fld, ok := loadOfField(v); ok && fld == "weight" {
		return b
	}
	return nil
}

func domDeleteMatch(r *engine.Run, rule string) {
	n := 0
	for _, w := range walks(r, rule, "delete") {
		o := ord{}
		for _, ret := range engine.Returns(w.f) {
			if len(ret.Results) != 3 || !nilConst(ret.Results[1]) || !nilConst(ret.Results[2]) {
				continue
			}
			n++
			cons := o.next(fn(w.f) + "|removal")
			pos := r.P.Pos(ret.Pos())
			src := weightSource(ret.Results[0])
			switch {
			case src != nil && isNamedPtr(src.Type(), "valueNode"):
				r.OK(rule, cons, pos, "a value node is removed where the key is used up (its arm) and its own weight is reported")
			case src != nil && isNamedPtr(src.Type(), "shortNode"):
				ps := w.prefixCalls(src)
				whole := w.wholeKeyMatched(ret.Block(), src, ps)
				all := false
				if facts, ok := engine.FactsOn(w.f, ret.Block()); ok {
					for _, ft := range facts {
						if ft.Kind == "eq" && ft.Truth && (oneOf(ft.A, ps) && isLenOf(ft.B, w.key) || oneOf(ft.B, ps) && isLenOf(ft.A, w.key)) {
							all = true
						}
					}
				}
				r.Check(whole && all, rule, cons, pos, "the shared-prefix node is removed only where the common prefix equals both len(node key) and len(key)",
					fmt.Sprintf("delete removes a shared-prefix node with its whole subtree and reports its weight on a path where the walked key was not established to equal the node's key (prefix covers node key: %v, prefix covers walked key: %v): deleting one key removes other keys, or a key that is absent removes a present one", whole, all))
			default:
				r.Fail(rule, cons, pos, "delete reports a removal (nil node, nil error) whose weight is not the weight of the value node or shared-prefix node at the position")
			}
		}
	}
	if n < 2 {
		r.Anchor(rule, fmt.Errorf("unresolved anchor: only %d removal returns found in delete", n))
	}
}

// ---- AGREE-splitpair -------------------------------------------------------------

func agreeSplitPair(r *engine.Run, rule string) {
	ws := walks(r, rule, "insert")
	if len(ws) == 0 || ws[0].value == nil || ws[0].iVal < 0 {
		if len(ws) > 0 {
			r.Anchor(rule, fmt.Errorf("unresolved anchor: payload parameter of %s", fn(ws[0].f)))
		}
		return
	}
	old, neu := 0, 0
	for _, w := range ws {
		o := ord{}
		for _, c := range w.calls {
			if !nilConst(c.Call.Args[w.iNode]) {
				continue
			}
			cons := o.next(fn(w.f) + "|split child")
			pos := r.P.Pos(c.Pos())
			sl, ok := c.Call.Args[w.iKey].(*ssa.Slice)
			if !ok {
				r.Fail(rule, cons, pos, "a child of the new branch is built for a key that is not a remainder of one of the two keys being split")
				continue
			}
			varg := c.Call.Args[w.iVal]
			if sl.X == w.key {
				neu++
				r.Check(varg == w.value, rule, cons, pos, "the walked key's remainder is paired with the new payload",
					"the child built for the remainder of the walked key does not carry the payload being inserted")
				continue
			}
			if nb, fld, ok := loadOfField(sl.X); ok && isNamedPtr(nb.Type(), "shortNode") {
				_ = fld
				old++
				vb, vf, ok := loadOfField(varg)
				r.Check(ok && vb == nb && isNodeIfaceW(varg.Type()) && vf != "", rule, cons, pos, "the existing node's key remainder is paired with the existing node's value",
					"the child built for the remainder of the existing shared-prefix key does not carry that node's own subtree: the split files the new payload (or nothing) under the old key, so the old entry is lost or duplicated")
				continue
			}
			r.Fail(rule, cons, pos, "a child of the new branch is built for a key that is neither the walked key nor the existing node's key")
		}
	}
	if old < 1 || neu < 1 {
		r.Anchor(rule, fmt.Errorf("unresolved anchor: split of a shared-prefix node in insert (children for the old key: %d, for the new key: %d)", old, neu))
	}
}

// ---- AGREE-mergekey ---------------------------------------------------------------

type kseg struct {
	whole ssa.Value // a byte slice copied in full
	b     ssa.Value // a single byte (conversions stripped)
}

func (s kseg) String() string {
	if s.whole != nil {
		if b, f, ok := loadOfField(s.whole); ok {
			return "all of " + b.Name() + "." + f
		}
		return "all of " + s.whole.Name()
	}
	return "byte(" + s.b.Name() + ")"
}

type lin struct {
	c     int64
	terms []string
}

func (l lin) key() string {
	t := append([]string(nil), l.terms...)
	sort.Strings(t)
	return fmt.Sprintf("%d+%s", l.c, strings.Join(t, "+"))
}

func bytesID(v ssa.Value) string {
	if b, f, ok := loadOfField(v); ok {
		return b.Name() + "." + f
	}
	return v.Name()
}

func parseLin(v ssa.Value) lin {
	if v == nil {
		return lin{}
	}
	if c, ok := intConst(v); ok {
		return lin{c: c}
	}
	if c, ok := v.(*ssa.Call); ok {
		if b, ok := c.Call.Value.(*ssa.Builtin); ok && b.Name() == "len" {
			return lin{terms: []string{"len(" + bytesID(c.Call.Args[0]) + ")"}}
		}
	}
	if b, ok := v.(*ssa.BinOp); ok && b.Op == token.ADD {
		x, y := parseLin(b.X), parseLin(b.Y)
		return lin{c: x.c + y.c, terms: append(append([]string(nil), x.terms...), y.terms...)}
	}
	return lin{terms: []string{"?" + v.Name()}}
}

func (l lin) plus(s kseg) lin {
	if s.whole != nil {
		return lin{c: l.c, terms: append(append([]string(nil), l.terms...), "len("+bytesID(s.whole)+")")}
	}
	return lin{c: l.c + 1, terms: l.terms}
}

// segsOf evaluates how a byte slice was put together: make+copy/element stores,
// append chains, slice literals, or another slice taken whole.
func segsOf(v ssa.Value, depth int) ([]kseg, string) {
	if depth > 6 {
		return nil, "construction too deep"
	}
	v = stripCT(v)
	switch x := v.(type) {
	case *ssa.Const:
		if x.Value == nil {
			return nil, ""
		}
	case *ssa.MakeSlice:
		type ent struct {
			off lin
			s   kseg
		}
		var ents []ent
		for _, ref := range engine.Referrers(x) {
			switch u := ref.(type) {
			case *ssa.Call:
				if b, ok := u.Call.Value.(*ssa.Builtin); ok && b.Name() == "copy" && u.Call.Args[0] == ssa.Value(x) {
					ents = append(ents, ent{lin{}, kseg{whole: u.Call.Args[1]}})
				}
			case *ssa.Slice:
				if u.X != ssa.Value(x) || u.High != nil {
					continue
				}
				for _, r2 := range engine.Referrers(u) {
					if c, ok := r2.(*ssa.Call); ok {
						if b, ok := c.Call.Value.(*ssa.Builtin); ok && b.Name() == "copy" && c.Call.Args[0] == ssa.Value(u) {
							ents = append(ents, ent{parseLin(u.Low), kseg{whole: c.Call.Args[1]}})
						}
					}
				}
			case *ssa.IndexAddr:
				if u.X != ssa.Value(x) {
					continue
				}
				for _, r2 := range engine.Referrers(u) {
					if st, ok := r2.(*ssa.Store); ok && st.Addr == ssa.Value(u) {
						ents = append(ents, ent{parseLin(u.Index), kseg{b: stripConv(st.Val)}})
					}
				}
			}
		}
		var out []kseg
		cur := lin{}
		used := make([]bool, len(ents))
		for range ents {
			found := false
			for i, e := range ents {
				if !used[i] && e.off.key() == cur.key() {
					used[i] = true
					out = append(out, e.s)
					cur = cur.plus(e.s)
					found = true
					break
				}
			}
			if !found {
				return out, "the pieces written into the new key do not follow each other without gap or overlap"
			}
		}
		if parseLin(x.Len).key() != cur.key() {
			return out, "the new key is made with length " + parseLin(x.Len).key() + " but the pieces written into it add up to " + cur.key()
		}
		return out, ""
	case *ssa.Slice:
		// slice literal: new [N]byte with element stores, sliced whole
		if al, ok := x.X.(*ssa.Alloc); ok && x.Low == nil && x.High == nil {
			m := map[int64]ssa.Value{}
			for _, ref := range engine.Referrers(al) {
				if ia, ok := ref.(*ssa.IndexAddr); ok {
					i, isC := intConst(ia.Index)
					for _, r2 := range engine.Referrers(ia) {
						if st, ok := r2.(*ssa.Store); ok && st.Addr == ssa.Value(ia) && isC {
							m[i] = stripConv(st.Val)
						}
					}
				}
			}
			var out []kseg
			for i := int64(0); i < int64(len(m)); i++ {
				b, ok := m[i]
				if !ok {
					return nil, "slice literal with a gap"
				}
				out = append(out, kseg{b: b})
			}
			return out, ""
		}
	case *ssa.Phi:
		// alternatives that extend each other (if X != nil { p = append(p, X...) }): the longest one
		var best []kseg
		for _, e := range x.Edges {
			sg, why := segsOf(e, depth+1)
			if why != "" {
				return nil, why
			}
			if len(sg) > len(best) {
				best, sg = sg, best
			}
			for i := range sg {
				if sg[i] != best[i] && !(sg[i].whole != nil && best[i].whole != nil && sameBytes(sg[i].whole, best[i].whole)) {
					return nil, "alternative constructions that do not extend each other"
				}
			}
		}
		return best, ""
	case *ssa.Call:
		// a repository helper that returns a concatenation of its parameters (concat)
		if g := x.Call.StaticCallee(); g != nil && inRepo(g) && len(g.Blocks) > 0 && depth < 4 {
			rets := engine.Returns(g)
			if len(rets) == 1 && len(rets[0].Results) == 1 {
				inner, why := segsOf(resultValue(rets[0], 0), depth+1)
				if why != "" {
					return nil, why
				}
				var out []kseg
				for _, sg := range inner {
					v := sg.whole
					if v == nil {
						v = sg.b
					}
					pi := -1
					for i, p := range g.Params {
						if ssa.Value(p) == v {
							pi = i
						}
					}
					if pi < 0 || pi >= len(x.Call.Args) {
						out = append(out, sg)
						continue
					}
					if sg.whole == nil {
						out = append(out, kseg{b: stripConv(x.Call.Args[pi])})
						continue
					}
					arg := x.Call.Args[pi]
					if nilConst(arg) {
						continue
					}
					sub, why := segsOf(arg, depth+1)
					if why != "" {
						return nil, why
					}
					out = append(out, sub...)
				}
				return out, ""
			}
		}
		if b, ok := x.Call.Value.(*ssa.Builtin); ok && b.Name() == "append" {
			base, why := segsOf(x.Call.Args[0], depth+1)
			if why != "" {
				return nil, why
			}
			// append(base, ys...) / append(base, b0, b1): the second operand is a slice
			tail := x.Call.Args[1]
			if sl, ok := tail.(*ssa.Slice); ok {
				if _, isAl := sl.X.(*ssa.Alloc); isAl {
					more, why := segsOf(tail, depth+1)
					return append(base, more...), why
				}
			}
			return append(base, kseg{whole: tail}), ""
		}
	}
	if isByteSlice(v.Type()) {
		if sl, ok := v.(*ssa.Slice); ok && sl.Low == nil && sl.High == nil {
			return []kseg{{whole: sl.X}}, ""
		}
		if sl, ok := v.(*ssa.Slice); ok && (sl.Low != nil || sl.High != nil) {
			return nil, "a part of " + bytesID(sl.X)
		}
		return []kseg{{whole: v}}, ""
	}
	return nil, "unrecognised construction"
}

func fmtSegs(s []kseg) string {
	var p []string
	for _, x := range s {
		p = append(p, x.String())
	}
	return "[" + strings.Join(p, ", ") + "]"
}

// typeAssertSource: v = x.(*T) (with or without ok) -> x
func typeAssertSource(v ssa.Value) ssa.Value {
	if ex, ok := v.(*ssa.Extract); ok && ex.Index == 0 {
		if ta, ok := ex.Tuple.(*ssa.TypeAssert); ok {
			return ta.X
		}
	}
	if ta, ok := v.(*ssa.TypeAssert); ok {
		return ta.X
	}
	return nil
}

func agreeMergeKey(r *engine.Run, rule string) {
	n := 0
	for _, w := range walks(r, rule, "delete") {
		agreeMergeKeyIn(r, rule, w, &n)
	}
	if n < 3 {
		r.Anchor(rule, fmt.Errorf("unresolved anchor: only %d key rewrites of shared-prefix nodes found in delete", n))
	}
}

func agreeMergeKeyIn(r *engine.Run, rule string, w *wWalk, np *int) {
	type fs struct {
		key, val *ssa.Store
	}
	// stores to key / value of shared-prefix nodes, grouped by (object, block)
	type ob struct {
		x ssa.Value
		b *ssa.BasicBlock
	}
	groups := map[ob]*fs{}
	var order []ob
	engine.Instrs(w.f, func(in ssa.Instruction) {
		st, ok := in.(*ssa.Store)
		if !ok {
			return
		}
		fa, ok := st.Addr.(*ssa.FieldAddr)
		if !ok || !isNamedPtr(fa.X.Type(), "shortNode") {
			return
		}
		fld := engine.FieldOf(fa)
		if fld == nil {
			return
		}
		k := ob{fa.X, st.Block()}
		g := groups[k]
		if g == nil {
			g = &fs{}
			groups[k] = g
			order = append(order, k)
		}
		switch {
		case isByteSlice(fld.Type()):
			g.key = st
		case isNodeIfaceW(fld.Type()):
			g.val = st
		}
	})
	o := ord{}
	for _, k := range order {
		g := groups[k]
		_, fresh := k.x.(*ssa.Alloc)
		// plain link-back of a rebuilt child: no key change expected
		if g.val != nil && g.key == nil {
			if sb, sf, ok := loadOfField(g.val.Val); ok && isNamedPtr(sb.Type(), "shortNode") && sb != k.x {
				_ = sf
				*np++
				r.Fail(rule, o.next(fn(w.f)+"|fused shared-prefix node"), r.P.Pos(g.val.Pos()), "a shared-prefix node takes over the value of the shared-prefix node below it without extending its key by that node's key: every key below loses the nibbles of the absorbed node")
			}
			continue
		}
		if g.key == nil {
			continue
		}
		*np++
		cons := o.next(fn(w.f) + "|fused shared-prefix node")
		pos := r.P.Pos(g.key.Pos())
		segs, why := segsOf(g.key.Val, 0)
		if why != "" {
			r.Fail(rule, cons, pos, "the key of the fused shared-prefix node is not recognisably the concatenation of the fused keys ("+why+"; recognised pieces "+fmtSegs(segs)+")")
			continue
		}
		if g.val == nil {
			r.Fail(rule, cons, pos, "the key of a shared-prefix node is rewritten ("+fmtSegs(segs)+") but its value is left as it was: the node keeps pointing at the node whose key it absorbed")
			continue
		}
		var want []kseg
		what := ""
		val := g.val.Val
		if sb, _, ok := loadOfField(val); ok && isNamedPtr(sb.Type(), "shortNode") && sb != k.x {
			// absorbs shared-prefix node sb: key must end with all of sb.key
			origin := typeAssertSource(sb)
			var prefixSeg *kseg
			if ex, ok := origin.(*ssa.Extract); ok {
				if c, ok := ex.Tuple.(*ssa.Call); ok {
					if c.Call.StaticCallee() == w.root && ex.Index == 1 && !fresh {
						if nb, _, ok := loadOfField(c.Call.Args[w.iNode]); ok && nb == k.x {
							prefixSeg = &kseg{whole: nil}
							what = "own key, then the key of the shared-prefix node that came back from below"
							// own key: any load of k.x's byte-slice field
							want = []kseg{{whole: k.x}, {whole: sb}}
						}
					} else if ex.Index == 0 && len(c.Call.Args) >= 1 {
						last := c.Call.Args[len(c.Call.Args)-1]
						if arr, idx, ok := loadOfIndex(last); ok {
							if _, ok := childrenOf(arr); ok {
								prefixSeg = &kseg{b: idx}
								what = "the slot number of the only remaining child, then that child's key"
								want = []kseg{{b: idx}, {whole: sb}}
							}
						}
					}
				}
			}
			if prefixSeg == nil {
				r.Fail(rule, cons, pos, "a shared-prefix node absorbs another one whose origin (the rebuilt child below it, or the only remaining child of a reduced branch) is not recognised")
				continue
			}
		} else if arr, idx, ok := loadOfIndex(val); ok {
			if _, ok := childrenOf(arr); ok && fresh {
				what = "the slot number of the only remaining child"
				want = []kseg{{b: idx}}
			}
		}
		if want == nil {
			r.Fail(rule, cons, pos, "the key of a shared-prefix node is rewritten ("+fmtSegs(segs)+") together with a value that is neither an absorbed shared-prefix node's value nor the only remaining child of a reduced branch")
			continue
		}
		match := len(segs) == len(want)
		if match {
			for i := range want {
				switch {
				case want[i].b != nil:
					match = match && segs[i].b != nil && segs[i].b == want[i].b
				default:
					// all of <object>.key
					b, _, ok := loadOfField(segs[i].whole)
					match = match && segs[i].whole != nil && ok && b == want[i].whole && isByteSlice(segs[i].whole.Type())
				}
			}
		}
		r.Check(match, rule, cons, pos, "new key = "+what,
			"the key of the fused shared-prefix node is "+fmtSegs(segs)+", expected "+what+": every key below the fused node is now reached by other nibbles than its own, so lookups and proofs of those keys fail and the root differs from the trie built without the detour")
	}
}

// ---- AGREE-weightop ---------------------------------------------------------------

func agreeWeightOp(r *engine.Run, rule string) {
	n := 0
	for _, w := range allWalks(r, rule, "insert", "delete") {
		name := w.root.Name()
		_ = name
		isChange := func(v ssa.Value) bool {
			ex, ok := stripConv(v).(*ssa.Extract)
			if !ok || ex.Index != 0 {
				return false
			}
			c, ok := ex.Tuple.(*ssa.Call)
			return ok && c.Call.StaticCallee() == w.root
		}
		o := ord{}
		engine.Instrs(w.f, func(in ssa.Instruction) {
			st, ok := in.(*ssa.Store)
			if !ok {
				return
			}
			fa, ok := st.Addr.(*ssa.FieldAddr)
			if !ok || !isNamedPtr(fa.X.Type(), "routingNode") {
				return
			}
			fld := engine.FieldOf(fa)
			if fld == nil || fld.Name() != "weight" {
				return
			}
			n++
			cons := o.next(fn(w.f) + "|branch weight")
			pos := r.P.Pos(st.Pos())
			b, isBin := stripConv(st.Val).(*ssa.BinOp)
			if _, fresh := fa.X.(*ssa.Alloc); fresh {
				// new branch of a split: weight of the existing node + weight of the payload
				good := false
				if isBin && b.Op == token.ADD {
					x, y := weightSource(b.X), weightSource(b.Y)
					if x != nil && y != nil && x != y {
						pay := 0
						if x == w.value || y == w.value {
							pay = 1
						}
						good = pay == 1
					}
				}
				r.Check(good, rule, cons, pos, "the new branch's weight is the sum of the existing node's weight and the payload's",
					"the weight of the branch created by a split is not Weight(existing node) + Weight(payload): the branch's weight no longer is the sum of its children's, so block numbers are mapped to the wrong owner below it")
				return
			}
			own := func(v ssa.Value) bool {
				base, f, ok := loadOfField(stripConv(v))
				return ok && base == fa.X && f == "weight"
			}
			if name == "insert" {
				good := isBin && b.Op == token.ADD && (own(b.X) && isChange(b.Y) || own(b.Y) && isChange(b.X))
				r.Check(good, rule, cons, pos, "branch weight = old weight + the child's change",
					"insert does not add the child's weight change to the branch's own weight (operator or operands differ): ancestors' weights drift from the sum of their children")
				return
			}
			good := isBin && b.Op == token.SUB && own(b.X) && isChange(b.Y)
			r.Check(good, rule, cons, pos, "branch weight = old weight - the removed weight",
				"delete does not subtract the removed weight from the branch's own weight (operator or operands differ): ancestors' weights drift from the sum of their children")
		})
		if name != "insert" || w.value == nil {
			continue
		}
		// update in place: change = Weight(payload) - Weight(existing value node)
		for _, ret := range engine.Returns(w.f) {
			if len(ret.Results) != 3 || !nilConst(ret.Results[2]) {
				continue
			}
			mi, ok := ret.Results[1].(*ssa.MakeInterface)
			if !ok || !isNamedPtr(mi.X.Type(), "valueNode") {
				continue
			}
			if _, fresh := mi.X.(*ssa.Alloc); fresh || isZero(ret.Results[0]) {
				continue
			}
			n++
			b, isBin := stripConv(ret.Results[0]).(*ssa.BinOp)
			good := isBin && b.Op == token.SUB && weightSource(b.X) == w.value && weightSource(b.Y) == mi.X
			r.Check(good, rule, o.next(fn(w.f)+"|update change"), r.P.Pos(ret.Pos()), "change = Weight(payload) - Weight(existing value)",
				"an update in place does not report Weight(payload) - Weight(existing value) as its weight change: every ancestor's weight is off by the difference")
		}
		// a new entry reports the payload's weight
		for _, ret := range engine.Returns(w.f) {
			if len(ret.Results) != 3 || !nilConst(ret.Results[2]) {
				continue
			}
			mi, ok := ret.Results[1].(*ssa.MakeInterface)
			if !ok {
				continue
			}
			if al, fresh := mi.X.(*ssa.Alloc); !fresh || !(isNamedPtr(al.Type(), "shortNode") || isNamedPtr(al.Type(), "routingNode")) {
				continue
			}
			n++
			r.Check(weightSource(ret.Results[0]) == w.value, rule, o.next(fn(w.f)+"|new entry change"), r.P.Pos(ret.Pos()), "a newly built subtree reports the payload's weight as the change",
				"insert returns a newly built node with a weight change that is not Weight(payload)")
		}
	}
	if n < 6 {
		r.Anchor(rule, fmt.Errorf("unresolved anchor: only %d weight computations found in insert/delete", n))
	}
}

// ---- DOM-reduce ------------------------------------------------------------------

func isNodeArray(v ssa.Value) bool {
	t := v.Type().Underlying()
	if p, ok := t.(*types.Pointer); ok {
		t = p.Elem().Underlying()
	}
	a, ok := t.(*types.Array)
	return ok && isNodeIfaceW(a.Elem())
}

// scanHelperCall: v is the result of a repository function that is handed the
// child array of branch base and returns an int (the remaining-children scan
// extracted into a helper).
func scanHelperCall(v ssa.Value, base ssa.Value) *ssa.Function {
	c, ok := v.(*ssa.Call)
	if !ok {
		return nil
	}
	g := c.Call.StaticCallee()
	if g == nil || !inRepo(g) || len(g.Blocks) == 0 {
		return nil
	}
	if b, ok := c.Type().Underlying().(*types.Basic); !ok || b.Kind() != types.Int {
		return nil
	}
	for _, a := range c.Call.Args {
		x := a
		if ld, ok := x.(*ssa.UnOp); ok && ld.Op == token.MUL {
			x = ld.X
		}
		if bb, ok := childrenOf(x); ok && bb == base {
			return g
		}
		if a == base {
			return g
		}
	}
	return nil
}

func domReduce(r *engine.Run, rule string) {
	n := 0
	scanFns := map[*ssa.Function]bool{}
	var scanOrder []*ssa.Function
	for _, w := range walks(r, rule, "delete") {
		if !scanFns[w.f] {
			scanFns[w.f] = true
			scanOrder = append(scanOrder, w.f)
		}
		o := ord{}
		// the branch itself is returned after a descent only where the rebuilt child
		// tested non-nil or the result of the remaining-children scan was tested
		for _, c := range w.calls {
			arr, _, ok := loadOfIndex(c.Call.Args[w.iNode])
			if !ok {
				continue
			}
			base, ok := childrenOf(arr)
			if !ok {
				continue
			}
			child := extractOf(c, 1)
			if child == nil {
				continue
			}
			for _, ret := range engine.Returns(w.f) {
				if len(ret.Results) != 3 || !nilConst(ret.Results[2]) {
					continue
				}
				mi, ok := ret.Results[1].(*ssa.MakeInterface)
				if !ok || mi.X != base || !engine.ReachableAfter(c, ret) {
					continue
				}
				n++
				good := false
				if facts, ok := engine.FactsOn(w.f, ret.Block()); ok {
					for _, ft := range facts {
						if ft.Kind == "eq" && !ft.Truth && (ft.A == ssa.Value(child) && nilConst(ft.B) || ft.B == ssa.Value(child) && nilConst(ft.A)) {
							good = true
						}
						for _, v := range []ssa.Value{ft.A, ft.B} {
							if v == nil {
								continue
							}
							if ph, ok := v.(*ssa.Phi); ok && scanPhi(ph) {
								good = true
							}
							if g := scanHelperCall(v, base); g != nil {
								good = true
								if !scanFns[g] {
									scanFns[g] = true
									scanOrder = append(scanOrder, g)
									r.Touch(g)
								}
							}
						}
					}
				}
				r.Check(good, rule, o.next(fn(w.f)+"|branch kept"), r.P.Pos(ret.Pos()), "the branch is kept only where the rebuilt child is non-nil or the number of remaining children was examined",
					"delete returns the branch after a child below it was removed without having looked at how many children remain: a branch with a single child survives, so the trie's shape (and root hash) depends on the history of updates, and a later lookup/proof walks a shape insert never builds")
			}
		}
	}
	// the scan records slot i only for a child that tested non-nil, and only while nothing was recorded
	for _, sf := range scanOrder {
		f := sf
		o := ord{}
		engine.Instrs(f, func(in ssa.Instruction) {
			ph, ok := in.(*ssa.Phi)
			if !ok || !scanPhi(ph) || loopHeadOf(ph.Block()) != ph.Block() {
				return
			}
			var none ssa.Value
			for i, e := range ph.Edges {
				if _, isC := intConst(e); isC && !ph.Block().Dominates(ph.Block().Preds[i]) {
					none = e
				}
			}
			// the values that flow into the scan variable, each with the block it comes
			// from; a merge in the loop's post block (continue / assignment) is looked through
			type inflow struct {
				v    ssa.Value
				pred *ssa.BasicBlock
			}
			var flows []inflow
			var collect func(p *ssa.Phi, depth int)
			collect = func(p *ssa.Phi, depth int) {
				for i, e := range p.Edges {
					if p2, ok := e.(*ssa.Phi); ok && p2 != ph && depth < 3 && !scanInduction(p2) {
						collect(p2, depth+1)
						continue
					}
					flows = append(flows, inflow{e, p.Block().Preds[i]})
				}
			}
			collect(ph, 0)
			for _, fl := range flows {
				e := fl.v
				if _, isC := intConst(e); isC || e == ssa.Value(ph) {
					continue
				}
				pred := fl.pred
				n++
				nonNil, first := false, false
				if facts, ok := engine.FactsOn(f, pred); ok {
					for _, ft := range facts {
						if ft.Kind != "eq" {
							continue
						}
						for _, pr := range [][2]ssa.Value{{ft.A, ft.B}, {ft.B, ft.A}} {
							if arr, idx, ok := loadOfIndex(pr[0]); ok && nilConst(pr[1]) && !ft.Truth {
								if isNodeArray(arr) && idx == e {
									nonNil = true
								}
							}
							if pr[0] == ssa.Value(ph) && none != nil && ft.Truth {
								if a, ok := intConst(pr[1]); ok {
									if b, _ := intConst(none); a == b {
										first = true
									}
								}
							}
						}
					}
				}
				r.Check(nonNil && first, rule, o.next(fn(f)+"|remaining-children scan"), r.P.Pos(ph.Pos()), "slot i is recorded only where Children[i] tested non-nil and nothing was recorded before",
					fmt.Sprintf("the scan for the only remaining child records a slot number on a path where that slot was not established to be occupied (%v) or where a slot was already recorded (%v): the branch is reduced onto an empty slot, or never reduced", nonNil, first))
			}
		})
	}
	if n < 2 {
		r.Anchor(rule, fmt.Errorf("unresolved anchor: only %d reduction sites found in delete", n))
	}
}

// scanInduction: the loop's own induction variable (i = i + 1).
func scanInduction(ph *ssa.Phi) bool {
	for _, e := range ph.Edges {
		if b, ok := e.(*ssa.BinOp); ok && (b.X == ssa.Value(ph) || b.Y == ssa.Value(ph)) {
			return true
		}
	}
	return false
}

// scanPhi: an int phi that merges constants (sentinels) with non-constant slot numbers.
func scanPhi(ph *ssa.Phi) bool {
	b, ok := ph.Type().Underlying().(*types.Basic)
	if !ok || b.Kind() != types.Int {
		return false
	}
	neg := false
	for _, e := range ph.Edges {
		// the loop's own induction variable (i = i + 1) is not a scan result
		if b, ok := e.(*ssa.BinOp); ok && (b.X == ssa.Value(ph) || b.Y == ssa.Value(ph)) {
			return false
		}
		if c, ok := intConst(e); ok && c < 0 {
			neg = true
		}
		if p2, ok := e.(*ssa.Phi); ok && p2 != ph {
			for _, e2 := range p2.Edges {
				if c, ok := intConst(e2); ok && c < 0 {
					neg = true
				}
			}
		}
	}
	return neg
}

// ---- AGREE-slotpos: the position-indexed walk (markToCollect) ---------------------------

// markToCollect walks with the whole key and a position instead of cutting the
// key. The same agreement is needed: the slot is selected by key[pos] and the
// walk continues at pos+1; below a shared-prefix node n it continues at
// pos+len(n.key), and only where n.key tested equal to key[pos:pos+len(n.key)].
func agreeSlotPos(r *engine.Run, rule string) {
	w := newWalk(r, rule, "markToCollect")
	if w == nil {
		return
	}
	var pos ssa.Value
	iPos := -1
	for i, p := range w.f.Params {
		if b, ok := p.Type().Underlying().(*types.Basic); ok && b.Kind() == types.Int {
			pos, iPos = p, i
			break
		}
	}
	if pos == nil {
		r.Anchor(rule, fmt.Errorf("unresolved anchor: position parameter of %s", fn(w.f)))
		return
	}
	addOf := func(v ssa.Value) (ssa.Value, bool) { // v == pos + x  ->  x
		b, ok := v.(*ssa.BinOp)
		if !ok || b.Op != token.ADD {
			return nil, false
		}
		if b.X == pos {
			return b.Y, true
		}
		if b.Y == pos {
			return b.X, true
		}
		return nil, false
	}
	n := 0
	o := ord{}
	for _, c := range w.calls {
		parg := c.Call.Args[iPos]
		if parg == pos && c.Call.Args[w.iKey] == w.key {
			continue // the resolved node is walked at the same position
		}
		n++
		cons := o.next(fn(w.f) + "|descent")
		p := r.P.Pos(c.Pos())
		if c.Call.Args[w.iKey] != w.key {
			r.Fail(rule, cons, p, "the walk continues with another key than the one it was given")
			continue
		}
		step, ok := addOf(parg)
		if !ok {
			r.Fail(rule, cons, p, "the walk does not continue at its own position plus the nibbles consumed here")
			continue
		}
		narg := c.Call.Args[w.iNode]
		if arr, idx, ok := loadOfIndex(narg); ok {
			if _, ok := childrenOf(arr); ok {
				karr, kidx, ok2 := loadOfIndex(idx)
				one, isOne := intConst(step)
				r.Check(ok2 && karr == w.key && kidx == pos && isOne && one == 1, rule, cons, p, "slot = key[pos], continues at pos+1",
					"the branch slot descended into is not key[pos] with the walk continuing at pos+1: the nodes marked for export are not the ones on the requested key's path, so the exported partial trie does not contain the key it was asked for")
				continue
			}
		}
		if nb, _, ok := loadOfField(narg); ok && isNamedPtr(nb.Type(), "shortNode") {
			good := isLenOfField(step, nb)
			matched := false
			if facts, okf := engine.FactsOn(w.f, c.Block()); okf {
				for _, ft := range facts {
					if ft.Kind != "bool" || !ft.Truth {
						continue
					}
					eq, ok := ft.A.(*ssa.Call)
					if ok && extCalleeIs(eq, "bytes", "", "HasPrefix") && len(eq.Call.Args) == 2 {
						// bytes.HasPrefix(key[pos:], node key)
						kb, _, okk := loadOfField(eq.Call.Args[1])
						sl, oks := eq.Call.Args[0].(*ssa.Slice)
						if okk && kb == nb && oks && sl.X == w.key && sl.Low == pos && sl.High == nil {
							matched = true
						}
						continue
					}
					if !ok || !isBytesEq(eq) || len(eq.Call.Args) != 2 {
						continue
					}
					for _, pr := range [][2]ssa.Value{{eq.Call.Args[0], eq.Call.Args[1]}, {eq.Call.Args[1], eq.Call.Args[0]}} {
						kb, _, okk := loadOfField(pr[0])
						sl, oks := pr[1].(*ssa.Slice)
						if !okk || kb != nb || !oks || sl.X != w.key || sl.Low != pos || sl.High == nil {
							continue
						}
						if hs, ok := addOf(sl.High); ok && isLenOfField(hs, nb) {
							matched = true
						}
					}
				}
			}
			r.Check(good && matched, rule, cons, p, "continues at pos+len(node key), only where node key == key[pos:pos+len(node key)] tested true",
				fmt.Sprintf("the walk continues below a shared-prefix node at a position other than pos+len(node key) (%v) or without having established that the node's key matches the requested key at this position (%v): nodes off the requested key's path are marked and the path of the requested key is cut short", !good, !matched))
			continue
		}
		r.Fail(rule, cons, p, "a descent whose position is neither a branch slot nor a shared-prefix node's value")
	}
	if n < 2 {
		r.Anchor(rule, fmt.Errorf("unresolved anchor: only %d descents found in markToCollect", n))
	}
}
