package rules

import (
	"fmt"
	"go/ast"
	"go/constant"
	"go/token"
	"go/types"
	"strings"

	"golang.org/x/tools/go/ssa"

	"verif/sa/engine"
)

func init() {
	register(&Check{ID: "C18", Pkgs: []string{pkgCur}, Run: runC18})
}

func runC18(r *engine.Run) {
	r.Rule("ARITH", "every integer + - * / % , every numeric conversion and every call with a panicking precondition (decimal.NewFromFloat) in the hand-written functions of core/currency is discharged by an accepted guard idiom holding on every feasible path (wrap check on an operand, subtrahend<=minuend, post-division check of a product with a non-zero factor, non-zero divisor, sign / NaN / 2^64 rejection before float->uint64, NaN and Inf rejection before NewFromFloat); an instruction with no accepted guard is reported, an unknown operator form is undecided")
	r.Rule("AGREE-op", "each named helper computes its result with the operator its name promises, on its parameters in order (AddCoin c+b, MinusCoin c-b, MultCoin c*b, DistributeCoin c/d and c%d, the Int64/Float64 variants delegate to them after conversion); ToZCN returns the Float64() of a decimal and does no floating-point arithmetic or integer-to-float conversion itself (scaling by 10^10 happens in decimal arithmetic, as in ParseZCN); ParseZCN converts its argument with decimal.NewFromFloat (the exact shortest decimal) and with no other decimal constructor, so the too-many-decimals rejection stays reachable")
	r.Rule("ARG-finite", "every helper taking a float64 reports success (nil error) only by returning the result of another float helper applied to a value computed from that argument, or on paths where math.IsNaN(argument) tested false and the argument is bounded from above (IsInf false or a comparison with a constant): no shortcut returns an amount for NaN or +Inf; when the argument is folded into another value before it is handed on (a product), it tested not negative first")
	r.Rule("PURE-acyclic", "the static call graph of the hand-written functions of core/currency has no cycle: no helper can recurse without bound (none panics, none overflows the stack)")
	r.Rule("CONST-exact", "in core/currency an integer constant that is handed to a float64 parameter or converted to float64 (typed syntax tree: identifiers, selectors and literals as call or conversion arguments) is exactly representable as a float64: MaxInt64 and MaxUint64 are not, and a bound built from the rounded value lets amounts past the real limit through")
	r.NotDec = append(r.NotDec, "decimal-exponent semantics of ParseZCN/ToZCN (library arithmetic)", "format-then-parse round trip")
	r.Assume = append(r.Assume, "Coin(e.IntPart()) in ParseZCN: range established through the decimal API (Sign()==-1 and GreaterThan(maxDecimal) rejections must hold on every path), not through integer guards")
	arith(r)
	agreeOp(r)
	argFinite(r, "ARG-finite")
	zcnDecimal(r, "AGREE-op")
	pureAcyclic(r, "PURE-acyclic")
	constExact(r, "CONST-exact")
	r.Rule("ERR-range", "a float helper of core/currency (float64 parameter or result) returns one of the package's own errors only behind accepted rejection forms: comparisons against a constant (sign, range, an error tested against nil), math.IsNaN / math.IsInf, or a predicate of the decimal library; a rejection entered through a comparison of two computed values (a round-trip equality) turns amounts whose IEEE result is in range into errors")
	errRange(r, "ERR-range")
}

// pureAcyclic: the currency helpers terminate: the static call graph of the
// package's hand-written functions has no cycle (helpers that forward to each
// other for a transformed argument recurse without bound when the
// transformation has a fixed point, e.g. -MinInt64).
func pureAcyclic(r *engine.Run, rule string) {
	fns := map[*ssa.Function]bool{}
	var order []*ssa.Function
	for _, f := range funcsOfPkg(r, pkgCur) {
		if len(f.Blocks) == 0 || isGenFile(r, f.Pos()) {
			continue
		}
		fns[f] = true
		order = append(order, f)
	}
	callees := func(f *ssa.Function) []*ssa.Function {
		var out []*ssa.Function
		engine.Instrs(f, func(in ssa.Instruction) {
			if c, ok := in.(ssa.CallInstruction); ok {
				if g := c.Common().StaticCallee(); g != nil && fns[g] {
					out = append(out, g)
				}
			}
		})
		return out
	}
	state := map[*ssa.Function]int{}
	cycle := ""
	var visit func(f *ssa.Function, path []string)
	visit = func(f *ssa.Function, path []string) {
		if state[f] == 2 || cycle != "" {
			return
		}
		if state[f] == 1 {
			cycle = strings.Join(append(path, fn(f)), " -> ")
			return
		}
		state[f] = 1
		for _, g := range callees(f) {
			visit(g, append(path, fn(f)))
		}
		state[f] = 2
	}
	for _, f := range order {
		visit(f, nil)
	}
	if len(order) < 8 {
		r.Anchor(rule, fmt.Errorf("unresolved anchor: only %d hand-written functions in core/currency", len(order)))
		return
	}
	r.Check(cycle == "", rule, "core/currency|call graph", "core/currency/currency.go", fmt.Sprintf("no cycle among the %d hand-written functions", len(order)),
		"the currency helpers call each other in a cycle ("+cycle+"): a helper that forwards a transformed argument to its counterpart recurses without bound when the transformation maps a value to itself (-MinInt64 == MinInt64), and the process dies with a stack overflow instead of returning an error")
}

func isGenFile(r *engine.Run, pos token.Pos) bool {
	return strings.HasSuffix(r.P.Fset.Position(pos).Filename, "_gen.go")
}

func isUnsigned(t types.Type) bool {
	b, ok := t.Underlying().(*types.Basic)
	return ok && b.Info()&types.IsUnsigned != 0
}
func isInteger(t types.Type) bool {
	b, ok := t.Underlying().(*types.Basic)
	return ok && b.Info()&types.IsInteger != 0
}
func isFloatT(t types.Type) bool {
	b, ok := t.Underlying().(*types.Basic)
	return ok && b.Info()&types.IsFloat != 0
}

func constVal(v ssa.Value) constant.Value {
	if c, ok := v.(*ssa.Const); ok {
		return c.Value
	}
	return nil
}

func sameVal(a, b ssa.Value) bool { return engine.ValKey(a) == engine.ValKey(b) }

var two64 = constant.Shift(constant.MakeInt64(1), token.SHL, 64)

// factsAt returns the facts at the block of in (nil, false when undecidable).
func factsAt(f *ssa.Function, in ssa.Instruction) ([]engine.Fact, bool) {
	return engine.FactsOn(f, in.Block())
}

// nonZero: facts establish v != 0.
func nonZero(facts []engine.Fact, v ssa.Value) (bool, string) {
	if c := constVal(v); c != nil {
		if constant.Sign(c) != 0 {
			return true, "non-zero constant"
		}
		return false, ""
	}
	for _, ft := range facts {
		switch ft.Kind {
		case "eq":
			// v == 0 is false
			if !ft.Truth {
				if sameVal(ft.A, v) && isZero(ft.B) || sameVal(ft.B, v) && isZero(ft.A) {
					return true, "dominated by the rejection of a zero divisor"
				}
				// product != 0 implies factor != 0
				for _, side := range [][2]ssa.Value{{ft.A, ft.B}, {ft.B, ft.A}} {
					if m, ok := side[0].(*ssa.BinOp); ok && m.Op == token.MUL && isZero(side[1]) && (sameVal(m.X, v) || sameVal(m.Y, v)) {
						return true, "factor of a product established non-zero"
					}
				}
			}
		case "lt":
			// 0 < v true
			if ft.Truth && isZero(ft.A) && sameVal(ft.B, v) {
				return true, "dominated by v > 0"
			}
		}
	}
	return false, ""
}

func isZero(v ssa.Value) bool {
	c := constVal(v)
	return c != nil && (c.Kind() == constant.Int || c.Kind() == constant.Float) && constant.Sign(c) == 0
}

// usesOf returns the instructions consuming v, looking through conversions.
func usesOf(v ssa.Value, skip func(ssa.Instruction) bool) []ssa.Instruction {
	var out []ssa.Instruction
	for _, ref := range engine.Referrers(v) {
		if skip != nil && skip(ref) {
			continue
		}
		out = append(out, ref)
	}
	return out
}

func arith(r *engine.Run) {
	const rule = "ARITH"
	for _, f := range funcsOfPkg(r, pkgCur) {
		if len(f.Blocks) == 0 || isGenFile(r, f.Pos()) || f.Name() == "init" {
			continue
		}
		r.Touch(f)
		o := ord{}
		engine.Instrs(f, func(in ssa.Instruction) {
			switch x := in.(type) {
			case *ssa.UnOp:
				// -a of a signed integer wraps for the minimum value (-MinInt64 == MinInt64)
				if x.Op != token.SUB || !isInteger(x.Type()) || isUnsigned(x.Type()) || constVal(x.X) != nil {
					return
				}
				c := o.next(fn(f) + "|neg")
				good := false
				if facts, ok := factsAt(f, x); ok {
					for _, ft := range facts {
						// a != Min (eq false) or Min < a (lt true) with a constant minimum
						if ft.Kind == "eq" && !ft.Truth && (sameVal(ft.A, x.X) && constVal(ft.B) != nil || sameVal(ft.B, x.X) && constVal(ft.A) != nil) {
							good = true
						}
						if ft.Kind == "lt" && ft.Truth && sameVal(ft.B, x.X) && constVal(ft.A) != nil && constant.Sign(constVal(ft.A)) < 0 {
							good = true
						}
					}
				}
				r.Check(good, rule, c, r.P.Pos(x.Pos()), "negation reached only where the operand tested different from / above the minimum value",
					"a signed integer is negated without excluding the minimum value: -MinInt64 is MinInt64 again, so a helper that forwards -a to its counterpart never terminates or computes with a still-negative amount")
			case *ssa.BinOp:
				if !isInteger(x.Type()) {
					return
				}
				if constVal(x.X) != nil && constVal(x.Y) != nil {
					return
				}
				pos := r.P.Pos(x.Pos())
				switch x.Op {
				case token.ADD:
					c := o.next(fn(f) + "|add")
					if !isUnsigned(x.Type()) {
						r.Undec(rule, c, pos, "signed addition: no accepted guard idiom")
						return
					}
					// every consumer of the sum sits behind (sum < operand) == false
					isGuard := func(i ssa.Instruction) bool {
						b, ok := i.(*ssa.BinOp)
						return ok && (b.Op == token.LSS || b.Op == token.GEQ || b.Op == token.GTR || b.Op == token.LEQ)
					}
					good, why := allUsesGuarded(f, x, isGuard, func(facts []engine.Fact) (bool, string) {
						for _, ft := range facts {
							if ft.Kind == "lt" && !ft.Truth && sameVal(ft.A, x) && (sameVal(ft.B, x.X) || sameVal(ft.B, x.Y)) {
								return true, "wrap check sum<operand rejected"
							}
						}
						return false, ""
					})
					r.Check(good, rule, c, pos, why, "unsigned sum is used without a wrap check against an operand (silently wrapped amount): "+why)
				case token.SUB:
					c := o.next(fn(f) + "|sub")
					if !isUnsigned(x.Type()) {
						r.Undec(rule, c, pos, "signed subtraction: no accepted guard idiom")
						return
					}
					facts, ok := factsAt(f, x)
					good := false
					if ok {
						for _, ft := range facts {
							if ft.Kind == "lt" && !ft.Truth && sameVal(ft.A, x.X) && sameVal(ft.B, x.Y) {
								good = true
							}
						}
					}
					r.Check(good, rule, c, pos, "dominated by the rejection of subtrahend > minuend", "unsigned subtraction not dominated by a rejection of subtrahend > minuend (wraps below zero)")
				case token.MUL:
					c := o.next(fn(f) + "|mul")
					if !isUnsigned(x.Type()) {
						r.Undec(rule, c, pos, "signed multiplication: no accepted guard idiom")
						return
					}
					isGuard := func(i ssa.Instruction) bool {
						b, ok := i.(*ssa.BinOp)
						if !ok {
							return false
						}
						switch b.Op {
						case token.QUO, token.EQL, token.NEQ:
							return true
						}
						return false
					}
					good, why := allUsesGuarded(f, x, isGuard, func(facts []engine.Fact) (bool, string) {
						for _, ft := range facts {
							if ft.Kind != "eq" || !ft.Truth {
								continue
							}
							for _, side := range [][2]ssa.Value{{ft.A, ft.B}, {ft.B, ft.A}} {
								q, ok := side[0].(*ssa.BinOp)
								if !ok || q.Op != token.QUO || !sameVal(q.X, x) {
									continue
								}
								var other ssa.Value
								if sameVal(q.Y, x.X) {
									other = x.Y
								} else if sameVal(q.Y, x.Y) {
									other = x.X
								} else {
									continue
								}
								if !sameVal(side[1], other) {
									continue
								}
								// the divisor must be known non-zero independently of the product
								for _, f2 := range facts {
									if f2.Kind == "eq" && !f2.Truth && (sameVal(f2.A, q.Y) && isZero(f2.B) || sameVal(f2.B, q.Y) && isZero(f2.A)) {
										return true, "post-division check product/x == y with x != 0 established on the operand"
									}
									if f2.Kind == "lt" && f2.Truth && isZero(f2.A) && sameVal(f2.B, q.Y) {
										return true, "post-division check product/x == y with x > 0"
									}
								}
							}
						}
						return false, ""
					})
					r.Check(good, rule, c, pos, why, "unsigned product is used on a path without the post-division check over a non-zero factor (a product that wraps to exactly 0, e.g. 2^32*2^32, is accepted): "+why)
				case token.QUO, token.REM:
					c := o.next(fn(f) + "|" + map[token.Token]string{token.QUO: "div", token.REM: "rem"}[x.Op])
					facts, ok := factsAt(f, x)
					good, why := false, ""
					if ok {
						good, why = nonZero(facts, x.Y)
					}
					r.Check(good, rule, c, pos, why, "divisor is not established non-zero on every path (integer division by zero panics)")
				case token.SHL, token.SHR, token.AND, token.OR, token.XOR, token.AND_NOT:
					r.Undec(rule, o.next(fn(f)+"|"+x.Op.String()), pos, "bit operation on an amount: no accepted guard idiom")
				}
			case *ssa.Convert:
				from, to := x.X.Type(), x.Type()
				pos := r.P.Pos(x.Pos())
				if constVal(x.X) != nil {
					return
				}
				switch {
				case isInteger(from) && !isUnsigned(from) && isUnsigned(to):
					c := o.next(fn(f) + "|int->uint")
					if call := decimalIntPart(x.X); call != nil {
						good, why := decimalRange(f, x, call)
						r.Check(good, rule, c, pos, why, "Coin(e.IntPart()) without both decimal-level rejections (negative sign, greater than MaxInt64) on every path: "+why)
						return
					}
					facts, ok := factsAt(f, x)
					good := false
					if ok {
						for _, ft := range facts {
							if ft.Kind == "lt" && !ft.Truth && sameVal(ft.A, x.X) && isZero(ft.B) {
								good = true
							}
						}
					}
					r.Check(good, rule, c, pos, "dominated by the rejection of a negative argument", "signed value converted to an unsigned amount without rejecting negatives (wraps to a huge amount)")
				case isUnsigned(from) && isInteger(to) && !isUnsigned(to):
					c := o.next(fn(f) + "|uint->int")
					// pre-check c > MaxInt64 rejected, or post-check b < 0 rejected on all uses
					facts, ok := factsAt(f, x)
					good, why := false, ""
					if ok {
						for _, ft := range facts {
							if ft.Kind == "lt" && !ft.Truth && sameVal(ft.B, x.X) {
								if cv := constVal(ft.A); cv != nil && constant.Compare(cv, token.LEQ, constant.MakeInt64(1<<63-1)) {
									good, why = true, "pre-check: argument > MaxInt64 rejected"
								}
							}
						}
					}
					if !good {
						isGuard := func(i ssa.Instruction) bool { b, ok := i.(*ssa.BinOp); return ok && b.Op == token.LSS }
						good, why = allUsesGuarded(f, x, isGuard, func(facts []engine.Fact) (bool, string) {
							for _, ft := range facts {
								if ft.Kind == "lt" && !ft.Truth && sameVal(ft.A, x) && isZero(ft.B) {
									return true, "post-check: negative result rejected"
								}
							}
							return false, ""
						})
					}
					r.Check(good, rule, c, pos, why, "unsigned amount converted to a signed integer without a range check (values above MaxInt64 become negative)")
				case isFloatT(from) && isInteger(to):
					c := o.next(fn(f) + "|float->int")
					facts, ok := factsAt(f, x)
					good, why := false, "too many paths"
					if ok {
						good, why = floatToUintSafe(facts, x.X, isUnsigned(to))
					}
					r.Check(good, rule, c, pos, why, "float converted to an integer amount without rejecting "+why+" (result is implementation-defined: silently wrong amount)")
				case isInteger(from) && isFloatT(to), isFloatT(from) && isFloatT(to):
					// always defined (IEEE rounding)
				case isInteger(from) && isInteger(to):
					if sizeOf(to) < sizeOf(from) {
						r.Undec(rule, o.next(fn(f)+"|narrow"), pos, "narrowing integer conversion: no accepted guard idiom")
					}
				}
			case *ssa.Call:
				if extCalleeIs(x, "shopspring/decimal", "", "NewFromFloat") || extCalleeIs(x, "shopspring/decimal", "", "NewFromFloat32") {
					c := o.next(fn(f) + "|decimal.NewFromFloat")
					facts, ok := factsAt(f, x)
					good, why := false, "too many paths"
					if ok {
						good, why = finiteFloat(f, x, facts, x.Call.Args[0])
					}
					if cv := constVal(x.Call.Args[0]); cv != nil && (cv.Kind() == constant.Float || cv.Kind() == constant.Int) {
						good, why = true, "constant argument "+cv.String()+" (a finite number)"
					}
					r.CallSites++
					r.Check(good, rule, c, r.P.Pos(x.Pos()), why, "decimal.NewFromFloat panics on NaN and ±Inf and the call is not dominated by their rejection: "+why)
				}
			}
		})
	}
	r.Min(rule, 8)
}

func sizeOf(t types.Type) int64 {
	return types.SizesFor("gc", "amd64").Sizeof(t)
}

// allUsesGuarded: every consumer of v (other than the guard computations
// themselves) sits in a block whose facts satisfy ok.
func allUsesGuarded(f *ssa.Function, v ssa.Value, isGuard func(ssa.Instruction) bool, ok func([]engine.Fact) (bool, string)) (bool, string) {
	uses := usesOf(v, isGuard)
	// look through conversions / extracts of the value
	var all []ssa.Instruction
	for _, u := range uses {
		if cv, isConv := u.(*ssa.Convert); isConv {
			all = append(all, usesOf(cv, isGuard)...)
			continue
		}
		all = append(all, u)
	}
	if len(all) == 0 {
		return true, "result unused"
	}
	why := ""
	for _, u := range all {
		facts, dec := engine.FactsOn(f, u.Block())
		if !dec {
			return false, "too many paths"
		}
		g, w := ok(facts)
		if !g {
			return false, fmt.Sprintf("use at line %d is reached without the guard", f.Prog.Fset.Position(u.Pos()).Line)
		}
		why = w
	}
	return true, fmt.Sprintf("%s on all %d uses", why, len(all))
}

// floatToUintSafe: facts reject negative, NaN and too-large values of a.
func floatToUintSafe(facts []engine.Fact, a ssa.Value, unsigned bool) (bool, string) {
	notNaN, nonNeg, bounded := false, false, false
	limit := two64
	if !unsigned {
		limit = constant.Shift(constant.MakeInt64(1), token.SHL, 63)
	}
	// a float made from an unsigned integer is neither negative nor NaN
	if cv, ok := a.(*ssa.Convert); ok && isUnsigned(cv.X.Type()) {
		notNaN, nonNeg = true, true
	}
	for _, ft := range facts {
		switch ft.Kind {
		case "eq":
			if ft.Truth && sameVal(ft.A, a) && sameVal(ft.B, a) {
				notNaN = true
			}
		case "bool":
			if c, ok := ft.A.(*ssa.Call); ok && !ft.Truth && extCalleeIs(c, "math", "", "IsNaN") && sameVal(c.Call.Args[0], a) {
				notNaN = true
			}
		case "lt", "le":
			involves := sameVal(ft.A, a) || sameVal(ft.B, a)
			if involves && ft.Truth {
				notNaN = true // any comparison with NaN is false
			}
		}
	}
	for _, ft := range facts {
		if ft.Kind != "lt" && ft.Kind != "le" {
			continue
		}
		// lower bound
		if sameVal(ft.A, a) && isZero(ft.B) && ft.Kind == "lt" && !ft.Truth && notNaN {
			nonNeg = true // !(a < 0) and not NaN
		}
		if isZero(ft.A) && sameVal(ft.B, a) && ft.Kind == "le" && ft.Truth {
			nonNeg = true // 0 <= a
		}
		// upper bound
		if sameVal(ft.A, a) && ft.Truth {
			if k := constVal(ft.B); k != nil {
				if ft.Kind == "lt" && constant.Compare(k, token.LEQ, limit) { // a < K, K <= 2^64
					bounded = true
				}
				if ft.Kind == "le" && constant.Compare(k, token.LSS, limit) { // a <= K, K < 2^64
					bounded = true
				}
			}
		}
		if sameVal(ft.B, a) && !ft.Truth && notNaN {
			if k := constVal(ft.A); k != nil {
				if ft.Kind == "le" && constant.Compare(k, token.LEQ, limit) { // !(K <= a) => a < K
					bounded = true
				}
				if ft.Kind == "lt" && constant.Compare(k, token.LSS, limit) { // !(K < a) => a <= K < 2^64
					bounded = true
				}
			}
		}
	}
	var missing []string
	if !nonNeg {
		missing = append(missing, "negative values")
	}
	if !notNaN {
		missing = append(missing, "NaN")
	}
	if !bounded {
		missing = append(missing, "values >= 2^64 (incl. +Inf)")
	}
	if len(missing) == 0 {
		return true, "negative, NaN and >= 2^64 all rejected on every path"
	}
	return false, strings.Join(missing, ", ")
}

// finiteFloat: facts reject NaN and both infinities of a.
func finiteFloat(f *ssa.Function, at ssa.Instruction, facts []engine.Fact, a ssa.Value) (bool, string) {
	notNaN, notPInf, notNInf := false, false, false
	for _, ft := range facts {
		switch ft.Kind {
		case "bool":
			c, ok := ft.A.(*ssa.Call)
			if !ok || ft.Truth {
				continue
			}
			if extCalleeIs(c, "math", "", "IsNaN") && sameVal(c.Call.Args[0], a) {
				notNaN = true
			}
			if extCalleeIs(c, "math", "", "IsInf") && sameVal(c.Call.Args[0], a) {
				if k := constVal(c.Call.Args[1]); k != nil {
					switch constant.Sign(k) {
					case 0:
						notPInf, notNInf = true, true
					case 1:
						notPInf = true
					case -1:
						notNInf = true
					}
				}
			}
		case "eq":
			if ft.Truth && sameVal(ft.A, a) && sameVal(ft.B, a) {
				notNaN = true
			}
		case "lt", "le":
			if ft.Truth && (sameVal(ft.A, a) || sameVal(ft.B, a)) {
				notNaN = true
				if sameVal(ft.A, a) && constVal(ft.B) != nil {
					notPInf = true // a < K or a <= K with finite K
				}
				if sameVal(ft.B, a) && constVal(ft.A) != nil {
					notNInf = true // K < a or K <= a
				}
			}
		}
	}
	for _, ft := range facts { // negated comparisons once NaN is excluded
		if (ft.Kind == "lt" || ft.Kind == "le") && !ft.Truth && notNaN {
			if sameVal(ft.A, a) && constVal(ft.B) != nil {
				notNInf = true // !(a < K) => a >= K
			}
			if sameVal(ft.B, a) && constVal(ft.A) != nil {
				notPInf = true // !(K < a) => a <= K
			}
		}
	}
	var missing []string
	if !notNaN {
		missing = append(missing, "NaN")
	}
	if !notPInf {
		missing = append(missing, "+Inf")
	}
	if !notNInf {
		missing = append(missing, "-Inf")
	}
	if len(missing) == 0 {
		return true, "NaN and both infinities rejected on every path"
	}
	return false, "not rejected: " + strings.Join(missing, ", ")
}

func decimalIntPart(v ssa.Value) *ssa.Call {
	if c, ok := v.(*ssa.Call); ok && extCalleeIs(c, "shopspring/decimal", "Decimal", "IntPart") {
		return c
	}
	return nil
}

// decimalRange: named exception for ParseZCN. The converted decimal e must be
// rejected when greater than maxDecimal (GreaterThan(e, maxDecimal) false on
// every path) and the decimal it was shifted from rejected when negative.
func decimalRange(f *ssa.Function, at ssa.Instruction, intPart *ssa.Call) (bool, string) {
	facts, ok := engine.FactsOn(f, at.Block())
	if !ok {
		return false, "too many paths"
	}
	e := intPart.Call.Args[0]
	gt, sign := false, false
	for _, ft := range facts {
		if ft.Kind == "bool" && !ft.Truth {
			if c, ok := ft.A.(*ssa.Call); ok && extCalleeIs(c, "shopspring/decimal", "Decimal", "GreaterThan") && c.Call.Args[0] == e {
				if ld, ok := c.Call.Args[1].(*ssa.UnOp); ok {
					if g, ok := ld.X.(*ssa.Global); ok && g.Name() == "maxDecimal" {
						gt = true
					}
				}
			}
		}
		if ft.Kind == "eq" && !ft.Truth {
			for _, side := range [][2]ssa.Value{{ft.A, ft.B}, {ft.B, ft.A}} {
				if c, ok := side[0].(*ssa.Call); ok && extCalleeIs(c, "shopspring/decimal", "Decimal", "Sign") {
					if k := constVal(side[1]); k != nil && constant.Sign(k) < 0 {
						sign = true
					}
				}
			}
		}
		if ft.Kind == "lt" && !ft.Truth { // Sign() < 0 rejected
			if c, ok := ft.A.(*ssa.Call); ok && extCalleeIs(c, "shopspring/decimal", "Decimal", "Sign") && isZero(ft.B) {
				sign = true
			}
			// the float the decimal was made from tested not negative (NaN is rejected before NewFromFloat: ARITH)
			if isZero(ft.B) && decimalOfFloat(e, ft.A) {
				sign = true
			}
		}
	}
	if gt && sign {
		return true, "named exception: decimal-level rejections of a negative sign and of values above maxDecimal hold on every path"
	}
	return false, fmt.Sprintf("GreaterThan(maxDecimal) rejected=%v, negative sign rejected=%v", gt, sign)
}

// decimalOfFloat: decimal value d was made by decimal.NewFromFloat(x) (possibly shifted / multiplied afterwards).
func decimalOfFloat(d ssa.Value, x ssa.Value) bool {
	seen := map[ssa.Value]bool{}
	var walk func(v ssa.Value) bool
	walk = func(v ssa.Value) bool {
		if v == nil || seen[v] {
			return false
		}
		seen[v] = true
		c, ok := v.(*ssa.Call)
		if !ok {
			if ph, ok := v.(*ssa.Phi); ok {
				for _, e := range ph.Edges {
					if !walk(e) {
						return false
					}
				}
				return len(ph.Edges) > 0
			}
			return false
		}
		if extCalleeIs(c, "shopspring/decimal", "", "NewFromFloat") {
			return sameVal(c.Call.Args[0], x)
		}
		// a method of Decimal applied to such a decimal (Mul, Shift): sign-preserving scalings by a positive constant
		if sc := c.Call.StaticCallee(); sc != nil && sc.Signature.Recv() != nil && (sc.Name() == "Mul" || sc.Name() == "Shift") && len(c.Call.Args) > 0 {
			return walk(c.Call.Args[0])
		}
		return false
	}
	return walk(d)
}

// agreeOp: operator table of the named helpers.
func agreeOp(r *engine.Run) {
	const rule = "AGREE-op"
	type spec struct {
		name string
		op   token.Token
	}
	for _, s := range []spec{{"AddCoin", token.ADD}, {"MinusCoin", token.SUB}, {"MultCoin", token.MUL}} {
		f := r.Fn(rule, pkgCur, "", s.name)
		if f == nil {
			continue
		}
		var ops []*ssa.BinOp
		engine.Instrs(f, func(in ssa.Instruction) {
			if b, ok := in.(*ssa.BinOp); ok && b.Op == s.op && b.X == ssa.Value(f.Params[0]) && b.Y == ssa.Value(f.Params[1]) {
				ops = append(ops, b)
			}
		})
		good := len(ops) > 0
		// every success return (nil error) returns that result
		for _, ret := range engine.Returns(f) {
			if len(ret.Results) != 2 {
				continue
			}
			if c, ok := ret.Results[1].(*ssa.Const); ok && c.Value == nil {
				match := false
				for _, b := range ops {
					if ret.Results[0] == ssa.Value(b) {
						match = true
					}
				}
				// a constant-zero success result is accepted only when a factor is zero (MultCoin)
				if !match && !(s.op == token.MUL && isZero(ret.Results[0])) {
					good = false
				}
			}
		}
		r.Check(good, rule, fn(f), r.P.Pos(f.Pos()), "success result is "+s.op.String()+" of the two parameters in order",
			"the helper's success result is not the "+s.op.String()+" of its parameters in order")
	}
	if f := r.Fn(rule, pkgCur, "", "DistributeCoin"); f != nil {
		var q, m *ssa.BinOp
		engine.Instrs(f, func(in ssa.Instruction) {
			if b, ok := in.(*ssa.BinOp); ok && b.X == ssa.Value(f.Params[0]) {
				if b.Op == token.QUO {
					q = b
				}
				if b.Op == token.REM {
					m = b
				}
			}
		})
		good := q != nil && m != nil && q.Y == m.Y
		if good {
			// divisor is the converted second parameter
			ex, ok := q.Y.(*ssa.Extract)
			good = ok
			if ok {
				c, ok := ex.Tuple.(*ssa.Call)
				good = ok && staticCalleeIs(c, pkgCur, "", "Int64ToCoin") && c.Call.Args[0] == ssa.Value(f.Params[1])
			}
		}
		if good {
			found := false
			for _, ret := range engine.Returns(f) {
				if len(ret.Results) == 3 && ret.Results[0] == ssa.Value(q) && ret.Results[1] == ssa.Value(m) {
					found = true
				}
			}
			good = found
		}
		r.Check(good, rule, fn(f), r.P.Pos(f.Pos()), "returns (c / d, c % d) with d the converted share count", "DistributeCoin does not return (c / d, c % d) of its amount and converted share count")
	}
	for _, d := range []struct{ name, conv, to string }{{"AddInt64", "Int64ToCoin", "AddCoin"}, {"MinusInt64", "Int64ToCoin", "MinusCoin"}} {
		f := r.Fn(rule, pkgCur, "", d.name)
		if f == nil {
			continue
		}
		good := false
		engine.Instrs(f, func(in ssa.Instruction) {
			c, ok := in.(*ssa.Call)
			if !ok || !staticCalleeIs(c, pkgCur, "", d.to) {
				return
			}
			if c.Call.Args[0] != ssa.Value(f.Params[0]) {
				return
			}
			if ex, ok := c.Call.Args[1].(*ssa.Extract); ok && ex.Index == 0 {
				if cc, ok := ex.Tuple.(*ssa.Call); ok && staticCalleeIs(cc, pkgCur, "", d.conv) && cc.Call.Args[0] == ssa.Value(f.Params[1]) {
					good = true
				}
			}
		})
		r.Check(good, rule, fn(f), r.P.Pos(f.Pos()), "delegates to "+d.to+"(c, "+d.conv+"(a))", "the signed variant does not delegate to "+d.to+" with its converted argument in order")
	}
	r.Min(rule, 6)
}

// argFinite: a helper that takes a float64 never reports success without having
// looked at whether that argument is a number: every return with a nil error is
// either the result of another such helper applied to a value computed from the
// argument (NaN and infinities propagate through the arithmetic), or is reached
// only on paths where math.IsNaN(arg) tested false and the argument was bounded
// from above (math.IsInf false, or a comparison with a constant).
func argFinite(r *engine.Run, rule string) {
	n := 0
	var floatFuncs []*ssa.Function
	isFloatParam := func(p *ssa.Parameter) bool {
		b, ok := p.Type().Underlying().(*types.Basic)
		return ok && b.Kind() == types.Float64
	}
	for _, f := range funcsOfPkg(r, pkgCur) {
		if f.Parent() != nil || isGenFile(r, f.Pos()) || len(f.Blocks) == 0 {
			continue
		}
		for _, p := range f.Params {
			if isFloatParam(p) {
				floatFuncs = append(floatFuncs, f)
				break
			}
		}
	}
	isFloatFunc := func(g *ssa.Function) bool {
		for _, x := range floatFuncs {
			if x == g {
				return true
			}
		}
		return false
	}
	for _, f := range floatFuncs {
		res := f.Signature.Results()
		if res.Len() == 0 || res.At(res.Len()-1).Type().String() != "error" {
			continue
		}
		for _, p := range f.Params {
			if !isFloatParam(p) {
				continue
			}
			o := ord{}
			for _, ret := range engine.Returns(f) {
				ev := resultValue(ret, len(ret.Results)-1)
				why := ""
				if !nilConst(ev) {
					// delegation, or an error return
					if ex, ok := ev.(*ssa.Extract); ok {
						if c, ok := ex.Tuple.(*ssa.Call); ok && c.Call.StaticCallee() != nil && isFloatFunc(c.Call.StaticCallee()) {
							dep := false
							for _, a := range c.Call.Args {
								if dependsOn(a, p) {
									dep = true
								}
							}
							n++
							r.Check(dep, rule, o.next(fn(f)+"|"+p.Name()+"|delegates"), r.P.Pos(ret.Pos()), "returns the result of "+fn(c.Call.StaticCallee())+" applied to a value computed from the argument",
								"the result comes from a float helper that is not given a value computed from this argument")
							// the sign of the argument itself is lost in a product: it must have been tested here
							direct := false
							for _, a := range c.Call.Args {
								if a == ssa.Value(p) {
									direct = true
								}
							}
							if !direct {
								nonNeg := false
								if facts, ok := engine.FactsOn(f, ret.Block()); ok {
									for _, ft := range facts {
										if (ft.Kind == "lt" || ft.Kind == "le") && ft.A == ssa.Value(p) && !ft.Truth {
											if k, isK := ft.B.(*ssa.Const); isK && k.Value != nil && k.Value.ExactString() == "0" {
												nonNeg = true
											}
										}
									}
								}
								n++
								r.Check(nonNeg, rule, o.next(fn(f)+"|"+p.Name()+"|sign"), r.P.Pos(ret.Pos()), "the argument tested not negative before it enters the product handed on",
									"a negative float argument is not rejected before it is folded into another value (a zero coin times a negative factor is -0, which passes the callee's sign test): the helper returns an amount for a negative argument")
							}
						}
					}
					continue
				}
				n++
				facts, ok := engine.FactsOn(f, ret.Block())
				nanTested, bounded := false, false
				if ok {
					for _, ft := range facts {
						switch ft.Kind {
						case "bool":
							if c, isCall := ft.A.(*ssa.Call); isCall && !ft.Truth && len(c.Call.Args) > 0 && c.Call.Args[0] == ssa.Value(p) {
								if extCalleeIs(c, "math", "", "IsNaN") {
									nanTested = true
								}
								if extCalleeIs(c, "math", "", "IsInf") {
									bounded = true
								}
							}
						case "lt", "le":
							_, aConst := ft.A.(*ssa.Const)
							_, bConst := ft.B.(*ssa.Const)
							if ft.B == ssa.Value(p) && aConst && !ft.Truth { // !(K < p) / !(K <= p)
								bounded = true
							}
							if ft.A == ssa.Value(p) && bConst && ft.Truth { // p < K / p <= K
								bounded = true
							}
						}
					}
				}
				why = fmt.Sprintf("IsNaN tested false: %v, bounded from above: %v", nanTested, bounded)
				r.Check(nanTested && bounded, rule, o.next(fn(f)+"|"+p.Name()+"|success"), r.P.Pos(ret.Pos()), "success is reached only after the argument tested a number and bounded from above",
					"the helper reports success on a path that never established that its float argument is a number within range ("+why+"): NaN or +Inf yields an amount with a nil error")
			}
		}
	}
	if n < 3 {
		r.Anchor(rule, fmt.Errorf("unresolved anchor: %d returns of float-taking helpers found", n))
	}
}

// zcnDecimal: the coin <-> token conversion scales by 10^10 in decimal
// arithmetic: ToZCN contains no floating-point arithmetic of its own (the only
// float it returns comes out of the decimal library), mirroring ParseZCN, which
// shifts a decimal. A float division rounds twice (uint64 -> float64, then the
// quotient) and format-then-parse stops being the identity above 2^53.
func zcnDecimal(r *engine.Run, rule string) {
	f := r.Fn(rule, pkgCur, "Coin", "ToZCN")
	if f == nil {
		return
	}
	bad := ""
	engine.Instrs(f, func(in ssa.Instruction) {
		switch x := in.(type) {
		case *ssa.BinOp:
			if b, ok := x.Type().Underlying().(*types.Basic); ok && b.Info()&types.IsFloat != 0 {
				switch x.Op {
				case token.ADD, token.SUB, token.MUL, token.QUO:
					bad = "floating-point " + x.Op.String() + " at " + r.P.Pos(x.Pos())
				}
			}
		case *ssa.Convert:
			if b, ok := x.Type().Underlying().(*types.Basic); ok && b.Info()&types.IsFloat != 0 {
				if sb, ok := x.X.Type().Underlying().(*types.Basic); ok && sb.Info()&types.IsInteger != 0 {
					bad = "integer-to-float conversion at " + r.P.Pos(x.Pos())
				}
			}
		}
	})
	fromDecimal := false
	for _, ret := range engine.Returns(f) {
		if len(ret.Results) != 2 || !nilConst(resultValue(ret, 1)) {
			continue
		}
		if ex, ok := resultValue(ret, 0).(*ssa.Extract); ok {
			if c, ok := ex.Tuple.(*ssa.Call); ok && extCalleeIs(c, "shopspring/decimal", "Decimal", "Float64") {
				fromDecimal = true
			}
		}
	}
	// ParseZCN: the decimal whose exponent decides "too many decimals" is the
	// exact shortest-round-trip decimal of the argument (decimal.NewFromFloat).
	// A constructor that rounds at a fixed scale can never have more than that
	// many places, so ErrTooManyDecimals becomes unreachable and an amount with
	// more than ten decimals is silently rounded.
	if g := r.Fn(rule, pkgCur, "", "ParseZCN"); g != nil && len(g.Params) == 1 {
		exact, other := 0, ""
		engine.Instrs(g, func(in ssa.Instruction) {
			c, ok := in.(*ssa.Call)
			if !ok {
				return
			}
			sc := c.Call.StaticCallee()
			if sc == nil || sc.Pkg == nil || !strings.HasSuffix(sc.Pkg.Pkg.Path(), "shopspring/decimal") || !strings.HasPrefix(sc.Name(), "New") {
				return
			}
			fromArg := false
			for _, a := range c.Call.Args {
				x := a
				for {
					if cv, ok := x.(*ssa.Convert); ok {
						x = cv.X
						continue
					}
					break
				}
				if x == ssa.Value(g.Params[0]) {
					fromArg = true
				}
			}
			if !fromArg {
				return
			}
			if sc.Name() == "NewFromFloat" {
				exact++
			} else {
				other = sc.Name() + " at " + r.P.Pos(c.Pos())
			}
		})
		// every amount ParseZCN reports comes out of the decimal path: Coin(IntPart()) of the
		// scaled decimal, whose range rejections ARITH demands; a shortcut that computes
		// the amount another way has another range (the uint64 range of MultCoin instead of MaxInt64)
		shortcut := ""
		for _, ret := range engine.Returns(g) {
			if len(ret.Results) != 2 || !nilConst(resultValue(ret, 1)) {
				continue
			}
			v := resultValue(ret, 0)
			okV := false
			if cv, ok := v.(*ssa.Convert); ok {
				if c, ok := cv.X.(*ssa.Call); ok && extCalleeIs(c, "shopspring/decimal", "Decimal", "IntPart") {
					okV = true
				}
			}
			if !okV {
				shortcut = r.P.Pos(ret.Pos())
			}
		}
		r.Check(shortcut == "", rule, fn(g)+"|amount from the decimal path", r.P.Pos(g.Pos()), "every success return is Coin(IntPart()) of the scaled decimal",
			"ParseZCN reports an amount ("+shortcut+") that does not come out of its decimal path: the shortcut has its own range - a whole token amount scaled with MultCoin is accepted up to the uint64 range although parsing promises at most MaxInt64, and ToZCN / Int64 reject the amount parsing returned")
		r.Check(exact >= 1 && other == "", rule, fn(g)+"|exact decimal of the argument", r.P.Pos(g.Pos()), "the amount is converted with decimal.NewFromFloat (shortest decimal that round-trips), the only constructor used on the argument",
			"ParseZCN builds its decimal from the argument with "+other+" instead of the exact decimal.NewFromFloat: a constructor that rounds at a fixed scale makes the 'too many decimals' rejection unreachable (an amount with more than ten decimals is silently rounded) and changes the parsed amount of large fractional values")
	}
	r.Check(bad == "" && fromDecimal, rule, fn(f)+"|decimal scaling", r.P.Pos(f.Pos()), "the amount is scaled by the decimal library; ToZCN does no float arithmetic of its own",
		"ToZCN no longer scales in decimal arithmetic ("+bad+"): the result is rounded twice, so formatting then parsing an amount above 2^53 units returns another amount")
}

// constExact: an integer constant handed to a float64 parameter (or converted to
// float64) is rounded at compile time. In this package the constants are range
// bounds (MaxInt64, MaxUint64): a bound that silently moves to the next power of
// two lets amounts past the real limit through, and the conversion that follows
// wraps them.
//
// Rule (typed syntax tree of core/currency): wherever an expression that denotes
// an integer constant is given the type float64 - as a call argument, in a
// conversion or in an assignment - the constant is exactly representable as a
// float64, or the place is a comparison operand (a rounded bound on one side of
// a float comparison is the idiom the range checks use and is judged by
// ARG-finite/ARITH).
func constExact(r *engine.Run, rule string) {
	pk := r.P.Pkgs[engine.RepoMod+"/"+pkgCur]
	if pk == nil || pk.TypesInfo == nil {
		r.Anchor(rule, fmt.Errorf("unresolved anchor: typed syntax of core/currency"))
		return
	}
	n := 0
	o := ord{}
	for _, file := range pk.Syntax {
		ast.Inspect(file, func(nd ast.Node) bool {
			call, ok := nd.(*ast.CallExpr)
			if !ok {
				return true
			}
			// parameter types of the callee (a conversion float64(x) has one "parameter")
			var paramType func(i int) types.Type
			if tv, ok := pk.TypesInfo.Types[call.Fun]; ok && tv.IsType() {
				paramType = func(int) types.Type { return tv.Type }
			} else if sig, ok := pk.TypesInfo.TypeOf(call.Fun).(*types.Signature); ok {
				paramType = func(i int) types.Type {
					if i < sig.Params().Len() {
						return sig.Params().At(i).Type()
					}
					return nil
				}
			} else {
				return true
			}
			for i, a := range call.Args {
				pt := paramType(i)
				if pt == nil {
					continue
				}
				if b, ok := pt.Underlying().(*types.Basic); !ok || b.Kind() != types.Float64 {
					continue
				}
				// the exact value of the constant the argument names
				var exact constant.Value
				switch x := ast.Unparen(a).(type) {
				case *ast.Ident:
					if c, ok := pk.TypesInfo.Uses[x].(*types.Const); ok {
						exact = c.Val()
					}
				case *ast.SelectorExpr:
					if c, ok := pk.TypesInfo.Uses[x.Sel].(*types.Const); ok {
						exact = c.Val()
					}
				case *ast.BasicLit:
					if x.Kind == token.INT {
						exact = constant.MakeFromLiteral(x.Value, token.INT, 0)
					}
				}
				if exact == nil || exact.Kind() != constant.Int {
					continue
				}
				n++
				f64, _ := constant.Float64Val(exact)
				back := constant.MakeFloat64(f64)
				same := constant.Compare(constant.ToFloat(exact), token.EQL, back)
				pos := r.P.Pos(a.Pos())
				r.Check(same, rule, o.next("core/currency|integer constant as float64"), pos, "the integer constant "+exact.ExactString()+" is exactly representable as a float64",
					"the integer constant "+exact.ExactString()+" is handed over as a float64 and silently becomes "+back.ExactString()+": a range bound built from it lies past the real limit, amounts between the two pass the check and the integer conversion that follows wraps them")
			}
			return true
		})
	}
	r.OK(rule, "core/currency|constants", "-", fmt.Sprintf("%d integer constants given the type float64 in calls and conversions inspected", n))
}
