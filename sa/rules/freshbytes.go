package rules

import (
	"fmt"
	"go/token"
	"go/types"
	"strings"

	"golang.org/x/tools/go/ssa"

	"verif/sa/engine"
)

// FRESH-bytes discharges an assumption FRESH-node (fresh.go) makes: the byte
// slices handed out by the node accessors MarshalMsg / Encode / GetHashBytes /
// GetValueBytes are new buffers that the caller owns. A caller of
// GetNodeValueRaw may build its next value in the slice it was given; if that
// slice is the Buffer of the value object a stored node, its CloneNode copies
// and a pending change all share, the write reaches the parent trie and every
// sibling (C03) and changes a saved node behind its hash (C01/C05).
//
// Rule: in every repository implementation of these methods in core/util, each
// returned []byte is, on every path, nil, a make/conversion/local array, the
// result of one of these methods or of a call none of whose byte-slice
// arguments is shared, or an append whose base is such a value. A load of a
// field, element, global or map entry is shared memory.

var freshBytesMethods = map[string]bool{"MarshalMsg": true, "Encode": true, "GetHashBytes": true, "GetValueBytes": true}

type freshBytesCtx struct {
	// arguments of the call being summarised (nil at the top level)
	args map[*ssa.Parameter]ssa.Value
	up   *freshBytesCtx
	top  *ssa.Function
}

// sharedBytes returns a description of the shared memory v may be, or "" when
// v is fresh on every path.
func sharedBytes(v ssa.Value, cx *freshBytesCtx, depth int, seen map[ssa.Value]bool) string {
	if seen[v] {
		return ""
	}
	seen[v] = true
	switch x := v.(type) {
	case *ssa.Const:
		return ""
	case *ssa.MakeSlice:
		return ""
	case *ssa.Alloc:
		return ""
	case *ssa.Convert:
		// string <-> []byte conversions copy
		return ""
	case *ssa.ChangeType:
		return sharedBytes(x.X, cx, depth, seen)
	case *ssa.Slice:
		return sharedBytes(x.X, cx, depth, seen)
	case *ssa.Phi:
		for _, e := range x.Edges {
			if s := sharedBytes(e, cx, depth, seen); s != "" {
				return s
			}
		}
		return ""
	case *ssa.Extract:
		return sharedBytes(x.Tuple, cx, depth, seen)
	case *ssa.Parameter:
		if cx != nil && cx.args != nil {
			if a, ok := cx.args[x]; ok {
				return sharedBytes(a, cx.up, depth, map[ssa.Value]bool{})
			}
		}
		// the output buffer of MarshalMsg(b []byte) is the caller's by contract
		if cx != nil && cx.top != nil && cx.top.Name() == "MarshalMsg" && x.Parent() == cx.top {
			return ""
		}
		return "parameter " + x.Name()
	case *ssa.UnOp:
		if x.Op != token.MUL {
			return ""
		}
		switch a := x.X.(type) {
		case *ssa.Alloc:
			// local cell: every value stored into it
			for _, ref := range engine.Referrers(a) {
				if st, ok := ref.(*ssa.Store); ok && st.Addr == ssa.Value(a) {
					if s := sharedBytes(st.Val, cx, depth, seen); s != "" {
						return s
					}
				}
			}
			return ""
		case *ssa.FieldAddr:
			if _, ok := a.X.(*ssa.Alloc); ok {
				if al := a.X.(*ssa.Alloc); !al.Heap || localOnly(al) {
					for _, ref := range engine.Referrers(a.X) {
						fa, ok := ref.(*ssa.FieldAddr)
						if !ok || fa.Field != a.Field {
							continue
						}
						for _, r2 := range engine.Referrers(fa) {
							if st, ok := r2.(*ssa.Store); ok && st.Addr == ssa.Value(fa) {
								if s := sharedBytes(st.Val, cx, depth, seen); s != "" {
									return s
								}
							}
						}
					}
					return ""
				}
			}
			return "field " + fieldName(a)
		case *ssa.IndexAddr:
			return "an element of a stored slice"
		case *ssa.Global:
			return "global " + a.Name()
		}
		return "memory loaded through " + x.X.Name()
	case *ssa.Lookup:
		return "a map entry"
	case *ssa.Call:
		cc := x.Common()
		if b, ok := cc.Value.(*ssa.Builtin); ok {
			if b.Name() == "append" {
				return sharedBytes(cc.Args[0], cx, depth, seen)
			}
			return ""
		}
		if cc.IsInvoke() {
			if freshBytesMethods[cc.Method.Name()] {
				return "" // every repository implementation is checked by this rule
			}
			return argsShared(cc.Args, cx, depth, seen)
		}
		sc := cc.StaticCallee()
		if sc == nil {
			return argsShared(cc.Args, cx, depth, seen)
		}
		if freshBytesMethods[sc.Name()] && sc.Signature.Recv() != nil {
			return ""
		}
		if sc.Blocks != nil && depth < 2 && inRepo(sc) {
			m := map[*ssa.Parameter]ssa.Value{}
			for i, p := range sc.Params {
				if i < len(cc.Args) {
					m[p] = cc.Args[i]
				}
			}
			sub := &freshBytesCtx{args: m, up: cx}
			idx := -1
			res := sc.Signature.Results()
			for i := 0; i < res.Len(); i++ {
				if isByteSlice(res.At(i).Type()) {
					idx = i
					break
				}
			}
			if idx < 0 {
				return ""
			}
			for _, b := range sc.Blocks {
				ret, ok := b.Instrs[len(b.Instrs)-1].(*ssa.Return)
				if !ok || len(ret.Results) <= idx {
					continue
				}
				if s := sharedBytes(resultValue(ret, idx), sub, depth+1, map[ssa.Value]bool{}); s != "" {
					return s + " (through " + fn(sc) + ")"
				}
			}
			return ""
		}
		// (*bytes.Buffer).Bytes and the like: the receiver's storage
		if sc.Signature.Recv() != nil && len(cc.Args) > 0 {
			if s := ownerShared(cc.Args[0]); s != "" {
				return s
			}
			return argsShared(cc.Args[1:], cx, depth, seen)
		}
		return argsShared(cc.Args, cx, depth, seen)
	}
	return ""
}

func inRepo(f *ssa.Function) bool {
	return f.Pkg != nil && strings.Contains(f.Pkg.Pkg.Path(), "0chain/common")
}

func fieldName(fa *ssa.FieldAddr) string {
	t := fa.X.Type()
	if p, ok := t.Underlying().(*types.Pointer); ok {
		if st, ok := p.Elem().Underlying().(*types.Struct); ok && fa.Field < st.NumFields() {
			n := st.Field(fa.Field).Name()
			if nm := namedOf(p.Elem()); nm != nil {
				return nm.Obj().Name() + "." + n
			}
			return n
		}
	}
	return fmt.Sprintf("#%d", fa.Field)
}

// localOnly: the allocation is used only through field addresses, loads,
// stores and method calls on it in this function and is never stored anywhere.
func localOnly(al *ssa.Alloc) bool {
	for _, ref := range engine.Referrers(al) {
		switch x := ref.(type) {
		case *ssa.FieldAddr, *ssa.UnOp, *ssa.DebugRef:
		case *ssa.Store:
			if x.Val == ssa.Value(al) {
				return false
			}
		case ssa.CallInstruction:
		default:
			return false
		}
	}
	return true
}

// ownerShared: the receiver of an external accessor (buf.Bytes()) is an object
// reached through a field/global rather than a local one.
func ownerShared(v ssa.Value) string {
	switch x := v.(type) {
	case *ssa.Alloc, *ssa.Call, *ssa.Extract, *ssa.Const, *ssa.MakeInterface:
		return ""
	case *ssa.Phi:
		for _, e := range x.Edges {
			if s := ownerShared(e); s != "" {
				return s
			}
		}
		return ""
	case *ssa.UnOp:
		if x.Op == token.MUL {
			switch a := x.X.(type) {
			case *ssa.FieldAddr:
				return "the storage of field " + fieldName(a)
			case *ssa.Global:
				return "the storage of global " + a.Name()
			}
		}
	case *ssa.FieldAddr:
		if _, ok := x.X.(*ssa.Alloc); ok {
			return ""
		}
		return "the storage of field " + fieldName(x)
	}
	return ""
}

func argsShared(args []ssa.Value, cx *freshBytesCtx, depth int, seen map[ssa.Value]bool) string {
	for _, a := range args {
		if !isByteSlice(a.Type()) {
			continue
		}
		if s := sharedBytes(a, cx, depth, seen); s != "" {
			return s
		}
	}
	return ""
}

func freshBytes(r *engine.Run, rule string) {
	n := 0
	for _, f := range funcsOfPkg(r, pkgUtil) {
		if f.Parent() != nil || f.Signature.Recv() == nil || !freshBytesMethods[f.Name()] || f.Blocks == nil {
			continue
		}
		res := f.Signature.Results()
		if res.Len() == 0 || !isByteSlice(res.At(0).Type()) {
			continue
		}
		r.Touch(f)
		n++
		bad := ""
		var at ssa.Instruction
		for _, b := range f.Blocks {
			ret, ok := b.Instrs[len(b.Instrs)-1].(*ssa.Return)
			if !ok || len(ret.Results) == 0 {
				continue
			}
			cx := &freshBytesCtx{top: f}
			if s := sharedBytes(resultValue(ret, 0), cx, 0, map[ssa.Value]bool{}); s != "" {
				bad, at = s, ret
				break
			}
		}
		if bad == "" {
			r.OK(rule, fn(f), r.P.Pos(f.Pos()), "every returned slice is nil, newly made, or the result of a call that produces a new buffer")
			continue
		}
		r.Fail(rule, fn(f), r.P.Pos(at.Pos()), "the method hands out "+bad+" instead of a new buffer: callers (GetNodeValueRaw, hashing, encoding) own the slice they get and may write into it; the bytes are shared by the stored node, its CloneNode copies and the pending change, so the write reaches the parent trie, sibling children and saved nodes")
	}
	if n < 8 {
		r.Anchor(rule, fmt.Errorf("unresolved anchor: only %d byte-producing node methods (MarshalMsg/Encode/GetHashBytes/GetValueBytes) found", n))
	}
}
