package rules

import (
	"fmt"
	"go/token"
	"strings"

	"golang.org/x/tools/go/ssa"

	"verif/sa/engine"
)

func init() {
	register(&Check{ID: "C09", Pkgs: []string{pkgWMPT}, Run: runC09})
}

// wPosition: the parameter holding the *position* (possibly unresolved) node of
// each weighted-trie walk; frozen table so that insert's payload parameter
// `value` is not confused with it.
var wPosition = map[string]string{"insert": "node", "delete": "node", "getBlockProof": "node", "markToCollect": "node"}

func runC09(r *engine.Run) {
	r.Rule("AGREE-kvops", "see C11: the adapter's batch Put and Delete run under the batch mutex (Commit saves the root's dirty subtrees from several goroutines into one batch)")
	r.Rule("AGREE-purge", "see C11: a hash that a commit writes again is taken off every list DeleteNodes feeds storage deletes from (a node deleted and re-created identically between two collection passes is one live record: collecting it makes the ownership query of its key fail after a reload)")
	r.Rule("PRESENCE-byweight", "no comparison in core/util/wmpt takes a weight of 0 for absence (a weight compared with the constant 0): entries of weight 0 are entries whose hashes their ancestors commit to - a checkpoint copy that skips them, or a rollback that takes a zero-weight root for the empty trie, no longer stands for the checkpoint state")
	r.Rule("ORDER-hashfresh", "see C10: a node's serialised form never embeds a cached hash that may be stale (Save hashes before it encodes): a reloaded value node hands its parent the recorded hash, so a stale one makes the root differ from the independent computation")
	r.Rule("DOM-save", "see C11: every arm of commit puts its node into the batch before each success return (a short node that is not saved because 'the branch above carries it' is missing when it is the root: the committed trie cannot be reopened from its root hash)")
	r.Rule("EXH-W", "in insert, delete, getBlockProof and markToCollect every type test of the position node (the walk's current, possibly collapsed node) for a kind other than *hashNode is preceded on every path by a *hashNode test of the position (dominating it), or leads on its failure edge to one before the function exits: a collapsed reference is resolved before it is interpreted as 'something else / empty'")
	r.Rule("DEP-weight", "in the branch arm of insert and delete the value stored to routingNode.weight and the returned weight change both depend on the change returned by the recursive call; in the shared-prefix arm the returned change does")
	r.Rule("DOM-dirty", "in insert and delete, a store to a hashed field (routingNode.weight/Children[i], shortNode.key/value, valueNode.value/weight) of an object is accompanied by a store dirty=true on the same object that dominates the store or every return reachable after it")
	r.Rule("DOM-dirty-path", "in insert and delete, an arm that descended into a child and returns its own node marks that node dirty on every such success path: any successful descent may have changed the subtree (a value rewritten in place with equal weight changes neither the child pointer nor the weight), so the cached hashes on the path must be invalidated")
	r.Rule("WHO-scheduled", "see C11: insert schedules a hash for collection only for the shared-prefix node it splits (the scheduled hash is Hash() of a value of static type *shortNode): a position it overwrites may receive content that hashes as before, and whether the old hash dies is commit's decision under its hash-changed test")
	r.Rule("ORDER-survivor", "a node whose hash insert/delete schedules for deletion (tempDeleted) is not kept in the new trie on the same path: the hash of a child that is merely re-parented must not be scheduled")
	r.Rule("DOM-range", "getBlockProof descends into child i only when block <= child.Weight() tested true, and continues the scan with block reduced by that child's weight")
	r.Rule("DOM-sentinel", "a scan that keeps the number of the only matching slot of an N-slot array in one integer together with constants for 'none'/'several': every such constant lies outside [0,N), and the comparison that leads to the use of the integer as a slot number holds for every slot number and fails for every sentinel (decided by evaluating the comparison over the finite domains)")
	r.Rule("ERR-guard", "wherever the error of a call is compared with nil and one successor of the test is a plain return block, that successor is the error != nil edge and returns a non-nil error (the error itself, a sentinel or a constructed error); an early return handing back the error on the edge where it is nil is a swapped test")
	r.Rule("ERR-dropped", "the error result of every repository operation (trie, node store, storage adapter/batcher methods) called here is looked at - compared, returned or stored; deliberate drops are an explicit table with reasons")
	r.Rule("DEP-linkback", "the node returned by every self-recursive call of insert, delete and commit (also when made from a helper that stands for one of their arms) is, on every success path that follows the call, stored into the parent (a child slot or the shared-prefix node's value; a store that is skipped only where the result tested nil counts) or returned: a rebuilt subtree, a resolved child or the hash reference of a collapsed subtree is never dropped while the walk reports success")
	r.Rule("AGREE-update", "an update in place of an existing value node stores both hashed fields (value bytes and weight) from the payload; the shortcut that skips the update (zero change, same node) is taken only where the bytes tested equal AND the weights tested equal")
	r.Rule("DOM-memo", "each CalcHash returns the cached hash without recomputing only where the dirty flag tested false, and stores the recomputed hash (the RawHash result) into the hash field")
	r.Rule("AGREE-endian", "every fixed-width read and write of the weighted trie (hash pre-images, serialised weights, decoders) uses one byte order")
	r.Rule("DOM-shortkey", "every shared-prefix node built by insert/delete gets a key provably non-empty at the site (the walk's key under len(key) == 0 false, X[:k] under k == 0 false, X[k:] under len(X) == k false, a made slice of length >= 1, a literal with elements)")
	r.Rule("FRESH-resolved", "resolveHashNode returns exactly the node its own DeserializeNode call decoded and keeps no other reference to it: loaded nodes are mutated in place by the walks, so they are never shared through a cache")
	r.Rule("AGREE-ref", "see C12: every reference node carries the hash and the weight of what it stands for")
	r.Rule("ORDER-errstore", "see C12: in the weighted trie a store of the node result of a call that also returns an error into a field or slot of a live (not freshly built) node is reached only where that error tested nil: a failed storage read never erases a slot of the in-memory trie")
	r.Rule("AGREE-slot", "in insert and delete, every recursive walk that descends from, or whose rebuilt child is stored into, a branch slot Children[i] passes the key remainder K[l:] with i == K[l-1] for the same key K (the nibble that selects the slot is exactly the one the remainder skips), and descent and link-back use the same slot of the same branch")
	r.Rule("DOM-shortmatch", "in insert and delete, the walk continues below a shared-prefix node n (position n.value, key remainder key[len(n.key):]) only on paths where commonPrefix(n.key, key) tested equal to, or not smaller than, len(n.key)")
	r.Rule("DOM-deletematch", "delete reports a removal (nil node, nil error) only for a value node, or for a shared-prefix node on paths where the common prefix tested equal to len(key) and covers the node's whole key; the reported weight is that node's")
	r.Rule("AGREE-splitpair", "when insert splits a shared-prefix node, the child built for the remainder of the existing key carries the existing node's value and the child built for the remainder of the walked key carries the payload")
	r.Rule("AGREE-mergekey", "when delete fuses shared-prefix nodes the new key is, piece by piece (symbolic evaluation of make+copy, element stores, append chains and literals, with offsets and total length), the parent's whole key followed by the absorbed node's whole key, or the slot number of the only remaining child followed by that child's whole key, or that slot number alone when the child is not a shared-prefix node; key and value of the fused node are rewritten together")
	r.Rule("AGREE-weightop", "the weight bookkeeping of insert and delete uses the right operator on the right operands: branch weight = own weight + child's change (insert) / own weight - removed weight (delete); a split's new branch weighs Weight(existing) + Weight(payload); an update in place reports Weight(payload) - Weight(existing); a newly built subtree reports Weight(payload)")
	r.Rule("DOM-reduce", "after a descent below a branch, delete returns the branch itself only where the rebuilt child tested non-nil or the result of the remaining-children scan was tested; the scan records slot i only where Children[i] tested non-nil and nothing had been recorded")
	r.Rule("DOM-reject", "see C10: a range rejection that follows a comparison of the block with a weight holds only for block > weight")
	r.Rule("LOCK-rootwrite", "a method of the weighted trie that takes the trie's lock calls the methods of the same trie that rewrite the root only with the lock held (the goroutine-safe Update must not hand removals to the unlocked Delete)")
	r.Rule("FRESH-copy", "see C10: no return of Copy or CopyRoot is the receiver itself and no child slot of the copy is the receiver's own child: insert rewrites value nodes in place, so a trie built on a sharing copy has a changed leaf under ancestors that still carry the old weight and hash")
	r.Rule("FRESH-keybuf", "in the weighted trie a value loaded from a shared-prefix node's key field is never the base of an append and is never passed for a parameter the callee appends onto: neighbouring nodes' keys are slices of one array, so such an append rewrites another node's key")
	r.NotDec = append(r.NotDec, "the numeric equalities themselves (total weight = sum of live weights, block ownership, root = independent computation)")
	exhW(r, "EXH-W", []string{"insert", "delete", "getBlockProof", "markToCollect"})
	depWeight(r)
	domDirty(r)
	domDirtyPath(r)
	orderSurvivor(r, "ORDER-survivor")
	whoScheduled(r, "WHO-scheduled")
	domRangeProof(r)
	var wf []*ssa.Function
	for _, f := range r.P.RepoFuncs() {
		if f.Pkg != nil && strings.HasSuffix(f.Pkg.Pkg.Path(), pkgWMPT) {
			wf = append(wf, f)
		}
	}
	errGuard(r, "ERR-guard", "ERR-dropped", wf, 10)
	depLinkBack(r, "DEP-linkback")
	agreeUpdate(r, "AGREE-update")
	domMemo(r, "DOM-memo")
	agreeEndian(r, "AGREE-endian")
	domShortKey(r, "DOM-shortkey")
	freshResolved(r, "FRESH-resolved")
	refComplete(r, "AGREE-ref")
	domNoChange(r, "AGREE-update")
	orderErrStore(r, "ORDER-errstore")
	agreeSlot(r, "AGREE-slot")
	domShortMatch(r, "DOM-shortmatch")
	domDeleteMatch(r, "DOM-deletematch")
	agreeSplitPair(r, "AGREE-splitpair")
	agreeMergeKey(r, "AGREE-mergekey")
	agreeWeightOp(r, "AGREE-weightop")
	domReduce(r, "DOM-reduce")
	if n := domSentinel(r, "DOM-sentinel", wf); n < 1 {
		r.Anchor("DOM-sentinel", fmt.Errorf("unresolved anchor: no single-slot scan with sentinels found in the weighted trie (delete's reduction step is expected to be one)"))
	}
	freshKeyBuf(r, "FRESH-keybuf")
	freshCopy(r, "FRESH-copy")
	domReject(r, "DOM-reject")
	rejectKind(r, "DOM-reject")
	lockRootWrite(r, "LOCK-rootwrite")
	domSave(r)
	orderHashFresh(r, "ORDER-hashfresh")
	presenceByWeight(r, "PRESENCE-byweight")
	agreePurge(r)
	kvAdapter(r, "AGREE-kvops")
}

func wfn(r *engine.Run, rule, name string) *ssa.Function {
	return r.Fn(rule, pkgWMPT, "WeightedMerkleTrie", name)
}

// positionValues: the position parameter and every phi that merges it with a
// resolved replacement.
func positionValues(f *ssa.Function, param string) map[ssa.Value]bool {
	out := map[ssa.Value]bool{}
	if p := paramRole(f, param); p != nil {
		out[p] = true
	}
	for changed := true; changed; {
		changed = false
		engine.Instrs(f, func(in ssa.Instruction) {
			if ph, ok := in.(*ssa.Phi); ok && !out[ph] {
				for _, e := range ph.Edges {
					if out[e] {
						out[ph] = true
						changed = true
					}
				}
			}
		})
	}
	return out
}

func exhW(r *engine.Run, rule string, names []string) {
	n := 0
	for _, name := range names {
		f := wfn(r, rule, name)
		if f == nil {
			continue
		}
		pos := positionValues(f, wPosition[name])
		if len(pos) == 0 {
			r.Anchor(rule, fmt.Errorf("unresolved anchor: position parameter %q of %s", wPosition[name], fn(f)))
			continue
		}
		var hashTests []*ssa.TypeAssert
		var others []*ssa.TypeAssert
		engine.Instrs(f, func(in ssa.Instruction) {
			ta, ok := in.(*ssa.TypeAssert)
			if !ok || !pos[ta.X] {
				return
			}
			if nm := namedOf(ta.AssertedType); nm != nil && nm.Obj().Name() == "hashNode" {
				hashTests = append(hashTests, ta)
			} else {
				others = append(others, ta)
			}
		})
		o := ord{}
		for _, a := range others {
			n++
			kind := "?"
			if nm := namedOf(a.AssertedType); nm != nil {
				kind = nm.Obj().Name()
			}
			construct := o.next(fn(f) + "|position.(*" + kind + ")")
			good := false
			why := ""
			for _, h := range hashTests {
				if engine.InstrDominates(h, a) {
					good, why = true, "a *hashNode test of the position dominates it"
				}
			}
			if !good && a.CommaOk {
				// assume the position is a *hashNode: every other kind test fails; following
				// those failure edges (and both edges of any other branch) a *hashNode test
				// must be reached before the function exits
				if hashReached(a.Block(), pos, map[*ssa.BasicBlock]bool{}) {
					good, why = true, "when the position is a *hashNode, the failure edges of the kind tests lead to a *hashNode test before the function exits"
				}
			}
			r.Check(good, rule, construct, r.P.Pos(a.Pos()), why,
				"the position node is tested for *"+kind+" on a path where it may still be an unresolved *hashNode: a collapsed node is treated as absent/other (e.g. an existing value's weight is counted twice)")
		}
		if len(hashTests) == 0 {
			r.Fail(rule, fn(f)+"|hashNode arm", r.P.Pos(f.Pos()), "the walk has no *hashNode arm at all: collapsed sub-tries are not resolved")
		}
	}
	if n < 8 {
		r.Anchor(rule, fmt.Errorf("unresolved anchor: only %d position type tests found", n))
	}
}

// hashReached walks the CFG from b under the assumption that the position
// value is a *hashNode.
func hashReached(b *ssa.BasicBlock, pos map[ssa.Value]bool, seen map[*ssa.BasicBlock]bool) bool {
	if seen[b] {
		return true
	}
	seen[b] = true
	// a position kind test in this block?
	for _, in := range b.Instrs {
		ta, ok := in.(*ssa.TypeAssert)
		if !ok || !pos[ta.X] || !ta.CommaOk {
			continue
		}
		if nm := namedOf(ta.AssertedType); nm != nil && nm.Obj().Name() == "hashNode" {
			return true
		}
		_, fail := armOK(ta)
		if fail == nil {
			return false
		}
		return hashReached(fail, pos, seen)
	}
	if len(b.Succs) == 0 {
		_, isPanic := b.Instrs[len(b.Instrs)-1].(*ssa.Panic)
		return isPanic
	}
	// `position == nil` is false for a *hashNode: follow the non-nil edge only
	if iff, ok := b.Instrs[len(b.Instrs)-1].(*ssa.If); ok {
		if bo, ok := iff.Cond.(*ssa.BinOp); ok && (bo.Op == token.EQL || bo.Op == token.NEQ) && (pos[bo.X] && nilConst(bo.Y) || pos[bo.Y] && nilConst(bo.X)) {
			idx := 1
			if bo.Op == token.NEQ {
				idx = 0
			}
			return hashReached(b.Succs[idx], pos, seen)
		}
	}
	for _, s := range b.Succs {
		if !hashReached(s, pos, seen) {
			return false
		}
	}
	return true
}

// dependsOn: v's operand closure contains target.
func dependsOn(v, target ssa.Value) bool {
	seen := map[ssa.Value]bool{}
	var walk func(x ssa.Value) bool
	walk = func(x ssa.Value) bool {
		if x == nil || seen[x] {
			return false
		}
		seen[x] = true
		if x == target {
			return true
		}
		in, ok := x.(ssa.Instruction)
		if !ok {
			return false
		}
		var ops []*ssa.Value
		for _, op := range in.Operands(ops) {
			if op != nil && walk(*op) {
				return true
			}
		}
		return false
	}
	return walk(v)
}

func depWeight(r *engine.Run) {
	const rule = "DEP-weight"
	for _, name := range []string{"insert", "delete"} {
		f := wfn(r, rule, name)
		if f == nil {
			continue
		}
		nodeParam := paramRole(f, "node")
		arms := typeArms(f, nodeParam)
		for _, kind := range []string{"routingNode", "shortNode"} {
			arm := arms[kind]
			if arm == nil {
				r.Anchor(rule, fmt.Errorf("unresolved anchor: *%s arm of %s", kind, fn(f)))
				continue
			}
			// recursive calls in the arm and their change results
			var changes []ssa.Value
			for b := range arm.blocks {
				for _, in := range b.Instrs {
					if c, ok := in.(*ssa.Call); ok && c.Call.StaticCallee() == f {
						// only walks that continue below this node (position argument loaded from this node)
						if c.Call.Args[1] != nil && !nilConst(c.Call.Args[1]) {
							for _, ref := range engine.Referrers(c) {
								if ex, ok := ref.(*ssa.Extract); ok && ex.Index == 0 {
									changes = append(changes, ex)
								}
							}
						}
					}
				}
			}
			if len(changes) == 0 {
				r.Anchor(rule, fmt.Errorf("unresolved anchor: recursive descent in the *%s arm of %s", kind, fn(f)))
				continue
			}
			// success returns that follow a descent return its change
			for _, ch := range changes {
				okRet := false
				for _, ret := range engine.Returns(f) {
					if !arm.blocks[ret.Block()] || len(ret.Results) != 3 || !nilConst(ret.Results[2]) {
						continue
					}
					if !engine.ReachableAfter(ch.(ssa.Instruction), ret) {
						continue
					}
					zeroUnderEq := false
					if isZero(ret.Results[0]) {
						if facts, okf := engine.FactsOn(f, ret.Block()); okf {
							for _, ft := range facts {
								if ft.Kind == "eq" && ft.Truth && (ft.A == ch && isZero(ft.B) || ft.B == ch && isZero(ft.A)) {
									zeroUnderEq = true // returns 0 where the child's change tested 0
								}
							}
						}
					}
					if dependsOn(ret.Results[0], ch) || zeroUnderEq {
						okRet = true
					} else {
						okRet = false
						r.Fail(rule, fn(f)+"|*"+kind+" arm|returned change", r.P.Pos(ret.Pos()), "after descending into a child the arm returns a weight change that does not depend on the child's change: ancestors' weights drift from the sum of their children")
						break
					}
				}
				if okRet {
					r.OK(rule, fn(f)+"|*"+kind+" arm|returned change", r.P.Pos(ch.Pos()), "every success return after the descent depends on the child's change")
				}
				if kind == "routingNode" {
					stored := false
					for b := range arm.blocks {
						for _, in := range b.Instrs {
							st, ok := in.(*ssa.Store)
							if !ok {
								continue
							}
							if fld := engine.FieldOf(st.Addr); fld != nil && fld.Name() == "weight" && isNamed(st.Addr.(*ssa.FieldAddr).X.Type(), pkgWMPT, "routingNode") {
								if dependsOn(st.Val, ch) {
									stored = true
								} else if engine.ReachableAfter(ch.(ssa.Instruction), st) {
									r.Fail(rule, fn(f)+"|*routingNode arm|stored weight", r.P.Pos(st.Pos()), "the branch weight is updated with something other than the child's change")
								}
							}
						}
					}
					r.Check(stored, rule, fn(f)+"|*routingNode arm|stored weight", r.P.Pos(ch.Pos()), "branch weight updated by the child's change", "the branch arm does not fold the child's change into its own weight: total weight no longer follows content")
					// ... and before every success return that follows the descent
					var wstores []*ssa.Store
					for b := range arm.blocks {
						for _, in := range b.Instrs {
							if st, ok := in.(*ssa.Store); ok {
								if fld := engine.FieldOf(st.Addr); fld != nil && fld.Name() == "weight" && isNamed(st.Addr.(*ssa.FieldAddr).X.Type(), pkgWMPT, "routingNode") && dependsOn(st.Val, ch) {
									wstores = append(wstores, st)
								}
							}
						}
					}
					late := ""
					for _, ret := range engine.Returns(f) {
						if !arm.blocks[ret.Block()] || len(ret.Results) != 3 || !nilConst(resultValue(ret, 2)) {
							continue
						}
						chI, isI := ch.(ssa.Instruction)
						if !isI || !engine.ReachableAfter(chI, ret) {
							continue
						}
						dom := false
						for _, st := range wstores {
							if engine.InstrDominates(st, ret) {
								dom = true
							}
						}
						if !dom {
							if facts, okf := engine.FactsOn(f, ret.Block()); okf {
								for _, ft := range facts {
									if ft.Kind == "eq" && ft.Truth && (ft.A == ch && isZero(ft.B) || ft.B == ch && isZero(ft.A)) {
										dom = true // nothing to fold in
									}
								}
							}
						}
						if !dom {
							late = r.P.Pos(ret.Pos())
						}
					}
					if stored {
						r.Check(late == "", rule, fn(f)+"|*routingNode arm|weight before return", r.P.Pos(ch.Pos()), "the child's change is folded into the branch weight before every success return that follows the descent",
							"the branch arm returns ("+late+") after the descent without having folded the child's change into its own weight: the branches above keep a stale weight, so Weight() and the root no longer follow content and honest proofs verify to another root")
					}
				}
			}
		}
	}
	r.Min(rule, 4)
}

var wHashed = map[string]map[string]bool{
	"routingNode": {"weight": true, "Children": true},
	"shortNode":   {"key": true, "value": true},
	"valueNode":   {"value": true, "weight": true},
}

func domDirty(r *engine.Run) {
	const rule = "DOM-dirty"
	n := 0
	for _, name := range []string{"insert", "delete"} {
		f := wfn(r, rule, name)
		if f == nil {
			continue
		}
		type storeInfo struct {
			st   *ssa.Store
			base ssa.Value
			kind string
			fld  string
		}
		var hashedStores []storeInfo
		dirtyStores := map[string][]*ssa.Store{}
		engine.Instrs(f, func(in ssa.Instruction) {
			st, ok := in.(*ssa.Store)
			if !ok {
				return
			}
			addr := st.Addr
			if ia, ok := addr.(*ssa.IndexAddr); ok { // Children[i]
				addr = ia.X
			}
			fa, ok := addr.(*ssa.FieldAddr)
			if !ok {
				return
			}
			nm := namedOf(fa.X.Type())
			if nm == nil {
				return
			}
			kind, fld := nm.Obj().Name(), engine.FieldOf(fa).Name()
			if fld == "dirty" {
				if c := constVal(st.Val); c != nil && c.ExactString() == "true" {
					dirtyStores[engine.ValKey(fa.X)] = append(dirtyStores[engine.ValKey(fa.X)], st)
				}
				return
			}
			if wHashed[kind][fld] {
				hashedStores = append(hashedStores, storeInfo{st, fa.X, kind, fld})
			}
		})
		o := ord{}
		for _, hs := range hashedStores {
			n++
			good := false
			for _, ds := range dirtyStores[engine.ValKey(hs.base)] {
				if engine.InstrDominates(ds, hs.st) {
					good = true
					break
				}
				all := true
				any := false
				for _, ret := range engine.Returns(f) {
					if engine.ReachableAfter(hs.st, ret) {
						any = true
						if !engine.InstrDominates(ds, ret) {
							all = false
						}
					}
				}
				if any && all {
					good = true
					break
				}
			}
			r.Check(good, rule, o.next(fn(f)+"|store "+hs.kind+"."+hs.fld), r.P.Pos(hs.st.Pos()), "the object is marked dirty on every path through this store",
				"a hashed field is changed without marking the node dirty on every path: the cached hash stays, so the root no longer follows content and the node is not saved by Commit")
		}
	}
	if n < 8 {
		r.Anchor(rule, fmt.Errorf("unresolved anchor: only %d hashed-field stores found in insert/delete", n))
	}
}

// weightCallOn: v is a call of Weight() on recv.
func weightCallOn(v ssa.Value, recv func(ssa.Value) bool) bool {
	c, ok := v.(*ssa.Call)
	if !ok {
		return false
	}
	rv, ok := engine.IsMethodCall(c, "Weight")
	return ok && recv(rv)
}

// rangeGuards checks the branch-arm scan of a block-number descent in f:
// the recursive/descending call `desc` happens only under block <= child.Weight()
// and the loop continues with block - child.Weight().
func rangeGuards(r *engine.Run, rule string, f *ssa.Function, isDescent func(*ssa.Call) bool) {
	blockParam := paramRole(f, "block")
	if blockParam == nil {
		r.Anchor(rule, fmt.Errorf("unresolved anchor: block parameter of %s", fn(f)))
		return
	}
	blocks := positionValuesOf(f, blockParam)
	n := 0
	engine.Instrs(f, func(in ssa.Instruction) {
		c, ok := in.(*ssa.Call)
		if !ok || !isDescent(c) || !inLoopBody(c.Block()) {
			return
		}
		n++
		r.CallSites++
		facts, ok := engine.FactsOn(f, c.Block())
		good := false
		var child ssa.Value
		if ok {
			for _, ft := range facts {
				// !(child.Weight() < block)  ==  block <= child.Weight()
				if ft.Kind == "lt" && !ft.Truth && blocks[ft.B] {
					if wc, ok := ft.A.(*ssa.Call); ok {
						if rv, ok := engine.IsMethodCall(wc, "Weight"); ok {
							good, child = true, rv
						}
					}
				}
			}
		}
		r.Check(good, rule, fn(f)+"|descend under block<=weight", r.P.Pos(c.Pos()), "descent reached only with block <= child.Weight()", "the scan descends into a child without the test block <= child.Weight(): the wrong key owns the block")
		if child == nil {
			return
		}
		// the loop-carried block value is block - Weight(same child)
		subOK := false
		engine.Instrs(f, func(i2 ssa.Instruction) {
			b, ok := i2.(*ssa.BinOp)
			if !ok || b.Op != token.SUB || !blocks[b.X] {
				return
			}
			if weightCallOn(b.Y, func(v ssa.Value) bool { return engine.ValKey(v) == engine.ValKey(child) }) && blocks[b] {
				subOK = true
			}
		})
		r.Check(subOK, rule, fn(f)+"|skip subtracts weight", r.P.Pos(c.Pos()), "a skipped child's weight is subtracted from the block number carried to the next child", "the scan does not reduce the block number by the weight of the child it skips: cumulative-weight intervals are wrong")
	})
	if n == 0 {
		r.Anchor(rule, fmt.Errorf("unresolved anchor: descent inside the child scan of %s", fn(f)))
	}
}

// inLoopBody: b or one of its (transitive, depth 3) predecessors lies on a cycle.
func inLoopBody(b *ssa.BasicBlock) bool {
	frontier := []*ssa.BasicBlock{b}
	for d := 0; d < 4; d++ {
		var next []*ssa.BasicBlock
		for _, x := range frontier {
			if inCycle(x) {
				return true
			}
			next = append(next, x.Preds...)
		}
		frontier = next
	}
	return false
}

// positionValuesOf: v and every phi / v-derived subtraction feeding such a phi.
func positionValuesOf(f *ssa.Function, v ssa.Value) map[ssa.Value]bool {
	out := map[ssa.Value]bool{v: true}
	for changed := true; changed; {
		changed = false
		engine.Instrs(f, func(in ssa.Instruction) {
			switch x := in.(type) {
			case *ssa.Phi:
				if out[x] {
					return
				}
				for _, e := range x.Edges {
					if out[e] {
						out[x] = true
						changed = true
					}
				}
			case *ssa.BinOp:
				if x.Op == token.SUB && out[x.X] && !out[x] {
					out[x] = true
					changed = true
				}
			}
		})
	}
	return out
}

func domRangeProof(r *engine.Run) {
	const rule = "DOM-range"
	f := wfn(r, rule, "getBlockProof")
	if f == nil {
		return
	}
	rangeGuards(r, rule, f, func(c *ssa.Call) bool { return c.Call.StaticCallee() == f })
}

// domDirtyPath: arms that descend and return their node set dirty=true.
func domDirtyPath(r *engine.Run) {
	const rule = "DOM-dirty-path"
	n := 0
	for _, name := range []string{"insert", "delete"} {
		f := wfn(r, rule, name)
		if f == nil {
			continue
		}
		nodeParam := paramRole(f, "node")
		arms := typeArms(f, nodeParam)
		for _, kind := range []string{"routingNode", "shortNode"} {
			arm := arms[kind]
			if arm == nil {
				continue
			}
			var recs []*ssa.Call
			for b := range arm.blocks {
				for _, in := range b.Instrs {
					if c, ok := in.(*ssa.Call); ok && c.Call.StaticCallee() == f && !nilConst(c.Call.Args[1]) {
						recs = append(recs, c)
					}
				}
			}
			var dirty []*ssa.Store
			for b := range arm.blocks {
				for _, in := range b.Instrs {
					if st, ok := in.(*ssa.Store); ok {
						if fa, ok := st.Addr.(*ssa.FieldAddr); ok && fa.X == arm.asserted && engine.FieldOf(fa).Name() == "dirty" {
							if c := constVal(st.Val); c != nil && c.ExactString() == "true" {
								dirty = append(dirty, st)
							}
						}
					}
				}
			}
			o := ord{}
			for _, ret := range engine.Returns(f) {
				if !arm.blocks[ret.Block()] || len(ret.Results) != 3 || !nilConst(ret.Results[2]) {
					continue
				}
				mi, ok := ret.Results[1].(*ssa.MakeInterface)
				if !ok || mi.X != arm.asserted {
					continue
				}
				after := false
				for _, rc := range recs {
					if engine.ReachableAfter(rc, ret) {
						after = true
					}
				}
				if !after {
					continue
				}
				n++
				good := false
				for _, d := range dirty {
					if engine.InstrDominates(d, ret) {
						good = true
					}
				}
				r.Check(good, rule, o.next(fn(f)+"|*"+kind+" arm returns itself"), r.P.Pos(ret.Pos()), "dirty=true dominates the return",
					"after descending into a child the node is returned on a path that did not mark it dirty: a value rewritten in place below it leaves the cached hashes of its ancestors stale (root no longer follows content, Commit writes nothing)")
			}
		}
	}
	if n < 4 {
		r.Anchor(rule, fmt.Errorf("unresolved anchor: %d descend-and-return paths found, 4 confirmed by reading", n))
	}
}

// orderSurvivor: hashes scheduled for deletion do not belong to nodes kept in
// the new trie on the same execution.
func orderSurvivor(r *engine.Run, rule string) {
	n := 0
	for _, name := range []string{"insert", "delete"} {
		f := wfn(r, rule, name)
		if f == nil {
			continue
		}
		resolveOf := func(v ssa.Value) ssa.Value {
			// cnode := t.resolve(x)  ->  x ; type assertions and extracts looked through
			for i := 0; i < 6; i++ {
				switch x := v.(type) {
				case *ssa.Extract:
					if c, ok := x.Tuple.(*ssa.Call); ok && x.Index == 0 {
						if sc := c.Call.StaticCallee(); sc != nil && (sc.Name() == "resolve" || sc.Name() == "resolveHashNode") {
							v = c.Call.Args[1]
							continue
						}
					}
					if ta, ok := x.Tuple.(*ssa.TypeAssert); ok && x.Index == 0 {
						v = ta.X
						continue
					}
					return v
				case *ssa.TypeAssert:
					v = x.X
				case *ssa.MakeInterface:
					v = x.X
				default:
					return v
				}
			}
			return v
		}
		o := ord{}
		engine.Instrs(f, func(in ssa.Instruction) {
			st, ok := in.(*ssa.Store)
			if !ok {
				return
			}
			fld := engine.FieldOf(st.Addr)
			if fld == nil || fld.Name() != "tempDeleted" {
				return
			}
			app, ok := st.Val.(*ssa.Call)
			if !ok {
				return
			}
			// the scheduled hashes: elements of the varargs array: X.Hash()
			var scheduled []ssa.Value
			if sl, ok := app.Call.Args[1].(*ssa.Slice); ok {
				if al, ok := sl.X.(*ssa.Alloc); ok {
					for _, ref := range engine.Referrers(al) {
						if ia, ok := ref.(*ssa.IndexAddr); ok {
							for _, r2 := range engine.Referrers(ia) {
								if es, ok := r2.(*ssa.Store); ok {
									if hc, ok := es.Val.(*ssa.Call); ok {
										if recv, ok := engine.IsMethodCall(hc, "Hash"); ok {
											scheduled = append(scheduled, recv)
										}
									}
								}
							}
						}
					}
				}
			}
			for _, x := range scheduled {
				n++
				xr := engine.ValKey(resolveOf(x))
				bad := ""
				engine.Instrs(f, func(i2 ssa.Instruction) {
					s2, ok := i2.(*ssa.Store)
					if !ok {
						return
					}
					addr := s2.Addr
					if ia, ok := addr.(*ssa.IndexAddr); ok {
						addr = ia.X
					}
					f2 := engine.FieldOf(addr)
					if f2 == nil || (f2.Name() != "value" && f2.Name() != "Children") {
						return
					}
					if engine.ValKey(resolveOf(s2.Val)) != xr {
						return
					}
					if engine.ReachableAfter(in, i2) || engine.ReachableAfter(i2, in) {
						bad = "it is stored into the new trie at " + r.P.Pos(i2.Pos())
					}
				})
				r.Check(bad == "", rule, o.next(fn(f)+"|schedule "+shortVal(x)), r.P.Pos(in.Pos()), "the scheduled node is replaced or merged, not kept",
					"the hash of a node that stays in the trie is scheduled for deletion ("+bad+"): two garbage-collection passes later a node the committed root still references is removed")
			}
		})
	}
	if n < 5 {
		r.Anchor(rule, fmt.Errorf("unresolved anchor: %d scheduled hashes found in insert/delete", n))
	}
}

func shortVal(v ssa.Value) string {
	if nm := namedOf(v.Type()); nm != nil {
		return "*" + nm.Obj().Name()
	}
	return v.Type().String()
}

// depLinkBack: the subtree a recursive insert/delete returns becomes part of the
// trie: the node result of every self-recursive call is stored into a child
// slot (Children[i] / value) or returned; a result that is only compared is a
// subtree that was rebuilt and then forgotten.
func depLinkBack(r *engine.Run, rule string) {
	n := 0
	var fns []*ssa.Function
	var roots []*ssa.Function
	for _, name := range []string{"insert", "delete"} {
		for _, w := range walks(r, rule, name) {
			fns = append(fns, w.f)
			roots = append(roots, w.root)
		}
	}
	if f := wfn(r, rule, "commit"); f != nil {
		fns = append(fns, f)
		roots = append(roots, f)
	}
	for k, f := range fns {
		root := roots[k]
		// index of the node result
		ni := -1
		res := root.Signature.Results()
		for i := 0; i < res.Len(); i++ {
			if isNodeIfaceW(res.At(i).Type()) && ni < 0 {
				ni = i
			}
		}
		if ni < 0 {
			continue
		}
		o := ord{}
		engine.Instrs(f, func(in ssa.Instruction) {
			c, ok := in.(*ssa.Call)
			if !ok || c.Call.StaticCallee() != root {
				return
			}
			n++
			cons := o.next(fn(f) + "|recursive result")
			node := extractOf(c, ni)
			if node == nil {
				r.Fail(rule, cons, r.P.Pos(c.Pos()), "the subtree returned by the recursive call is discarded: the change below this node (a rebuilt child, a hash reference that replaces a collapsed subtree) is lost while weights and hashes above it are updated")
				return
			}
			// values derived from the result, the stores of such values, the returns of such values
			derived := map[ssa.Value]bool{}
			var stores []*ssa.Store
			var walk func(v ssa.Value)
			walk = func(v ssa.Value) {
				if derived[v] {
					return
				}
				derived[v] = true
				for _, ref := range engine.Referrers(v) {
					switch x := ref.(type) {
					case *ssa.Store:
						if x.Val == v {
							stores = append(stores, x)
						}
					case *ssa.Phi:
						walk(x)
					case *ssa.MakeInterface:
						walk(x)
					case *ssa.TypeAssert:
						walk(x)
					case *ssa.Extract:
						walk(x)
					case *ssa.FieldAddr:
						if x.X == v {
							walk(x)
						}
					case *ssa.UnOp:
						if x.Op == token.MUL && x.X == v {
							walk(x)
						}
					}
				}
			}
			walk(node)
			bad := ""
			sawReturn := false
			for _, ret := range engine.Returns(f) {
				last := ret.Results[len(ret.Results)-1]
				if !nilConst(last) && !derivedReturn(ret, derived) {
					continue // error returns
				}
				if !engine.ReachableAfter(c, ret) {
					continue
				}
				sawReturn = true
				if derivedReturn(ret, derived) {
					continue
				}
				linked := false
				for _, st := range stores {
					if engine.InstrDominates(st, ret) {
						linked = true
						continue
					}
					if !engine.ReachableAfter(st, ret) {
						continue
					}
					// a store that is skipped only where the result tested nil
					if facts, ok := engine.FactsOn(f, st.Block()); ok {
						for _, ft := range facts {
							if ft.Kind == "eq" && !ft.Truth && (ft.A == ssa.Value(node) && nilConst(ft.B) || ft.B == ssa.Value(node) && nilConst(ft.A)) {
								linked = true
							}
						}
					}
				}
				if !linked {
					bad = r.P.Pos(ret.Pos())
				}
			}
			r.Check(bad == "" && sawReturn, rule, cons, r.P.Pos(c.Pos()), "on every success path the returned subtree is stored into the parent (a store that is skipped only where the result is nil counts) or returned",
				"a success return ("+bad+") is reached after the recursive call without the returned subtree having been stored into the parent's slot or returned: the change below this node (a resolved and rewritten child, a hash reference replacing a collapsed subtree) is lost while the walk reports success")
		})
	}
	if n < 5 {
		r.Anchor(rule, fmt.Errorf("unresolved anchor: %d recursive calls in insert/delete/commit", n))
	}
}

func derivedReturn(ret *ssa.Return, derived map[ssa.Value]bool) bool {
	for _, v := range ret.Results {
		if derived[v] {
			return true
		}
	}
	return false
}

// agreeUpdate: an update in place of an existing value replaces both hashed
// fields of the value node (the bytes and the weight) from the payload.
func agreeUpdate(r *engine.Run, rule string) {
	ws := walks(r, rule, "insert")
	if len(ws) == 0 {
		return
	}
	if ws[0].value == nil {
		r.Anchor(rule, fmt.Errorf("unresolved anchor: payload parameter of insert"))
		return
	}
	f := ws[0].f
	// stores into fields of a *valueNode that is not the payload itself (in insert
	// or in a helper that stands for one of its arms)
	byObj := map[ssa.Value]map[string]bool{}
	var where = map[ssa.Value]ssa.Instruction{}
	for _, w := range ws {
		payload := w.value
		if payload == nil {
			continue
		}
		engine.Instrs(w.f, func(in ssa.Instruction) {
			st, ok := in.(*ssa.Store)
			if !ok {
				return
			}
			fa, ok := st.Addr.(*ssa.FieldAddr)
			if !ok {
				return
			}
			nm := namedOf(fa.X.Type())
			if nm == nil || nm.Obj().Name() != "valueNode" || dependsOn(fa.X, payload) {
				return
			}
			name := engine.FieldOf(fa).Name()
			if name != "value" && name != "weight" {
				return
			}
			if !dependsOn(st.Val, payload) {
				return
			}
			if byObj[fa.X] == nil {
				byObj[fa.X] = map[string]bool{}
			}
			byObj[fa.X][name] = true
			where[fa.X] = st
		})
	}
	n := 0
	for obj, set := range byObj {
		n++
		r.Check(set["value"] && set["weight"], rule, fn(f)+"|update in place", r.P.Pos(where[obj].Pos()), "both the bytes and the weight of the existing value node are replaced from the payload",
			fmt.Sprintf("an update in place replaces only part of the value node (value: %v, weight: %v): the node keeps the other half of the old entry while the ancestors' weights follow the new one", set["value"], set["weight"]))
	}
	if n < 1 {
		r.Fail(rule, fn(f)+"|update in place", r.P.Pos(f.Pos()), "insert no longer stores the payload's bytes or weight into an existing value node: an update of a present key changes the ancestors' weights but not the entry")
	}
}

// domNoChange: the "nothing changed" shortcut of an update in place (return of
// a zero weight change with the existing node) is taken only when both hashed
// fields are unchanged: the value bytes tested equal and the weights tested
// equal. A shortcut keyed on the bytes alone drops an update that changes only
// the weight.
func domNoChange(r *engine.Run, rule string) {
	for _, w := range walks(r, rule, "insert") {
		domNoChangeIn(r, rule, w.f)
	}
}

func domNoChangeIn(r *engine.Run, rule string, f *ssa.Function) {
	isWeight := func(v ssa.Value) bool {
		for {
			if cv, ok := v.(*ssa.Convert); ok {
				v = cv.X
				continue
			}
			break
		}
		if c, ok := v.(*ssa.Call); ok {
			if _, is := engine.IsMethodCall(c, "Weight"); is {
				return true
			}
		}
		if fld := fieldLoadOf(v); fld != nil && fld.Name() == "weight" {
			return true
		}
		return false
	}
	n := 0
	o := ord{}
	for _, ret := range engine.Returns(f) {
		if len(ret.Results) != 3 || !nilConst(ret.Results[2]) || !isZero(ret.Results[0]) {
			continue
		}
		mi, ok := ret.Results[1].(*ssa.MakeInterface)
		if !ok {
			continue
		}
		if nm := namedOf(mi.X.Type()); nm == nil || nm.Obj().Name() != "valueNode" {
			continue
		}
		n++
		facts, full := engine.FactsOn(f, ret.Block())
		bytesEq, weightEq := false, false
		if full {
			for _, ft := range facts {
				if ft.Kind == "bool" && ft.Truth {
					if c, ok := ft.A.(*ssa.Call); ok && isBytesEq(c) {
						bytesEq = true
					}
				}
				if ft.Kind == "eq" && ft.Truth && isWeight(ft.A) && isWeight(ft.B) {
					weightEq = true
				}
			}
		}
		r.Check(bytesEq && weightEq, rule, o.next(fn(f)+"|nothing-changed shortcut"), r.P.Pos(ret.Pos()), "taken only when the bytes and the weight both tested equal",
			fmt.Sprintf("the shortcut that skips an update in place is taken without comparing both hashed fields (bytes equal tested: %v, weights equal tested: %v): an update that changes only the weight is ignored, so the total weight no longer equals the sum of the live weights", bytesEq, weightEq))
	}
	_ = n
}

// whoScheduled: insert schedules a hash for collection (tempDeleted) only for a
// node it removes structurally - the shared-prefix node it splits. A position it
// overwrites (a value, a collapsed reference) may receive content that hashes
// exactly as before (an identical re-put); whether the old hash dies is decided
// by commit, under its "hash changed" test (DOM-unchanged). Scheduling the hash
// of an overwritten position at insert time collects a node the new trie still
// refers to once two collection passes have run.
func whoScheduled(r *engine.Run, rule string) {
	n := 0
	for _, w := range walks(r, rule, "insert") {
		f := w.f
		o := ord{}
		engine.Instrs(f, func(in ssa.Instruction) {
			st, ok := in.(*ssa.Store)
			if !ok {
				return
			}
			fld := engine.FieldOf(st.Addr)
			if fld == nil || fld.Name() != "tempDeleted" {
				return
			}
			ap, ok := st.Val.(*ssa.Call)
			if !ok {
				return
			}
			if b, isB := ap.Call.Value.(*ssa.Builtin); !isB || b.Name() != "append" || len(ap.Call.Args) < 2 {
				return
			}
			// the appended elements: a varargs array filled with hashes
			var elems []ssa.Value
			if sl, ok := ap.Call.Args[1].(*ssa.Slice); ok {
				if al, ok := sl.X.(*ssa.Alloc); ok {
					for _, ref := range engine.Referrers(al) {
						if ia, ok := ref.(*ssa.IndexAddr); ok {
							for _, r2 := range engine.Referrers(ia) {
								if s2, ok := r2.(*ssa.Store); ok && s2.Addr == ssa.Value(ia) {
									elems = append(elems, s2.Val)
								}
							}
						}
					}
				}
			}
			if len(elems) == 0 {
				elems = append(elems, ap.Call.Args[1])
			}
			for _, e := range elems {
				n++
				kind := "a value of unknown origin"
				good := false
				if c, ok := stripConv(e).(*ssa.Call); ok {
					var recv ssa.Value
					if c.Call.IsInvoke() {
						recv = c.Call.Value
					} else if len(c.Call.Args) == 1 {
						recv = c.Call.Args[0]
					}
					if recv != nil {
						if nm := namedOf(recv.Type()); nm != nil {
							kind = "the hash of a *" + nm.Obj().Name()
							good = nm.Obj().Name() == "shortNode"
						} else {
							kind = "the hash of a node of unknown kind"
						}
					}
				}
				if good {
					// ... and only where it is split: the common prefix tested shorter than its key
					if c, ok := stripConv(e).(*ssa.Call); ok {
						var recv ssa.Value
						if c.Call.IsInvoke() {
							recv = c.Call.Value
						} else if len(c.Call.Args) == 1 {
							recv = c.Call.Args[0]
						}
						split := false
						if recv != nil {
							ps := w.prefixCalls(recv)
							if facts, okf := engine.FactsOn(f, st.Block()); okf {
								for _, ft := range facts {
									if ft.Kind == "eq" && !ft.Truth && (oneOf(ft.A, ps) && isLenOfField(ft.B, recv) || oneOf(ft.B, ps) && isLenOfField(ft.A, recv)) {
										split = true
									}
									if ft.Kind == "lt" && ft.Truth && oneOf(ft.A, ps) && isLenOfField(ft.B, recv) {
										split = true
									}
								}
							}
						}
						if !split {
							good = false
							kind = "the shared-prefix node before it is known to be split (the common prefix was not tested shorter than its key)"
						}
					}
				}
				r.Check(good, rule, o.next(fn(f)+"|scheduled hash"), r.P.Pos(st.Pos()), "insert schedules only the shared-prefix node it splits, where it splits it",
					"insert schedules "+kind+" for collection: a position that is overwritten may get content that hashes as before (an identical re-put of a collapsed value), so the node the new trie refers to is collected after the next two collection passes; whether an overwritten node's hash dies is commit's decision, under its hash-changed test")
			}
		})
	}
	if n < 1 {
		r.Anchor(rule, fmt.Errorf("unresolved anchor: no hash scheduled for collection in insert (the split of a shared-prefix node is expected to schedule one)"))
	}
}
