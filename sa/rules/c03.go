package rules

import (
	"fmt"
	"go/constant"
	"go/types"
	"strings"

	"golang.org/x/tools/go/ssa"

	"verif/sa/engine"
)

func init() {
	register(&Check{ID: "C03", Pkgs: []string{pkgUtil}, Run: runC03})
}

func runC03(r *engine.Run) {
	r.Rule("FRESH-pathbuf", "see C01: Insert copies the caller's path before it builds nodes from it: leaves and extensions keep sub-slices of the path, and a caller that reuses its key buffer would change stored and pending nodes behind their hashes")
	r.Rule("DOM-askstore", "getNode returns an error only after it asked the trie's store (no remembered miss): a child reads its parent's content through the parent's store, and a node that was absent once may be there now")
	r.Rule("PURE-accessor", "the read accessors of the change collector (GetChanges, GetDeletes, GetStartRoot) store nothing into the collector: a kept listing of the delete set that is not dropped where a re-created node leaves the set makes the merge delete a live node in the parent")
	r.Rule("WHO-prev", "in every method of LevelNodeDB a call on the parent level (value loaded from field prev) is a read (GetNode, MultiGetNode, Iterate, Size) or a DeleteNode reached only with PropagateDeletes true; every PutNode/MultiPutNode goes to the current level")
	r.Rule("DOM-merge", "in mergeChanges every insertNode/deleteNode/setRoot is reached only when bytes.Equal(trie root, child's start root) held; in MergeMPTChanges the merge is reached only when the child's store is a *LevelNodeDB whose previous level is this trie's store")
	r.Rule("CLONE-store", "MemoryNodeDB stores CloneNode() of the node it is given (never the caller's object); the trie populates its node cache only through TransactionCache.Set (which clones, C07)")
	r.Rule("DOM-cancel", "see C05: a node that is live again in the child never stays in the child's delete set (the merge would delete it from the parent)")
	r.Rule("FRESH-bytes", "the byte slices handed out by the node accessors (MarshalMsg, Encode, GetHashBytes, GetValueBytes in core/util) are new buffers on every return: nil, make/conversion results, results of calls that produce new buffers, or appends to such; never a field, element, global or map entry. FRESH-node relies on this, and callers of GetNodeValueRaw own (and may overwrite) the slice they get")
	r.Rule("AGREE-snapshot", "in MergeMPTChanges the new root, the changes, the deletes and the start root handed to the merge routine are results of one and the same GetChanges call on the child (one instant of the child's state)")
	r.Rule("FRESH-node", "in the trie operations no node field store, node mutator call (SetValue, PutChild, SetOrigin, SetVersion, SetOriginTracker, Decode, CopyFrom) or in-place byte-slice write (append base, copy destination, element store) targets memory that derives from a node handed out by the store/cache, from a caller's argument or from a shallow copy; only constructor results, Clone() results, concat/make results and literals may be written (interprocedural source-label dataflow, parameters by fixpoint over call sites)")
	r.Rule("DOM-adopt", "in MergeMPTChanges, MergeChanges and mergeChanges every return either returns a provably non-nil error, returns the result of mergeChanges, is dominated by the adoption of the child's root (mergeChanges call / setRoot(newRoot) / store of newRoot to root), or is reached only where bytes.Equal(this trie's root, the child's root) held: a merge never reports success while the parent keeps a root different from the child's")
	r.Rule("WHO-tombstones", "LevelNodeDB.DeletedNodes (tombstones of deletes that were not propagated) is never read by the level store's lookups (getNode, GetNode, MultiGetNode, Iterate, Size): tombstones are not cleared when a node is stored again")
	r.Rule("AGREE-nostamp", "mergeChanges installs the nodes of the child's change set without re-stamping them (the installer it calls in the replay loop sets no origin/version on the node): a node the child took over from another version keeps the hash the child's root refers to, and the donor store's object is not written")
	r.Rule("DOM-mergeall", "in mergeChanges every iteration of the loop over the child's changes passes insertNode (only an error return leaves the loop early): no change is skipped")
	r.Rule("LOCK-mpt", "see C16: root, the stores' maps and level links and the collector's maps are accessed only with their owner's mutex held in the required mode (a writer under the read lock, or on a root read outside the lock, loses another writer's update)")
	r.Rule("ORDER-critical", "see C16: Insert, Delete, MergeChanges and MergeDB are one critical section each, from the first read of the root to its last update")
	r.Rule("DOM-samekey", "see C05: an unchanged re-write is not reported to the change collector (it would file the still-live node in the child's delete set, and the merge removes it from the parent)")
	r.Rule("CLONE-deep", "see C07: Clone() of every node type is a deep copy (the codec round trip), never a value that shares path/key/value memory with the receiver - FRESH-node treats Clone() results as fresh, and an in-place append onto a shallow copy writes into the store's object")
	r.NotDec = append(r.NotDec, "equality of parent and child views after arbitrary histories")
	whoPrev(r)
	domMerge(r)
	cloneStore(r)
	r.Rule("CLONE-node", "no CloneNode() of a trie node kind fills a pointer-typed field of the clone (the embedded origin tracker, a branch's value node) with the pointer loaded from the receiver: the clone is what the trie modifies (SetValue, SetOrigin) to build a changed node and what the memory store keeps, so a shared object lets an unmerged child edit the parent's stored node")
	cloneNodeFresh(r, "CLONE-node")
	freshNode(r, "C03")
	agreeMergeSnapshot(r, "AGREE-snapshot")
	domCancel(r)
	domAdopt(r, "DOM-adopt")
	whoTombstones(r, "WHO-tombstones")
	domMergeAll(r, "DOM-mergeall")
	mptLockDiscipline(r)
	domSameKey(r, "DOM-samekey")
	cloneDeep(r)
	askStore(r, "DOM-askstore")
	pureAccessors(r, "PURE-accessor")
	freshPathBuf(r, "FRESH-pathbuf")
}

func whoPrev(r *engine.Run) {
	const rule = "WHO-prev"
	reads := map[string]bool{"GetNode": true, "MultiGetNode": true, "Iterate": true, "Size": true}
	writes := map[string]bool{"PutNode": true, "MultiPutNode": true, "DeleteNode": true, "MultiDeleteNode": true}
	n := 0
	for _, f := range funcsOfPkg(r, pkgUtil) {
		if recvNamed(engine.TopFunc(f)) != "LevelNodeDB" || len(f.Blocks) == 0 {
			continue
		}
		r.Touch(f)
		o := ord{}
		engine.Instrs(f, func(in ssa.Instruction) {
			c, ok := in.(ssa.CallInstruction)
			if !ok {
				return
			}
			var recv ssa.Value
			m := ""
			switch {
			case c.Common().IsInvoke() && isNamed(c.Common().Value.Type(), pkgUtil, "NodeDB"):
				recv, m = c.Common().Value, c.Common().Method.Name()
			case c.Common().StaticCallee() != nil && c.Common().StaticCallee().Signature.Recv() != nil && len(c.Common().Args) > 0:
				// a store method called on the concrete store a level field was asserted to
				recv, m = c.Common().Args[0], c.Common().StaticCallee().Name()
				for i := 0; i < 4; i++ {
					recv = through(recv)
					if ex, ok := recv.(*ssa.Extract); ok {
						if ta, ok := ex.Tuple.(*ssa.TypeAssert); ok && ex.Index == 0 {
							recv = ta.X
							continue
						}
					}
					break
				}
				if recv == c.Common().Args[0] || !isNamed(recv.Type(), pkgUtil, "NodeDB") {
					return
				}
			default:
				return
			}
			if !reads[m] && !writes[m] && m != "RecordDeadNodes" && m != "PruneBelowVersion" {
				return
			}
			fld := fieldLoadOf(recv)
			construct := o.next(fn(f) + "|" + m)
			n++
			r.CallSites++
			pos := r.P.Pos(in.Pos())
			if fld == nil {
				r.Undec(rule, construct, pos, "store call on a value that is neither the prev nor the current level")
				return
			}
			switch fld.Name() {
			case "current":
				r.OK(rule, construct, pos, m+" on the current level")
			case "prev":
				switch {
				case reads[m]:
					r.OK(rule, construct, pos, "read of the parent level")
				case m == "DeleteNode":
					// PropagateDeletes must be true on every feasible path
					facts, ok := engine.FactsOn(f, in.Block())
					good := false
					if ok {
						for _, ft := range facts {
							if ft.Kind == "bool" && ft.Truth {
								if ld, ok := ft.A.(*ssa.UnOp); ok {
									if fd := engine.FieldOf(ld.X); fd != nil && fd.Name() == "PropagateDeletes" {
										good = true
									}
								}
							}
						}
					}
					r.Check(good, rule, construct, pos, "delete propagated to the parent level only under PropagateDeletes", "a child's delete reaches the parent level without the PropagateDeletes guard: a discarded child changes its parent")
				default:
					r.Fail(rule, construct, pos, "a write ("+m+") is routed to the parent level: sibling children and the parent see an unmerged child's change")
				}
			default:
				r.Undec(rule, construct, pos, "store call on field "+fld.Name())
			}
		})
	}
	if n < 8 {
		r.Anchor(rule, fmt.Errorf("unresolved anchor: only %d level-store calls found in LevelNodeDB", n))
	}
}

// bytesEqualOn finds calls bytes.Equal(a, b) whose operands (in either order)
// satisfy the two predicates.
func bytesEqualOn(f *ssa.Function, pa, pb func(ssa.Value) bool) []*ssa.Call {
	var out []*ssa.Call
	engine.Instrs(f, func(in ssa.Instruction) {
		c, ok := in.(*ssa.Call)
		if !ok || !isBytesEq(c) {
			return
		}
		a, b := stripCT(c.Call.Args[0]), stripCT(c.Call.Args[1])
		if pa(a) && pb(b) || pa(b) && pb(a) {
			out = append(out, c)
		}
	})
	return out
}

func stripCT(v ssa.Value) ssa.Value {
	for {
		if ct, ok := v.(*ssa.ChangeType); ok {
			v = ct.X
			continue
		}
		return v
	}
}

func isFieldLoad(name string) func(ssa.Value) bool {
	return func(v ssa.Value) bool {
		fld := fieldLoadOf(v)
		_, isLoad := v.(*ssa.UnOp)
		return isLoad && fld != nil && fld.Name() == name
	}
}

func isParamNamed(name string) func(ssa.Value) bool {
	return func(v ssa.Value) bool {
		p, ok := v.(*ssa.Parameter)
		if !ok {
			return false
		}
		return p.Name() == name || paramRole(p.Parent(), name) == ssa.Value(p)
	}
}

// isBytesEq: c compares two byte slices for equality: bytes.Equal(a, b), or
// bytes.Compare(a, b) whose result is tested against 0.
func isBytesEq(c ssa.CallInstruction) bool {
	if extCalleeIs(c, "bytes", "", "Equal") || extCalleeIs(c, "bytes", "", "Compare") {
		return true
	}
	// a repository helper that is nothing but bytes.Equal of its two parameters
	g := c.Common().StaticCallee()
	if g == nil || len(g.Blocks) != 1 || len(g.Params) != 2 || c.Common().IsInvoke() {
		return false
	}
	ret, ok := g.Blocks[0].Instrs[len(g.Blocks[0].Instrs)-1].(*ssa.Return)
	if !ok || len(ret.Results) != 1 {
		return false
	}
	eq, ok := ret.Results[0].(*ssa.Call)
	if !ok || !extCalleeIs(eq, "bytes", "", "Equal") {
		return false
	}
	a, b := stripCT(eq.Call.Args[0]), stripCT(eq.Call.Args[1])
	return a == ssa.Value(g.Params[0]) && b == ssa.Value(g.Params[1]) || a == ssa.Value(g.Params[1]) && b == ssa.Value(g.Params[0])
}

// truthAt: the byte-slice equality expressed by call c (see isBytesEq; or any
// bool-valued call) has the given truth on every feasible path to block b.
func truthAt(f *ssa.Function, b *ssa.BasicBlock, c ssa.Value, truth bool) bool {
	if cc, ok := c.(*ssa.Call); ok && extCalleeIs(cc, "bytes", "", "Compare") {
		facts, ok := engine.FactsOn(f, b)
		if !ok {
			return false
		}
		for _, ft := range facts {
			if ft.Kind != "eq" {
				continue
			}
			for _, side := range [][2]ssa.Value{{ft.A, ft.B}, {ft.B, ft.A}} {
				if side[0] == c {
					if k, isK := intConst(side[1]); isK && k == 0 {
						return ft.Truth == truth
					}
				}
			}
		}
		return false
	}
	atoms, ok := engine.AtomsOn(f, b)
	if !ok {
		return false
	}
	v, had := atoms[engine.ValKey(c)]
	return had && v == truth
}

func domMerge(r *engine.Run) {
	domMergeAtomic(r, "DOM-merge")
	rootMovedLast(r, "DOM-merge")
	const rule = "DOM-merge"
	f := r.Fn(rule, pkgUtil, "MerklePatriciaTrie", "mergeChanges")
	if f != nil {
		eq := bytesEqualOn(f, isFieldLoad("root"), isParamNamed("startRoot"))
		if len(eq) == 0 {
			r.Fail(rule, fn(f)+"|start-root comparison", r.P.Pos(f.Pos()), "mergeChanges no longer compares the trie's root with the child's start root: a stale child (opened before the parent moved on) is merged")
		} else {
			o := ord{}
			n := 0
			engine.Instrs(f, func(in ssa.Instruction) {
				c, ok := in.(*ssa.Call)
				if !ok {
					return
				}
				sc := c.Call.StaticCallee()
				if sc == nil || recvNamed(sc) != "MerklePatriciaTrie" {
					return
				}
				switch sc.Name() {
				case "insertNode", "deleteNode", "setRoot":
				default:
					if !isNodeInstaller(r, c) && !callsInstaller(r, sc) && !callsNamed(sc, "deleteNode") {
						return
					}
				}
				n++
				r.CallSites++
				good := false
				for _, e := range eq {
					if truthAt(f, c.Block(), e, true) {
						good = true
					}
				}
				r.Check(good, rule, o.next(fn(f)+"|"+sc.Name()), r.P.Pos(c.Pos()), "reached only after the start-root comparison succeeded",
					"the parent is modified on a path where the optimistic start-root check has not succeeded: a rejected (stale) merge leaves traces")
			})
			// root field stores directly in mergeChanges
			engine.Instrs(f, func(in ssa.Instruction) {
				if st, ok := in.(*ssa.Store); ok {
					if fld := engine.FieldOf(st.Addr); fld != nil && fld.Name() == "root" {
						n++
						good := false
						for _, e := range eq {
							if truthAt(f, st.Block(), e, true) {
								good = true
							}
						}
						r.Check(good, rule, o.next(fn(f)+"|store root"), r.P.Pos(st.Pos()), "root stored only after the start-root comparison succeeded", "root is overwritten without the optimistic check")
					}
				}
			})
			if n < 3 {
				r.Anchor(rule, fmt.Errorf("unresolved anchor: replay calls in %s (found %d)", fn(f), n))
			}
		}
	}
	g := r.Fn(rule, pkgUtil, "MerklePatriciaTrie", "MergeMPTChanges")
	if g != nil {
		merge := f
		var mergeCalls []*ssa.Call
		engine.Instrs(g, func(in ssa.Instruction) {
			if c, ok := in.(*ssa.Call); ok && c.Call.StaticCallee() == merge && merge != nil {
				mergeCalls = append(mergeCalls, c)
			}
		})
		if len(mergeCalls) == 0 {
			r.Anchor(rule, fmt.Errorf("unresolved anchor: call of mergeChanges in %s", fn(g)))
			return
		}
		for _, mc := range mergeCalls {
			isLevel, isDirect := directChildFacts(g, mc.Block(), g.Params[0], nil)
			if !(isLevel && isDirect) {
				// the two checks may sit in a helper of the operation that returns a
				// nil error only where both held: merge is reached where that error
				// tested nil
				if facts, ok := engine.FactsOn(g, mc.Block()); ok {
					for _, ft := range facts {
						if ft.Kind != "eq" || !ft.Truth {
							continue
						}
						a, b := ft.A, ft.B
						if nilConst(a) {
							a, b = b, a
						}
						if !nilConst(b) {
							continue
						}
						ex, ok := a.(*ssa.Extract)
						if !ok {
							continue
						}
						hc, ok := ex.Tuple.(*ssa.Call)
						if !ok {
							continue
						}
						h := hc.Call.StaticCallee()
						if h == nil || !inGroup(opGroup(r, g), h) || h.Signature.Results().Len() <= ex.Index {
							continue
						}
						// which helper parameter is this trie
						var self *ssa.Parameter
						for i, arg := range hc.Call.Args {
							if arg == ssa.Value(g.Params[0]) && i < len(h.Params) {
								self = h.Params[i]
							}
						}
						if self == nil {
							continue
						}
						lv, dr, n := true, true, 0
						for _, ret := range engine.Returns(h) {
							if len(ret.Results) <= ex.Index || !nilConst(ret.Results[ex.Index]) {
								continue
							}
							n++
							l, d := directChildFacts(h, ret.Block(), self, nil)
							lv, dr = lv && l, dr && d
						}
						if n > 0 && lv && dr {
							isLevel, isDirect = true, true
						}
					}
				}
			}
			r.CallSites++
			r.Check(isLevel && isDirect, rule, fn(g)+"|direct-child guard", r.P.Pos(mc.Pos()),
				"merge reached only when the child's store is a *LevelNodeDB layered directly over this trie's store",
				fmt.Sprintf("changes are merged from a trie that is not a direct child of this one (level-store check=%v, prev==own store check=%v)", isLevel, isDirect))
		}
	}
}

// directChildFacts: on every feasible path to block at of g, the store of the
// other trie was asserted to be a *LevelNodeDB and its GetPrev() compared equal
// to self.GetNodeDB().
func directChildFacts(g *ssa.Function, at *ssa.BasicBlock, self *ssa.Parameter, _ interface{}) (isLevel, isDirect bool) {
	facts, ok := engine.FactsOn(g, at)
	if !ok {
		return false, false
	}
	for _, ft := range facts {
		// newDB.(*LevelNodeDB) succeeded
		if ft.Kind == "bool" && ft.Truth {
			if ex, ok := ft.A.(*ssa.Extract); ok && ex.Index == 1 {
				if ta, ok := ex.Tuple.(*ssa.TypeAssert); ok && isNamed(ta.AssertedType, pkgUtil, "LevelNodeDB") {
					if c, ok := ta.X.(*ssa.Call); ok && c.Call.IsInvoke() && c.Call.Method.Name() == "GetNodeDB" {
						isLevel = true
					}
				}
			}
		}
		// preDB == mpt.GetNodeDB()
		if ft.Kind == "eq" && ft.Truth {
			a, b := ft.A, ft.B
			for i := 0; i < 2; i++ {
				ca, okA := through(a).(*ssa.Call)
				cb, okB := through(b).(*ssa.Call)
				if okA && okB && staticCalleeIs(ca, pkgUtil, "LevelNodeDB", "GetPrev") && staticCalleeIs(cb, pkgUtil, "MerklePatriciaTrie", "GetNodeDB") {
					if prm, ok := cb.Call.Args[0].(*ssa.Parameter); ok && prm == self {
						isDirect = true
					}
				}
				a, b = b, a
			}
		}
	}
	return
}

func cloneStore(r *engine.Run) {
	const rule = "CLONE-store"
	f := r.Fn(rule, pkgUtil, "MemoryNodeDB", "putNode")
	if f != nil {
		n := 0
		engine.Instrs(f, func(in ssa.Instruction) {
			mu, ok := in.(*ssa.MapUpdate)
			if !ok {
				return
			}
			n++
			good := false
			if c, ok := mu.Value.(*ssa.Call); ok {
				if recv, ok := engine.IsMethodCall(c, "CloneNode"); ok && recv == ssa.Value(f.Params[2]) {
					good = true
				}
			}
			keyOK := false
			if cv, ok := mu.Key.(*ssa.Convert); ok && cv.X == ssa.Value(f.Params[1]) {
				keyOK = true
			}
			r.Check(good, rule, fn(f)+"|stored value", r.P.Pos(mu.Pos()), "stores CloneNode() of the given node", "the memory store keeps the caller's node object: later changes by the caller (or by the store's readers) alias each other")
			r.Check(keyOK, rule, fn(f)+"|stored key", r.P.Pos(mu.Pos()), "stored under the given key", "the memory store files the node under a key other than the one given")
		})
		if n == 0 {
			r.Anchor(rule, fmt.Errorf("unresolved anchor: map store in %s", fn(f)))
		}
	}
	// node cache populated only through TransactionCache.Set / Remove
	tcache := 0
	for _, g := range funcsOfPkg(r, pkgUtil) {
		if recvNamed(engine.TopFunc(g)) != "MerklePatriciaTrie" {
			continue
		}
		engine.Instrs(g, func(in ssa.Instruction) {
			c, ok := in.(ssa.CallInstruction)
			if !ok {
				return
			}
			sc := c.Common().StaticCallee()
			if sc == nil || recvNamed(sc) != "TransactionCache" || !strings.HasSuffix(sc.Pkg.Pkg.Path(), pkgSC) {
				return
			}
			tcache++
			switch sc.Name() {
			case "Set", "Get", "Remove", "AddHit", "AddMiss", "Stats", "Commit":
			default:
				r.Fail(rule, fn(g)+"|cache."+sc.Name(), r.P.Pos(in.Pos()), "the trie touches its node cache through an unexpected method")
			}
		})
	}
	if g := r.Fn(rule, pkgUtil, "MerklePatriciaTrie", "getNode"); g != nil {
		// the node put into the cache is the one just read under the same key
		found := false
		engine.Instrs(g, func(in ssa.Instruction) {
			c, ok := in.(*ssa.Call)
			if !ok {
				return
			}
			if sc := c.Call.StaticCallee(); sc != nil && recvNamed(sc) == "TransactionCache" && sc.Name() == "Set" {
				found = true
				kc, isConv := c.Call.Args[1].(*ssa.Convert)
				keyOK := isConv && kc.X == ssa.Value(g.Params[1])
				r.Check(keyOK, rule, fn(g)+"|cache key", r.P.Pos(c.Pos()), "cached under the key that was looked up", "getNode caches the node under a different key than it was read from")
			}
		})
		if !found {
			r.Note(rule, fn(g)+"|cache fill", r.P.Pos(g.Pos()), "getNode does not populate the node cache")
		}
	}
	r.Min(rule, 2)
}

// Named exceptions of FRESH-node: (sink function | what | source) with reason.
var freshExceptions = map[string]string{
	"(*util.MerklePatriciaTrie).insertNode|call SetOrigin|parameter changes of (*util.MerklePatriciaTrie).mergeChanges": "a child trie is opened at its parent's version, so re-stamping the origin of the child's New nodes while replaying them is idempotent",
	"(*util.MerklePatriciaTrie).insertNode|call SetOrigin|parameter changes of (*util.MerklePatriciaTrie).MergeChanges": "same replay, entered through the exported wrapper",
	"(*util.MerklePatriciaTrie).insertNode|call SetOrigin|parameter mpt2 of (*util.MerklePatriciaTrie).MergeMPTChanges": "same replay: the changes are obtained from the child trie handed to MergeMPTChanges",
}

func mptFuncs(r *engine.Run) []*ssa.Function {
	var out []*ssa.Function
	for _, f := range funcsOfPkg(r, pkgUtil) {
		top := engine.TopFunc(f)
		if len(f.Blocks) == 0 {
			continue
		}
		if recvNamed(top) == "MerklePatriciaTrie" || top.Name() == "concat" || top.Name() == "MergeState" || top.Name() == "CloneMPT" {
			out = append(out, f)
		}
	}
	return out
}

// freshNode runs FRESH over the trie operations. prop selects which findings
// are reported here: C17 owns the donor-store source (MergeDB), C03/C04 the rest.
func freshNode(r *engine.Run, prop string) {
	const rule = "FRESH-node"
	funcs := mptFuncs(r)
	for _, f := range funcs {
		r.Touch(f)
	}
	w := newFreshWorld(r, funcs)
	sinks := w.sinks()
	o := ord{}
	n := 0
	for _, s := range sinks {
		n++
		base := fn(s.f) + "|" + s.what
		pos := r.P.Pos(s.in.Pos())
		if s.label == 0 {
			r.OK(rule, o.next(base), pos, "target is fresh (constructor, Clone(), concat/make or literal) on every path")
			continue
		}
		for _, src := range w.names(s.label) {
			donor := strings.Contains(src, "MergeDB")
			if (prop == "C17") != donor {
				if prop == "C17" {
					continue
				}
				r.Note(rule, base+"|"+src, pos, "reported under C17 (donor store)")
				continue
			}
			key := base + "|" + src
			if why, ok := freshExceptions[key]; ok {
				r.Note(rule, key, pos, "named exception: "+why)
				continue
			}
			r.Fail(rule, key, pos, "in-place write ("+s.what+") to memory that derives from "+src+": the bytes are shared with the store, the node cache or a pending change, so a sibling, the parent or a saved node changes behind its hash")
		}
	}
	if prop != "C17" {
		freshBytes(r, "FRESH-bytes")
	}
	if prop != "C17" && n < 25 {
		r.Anchor(rule, fmt.Errorf("unresolved anchor: only %d node write sites found in the trie operations", n))
	}
}

// whoTombstones: the level store's delete tombstones (DeletedNodes) are a
// write-only record for the save path: no lookup of the level store consults
// them. They are never cleared when a node is stored again, so a lookup that
// answered from them would hide a node the level (or the level below) holds.
func whoTombstones(r *engine.Run, rule string) {
	n := 0
	for _, f := range funcsOfPkg(r, pkgUtil) {
		if recvNamed(engine.TopFunc(f)) != "LevelNodeDB" {
			continue
		}
		isLookup := false
		switch engine.TopFunc(f).Name() {
		case "getNode", "GetNode", "MultiGetNode", "Iterate", "Size":
			isLookup = true
		}
		o := ord{}
		engine.Instrs(f, func(in ssa.Instruction) {
			ld, ok := in.(*ssa.UnOp)
			if !ok {
				return
			}
			if fld := fieldLoadOf(ld); fld == nil || fld.Name() != "DeletedNodes" {
				return
			}
			// a load used only as the target of a map update is a write
			readUse := false
			for _, ref := range engine.Referrers(ld) {
				if mu, ok := ref.(*ssa.MapUpdate); ok && mu.Map == ssa.Value(ld) {
					continue
				}
				readUse = true
			}
			n++
			r.Check(!(isLookup && readUse), rule, o.next(fn(f)+"|DeletedNodes"), r.P.Pos(ld.Pos()), "tombstones are only recorded here",
				"a lookup of the level store consults the delete tombstones, which are never cleared when a node is stored again: a node that a merged child removed and a later child re-created (or that still lives in the level below) is reported absent")
		})
	}
	if n < 1 {
		r.Anchor(rule, fmt.Errorf("unresolved anchor: no use of LevelNodeDB.DeletedNodes found"))
	}
}

// domMergeAll: mergeChanges replays every change of the child: inside the loop
// over the changes, the next iteration is not reachable without passing
// insertNode (an error return leaves the loop).
func domMergeAll(r *engine.Run, rule string) {
	f := r.Fn(rule, pkgUtil, "MerklePatriciaTrie", "mergeChanges")
	if f == nil {
		return
	}
	var ins *ssa.Call
	engine.Instrs(f, func(in ssa.Instruction) {
		if c, ok := in.(*ssa.Call); ok && isNodeInstaller(r, c) && inLoopBody(c.Block()) {
			ins = c
		}
	})
	if ins == nil {
		// the replay loop extracted into a helper of the trie that mergeChanges calls
		var helper *ssa.Function
		engine.Instrs(f, func(in ssa.Instruction) {
			if c, ok := in.(*ssa.Call); ok {
				if g := c.Call.StaticCallee(); g != nil && g != f && recvNamed(g) == "MerklePatriciaTrie" && callsInstaller(r, g) && !isNodeInstaller(r, c) {
					helper = g
				}
			}
		})
		if helper != nil {
			r.Touch(helper)
			f = helper
			engine.Instrs(f, func(in ssa.Instruction) {
				if c, ok := in.(*ssa.Call); ok && isNodeInstaller(r, c) && inLoopBody(c.Block()) {
					ins = c
				}
			})
		}
	}
	if ins == nil {
		r.Fail(rule, fn(f)+"|replays every change", r.P.Pos(f.Pos()), "mergeChanges no longer replays the child's changes with insertNode inside a loop")
		return
	}
	head := loopHeadOf(ins.Block())
	if head == nil {
		r.Anchor(rule, fmt.Errorf("unresolved anchor: loop head of the change replay"))
		return
	}
	// the nodes of the child's change set are installed as the child built them: the
	// installer used by the replay does not stamp this trie's version on them. A node
	// the child took over from another version (MergeDB) would get a new hash, under
	// which nothing refers to it, and the stamp would be written into the object the
	// other store still holds.
	stamps := ""
	if g := ins.Call.StaticCallee(); g != nil {
		engine.Instrs(g, func(in ssa.Instruction) {
			c, ok := in.(*ssa.Call)
			if !ok {
				return
			}
			for _, m := range []string{"SetOrigin", "SetVersion", "SetOriginTracker"} {
				if recv, ok := engine.IsMethodCall(c, m); ok {
					for _, p := range g.Params {
						if recv == ssa.Value(p) {
							stamps = m + " at " + r.P.Pos(c.Pos())
						}
					}
				}
			}
		})
	}
	r.Check(stamps == "", "AGREE-nostamp", fn(f)+"|merged nodes keep their hash", r.P.Pos(ins.Pos()), "the replay installs the child's nodes without re-stamping them",
		"the merge installs the child's nodes through a routine that stamps this trie's version on them ("+stamps+"): a node the child took over from another version (MergeDB, state sync) gets a new hash, so the root the merge installs refers to a node that is not in the store under that hash - the parent cannot read what it merged - and the stamp is written into the node object the donor store holds")
	bypass := head != ins.Block() && loopBypass(head, ins.Block())
	r.Check(!bypass, rule, fn(f)+"|replays every change", r.P.Pos(ins.Pos()), "every iteration of the replay loop passes insertNode",
		"the replay loop can skip a change of the child (a path to the next iteration bypasses insertNode): the skipped node is neither stored at this level nor taken out of the dead set, so the merged state loses or later prunes a live node")
}

// pathTruth: the truth of the byte-slice equality c on one enumerated path.
func pathTruth(p map[string]bool, c *ssa.Call) (truth, had bool) {
	if extCalleeIs(c, "bytes", "", "Compare") {
		zero := ssa.NewConst(constant.MakeInt64(0), types.Typ[types.Int])
		v, ok := p[engine.EqKey(c, zero)]
		return v, ok
	}
	v, ok := p[engine.ValKey(c)]
	return v, ok
}

// agreeMergeSnapshot: MergeMPTChanges publishes the child's view in the parent:
// new root, changes, deletes and start root. The four belong to one instant of
// the child (GetChanges reads them under one hold of the child's lock, see C16
// LOCK-snapshot); a root read by a separate call and combined with a later
// change set installs a root whose nodes were never handed over.
//
// Rule: the four arguments of the merge routine in MergeMPTChanges are results
// of one and the same GetChanges call on the child.
func agreeMergeSnapshot(r *engine.Run, rule string) {
	f := r.Fn(rule, pkgUtil, "MerklePatriciaTrie", "MergeMPTChanges")
	if f == nil {
		return
	}
	n := 0
	engine.Instrs(f, func(in ssa.Instruction) {
		c, ok := in.(*ssa.Call)
		if !ok {
			return
		}
		g := c.Call.StaticCallee()
		if g == nil || g == f || !inRepo(g) || recvNamed(g) != "MerklePatriciaTrie" || len(c.Call.Args) < 5 {
			return
		}
		// the merge routine: a trie method that takes root, changes, deletes, start root
		var src *ssa.Call
		same, all := true, true
		cnt := 0
		for _, a := range c.Call.Args[1:] {
			ex, ok := stripConv(a).(*ssa.Extract)
			if !ok {
				all = false
				continue
			}
			cc, ok := ex.Tuple.(*ssa.Call)
			if !ok || !cc.Call.IsInvoke() || cc.Call.Method.Name() != "GetChanges" {
				all = false
				continue
			}
			cnt++
			if src == nil {
				src = cc
			} else if src != cc {
				same = false
			}
		}
		if cnt == 0 {
			return
		}
		n++
		r.Check(all && same && cnt >= 4, rule, fn(f)+"|one snapshot of the child", r.P.Pos(c.Pos()), "root, changes, deletes and start root handed to the merge come from one GetChanges call",
			"the merge is given a root that does not come from the same GetChanges call as the change set (it was read by a separate call): an insert on the child between the two reads makes the parent install an older root with a newer change set, or a newer root whose nodes were never handed over")
	})
	if n < 1 {
		r.Anchor(rule, fmt.Errorf("unresolved anchor: the merge call in MergeMPTChanges"))
	}
}
