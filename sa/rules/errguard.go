package rules

import (
	"fmt"
	"go/token"
	"go/types"
	"strings"

	"golang.org/x/tools/go/ssa"

	"verif/sa/engine"
)

// ERR-guard / ERR-dropped: error discipline of the trie operations.
//
// For every call in the given functions whose last result is an error E:
//   - ERR-dropped: if the callee is a repository operation (a method of the
//     trie, of a node store or of a storage adapter/batcher) E is looked at:
//     compared, returned, stored into a result or handed to a switch. A call
//     whose error is never looked at continues with results that do not exist.
//     Deliberate drops are listed in errDropAllowed with their reason.
//   - ERR-guard: wherever E is compared with nil and one successor of the test is
//     a plain "return" block, that successor is the E != nil edge and it returns
//     a non-nil error (E itself, a sentinel, or a constructed error); a test
//     whose early return sits on the E == nil edge and returns E itself is a
//     swapped test: success returns nothing and failures carry on.

// errDropAllowed: (function|callee) pairs whose error is deliberately not looked at.
var errDropAllowed = map[string]string{
	"(*util.MerklePatriciaTrie).mergeChanges|deleteNode":        "deletes of already absent nodes are logged and skipped by design (the child's dead list may name nodes the parent never stored)",
	"(*util/wmpt.WeightedMerkleTrie).RollbackTrie|Delete":       "best-effort removal of the rolled-back commit's nodes (marked nolint upstream)",
	"(*util/wmpt.WeightedMerkleTrie).RollbackTrie|Commit":       "best-effort removal of the rolled-back commit's nodes (marked nolint upstream)",
	"(*util/wmpt.WeightedMerkleTrie).Rollback|Delete":           "best-effort removal of the rolled-back commit's nodes",
	"(*util/wmpt.WeightedMerkleTrie).Rollback|Commit":           "best-effort removal of the rolled-back commit's nodes",
	"(*util.MerklePatriciaTrie).pp2|pp2":                        "the missing-node survey records an absent child and deliberately continues with the siblings (explicit `_ =`)",
	"(*util.MerklePatriciaTrie).pp|pp":                          "diagnostic pretty printer: a failing child is printed and the walk continues",
	"(*util.MemoryNodeDB).ComputeRoot|iterate":                  "root discovery over the in-memory map: the handler never returns an error (explicit `_ =`)",
	"(*util/wmpt.WeightedMerkleTrie).collectNodes|collectNodes": "the only error source is Serialize of an in-memory node, which cannot fail for nodes that were decoded or built by the trie",
}

func isErrorType(t types.Type) bool {
	n, ok := t.(*types.Named)
	return ok && n.Obj().Pkg() == nil && n.Obj().Name() == "error"
}

// errResult returns the error value produced by call c (nil when the call has
// no error result or the result is not extracted at all -> dropped=true).
func errResult(c *ssa.Call) (e ssa.Value, hasErr, dropped bool) {
	sig := c.Call.Signature()
	res := sig.Results()
	if res.Len() == 0 || !isErrorType(res.At(res.Len()-1).Type()) {
		return nil, false, false
	}
	if res.Len() == 1 {
		if len(engine.Referrers(c)) == 0 {
			return nil, true, true
		}
		return c, true, false
	}
	for _, ref := range engine.Referrers(c) {
		if ex, ok := ref.(*ssa.Extract); ok && ex.Index == res.Len()-1 {
			return ex, true, false
		}
	}
	return nil, true, true
}

func repoOperation(c *ssa.Call) (name string, ok bool) {
	if c.Call.IsInvoke() {
		recv := namedOf(c.Call.Value.Type())
		if recv == nil || recv.Obj().Pkg() == nil || !strings.HasPrefix(recv.Obj().Pkg().Path(), engine.RepoMod) {
			return "", false
		}
		switch recv.Obj().Name() {
		case "NodeDB", "StorageAdapter", "Batcher", "Node", "MerklePatriciaTrieI", "ChangeCollectorI":
			return c.Call.Method.Name(), true
		}
		return "", false
	}
	if extCalleeIs(c, "x/sync/errgroup", "Group", "Wait") {
		return "errgroup.Wait", true // the errors of the parallel workers
	}
	sc := c.Call.StaticCallee()
	if sc == nil || sc.Pkg == nil || !strings.HasPrefix(sc.Pkg.Pkg.Path(), engine.RepoMod) {
		return "", false
	}
	switch recvNamed(sc) {
	case "MerklePatriciaTrie", "WeightedMerkleTrie", "LevelNodeDB", "MemoryNodeDB", "PNodeDB", "routingNode", "shortNode", "valueNode", "ChangeCollector":
		return sc.Name(), true
	}
	return "", false
}

func nonNilError(f *ssa.Function, at *ssa.BasicBlock, v, e ssa.Value) bool {
	if v == e {
		return true
	}
	if globalErrName(v) != "" {
		return true
	}
	if ph, ok := v.(*ssa.Phi); ok {
		for _, x := range ph.Edges {
			if !nonNilError(f, at, x, e) {
				return false
			}
		}
		return true
	}
	// an error-mapping helper applied to the failed call's error: g(e) whose every
	// return is its parameter, a sentinel or a constructed error
	if c, ok := v.(*ssa.Call); ok {
		if g := c.Call.StaticCallee(); g != nil && len(g.Blocks) > 0 && g != f {
			for ai, a := range c.Call.Args {
				if a != e || ai >= len(g.Params) {
					continue
				}
				all := true
				for _, ret := range engine.Returns(g) {
					if len(ret.Results) != 1 || !nonNilError(g, ret.Block(), resultValue(ret, 0), g.Params[ai]) {
						all = false
					}
				}
				if all {
					return true
				}
			}
		}
	}
	return provablyNonNil(f, at, v)
}

// cycleOf: the blocks that lie on a cycle through b (empty when b is not in a loop).
func cycleOf(b *ssa.BasicBlock) map[*ssa.BasicBlock]bool {
	fwd := map[*ssa.BasicBlock]bool{}
	work := append([]*ssa.BasicBlock{}, b.Succs...)
	for len(work) > 0 {
		x := work[len(work)-1]
		work = work[:len(work)-1]
		if fwd[x] {
			continue
		}
		fwd[x] = true
		work = append(work, x.Succs...)
	}
	if !fwd[b] {
		return nil
	}
	out := map[*ssa.BasicBlock]bool{}
	for x := range fwd {
		if engine.Reachable(x, b) {
			out[x] = true
		}
	}
	return out
}

// overwrittenInLoop: the error of call c, made inside a loop, only goes into a
// loop-carried variable (a header phi, or a store into a local) that nothing
// reads inside the loop: the next iteration's call overwrites it, so only the
// last iteration's failure can ever be seen.
func overwrittenInLoop(c *ssa.Call, use ssa.Instruction) bool {
	cyc := cycleOf(c.Block())
	if cyc == nil {
		return false
	}
	readInLoop := func(refs []ssa.Instruction) bool {
		for _, ref := range refs {
			if ref == use || !cyc[ref.Block()] {
				continue
			}
			switch y := ref.(type) {
			case *ssa.Store:
				if y.Addr != nil {
					if _, isStoreInto := use.(*ssa.Store); isStoreInto && y.Addr == use.(*ssa.Store).Addr {
						continue // another assignment, not a read
					}
				}
				return true
			case *ssa.Phi:
				continue // merged again, still unread
			default:
				_ = y
				return true
			}
		}
		return false
	}
	switch x := use.(type) {
	case *ssa.Phi:
		if !cyc[x.Block()] {
			return false
		}
		return !readInLoop(engine.Referrers(x))
	case *ssa.Store:
		a, ok := x.Addr.(*ssa.Alloc)
		if !ok {
			return false
		}
		// a read of the local anywhere in the loop looks at (some iteration's) error
		return !readInLoop(engine.Referrers(a))
	}
	return false
}

func errGuard(r *engine.Run, ruleGuard, ruleDrop string, funcs []*ssa.Function, minGuards int) {
	guards, drops := 0, 0
	for _, f := range funcs {
		if len(f.Blocks) == 0 || isGenFile(r, f.Pos()) {
			continue
		}
		og, od := ord{}, ord{}
		engine.Instrs(f, func(in ssa.Instruction) {
			c, ok := in.(*ssa.Call)
			if !ok {
				return
			}
			e, hasErr, dropped := errResult(c)
			if !hasErr {
				return
			}
			opName, isOp := repoOperation(c)
			looked := false
			if !dropped {
				for _, ref := range engine.Referrers(e) {
					switch x := ref.(type) {
					case *ssa.BinOp:
						if x.Op == token.EQL || x.Op == token.NEQ {
							looked = true
						}
					case *ssa.Store:
						if !overwrittenInLoop(c, x) {
							looked = true
						}
					case *ssa.Phi:
						if !overwrittenInLoop(c, x) {
							looked = true
						}
					case *ssa.Return, *ssa.MakeInterface, *ssa.TypeAssert, *ssa.ChangeInterface:
						looked = true
					case *ssa.Call:
						// handed to a repo function (wrapping helpers) counts; loggers do not
						if sc := x.Call.StaticCallee(); sc != nil && sc.Pkg != nil && strings.HasPrefix(sc.Pkg.Pkg.Path(), engine.RepoMod) && !strings.Contains(sc.Pkg.Pkg.Path(), "/logging") {
							looked = true
						}
					}
				}
			}
			if isOp {
				drops++
				key := fn(engine.TopFunc(f)) + "|" + opName
				reason, allowed := errDropAllowed[key]
				if !allowed && !looked {
					// the deliberate drop moved into a helper: every caller of this function is
					// listed with the same callee
					callee := key[strings.LastIndex(key, "|")+1:]
					callers := r.P.RepoCG().In[f]
					via := len(callers) > 0 && f.Object() != nil && !f.Object().Exported()
					for _, e := range callers {
						if _, ok := errDropAllowed[fn(e.Caller)+"|"+callee]; !ok {
							via = false
						}
					}
					if via {
						reason, allowed = errDropAllowed[fn(callers[0].Caller)+"|"+callee]
						reason += " (in a helper called only from the listed functions)"
					}
				}
				if allowed && !looked {
					r.OK(ruleDrop, od.next(fn(f)+"|"+opName+" (allowed drop)"), r.P.Pos(c.Pos()), "deliberately not looked at: "+reason)
				} else {
					r.Check(looked, ruleDrop, od.next(fn(f)+"|"+opName), r.P.Pos(c.Pos()), "the error result is compared, returned or stored",
						"the error result of "+opName+" is never looked at (or, in a loop, is overwritten by the next iteration before anything reads it): after a failure the operation carries on with results that do not exist (an absent node, a failed store write) and reports success")
				}
			}
			if dropped || e == nil {
				return
			}
			// ERR-guard on every nil test of e
			for _, ref := range engine.Referrers(e) {
				bo, ok := ref.(*ssa.BinOp)
				if !ok || (bo.Op != token.EQL && bo.Op != token.NEQ) {
					continue
				}
				other := bo.Y
				if other == e {
					other = bo.X
				}
				if !nilConst(other) {
					continue
				}
				for _, r2 := range engine.Referrers(bo) {
					iff, ok := r2.(*ssa.If)
					if !ok {
						continue
					}
					b := iff.Block()
					nonNilIdx := 0 // successor taken when e != nil
					if bo.Op == token.EQL {
						nonNilIdx = 1
					}
					sNon, sNil := b.Succs[nonNilIdx], b.Succs[1-nonNilIdx]
					retOf := func(s *ssa.BasicBlock) *ssa.Return {
						if len(s.Preds) != 1 {
							return nil
						}
						ret, _ := s.Instrs[len(s.Instrs)-1].(*ssa.Return)
						return ret
					}
					errOf := func(ret *ssa.Return) ssa.Value {
						for i := len(ret.Results) - 1; i >= 0; i-- {
							if isErrorType(ret.Results[i].Type()) {
								return resultValue(ret, i)
							}
						}
						return nil
					}
					if ret := retOf(sNon); ret != nil {
						guards++
						ev := errOf(ret)
						good := ev == nil || nonNilError(f, sNon, ev, e)
						r.Check(good, ruleGuard, og.next(fn(f)+"|error branch of "+engine.CalleeName(c)), r.P.Pos(iff.Pos()), "the error branch returns a non-nil error",
							"the branch taken when "+engine.CalleeName(c)+" failed returns without a non-nil error: the failure is reported as success")
					} else if ret := retOf(sNil); ret != nil {
						ev := errOf(ret)
						if ev != nil && ev == e {
							guards++
							r.Fail(ruleGuard, og.next(fn(f)+"|error branch of "+engine.CalleeName(c)), r.P.Pos(iff.Pos()),
								"the early return that hands back the error of "+engine.CalleeName(c)+" sits on the branch where that error is nil (swapped test): success returns nothing, and after a failure the operation carries on with results that do not exist")
						}
					}
				}
			}
		})
	}
	if guards < minGuards {
		r.Anchor(ruleGuard, fmt.Errorf("unresolved anchor: %d error guards found, at least %d expected", guards, minGuards))
	}
	_ = drops
}
