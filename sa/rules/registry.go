// Package rules holds the per-property obligations. Every table in here
// (entry sets, accepted idioms, named exceptions) was confirmed by reading the
// anchored code and carries one line of reason per entry.
package rules

import (
	"sort"

	"verif/sa/engine"
)

type Check struct {
	ID   string
	Pkgs []string // anchor packages (relative), informational
	Run  func(r *engine.Run)
}

var Registry = map[string]*Check{}

func register(c *Check) { Registry[c.ID] = c }

func IDs() []string {
	var out []string
	for k := range Registry {
		out = append(out, k)
	}
	sort.Strings(out)
	return out
}
