package rules

import (
	"fmt"
	"go/token"

	"golang.org/x/tools/go/ssa"

	"verif/sa/engine"
)

func init() {
	register(&Check{ID: "C05", Pkgs: []string{pkgUtil}, Run: runC05})
}

func runC05(r *engine.Run) {
	r.Rule("WHO-prune", "the stores that keep no dead-node records (MemoryNodeDB, LevelNodeDB) delete nothing in PruneBelowVersion: pruning by a node's version removes nodes that later roots still reach")
	r.Rule("REF-poolput", "see C16: no memory of a pooled object leaves a function whose deferred Put hands the object back (the serialised dead-node record of a round must not live in a pooled buffer that the next round's encoding overwrites while the store still reads it)")
	r.Rule("DOM-takeover", "see C04: MergeDB installs the root it is given and iterates over the donor store on every path: a follower that takes over the dead-node list of a state change but keeps its old root (an empty new root skipped) reports reachable nodes as dead")
	r.Rule("DOM-cancel", "AddChange removes the new node's hash from the dead set (delete(cc.Deletes, newNode.GetHash())) on every path from entry to every return: re-created content is never left recorded as dead; dead records are keyed by the hash of the node they hold")
	r.Rule("FRESH-bytes", "see C03: the byte slices handed out by the node accessors (MarshalMsg, Encode, GetHashBytes, GetValueBytes in core/util) are new buffers on every return: nil, make/conversion results, results of calls that produce new buffers, or appends to such; never a field, element, global or map entry. FRESH-node relies on this, and callers of GetNodeValueRaw own (and may overwrite) the slice they get")
	r.Rule("FRESH-node", "see C03: a node object held in the dead set is never rewritten afterwards (its hash is computed on demand, so the dead record would name the live rewritten node)")
	r.Rule("DEP-origin", "every trie node's hash pre-image starts with its origin (see C02 AGREE-hash): a hash recorded dead in one round cannot name a node created in a later round")
	r.Rule("DOM-prune", "in PruneBelowVersion a dead-node record is handed to the deleter only when its round (decoded from the record key) is strictly below the version argument; the keys deleted from the node column family and the rounds dropped from the dead-nodes column family have the channel receive as their only provenance; records are dropped only after all node deletes; record keys/rounds and column families agree between writer (RecordDeadNodes/saveDeadNodes), reader (iteratorDeadNodes) and deleter")
	r.Rule("AGREE-roundkey", "uint64ToBytes (writer) and bytesToUint64 (reader) use the same, big-endian byte order (the early break of the prune iteration relies on ascending key order)")
	r.Rule("WHO-livedelete", "see C04: a node the rebuilt trie still references is never handed to deleteNode (it would be recorded dead while reachable)")
	r.Rule("DOM-samekey", "see C04: an unchanged re-write is not reported to the change collector (its hash would enter the dead set while live)")
	r.Rule("FRESH-deadlist", "the sync-supplied dead list the trie keeps (deleteNodes) never aliases an argument: every store into the field is nil, newly made, or an append whose base is the field itself")
	r.Rule("ORDER-stamp", "see C02: every node the trie builds is stamped with the trie version before it is hashed and stored (a rebuilt node that keeps an old origin re-creates a hash an earlier round recorded dead, and the prune deletes it while live)")
	r.Rule("AGREE-split", "see C02: prefix and path of every leaf, and the prefix and remaining path handed down by the walks, add up to the key (two entries whose leaves get the same too-short prefix collapse into one stored node: deleting one records the other's node dead)")
	r.Rule("WHO-deadlist", "GetDeletes reports the change collector's dead set, which AddChange reconciles when a node is re-created, together with deleteNodes, which nothing reconciles: a function that appends the elements of a slice onto deleteNodes never also hands an element of that slice to the collector (DeleteChange/AddChange, directly or via deleteNode/insertNode) - such a node would stay reported dead after a later transaction of the round re-created it")
	r.Rule("DOM-recordwritten", "recording a round's dead nodes replaces the round's record: every return of saveDeadNodes is the result of the PutCF on the dead-nodes column family or an error that is non-nil on that path, and every return of RecordDeadNodes is the result of saveDeadNodes or such an error (no success shortcut, e.g. for an empty set, that would leave an abandoned execution's record in place)")
	r.Rule("DEP-recordonly", "in RecordDeadNodes the record object is filled only by map stores whose keys derive from the nodes argument and is handed only to saveDeadNodes: the record of a round is exactly what this execution of the round reported (no merge with an earlier record of the same round)")
	r.Rule("AGREE-nostamp", "see C03: mergeChanges installs the nodes of the child's change set without re-stamping them (the installer it calls in the replay loop sets no origin/version on the node): a node the child took over from another version keeps the hash the child's root refers to, and the donor store's object is not written")
	r.Rule("DOM-mergeall", "see C03: a change skipped by mergeChanges is never taken out of the dead set again (AddChange is what revives a re-created node)")
	r.Rule("WHO-collect", "see C04: the store is written and the change collector fed only by insertNode/deleteNode (a node that bypasses the collector has no dead record and no save)")
	r.Rule("DOM-merge", "see C03: a stale child is never merged")
	r.Rule("LOCK-mpt", "see C16: root, the stores' maps and level links and the collector's maps are accessed only with their owner's mutex held in the required mode (a writer under the read lock, or on a root read outside the lock, loses another writer's update)")
	r.Rule("ORDER-critical", "see C16: Insert, Delete, MergeChanges and MergeDB are one critical section each, from the first read of the root to its last update")
	r.Rule("AGREE-snapshot", "see C03: root, changes, deletes and start root handed to the merge come from one GetChanges call")
	r.Rule("CLONE-deep", "see C07: Clone() of every node type is a deep copy (the codec round trip), never a value that shares path/key/value memory with the receiver - FRESH-node treats Clone() results as fresh, and an in-place append onto a shallow copy writes into the store's object")
	r.NotDec = append(r.NotDec, "reachability of recorded nodes from later roots (graph property of runtime content)")
	domCancel(r)
	agreeHash(r, "DEP-origin")
	domPrune(r)
	agreeRoundKey(r)
	freshNode(r, "C05")
	whoLiveDelete(r, "WHO-livedelete")
	domSameKey(r, "DOM-samekey")
	depRecordOnly(r, "DEP-recordonly")
	domRecordWritten(r, "DOM-recordwritten")
	freshDeadList(r, "FRESH-deadlist")
	whoDeadList(r, "WHO-deadlist")
	orderStamp(r, "ORDER-stamp")
	agreeSplit(r)
	domMergeAll(r, "DOM-mergeall")
	whoCollect(r)
	domMerge(r)
	mptLockDiscipline(r)
	agreeMergeSnapshot(r, "AGREE-snapshot")
	cloneDeep(r)
	domTakeover(r, "DOM-takeover")
	refPoolPut(r, "REF-poolput")
	whoPrune(r, "WHO-prune")
}

func domCancel(r *engine.Run) {
	const rule = "DOM-cancel"
	f := r.Fn(rule, pkgUtil, "ChangeCollector", "AddChange")
	if f == nil {
		return
	}
	newP := f.Params[2]
	var cancel *ssa.Call
	engine.Instrs(f, func(in ssa.Instruction) {
		c, ok := in.(*ssa.Call)
		if !ok {
			return
		}
		if b, ok := c.Call.Value.(*ssa.Builtin); ok && b.Name() == "delete" {
			if fld := fieldLoadOf(c.Call.Args[0]); fld != nil && fld.Name() == "Deletes" && isInvokeOf(c.Call.Args[1], "GetHash", isValue(newP)) {
				cancel = c
			}
		}
	})
	if cancel == nil {
		r.Fail(rule, fn(f)+"|cancel", r.P.Pos(f.Pos()), "AddChange no longer removes the re-created node's hash from the dead set: content deleted and re-created in one round stays recorded dead and is pruned while live")
	} else {
		good := true
		for _, ret := range engine.Returns(f) {
			if ret.Block().Comment == "recover" {
				continue
			}
			if !engine.InstrDominates(cancel, ret) {
				good = false
			}
		}
		r.Check(good, rule, fn(f)+"|cancel", r.P.Pos(cancel.Pos()), "the cancellation dominates every return", "a return of AddChange is reachable without the cancellation of the new node's dead record")
	}
	// dead records keyed by the hash of the node they hold
	for _, name := range []string{"AddChange", "DeleteChange"} {
		g := r.Fn(rule, pkgUtil, "ChangeCollector", name)
		if g == nil {
			continue
		}
		o := ord{}
		engine.Instrs(g, func(in ssa.Instruction) {
			mu, ok := in.(*ssa.MapUpdate)
			if !ok {
				return
			}
			fld := fieldLoadOf(mu.Map)
			if fld == nil || fld.Name() != "Deletes" {
				return
			}
			node := through(mu.Value)
			good := isInvokeOf(mu.Key, "GetHash", isValue(node))
			r.Check(good, rule, o.next(fn(g)+"|dead record key"), r.P.Pos(mu.Pos()), "dead record filed under the hash of the recorded node", "a dead record is filed under a hash that is not the recorded node's")
		})
	}
	// created-then-removed nodes cancel out of the change set
	if g := r.Fn(rule, pkgUtil, "ChangeCollector", "DeleteChange"); g != nil {
		var lk *ssa.Lookup
		engine.Instrs(g, func(in ssa.Instruction) {
			if l, ok := in.(*ssa.Lookup); ok && l.CommaOk {
				if fld := fieldLoadOf(l.X); fld != nil && fld.Name() == "Changes" {
					lk = l
				}
			}
		})
		if lk == nil {
			r.Anchor(rule, fmt.Errorf("unresolved anchor: Changes lookup in DeleteChange"))
		} else {
			var okKey string
			for _, ref := range engine.Referrers(lk) {
				if ex, ok := ref.(*ssa.Extract); ok && ex.Index == 1 {
					okKey = engine.ValKey(ex)
				}
			}
			engine.Instrs(g, func(in ssa.Instruction) {
				if mu, ok := in.(*ssa.MapUpdate); ok {
					if fld := fieldLoadOf(mu.Map); fld != nil && fld.Name() == "Deletes" {
						good, why := engine.GuardedBy(g, mu.Block(), okKey, false)
						r.Check(good, rule, fn(g)+"|record only pre-existing nodes", r.P.Pos(mu.Pos()), "a removed node is recorded dead only when it was not created in this change set: "+why,
							"a node created and removed within the same change set is recorded dead although it never reached the store")
					}
				}
			})
		}
	}
	r.Min(rule, 4)
}

func domPrune(r *engine.Run) {
	const rule = "DOM-prune"
	f := r.Fn(rule, pkgUtil, "PNodeDB", "PruneBelowVersion")
	if f == nil {
		return
	}
	var closures []*ssa.Function
	var walk func(x *ssa.Function)
	walk = func(x *ssa.Function) {
		for _, a := range x.AnonFuncs {
			closures = append(closures, a)
			walk(a)
		}
	}
	walk(f)
	for _, c := range closures {
		r.Touch(c)
	}
	// 1. the send is guarded by round < version
	nsend := 0
	for _, c := range closures {
		engine.Instrs(c, func(in ssa.Instruction) {
			snd, ok := in.(*ssa.Send)
			if !ok {
				return
			}
			nsend++
			facts, ok := engine.FactsOn(c, snd.Block())
			good := false
			var roundVal ssa.Value
			if ok {
				for _, ft := range facts {
					if ft.Kind != "lt" || !ft.Truth {
						continue
					}
					call, isCall := ft.A.(*ssa.Call)
					if !isCall || !staticCalleeIs(call, pkgUtil, "", "bytesToUint64") {
						continue
					}
					if p, ok := call.Call.Args[0].(*ssa.Parameter); !ok || p != c.Params[0] {
						continue
					}
					cv, isConv := ft.B.(*ssa.Convert)
					if !isConv || !boundToParam(f, cv.X, "version") {
						continue
					}
					good = true
					roundVal = call
				}
			}
			r.Check(good, rule, fn(c)+"|round<version", r.P.Pos(snd.Pos()), "record forwarded only with round strictly below the version argument",
				"a dead-node record is forwarded to the deleter without the strict test round < version: the prune version's own round (or later ones) loses nodes that its root still needs")
			// the record carries that round and the keys decoded from the record value
			if al, ok := engine.AddrRoot(loadAddr(snd.X)).(*ssa.Alloc); ok && roundVal != nil {
				roundOK := false
				for _, ref := range engine.Referrers(al) {
					if fa, ok := ref.(*ssa.FieldAddr); ok && engine.FieldOf(fa).Name() == "round" {
						for _, r2 := range engine.Referrers(fa) {
							if st, ok := r2.(*ssa.Store); ok && st.Val == roundVal {
								roundOK = true
							}
						}
					}
				}
				r.Check(roundOK, rule, fn(c)+"|record.round", r.P.Pos(snd.Pos()), "the forwarded record carries the tested round", "the forwarded record carries a round other than the one tested")
			}
			const labValue engine.Label = 1 << 30
			fl := engine.RunFlow(c, engine.FlowSpec{Param: func(p *ssa.Parameter, i int) engine.Label {
				if i == 1 {
					return labValue
				}
				return 0
			}})
			if al, ok := engine.AddrRoot(loadAddr(snd.X)).(*ssa.Alloc); ok {
				if ld, ok := snd.X.(*ssa.UnOp); ok {
					l, found := fl.CellAt(ld, al, ".nodesKeys")
					r.Check(found && l == labValue, rule, fn(c)+"|record.keys", r.P.Pos(snd.Pos()), "the forwarded keys are decoded from this record's value only", "the forwarded keys do not derive (only) from the record being tested")
				}
			}
		})
	}
	if nsend == 0 {
		r.Anchor(rule, fmt.Errorf("unresolved anchor: no channel send in PruneBelowVersion's iterator handler"))
	}
	// 2. provenance of what is deleted
	const labChan engine.Label = 1 << 31
	const labOther engine.Label = 1 << 32
	fl := engine.RunFlow(f, engine.FlowSpec{
		Param: func(p *ssa.Parameter, i int) engine.Label {
			if i == 0 {
				return 0
			}
			return labOther
		},
		Value: func(v ssa.Value, get func(ssa.Value) engine.Label) (engine.Label, bool) {
			if u, ok := v.(*ssa.UnOp); ok && u.Op == token.ARROW {
				return labChan, true
			}
			return 0, false
		},
		HeapLoad: func(ld *ssa.UnOp, base engine.Label) (engine.Label, bool) { return labOther, true },
	})
	var nodeDels, recDels []*ssa.Call
	engine.Instrs(f, func(in ssa.Instruction) {
		c, ok := in.(*ssa.Call)
		if !ok {
			return
		}
		if staticCalleeIs(c, pkgUtil, "PNodeDB", "MultiDeleteNode") || staticCalleeIs(c, pkgUtil, "PNodeDB", "DeleteNode") {
			nodeDels = append(nodeDels, c)
		}
		if staticCalleeIs(c, pkgUtil, "PNodeDB", "multiDeleteDeadNodes") {
			recDels = append(recDels, c)
		}
	})
	o := ord{}
	// the node delete moved into a local closure over the pending key list
	// (deletePending := func() error { ... MultiDeleteNode(keys) ... }): the calls of
	// the closure are the delete sites, and what is deleted is what the enclosing
	// function stores into the captured list
	if len(nodeDels) == 0 {
		for _, an := range f.AnonFuncs {
			var del *ssa.Call
			engine.Instrs(an, func(in ssa.Instruction) {
				if c, ok := in.(*ssa.Call); ok && (staticCalleeIs(c, pkgUtil, "PNodeDB", "MultiDeleteNode") || staticCalleeIs(c, pkgUtil, "PNodeDB", "DeleteNode")) {
					del = c
				}
			})
			if del == nil {
				continue
			}
			ld, ok := del.Call.Args[1].(*ssa.UnOp)
			if !ok {
				continue
			}
			fv, ok := ld.X.(*ssa.FreeVar)
			if !ok {
				continue
			}
			var mc *ssa.MakeClosure
			var cell ssa.Value
			engine.Instrs(f, func(in ssa.Instruction) {
				m, ok := in.(*ssa.MakeClosure)
				if !ok || m.Fn != ssa.Value(an) {
					return
				}
				for i, v := range an.FreeVars {
					if v == fv && i < len(m.Bindings) {
						mc, cell = m, m.Bindings[i]
					}
				}
			})
			if mc == nil {
				continue
			}
			// every value stored into the captured list derives from forwarded records only
			fromChan := true
			var okVal func(v ssa.Value, depth int) bool
			okVal = func(v ssa.Value, depth int) bool {
				if depth > 5 {
					return false
				}
				switch x := v.(type) {
				case *ssa.Const:
					return x.Value == nil
				case *ssa.MakeSlice:
					return true
				case *ssa.Alloc:
					return true // make with constant capacity: a new array
				case *ssa.Slice:
					return okVal(x.X, depth+1)
				case *ssa.UnOp:
					return x.X == cell || x.X == ssa.Value(fv) // the list itself
				case *ssa.Call:
					if b, ok := x.Call.Value.(*ssa.Builtin); ok && b.Name() == "append" {
						return okVal(x.Call.Args[0], depth+1) && fl.Of(x.Call.Args[1])&^labChan == 0
					}
				}
				return fl.Of(v)&^labChan == 0 && fl.Of(v) != 0
			}
			for _, g := range []*ssa.Function{f, an} {
				engine.Instrs(g, func(in ssa.Instruction) {
					st, ok := in.(*ssa.Store)
					if !ok || (st.Addr != cell && st.Addr != ssa.Value(fv)) {
						return
					}
					if !okVal(st.Val, 0) {
						fromChan = false
					}
				})
			}
			engine.Instrs(f, func(in ssa.Instruction) {
				if c, ok := in.(*ssa.Call); ok && c.Call.Value == ssa.Value(mc) {
					nodeDels = append(nodeDels, c)
					r.CallSites++
					r.Check(fromChan, rule, o.next(fn(f)+"|MultiDeleteNode provenance"), r.P.Pos(c.Pos()), "deleted keys come only from forwarded dead-node records (through the pending list the closure deletes)",
						"the pruner deletes keys that do not come from a forwarded dead-node record")
				}
			})
		}
		for _, c := range recDels {
			l := fl.Of(c.Call.Args[1])
			r.CallSites++
			r.Check(l&^labChan == 0, rule, o.next(fn(f)+"|"+c.Call.StaticCallee().Name()+" provenance"), r.P.Pos(c.Pos()), "deleted keys/rounds come only from forwarded dead-node records",
				"the pruner deletes keys or rounds that do not come from a forwarded dead-node record")
		}
	} else {
		for _, c := range append(append([]*ssa.Call{}, nodeDels...), recDels...) {
			l := fl.Of(c.Call.Args[1])
			r.CallSites++
			r.Check(l&^labChan == 0, rule, o.next(fn(f)+"|"+c.Call.StaticCallee().Name()+" provenance"), r.P.Pos(c.Pos()), "deleted keys/rounds come only from forwarded dead-node records",
				"the pruner deletes keys or rounds that do not come from a forwarded dead-node record")
		}
	}
	if len(nodeDels) == 0 || len(recDels) == 0 {
		r.Fail(rule, fn(f)+"|deletes", r.P.Pos(f.Pos()), fmt.Sprintf("pruning performs %d node deletes and %d record deletes", len(nodeDels), len(recDels)))
	}
	for _, rd := range recDels {
		good := true
		for _, nd := range nodeDels {
			if engine.ReachableAfter(rd, nd) {
				good = false
			}
		}
		r.Check(good, rule, fn(f)+"|records after nodes", r.P.Pos(rd.Pos()), "dead-node records dropped only after every node delete", "dead-node records are dropped while node deletes are still pending: a crash in between leaves dead nodes that no record names any more")
	}
	// 3. column families and record keys
	cf := func(fname, callee, recvT string, cfArg int, wantCF string, keyArg int, keyFrom string) {
		g := r.Fn(rule, pkgUtil, "PNodeDB", fname)
		if g == nil {
			return
		}
		n := 0
		engine.Instrs(g, func(in ssa.Instruction) {
			c, ok := in.(*ssa.Call)
			if !ok || !extCalleeIs(c, "linxGnu/grocksdb", recvT, callee) {
				return
			}
			n++
			r.CallSites++
			good := true
			detail := ""
			if cfArg >= 0 {
				fld := fieldLoadOf(c.Call.Args[cfArg])
				if fld == nil || fld.Name() != wantCF {
					good, detail = false, "wrong column family"
				}
			}
			if keyArg >= 0 && keyFrom != "" {
				kc, ok := c.Call.Args[keyArg].(*ssa.Call)
				if !ok || !staticCalleeIs(kc, pkgUtil, "", keyFrom) {
					good, detail = false, "record key not built with "+keyFrom
				}
			}
			r.Check(good, rule, fn(g)+"|"+callee, r.P.Pos(c.Pos()), "column family / record key as expected", "dead-node bookkeeping uses the wrong column family or key codec: "+detail)
		})
		if n == 0 {
			r.Fail(rule, fn(g)+"|"+callee, r.P.Pos(g.Pos()), "expected RocksDB call "+callee+" not found")
		}
	}
	cf("saveDeadNodes", "PutCF", "DB", 2, "deadNodesCFH", 3, "uint64ToBytes")
	cf("multiDeleteDeadNodes", "DeleteCF", "WriteBatch", 1, "deadNodesCFH", 2, "uint64ToBytes")
	cf("iteratorDeadNodes", "NewIteratorCF", "DB", 2, "deadNodesCFH", -1, "")
	cf("MultiDeleteNode", "Delete", "WriteBatch", -1, "", -1, "")
	// RecordDeadNodes: records the hashes of exactly the given nodes under the given version
	if g := r.Fn(rule, pkgUtil, "PNodeDB", "RecordDeadNodes"); g != nil {
		good := false
		engine.Instrs(g, func(in ssa.Instruction) {
			if mu, ok := in.(*ssa.MapUpdate); ok {
				if c, ok := mu.Key.(*ssa.Call); ok {
					if recv, ok := engine.IsMethodCall(c, "GetHash"); ok {
						if ld, ok := recv.(*ssa.UnOp); ok {
							if ia, ok := ld.X.(*ssa.IndexAddr); ok && ia.X == ssa.Value(g.Params[1]) {
								good = true
							}
						}
					}
				}
			}
		})
		verOK := false
		engine.Instrs(g, func(in ssa.Instruction) {
			if c, ok := in.(*ssa.Call); ok && staticCalleeIs(c, pkgUtil, "PNodeDB", "saveDeadNodes") && c.Call.Args[2] == ssa.Value(g.Params[2]) {
				verOK = true
			}
		})
		r.Check(good && verOK, rule, fn(g), r.P.Pos(g.Pos()), "records GetHash() of each given node under the given version", "RecordDeadNodes does not record exactly the given nodes' hashes under the given version")
	}
	if g := r.Fn(rule, pkgUtil, "PNodeDB", "saveDeadNodes"); g != nil {
		good := false
		engine.Instrs(g, func(in ssa.Instruction) {
			if c, ok := in.(*ssa.Call); ok && staticCalleeIs(c, pkgUtil, "", "uint64ToBytes") {
				if cv, ok := c.Call.Args[0].(*ssa.Convert); ok && cv.X == ssa.Value(g.Params[2]) {
					good = true
				}
			}
		})
		r.Check(good, rule, fn(g)+"|key=version", r.P.Pos(g.Pos()), "record key is the version argument", "the dead-node record is not keyed by the version argument")
	}
	r.Min(rule, 10)
}

func loadAddr(v ssa.Value) ssa.Value {
	if u, ok := v.(*ssa.UnOp); ok && u.Op == token.MUL {
		return u.X
	}
	return v
}

func agreeRoundKey(r *engine.Run) {
	const rule = "AGREE-roundkey"
	w := r.Fn(rule, pkgUtil, "", "uint64ToBytes")
	rd := r.Fn(rule, pkgUtil, "", "bytesToUint64")
	if w == nil || rd == nil {
		return
	}
	order := func(f *ssa.Function, method string) string {
		res := ""
		engine.Instrs(f, func(in ssa.Instruction) {
			c, ok := in.(*ssa.Call)
			if !ok {
				return
			}
			sc := c.Call.StaticCallee()
			if sc != nil && sc.Name() == method && sc.Signature.Recv() != nil {
				if n := namedOf(sc.Signature.Recv().Type()); n != nil && n.Obj().Pkg() != nil && n.Obj().Pkg().Path() == "encoding/binary" {
					res = n.Obj().Name()
				}
			}
		})
		return res
	}
	wo, ro := order(w, "PutUint64"), order(rd, "Uint64")
	r.Check(wo != "" && wo == ro, rule, "uint64ToBytes/bytesToUint64|same order", r.P.Pos(w.Pos()), "writer and reader both use "+wo, fmt.Sprintf("round keys are written with %q and read with %q", wo, ro))
	r.Check(wo == "bigEndian", rule, "uint64ToBytes|big-endian", r.P.Pos(w.Pos()), "big-endian keys sort by round", "round keys are not big-endian: the iteration order is not by round, so the early break of the prune loop skips or includes the wrong rounds")
}

// depRecordOnly: the dead-node record written for a round consists of the nodes
// reported for this execution of the round, nothing else: in RecordDeadNodes the
// record object is filled only by map stores keyed by GetHash() of an element of
// the nodes argument and handed to saveDeadNodes; nothing decodes or merges
// another record into it (a crashed earlier execution of the same round may
// have reported nodes that the winning execution keeps).
func depRecordOnly(r *engine.Run, rule string) {
	f := r.Fn(rule, pkgUtil, "PNodeDB", "RecordDeadNodes")
	if f == nil {
		return
	}
	var rec *ssa.Alloc
	engine.Instrs(f, func(in ssa.Instruction) {
		if al, ok := in.(*ssa.Alloc); ok {
			if nm := namedOf(al.Type()); nm != nil && nm.Obj().Name() == "deadNodes" {
				rec = al
			}
		}
	})
	if rec == nil {
		r.Anchor(rule, fmt.Errorf("unresolved anchor: dead-node record object of %s", fn(f)))
		return
	}
	bad := ""
	saved := false
	for _, ref := range engine.Referrers(rec) {
		switch x := ref.(type) {
		case *ssa.FieldAddr:
			// map stores into the Nodes field are checked below
		case *ssa.Call:
			if sc := x.Call.StaticCallee(); sc != nil && sc.Name() == "saveDeadNodes" {
				saved = true
			} else {
				bad = "the record object is handed to " + engine.CalleeName(x) + " at " + r.P.Pos(x.Pos())
			}
		case *ssa.Store:
			if x.Addr != ssa.Value(rec) {
				bad = "the record object escapes at " + r.P.Pos(x.Pos())
			}
		}
	}
	nodesP := f.Params[1]
	engine.Instrs(f, func(in ssa.Instruction) {
		mu, ok := in.(*ssa.MapUpdate)
		if !ok {
			return
		}
		if fld := fieldLoadOf(mu.Map); fld == nil || fld.Name() != "Nodes" {
			return
		}
		if !dependsOn(mu.Key, nodesP) {
			bad = "a key that does not come from the nodes argument is recorded at " + r.P.Pos(mu.Pos())
		}
	})
	r.Check(bad == "" && saved, rule, fn(f)+"|record content", r.P.Pos(f.Pos()), "the record holds exactly the hashes of the nodes argument and goes to saveDeadNodes",
		"the dead-node record of a round is not built from this execution's nodes alone ("+bad+"): hashes reported by an earlier, abandoned execution of the same round are pruned although the saved state still uses them")
}

// domRecordWritten: recording the dead nodes of a round REPLACES whatever record
// the round had (an abandoned execution of the same round may have left one).
// That holds only if every successful return of RecordDeadNodes / saveDeadNodes
// went through the store write: a shortcut for an empty set ("nothing to
// record") leaves the abandoned execution's record in place, and a later prune
// deletes nodes the surviving state still uses.
//
// Rule: in saveDeadNodes every return is either the result of the PutCF on the
// dead-nodes column family or an error that is non-nil on that path; in
// RecordDeadNodes every return is the result of saveDeadNodes or such an error.
func domRecordWritten(r *engine.Run, rule string) {
	type spec struct {
		fn    string
		write func(c *ssa.Call) bool
		what  string
	}
	specs := []spec{
		{"saveDeadNodes", func(c *ssa.Call) bool { return extCalleeIs(c, "grocksdb", "DB", "PutCF") }, "the store write (PutCF)"},
		{"RecordDeadNodes", func(c *ssa.Call) bool { return staticCalleeIs(c, pkgUtil, "PNodeDB", "saveDeadNodes") }, "saveDeadNodes"},
	}
	n := 0
	for _, s := range specs {
		f := r.Fn(rule, pkgUtil, "PNodeDB", s.fn)
		if f == nil {
			continue
		}
		o := ord{}
		for _, ret := range engine.Returns(f) {
			if len(ret.Results) != 1 || ret.Block() == f.Recover {
				continue
			}
			n++
			v := resultValue(ret, 0)
			ok := false
			var check func(v ssa.Value) bool
			seen := map[ssa.Value]bool{}
			check = func(v ssa.Value) bool {
				if seen[v] {
					return true
				}
				seen[v] = true
				if c, isCall := v.(*ssa.Call); isCall && s.write(c) {
					return true
				}
				if ph, isPhi := v.(*ssa.Phi); isPhi {
					for _, e := range ph.Edges {
						if !check(e) {
							return false
						}
					}
					return true
				}
				return globalErrName(v) != "" || provablyNonNil(f, ret.Block(), v)
			}
			ok = check(v)
			if !ok {
				// "if err := write(); err != nil { return err }; return nil": the write is on every path to this return
				engine.Instrs(f, func(in ssa.Instruction) {
					if c, isCall := in.(*ssa.Call); isCall && s.write(c) && c.Block().Dominates(ret.Block()) {
						ok = true
					}
				})
			}
			r.Check(ok, rule, o.next(fn(f)+"|return"), r.P.Pos(ret.Pos()), "the return follows "+s.what+" on every path or is an error that is non-nil here",
				fn(f)+" can report success without going through "+s.what+": the round's record is not replaced, so the record an abandoned execution of the same round left behind survives and a later prune deletes nodes the surviving state still uses")
		}
	}
	if n < 3 {
		r.Anchor(rule, fmt.Errorf("unresolved anchor: only %d returns of RecordDeadNodes/saveDeadNodes", n))
	}
}

// freshDeadList: MergeDB is handed the dead nodes of a synced state change; the
// trie keeps them (deleteNodes) and GetDeletes reports them as the round's dead
// set. The list has to be the trie's own: a caller that refills one scratch
// slice per message (two candidate blocks of a round applied before
// finalisation) would otherwise rewrite the recorded dead set of the first
// block with the second block's nodes, and the prune deletes live nodes.
//
// Rule: every store into the deleteNodes field is nil, or an append whose base
// is the field itself, nil or a newly made slice - never a parameter or another
// caller-visible slice.
func freshDeadList(r *engine.Run, rule string) {
	n := 0
	for _, f := range funcsOfPkg(r, pkgUtil) {
		if len(f.Blocks) == 0 {
			continue
		}
		o := ord{}
		engine.Instrs(f, func(in ssa.Instruction) {
			st, ok := in.(*ssa.Store)
			if !ok {
				return
			}
			fld := engine.FieldOf(st.Addr)
			if fld == nil || fld.Name() != "deleteNodes" {
				return
			}
			n++
			good := false
			var check func(v ssa.Value, depth int) bool
			check = func(v ssa.Value, depth int) bool {
				if depth > 4 {
					return false
				}
				switch x := v.(type) {
				case *ssa.Const:
					return x.Value == nil
				case *ssa.MakeSlice:
					return true
				case *ssa.Phi:
					for _, e := range x.Edges {
						if !check(e, depth+1) {
							return false
						}
					}
					return true
				case *ssa.Call:
					if b, ok := x.Call.Value.(*ssa.Builtin); ok && b.Name() == "append" {
						base := x.Call.Args[0]
						if bf := fieldLoadOf(base); bf != nil && bf.Name() == "deleteNodes" {
							return true
						}
						return check(base, depth+1)
					}
				}
				return false
			}
			good = check(st.Val, 0)
			r.Check(good, rule, o.next(fn(f)+"|dead list"), r.P.Pos(st.Pos()), "the dead list is nil, newly made, or an append onto the trie's own list",
				"the trie keeps a caller's slice as its dead-node list: a caller that reuses the slice for the next state change rewrites the dead set recorded for this one, so the round's record names nodes that are live and the prune deletes them")
		})
	}
	if n < 1 {
		r.Anchor(rule, fmt.Errorf("unresolved anchor: no store into deleteNodes found"))
	}
}

// whoDeadList: the trie reports two dead sets as one (GetDeletes): the change
// collector's, which AddChange reconciles (a node that is re-created later in
// the round is taken out again), and deleteNodes, the list a sync hands in,
// which nothing ever reconciles. A node that goes through the collector must
// therefore never also be parked in deleteNodes: once a later transaction of
// the round re-creates it, the collector forgets it and the list still reports
// it dead, so the prune deletes a node a saved root uses.
//
// Rule: a function that appends the elements of a slice S onto deleteNodes does
// not also hand an element of S to a function that feeds the collector
// (DeleteChange / AddChange, directly or through the trie's deleteNode /
// insertNode helpers).
func whoDeadList(r *engine.Run, rule string) {
	feeds := map[*ssa.Function]int{} // 0 unknown, 1 yes, 2 no
	var feedsCollector func(g *ssa.Function, depth int) bool
	feedsCollector = func(g *ssa.Function, depth int) bool {
		if g == nil || len(g.Blocks) == 0 || depth > 3 {
			return false
		}
		if v, ok := feeds[g]; ok {
			return v == 1
		}
		feeds[g] = 2
		res := false
		engine.Instrs(g, func(in ssa.Instruction) {
			c, ok := in.(ssa.CallInstruction)
			if !ok || res {
				return
			}
			cc := c.Common()
			if cc.IsInvoke() {
				if cc.Method != nil && (cc.Method.Name() == "DeleteChange" || cc.Method.Name() == "AddChange") {
					res = true
				}
				return
			}
			if sc := cc.StaticCallee(); sc != nil {
				if sc.Name() == "DeleteChange" || sc.Name() == "AddChange" {
					res = true
					return
				}
				if sc.Pkg == g.Pkg && feedsCollector(sc, depth+1) {
					res = true
				}
			}
		})
		if res {
			feeds[g] = 1
		}
		return res
	}
	rootOf := func(v ssa.Value) ssa.Value {
		for {
			v = stripConv(v)
			if s, ok := v.(*ssa.Slice); ok {
				v = s.X
				continue
			}
			return v
		}
	}
	n := 0
	for _, f := range funcsOfPkg(r, pkgUtil) {
		if len(f.Blocks) == 0 {
			continue
		}
		o := ord{}
		engine.Instrs(f, func(in ssa.Instruction) {
			st, ok := in.(*ssa.Store)
			if !ok {
				return
			}
			fld := engine.FieldOf(st.Addr)
			if fld == nil || fld.Name() != "deleteNodes" {
				return
			}
			ap, ok := st.Val.(*ssa.Call)
			if !ok {
				return
			}
			if b, ok := ap.Call.Value.(*ssa.Builtin); !ok || b.Name() != "append" || len(ap.Call.Args) < 2 {
				return
			}
			n++
			src := rootOf(ap.Call.Args[1])
			var bad ssa.CallInstruction
			engine.Instrs(f, func(in2 ssa.Instruction) {
				c, ok := in2.(ssa.CallInstruction)
				if !ok || bad != nil {
					return
				}
				sc := c.Common().StaticCallee()
				feedsIt := false
				if sc != nil {
					feedsIt = sc.Name() == "DeleteChange" || sc.Name() == "AddChange" || (sc.Pkg == f.Pkg && feedsCollector(sc, 0))
				} else if m := c.Common().Method; m != nil {
					feedsIt = m.Name() == "DeleteChange" || m.Name() == "AddChange"
				}
				if !feedsIt {
					return
				}
				for _, a := range c.Common().Args {
					a = through(a)
					if arr, _, ok := loadOfIndex(a); ok && rootOf(arr) == src {
						bad = c
					}
					if rootOf(a) == src { // the whole slice handed on
						bad = c
					}
				}
			})
			where := ""
			if bad != nil {
				where = " (" + r.P.Pos(bad.Pos()) + ")"
			}
			r.Check(bad == nil, rule, o.next(fn(f)+"|dead list"), r.P.Pos(st.Pos()), "the nodes appended to the unreconciled dead list are not also filed with the change collector",
				"nodes that go through the change collector"+where+" are also parked in deleteNodes, the dead list nothing reconciles: when a later transaction of the round re-creates one of them AddChange takes it out of the collector's dead set but GetDeletes still reports it from this list, and the prune deletes a node that a saved root uses")
		})
	}
	if n < 1 {
		r.Anchor(rule, fmt.Errorf("unresolved anchor: no append onto deleteNodes found"))
	}
}
