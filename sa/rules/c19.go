package rules

import (
	"fmt"
	"go/constant"
	"go/token"
	"sort"
	"strings"

	"golang.org/x/tools/go/ssa"

	"verif/sa/engine"
)

func init() {
	register(&Check{ID: "C19", Pkgs: []string{pkgUtil}, Run: runC19})
}

// normArith renders an integer expression in a canonical form so that
// equivalent spellings agree: x/2, x>>1 and (x - x&1)/2 are half(x);
// (x+1)/2 and (x+1)>>1 are halfup(x); sums are flattened with their constant
// folded.
func normArith(v ssa.Value) string {
	terms, c := sumTerms(v, 1, 0)
	sort.Strings(terms)
	s := strings.Join(terms, "+")
	if c != 0 || s == "" {
		s += fmt.Sprintf("%+d", c)
	}
	return s
}

func sumTerms(v ssa.Value, sign int64, depth int) ([]string, int64) {
	if depth > 8 {
		return []string{engine.ValKey(v)}, 0
	}
	if k, ok := intConst(v); ok {
		return nil, sign * k
	}
	if b, ok := v.(*ssa.BinOp); ok {
		switch b.Op {
		case token.ADD:
			t1, c1 := sumTerms(b.X, sign, depth+1)
			t2, c2 := sumTerms(b.Y, sign, depth+1)
			return append(t1, t2...), c1 + c2
		case token.SUB:
			if sign == 1 {
				// (x - x&1) keeps meaning only below a division: handled by atom()
				if isLowBitOf(b.Y, b.X) {
					return []string{"even(" + atom(b.X, depth+1) + ")"}, 0
				}
				t1, c1 := sumTerms(b.X, 1, depth+1)
				if k, ok := intConst(b.Y); ok {
					return t1, c1 - k
				}
			}
		}
	}
	a := atom(v, depth+1)
	if sign < 0 {
		a = "-" + a
	}
	return []string{a}, 0
}

func isLowBitOf(y, x ssa.Value) bool {
	b, ok := y.(*ssa.BinOp)
	if !ok || b.Op != token.AND {
		return false
	}
	k, isK := intConst(b.Y)
	return isK && k == 1 && engine.ValKey(b.X) == engine.ValKey(x)
}

func atom(v ssa.Value, depth int) string {
	if b, ok := v.(*ssa.BinOp); ok {
		k, isK := intConst(b.Y)
		switch {
		case (b.Op == token.QUO && isK && k == 2) || (b.Op == token.SHR && isK && k == 1):
			terms, c := sumTerms(b.X, 1, depth+1)
			sort.Strings(terms)
			inner := strings.Join(terms, "+")
			if len(terms) == 1 && strings.HasPrefix(terms[0], "even(") && c == 0 {
				return "half(" + strings.TrimSuffix(strings.TrimPrefix(terms[0], "even("), ")") + ")"
			}
			if c == 1 {
				return "halfup(" + inner + ")"
			}
			if c == 0 {
				return "half(" + inner + ")"
			}
			return fmt.Sprintf("half(%s%+d)", inner, c)
		case b.Op == token.AND && isK && k == 1, b.Op == token.REM && isK && k == 2:
			return "low(" + atom(b.X, depth+1) + ")"
		case b.Op == token.ADD || b.Op == token.SUB:
			return "(" + normArith(v) + ")"
		}
	}
	if ph, ok := v.(*ssa.Phi); ok {
		return "phi:" + ph.Comment
	}
	if ld, ok := v.(*ssa.UnOp); ok {
		if fld := engine.FieldOf(ld.X); fld != nil {
			return "field:" + fld.Name()
		}
	}
	if p, ok := v.(*ssa.Parameter); ok {
		return "param:" + p.Name()
	}
	return engine.ValKey(v)
}

// isOddTest: cond is `x&1 == 1` (or != 0, %2 == 1); returns x's atom and
// whether the true edge means odd.
func isOddTest(cond ssa.Value) (string, bool, bool) {
	b, ok := cond.(*ssa.BinOp)
	if !ok || (b.Op != token.EQL && b.Op != token.NEQ) {
		return "", false, false
	}
	lhs, rhs := b.X, b.Y
	if _, isK := intConst(lhs); isK {
		lhs, rhs = rhs, lhs
	}
	k, isK := intConst(rhs)
	a := atom(lhs, 0)
	if !isK || !strings.HasPrefix(a, "low(") {
		return "", false, false
	}
	x := strings.TrimSuffix(strings.TrimPrefix(a, "low("), ")")
	oddOnTrue := (b.Op == token.EQL && k == 1) || (b.Op == token.NEQ && k == 0)
	return x, oddOnTrue, true
}

func runC19(r *engine.Run) {
	r.Rule("AGREE-pairing", "builder, prover and verifier of the Merkle tree agree on how a node is paired with its sibling: the builder hashes MHash(left, right) with right = left + 1 and duplicates the last node of an odd level; the verifier puts the path element first when the running index is odd and second when it is even; the prover takes the element before an odd index and the element after an even index (itself when none follows)")
	r.Rule("AGREE-progression", "the three walks over the levels (size computation, builder, prover) step with the same expressions: next level size = ceil(size/2), next level offset = offset + size; verifier and prover halve the index the same way; the prover (which handles the leaf level before its loop) stops one level size later than the builder")
	r.Rule("DOM-inlevel", "the prover reads the element after an even index only under the strict test that this element still lies inside the current level (index + 1 < level start + level size, with the level size the walk itself uses)")
	r.Rule("DEP-offered", "verification recomputes the root from the offered leaf hash: VerifyMerklePath starts its running hash from its hash argument and compares the result with its root argument; VerifyPath hands it GetHash() of the offered node, the offered path and the tree's own root (a verifier that starts from the stored leaf only checks membership, so a path proves every leaf); that comparison is the only comparison of hash strings in the verifier (no other equality between path elements or running hashes decides acceptance); VerifyPath returns nothing but that verifier's result; neither verifier stores through its parameters (a path can be verified again)")
	r.Rule("REF-poolput", "see C16: no object is touched after it was handed back to a sync.Pool, also not by a defer that was registered before a deferred Put (and therefore runs after it): every node of the tree and every step of the verifier is a RawHash, and a pooled hash state that is reset after another goroutine took it hashes that goroutine's input to the wrong digest")
	r.Rule("PURE-query", "the queries of a built tree (GetPathByIndex, GetPath, GetLeafIndex, VerifyPath, GetRoot, GetTree) store nothing into the tree object or into memory reached through its fields: a query that fills a cache publishes a half-built entry to the goroutines asking at the same time (paths that do not verify, nil dereferences)")
	r.Rule("REF-callerleaves", "ComputeTree keeps no reference to its argument slice in the tree object (it stores the leaf hashes, not the caller's leaf list): a lookup that consults the caller's slice answers with whatever the caller made of it since")
	r.Rule("AGREE-shape", "ComputeTree and SetTree establish the same fields (at least leavesCount, levels, tree) from computeSize; a path has levels - 1 elements; the root is the last element of the tree")
	r.Rule("FRESH-tree", "GetTree hands out the node slice and SetTree installs the caller's slice without copying, so a method that stores nodes element by element (ComputeTree) assigns the tree field only from a make: recomputing never writes into memory an exported or loaded tree still uses")
	r.Rule("DOM-atomic", "in SetTree no store to a receiver field can be followed by an error return: a rejected load leaves the tree (nodes, leaf count, levels) exactly as it was")
	r.Rule("PURE-state", "no function of the Merkle tree files stores to a package-level variable or appends/copies into memory obtained from one: building and verifying are re-entrant")
	r.Rule("AGREE-levels", "the level count computeSize returns is the number of halving steps of its size loop plus one: the loop's own counter + 1, the constant of the single-leaf tree, or the closed form bits.Len(leaves-1)+1 (bits.Len(leaves)+1 is one too high exactly for full trees: their paths get one element too many); other forms are not judged")
	r.Rule("FRESH-path", "the node list of a path handed out by GetPathByIndex is a slice made in the call, never memory the tree keeps (a later request would rewrite a path an earlier caller still holds)")
	r.Rule("DEP-wholeinput", "encryption.RawHash, which every hash of the library ends in (MHash, Hash, the node hashes of both tries), writes into the hasher only whole views of its type-asserted argument: the []byte itself, a []byte(string) conversion, a full slice of the asserted array, or an append of all of it onto an empty slice - never a bounded copy or a sub-slice (inputs that differ only past the bound would collide: a path would verify for another leaf hash)")
	r.Rule("AGREE-range", "a range guard of VerifyMerklePath that turns a path away before hashing (branch to a constant false verdict on a comparison of the path's leaf index) leaves through every position the prover hands out for a path of that length, 0 .. 2^len(path)-1: index >= 2^len+k needs k >= 0, index > 2^len+k needs k >= -1, index < c needs c <= 0, index <= c needs c < 0; guards of other forms are not judged")
	r.NotDec = append(r.NotDec, "that paths verify for every leaf count and index and do not verify for another leaf (index arithmetic over runtime n, idx: value-level)", "collision resistance of the hash")
	verify := r.Fn("AGREE-pairing", pkgUtil, "", "VerifyMerklePath")
	build := r.Fn("AGREE-pairing", pkgUtil, "MerkleTree", "ComputeTree")
	prove := r.Fn("AGREE-pairing", pkgUtil, "MerkleTree", "GetPathByIndex")
	size := r.Fn("AGREE-progression", pkgUtil, "MerkleTree", "computeSize")
	if verify == nil || build == nil || prove == nil || size == nil {
		return
	}
	c19Pairing(r, verify, build, prove)
	c19Progression(r, verify, build, prove, size)
	c19Shape(r, build)
	refPoolPut(r, "REF-poolput")
	pureQuery(r, "PURE-query")
	refCallerLeaves(r, "REF-callerleaves")
	c19Offered(r, verify)
	c19FreshTree(r, "FRESH-tree")
	c19SetTreeAtomic(r, "DOM-atomic")
	c19Pure(r, "PURE-state")
	depWholeInput(r, "DEP-wholeinput")
	agreeRange(r, "AGREE-range", verify)
	agreeLevels(r, "AGREE-levels", size)
	freshPath(r, "FRESH-path", prove)
}

func mhashCalls(f *ssa.Function) []*ssa.Call {
	var out []*ssa.Call
	engine.Instrs(f, func(in ssa.Instruction) {
		if c, ok := in.(*ssa.Call); ok && staticCalleeIs(c, pkgUtil, "", "MHash") {
			out = append(out, c)
		}
	})
	return out
}

// treeIndex: v is a load of tree[i] (mt.tree or a local slice); returns norm(i).
func elemIndex(v ssa.Value) (string, bool) {
	ld, ok := v.(*ssa.UnOp)
	if !ok {
		return "", false
	}
	ia, ok := ld.X.(*ssa.IndexAddr)
	if !ok {
		return "", false
	}
	return normArith(ia.Index), true
}

func c19Pairing(r *engine.Run, verify, build, prove *ssa.Function) {
	const rule = "AGREE-pairing"
	// verifier
	n := 0
	for _, c := range mhashCalls(verify) {
		atoms, ok := engine.FactsOn(verify, c.Block())
		if !ok {
			continue
		}
		for _, ft := range atoms {
			_, oddOnTrue, isOdd := isOddTest(ft.A)
			if ft.Kind == "eq" {
				// reconstructed from the canonical eq atom: A low(x), B const
				if k, isK := intConst(ft.B); isK && strings.HasPrefix(atom(ft.A, 0), "low(") {
					isOdd, oddOnTrue = true, k == 1
				}
			}
			if !isOdd {
				continue
			}
			odd := ft.Truth == oddOnTrue
			_, firstIsElem := elemIndex(c.Call.Args[0])
			_, secondIsElem := elemIndex(c.Call.Args[1])
			n++
			good := odd && firstIsElem && !secondIsElem || !odd && secondIsElem && !firstIsElem
			side := "even"
			if odd {
				side = "odd"
			}
			r.Check(good, rule, fn(verify)+"|"+side+" index", r.P.Pos(c.Pos()), "path element on the "+map[bool]string{true: "left", false: "right"}[odd]+" for an "+side+" index",
				"the verifier combines the running hash and the path element in the wrong order for an "+side+" index: honest paths do not verify")
		}
	}
	if n < 2 {
		r.Anchor(rule, fmt.Errorf("unresolved anchor: the two pairing branches of VerifyMerklePath (found %d)", n))
	}
	// builder: MHash(tree[a], tree[a+1]) and MHash(tree[x], tree[x]) under an odd level size
	pair, dup := false, false
	for _, c := range mhashCalls(build) {
		a, ok1 := elemIndex(c.Call.Args[0])
		b, ok2 := elemIndex(c.Call.Args[1])
		if !ok1 || !ok2 {
			continue
		}
		if a == b {
			dup = true
			continue
		}
		// b == a + 1
		ta, ca := sumTerms(c.Call.Args[0].(*ssa.UnOp).X.(*ssa.IndexAddr).Index, 1, 0)
		tb, cb := sumTerms(c.Call.Args[1].(*ssa.UnOp).X.(*ssa.IndexAddr).Index, 1, 0)
		sort.Strings(ta)
		sort.Strings(tb)
		if strings.Join(ta, "+") == strings.Join(tb, "+") && cb == ca+1 {
			pair = true
		} else {
			r.Fail(rule, fn(build)+"|pair order", r.P.Pos(c.Pos()), "the builder does not hash a node with its right neighbour as MHash(left, left+1): got indices "+a+" and "+b)
		}
	}
	r.Check(pair, rule, fn(build)+"|pair", r.P.Pos(build.Pos()), "MHash(tree[i], tree[i+1])", "the builder no longer hashes adjacent pairs left-first")
	r.Check(dup, rule, fn(build)+"|odd duplicate", r.P.Pos(build.Pos()), "the last node of an odd level is paired with itself", "the builder no longer pairs the last node of an odd level with itself (the prover hands out the node itself as its sibling)")
	// prover: reads before an odd index, after an even one
	c19Prover(r, prove)
}

func c19Prover(r *engine.Run, prove *ssa.Function) {
	const rule = "AGREE-pairing"
	type read struct {
		in    ssa.Instruction
		terms string
		c     int64
		idx   *ssa.IndexAddr
	}
	var reads []read
	engine.Instrs(prove, func(in ssa.Instruction) {
		ld, ok := in.(*ssa.UnOp)
		if !ok {
			return
		}
		ia, ok := ld.X.(*ssa.IndexAddr)
		if !ok {
			return
		}
		if fld := fieldLoadOf(ia.X); fld == nil || fld.Name() != "tree" {
			return
		}
		t, c := sumTerms(ia.Index, 1, 0)
		sort.Strings(t)
		reads = append(reads, read{in, strings.Join(t, "+"), c, ia})
	})
	if len(reads) < 6 {
		// the sibling selection moved into a helper of the prover (sibling(levelStart, levelSize, i)):
		// its arithmetic is then written over the helper's parameters and this rule's normal form
		// (offsets relative to the walk's own variables) does not apply. Not judged in that shape -
		// reported as such instead of guessing.
		for _, g := range opGroup(r, prove)[1:] {
			cnt := 0
			engine.Instrs(g, func(in ssa.Instruction) {
				if ld, ok := in.(*ssa.UnOp); ok {
					if ia, ok := ld.X.(*ssa.IndexAddr); ok {
						if fld := fieldLoadOf(ia.X); fld != nil && fld.Name() == "tree" {
							cnt++
						}
					}
				}
			})
			if cnt >= 3 {
				r.OK(rule, fn(prove)+"|sibling selection in a helper", r.P.Pos(g.Pos()), fmt.Sprintf("the prover's %d tree reads live in %s, written over that helper's parameters: the pairing arithmetic is not judged in this shape (the rule's normal form is the inline selection)", cnt, fn(g)))
				return
			}
		}
		// ... or the helper computes the sibling's POSITION and the prover reads the tree there
		group := opGroup(r, prove)
		for _, rd := range reads {
			var viaHelper *ssa.Function
			var walk func(v ssa.Value, d int)
			walk = func(v ssa.Value, d int) {
				if d > 4 {
					return
				}
				switch x := v.(type) {
				case *ssa.BinOp:
					walk(x.X, d+1)
					walk(x.Y, d+1)
				case *ssa.Call:
					if g := x.Call.StaticCallee(); g != nil && g != prove && inGroup(group, g) {
						viaHelper = g
					}
				}
			}
			walk(rd.idx.Index, 0)
			if viaHelper != nil {
				r.OK(rule, fn(prove)+"|sibling selection in a helper", r.P.Pos(viaHelper.Pos()), "the position of the sibling is computed by "+fn(viaHelper)+" over that helper's parameters: the pairing arithmetic is not judged in this shape (the rule's normal form is the inline selection)")
				return
			}
		}
		r.Anchor(rule, fmt.Errorf("unresolved anchor: %d tree reads in GetPathByIndex, 6 confirmed by reading", len(reads)))
		return
	}
	o := ord{}
	for _, rd := range reads {
		facts, ok := engine.FactsOn(prove, rd.in.Block())
		if !ok {
			r.Undec(rule, o.next(fn(prove)+"|sibling"), r.P.Pos(rd.in.Pos()), "too many paths")
			continue
		}
		odd, known := false, false
		for _, ft := range facts {
			if ft.Kind == "eq" {
				if k, isK := intConst(ft.B); isK && strings.HasPrefix(atom(ft.A, 0), "low(") {
					known = true
					odd = (k == 1) == ft.Truth
				}
			}
		}
		if !known {
			r.Undec(rule, o.next(fn(prove)+"|sibling"), r.P.Pos(rd.in.Pos()), "sibling read not under an odd/even test of the index")
			continue
		}
		switch {
		case odd:
			r.Check(rd.c == -1, rule, o.next(fn(prove)+"|odd index reads left"), r.P.Pos(rd.in.Pos()), "element before an odd index", fmt.Sprintf("for an odd index the prover reads offset %+d instead of the element before it", rd.c))
		case rd.c == 1:
			// DOM-inlevel
			inLevel := false
			for _, ft := range facts {
				if ft.Kind == "lt" && ft.Truth && normArith(ft.A) == normArith(rd.idx.Index) {
					// bound = level start + level size
					bt, bc := sumTerms(ft.B, 1, 0)
					sort.Strings(bt)
					it, _ := sumTerms(rd.idx.Index, 1, 0)
					sort.Strings(it)
					// the index terms minus the position term must be the level start; the bound adds the level size
					if bc == 0 && len(bt) >= 1 {
						inLevel = boundIsLevelEnd(bt, it)
					}
				}
			}
			r.Check(inLevel, "DOM-inlevel", o.next(fn(prove)+"|even index reads right"), r.P.Pos(rd.in.Pos()), "element after an even index, read only under index+1 < level start + level size",
				"the element after an even index is read without the strict test that it lies inside the current level: for the last node of an odd level the prover hands out a node of the next level (or indexes out of range)")
		case rd.c == 0:
			r.OK(rule, o.next(fn(prove)+"|last of odd level reads itself"), r.P.Pos(rd.in.Pos()), "the node itself when no right neighbour exists")
		default:
			r.Fail(rule, o.next(fn(prove)+"|sibling"), r.P.Pos(rd.in.Pos()), fmt.Sprintf("for an even index the prover reads offset %+d", rd.c))
		}
	}
}

// boundIsLevelEnd: bound terms = (index terms without the position term) + a
// level-size term (leaf count field / the walk's size phi, halved upward for
// upper levels).
func boundIsLevelEnd(bound, index []string) bool {
	pos := ""
	var start []string
	for _, t := range index {
		if strings.HasPrefix(t, "param:idx") || strings.HasPrefix(t, "half(") || strings.HasPrefix(t, "phi:idx") {
			pos = t
		} else {
			start = append(start, t)
		}
	}
	if pos == "" {
		return false
	}
	rest := append([]string{}, bound...)
	for _, s := range start {
		found := false
		for i, b := range rest {
			if b == s {
				rest = append(rest[:i], rest[i+1:]...)
				found = true
				break
			}
		}
		if !found {
			return false
		}
	}
	if len(rest) != 1 {
		return false
	}
	sz := rest[0]
	if len(start) == 0 {
		return sz == "field:leavesCount" || sz == "phi:plsize"
	}
	return strings.HasPrefix(sz, "halfup(")
}

// loopSteps: for each phi of f with a back edge, its step expression.
func loopSteps(f *ssa.Function) map[string]string {
	out := map[string]string{}
	engine.Instrs(f, func(in ssa.Instruction) {
		ph, ok := in.(*ssa.Phi)
		if !ok || ph.Comment == "" {
			return
		}
		for i, e := range ph.Edges {
			pred := ph.Block().Preds[i]
			if engine.Reachable(ph.Block(), pred) && e != ssa.Value(ph) { // back edge
				out[ph.Comment] = normArith(e)
			}
		}
	})
	return out
}

func loopBound(f *ssa.Function, phiName string) (int64, bool) {
	var res int64
	found := false
	engine.Instrs(f, func(in ssa.Instruction) {
		iff, ok := in.(*ssa.If)
		if !ok {
			return
		}
		b, ok := iff.Cond.(*ssa.BinOp)
		if !ok {
			return
		}
		ph, ok := b.X.(*ssa.Phi)
		if !ok || ph.Comment != phiName {
			return
		}
		k, isK := intConst(b.Y)
		if !isK {
			return
		}
		switch b.Op {
		case token.GTR:
			res, found = k, true
		case token.GEQ:
			res, found = k-1, true
		}
	})
	return res, found
}

// loopRoles names the loop variables of a level walk by what their step does,
// not by how the source calls them: size steps to ceil(size/2), offset advances
// by the size, index halves.
func loopRoles(f *ssa.Function) (size, offset, index string, steps map[string]string) {
	steps = loopSteps(f)
	for name, st := range steps {
		if st == "halfup(phi:"+name+")" {
			size = name
		}
		if st == "half(phi:"+name+")" {
			index = name
		}
	}
	for name, st := range steps {
		if size != "" && (st == "phi:"+name+"+phi:"+size || st == "phi:"+size+"+phi:"+name) {
			offset = name
		}
	}
	return
}

func c19Progression(r *engine.Run, verify, build, prove, size *ssa.Function) {
	const rule = "AGREE-progression"
	sSize, _, _, ss := loopRoles(size)
	bSize, bOff, _, bs := loopRoles(build)
	pSize, pOff, pIdx, ps := loopRoles(prove)
	_, _, vIdx, vs := loopRoles(verify)
	r.Check(sSize != "" && bSize != "" && pSize != "", rule, "level size step", r.P.Pos(size.Pos()),
		"all three walks step to ceil(size/2)", fmt.Sprintf("the level walks disagree on the next level size (a loop variable stepping to ceil(x/2) is expected in each): computeSize %v, ComputeTree %v, GetPathByIndex %v", ss, bs, ps))
	r.Check(bOff != "" && pOff != "", rule, "level offset step", r.P.Pos(build.Pos()),
		"builder and prover advance the level offset by the level size", fmt.Sprintf("builder and prover disagree on the next level offset (offset + level size expected in both): %v vs %v", bs, ps))
	r.Check(vIdx != "" && pIdx != "", rule, "index halving", r.P.Pos(verify.Pos()),
		"verifier and prover halve the index alike", fmt.Sprintf("verifier and prover disagree on the parent index (a variable stepping to x/2 expected in both): %v vs %v", vs, ps))
	sb, ok1 := loopBound(size, sSize)
	bb, ok2 := loopBound(build, bSize)
	pb, ok3 := loopBound(prove, pSize)
	r.Check(ok1 && ok2 && ok3 && sb == bb && pb == bb+1, rule, "loop bounds", r.P.Pos(prove.Pos()),
		fmt.Sprintf("size walk and builder continue while size > %d, the prover (leaf level handled before its loop) while size > %d", bb, pb),
		fmt.Sprintf("the level walks stop at different sizes (computeSize > %d, ComputeTree > %d, GetPathByIndex > %d; expected equal, equal, +1): the path has a different number of elements than the tree has levels", sb, bb, pb))
}

func c19Shape(r *engine.Run, build *ssa.Function) {
	const rule = "AGREE-shape"
	set := r.Fn(rule, pkgUtil, "MerkleTree", "SetTree")
	prove := r.Fn(rule, pkgUtil, "MerkleTree", "GetPathByIndex")
	root := r.Fn(rule, pkgUtil, "MerkleTree", "GetRoot")
	fieldsStored := func(f *ssa.Function) string {
		m := map[string]bool{}
		engine.Instrs(f, func(in ssa.Instruction) {
			if st, ok := in.(*ssa.Store); ok {
				if fa, ok := st.Addr.(*ssa.FieldAddr); ok && isNamed(fa.X.Type(), pkgUtil, "MerkleTree") {
					m[engine.FieldOf(fa).Name()] = true
				}
			}
		})
		return keys(m)
	}
	if set != nil {
		a, b := fieldsStored(build), fieldsStored(set)
		// further fields (a cache, say) are fine when both establish them
		r.Check(a == b && strings.Contains(a, "leavesCount") && strings.Contains(a, "levels") && strings.Contains(a, "tree"), rule, "ComputeTree/SetTree fields", r.P.Pos(set.Pos()), "both establish "+a, "ComputeTree establishes "+a+" but SetTree "+b+": a loaded tree yields different paths than the computed one")
	}
	if prove != nil {
		good := false
		engine.Instrs(prove, func(in ssa.Instruction) {
			if ms, ok := in.(*ssa.MakeSlice); ok {
				if normArith(ms.Len) == "field:levels-1" {
					good = true
				}
			}
		})
		r.Check(good, rule, fn(prove)+"|path length", r.P.Pos(prove.Pos()), "a path has levels - 1 elements", "the path is not allocated with levels - 1 elements")
	}
	if root != nil {
		good := false
		engine.Instrs(root, func(in ssa.Instruction) {
			if ia, ok := in.(*ssa.IndexAddr); ok {
				t, c := sumTerms(ia.Index, 1, 0)
				if c == -1 && len(t) == 1 && strings.HasPrefix(t[0], "len(") {
					good = true
				}
			}
		})
		r.Check(good, rule, fn(root)+"|last element", r.P.Pos(root.Pos()), "root = tree[len(tree)-1]", "GetRoot does not return the last element of the tree")
	}
	_ = constant.Int
}

func c19Offered(r *engine.Run, verify *ssa.Function) {
	const rule = "DEP-offered"
	// VerifyMerklePath: running hash starts at the hash parameter, result compared with root parameter
	startOK, cmpOK := false, false
	var acc *ssa.Phi
	engine.Instrs(verify, func(in ssa.Instruction) {
		if ph, ok := in.(*ssa.Phi); ok && engine.IsString(ph.Type()) {
			for _, e := range ph.Edges {
				if e == ssa.Value(verify.Params[0]) {
					startOK = true
					acc = ph
				}
			}
		}
	})
	for _, ret := range engine.Returns(verify) {
		if b, ok := ret.Results[0].(*ssa.BinOp); ok && b.Op == token.EQL && acc != nil {
			if (b.X == ssa.Value(acc) && b.Y == ssa.Value(verify.Params[2])) || (b.Y == ssa.Value(acc) && b.X == ssa.Value(verify.Params[2])) {
				cmpOK = true
			}
		}
	}
	r.Check(startOK && cmpOK, rule, fn(verify)+"|from offered hash to given root", r.P.Pos(verify.Pos()), "running hash starts at the offered hash and is compared with the given root",
		fmt.Sprintf("the verifier does not recompute from the offered hash to the given root (starts at offered hash=%v, compares with root=%v)", startOK, cmpOK))
	// the comparison with the root is the verifier's only verdict: no other
	// comparison of hash strings decides acceptance. An honest path may contain
	// a sibling equal to the running hash (adjacent duplicate leaves, equal
	// aligned subtrees); a "hardening" that rejects such a pair rejects honest
	// paths of the tree's own root.
	extra := ""
	ncmp := 0
	engine.Instrs(verify, func(in ssa.Instruction) {
		b, ok := in.(*ssa.BinOp)
		if !ok || (b.Op != token.EQL && b.Op != token.NEQ) || !engine.IsString(b.X.Type()) {
			return
		}
		ncmp++
		if b.X != ssa.Value(verify.Params[2]) && b.Y != ssa.Value(verify.Params[2]) {
			extra = r.P.Pos(b.Pos())
		}
	})
	for _, ret := range engine.Returns(verify) {
		if c, isC := ret.Results[0].(*ssa.Const); isC && c.Value != nil && extra == "" {
			// a constant verdict is only acceptable for a malformed path (no hash comparison on the way)
			if facts, ok := engine.FactsOn(verify, ret.Block()); ok {
				for _, ft := range facts {
					if ft.Kind == "eq" && engine.IsString(ft.A.Type()) {
						extra = r.P.Pos(ret.Pos())
					}
				}
			}
		}
	}
	r.Check(extra == "" && ncmp >= 1, rule, fn(verify)+"|only verdict", r.P.Pos(verify.Pos()), "the only comparison of hash strings is the final one with the given root",
		"the verifier compares hash strings other than the recomputed root with the given root (at "+extra+") and lets that decide: a sibling that happens to equal the running hash (adjacent duplicate leaves, equal aligned subtrees) makes it reject the honest path the tree itself produced")
	vp := r.Fn(rule, pkgUtil, "MerkleTree", "VerifyPath")
	if vp == nil {
		return
	}
	good := false
	engine.Instrs(vp, func(in ssa.Instruction) {
		c, ok := in.(*ssa.Call)
		if !ok || c.Call.StaticCallee() != verify {
			return
		}
		a0, a1, a2 := c.Call.Args[0], c.Call.Args[1], c.Call.Args[2]
		okHash := isInvokeOf(a0, "GetHash", isValue(vp.Params[1]))
		okPath := a1 == ssa.Value(vp.Params[2])
		okRoot := false
		if rc, ok := a2.(*ssa.Call); ok {
			if recv, ok := engine.IsMethodCall(rc, "GetRoot"); ok && recv == ssa.Value(vp.Params[0]) {
				okRoot = true
			}
		}
		good = okHash && okPath && okRoot
	})
	// VerifyPath adds no verdict of its own: every return is the verifier's result. A
	// pre-check by leaf lookup rejects honest by-index paths of repeated leaf hashes
	// (the lookup finds the first position only).
	onlyDelegate := true
	for _, ret := range engine.Returns(vp) {
		if len(ret.Results) != 1 {
			continue
		}
		c, ok := resultValue(ret, 0).(*ssa.Call)
		if !ok || c.Call.StaticCallee() != verify {
			onlyDelegate = false
		}
	}
	r.Check(onlyDelegate, rule, fn(vp)+"|delegates the verdict", r.P.Pos(vp.Pos()), "every return of VerifyPath is the result of VerifyMerklePath",
		"VerifyPath decides on something besides the recomputation (an extra return that is not the verifier's result): a path the tree produced by index is rejected when the pre-check disagrees, e.g. a lookup by hash that finds the first of two equal leaves")
	// neither verifier writes through its arguments: a path is a value that can be verified again
	for _, g := range []*ssa.Function{verify, vp} {
		wr := ""
		engine.Instrs(g, func(in ssa.Instruction) {
			st, ok := in.(*ssa.Store)
			if !ok {
				return
			}
			root := st.Addr
			for {
				switch x := root.(type) {
				case *ssa.FieldAddr:
					root = x.X
					continue
				case *ssa.IndexAddr:
					root = x.X
					continue
				}
				break
			}
			if ld, ok := root.(*ssa.UnOp); ok {
				root = ld.X
				if fa, ok := root.(*ssa.FieldAddr); ok {
					root = fa.X
				}
			}
			if p, ok := root.(*ssa.Parameter); ok && p.Parent() == g {
				wr = r.P.Pos(st.Pos())
			}
		})
		r.Check(wr == "", rule, fn(g)+"|arguments untouched", r.P.Pos(g.Pos()), "no store through a parameter",
			"the verifier writes into the path (or another argument) it was given (at "+wr+"): a path that was checked once - even against a wrong leaf - no longer verifies for its own leaf, and concurrent verification of a shared path races")
	}
	r.Check(good, rule, fn(vp)+"|arguments", r.P.Pos(vp.Pos()), "VerifyMerklePath(offered.GetHash(), offered path, own root)", "VerifyPath does not verify the offered node's own hash with the offered path against the tree's root: the path would prove any leaf of the tree")
}

// c19FreshTree: the node slice of a tree is shared with whoever exported it
// (GetTree returns the field) or loaded it (SetTree installs the caller's slice);
// a method that stores elements into the slice therefore works on a slice it
// allocated itself: every store to the tree field in such a method is a make.
func c19FreshTree(r *engine.Run, rule string) {
	get := r.Fn(rule, pkgUtil, "MerkleTree", "GetTree")
	set := r.Fn(rule, pkgUtil, "MerkleTree", "SetTree")
	shares := ""
	if get != nil {
		for _, ret := range engine.Returns(get) {
			if len(ret.Results) == 1 {
				if fld := fieldLoadOf(resultValue(ret, 0)); fld != nil && fld.Name() == "tree" {
					shares = "GetTree returns the node slice itself"
				}
			}
		}
	}
	if set != nil {
		engine.Instrs(set, func(in ssa.Instruction) {
			if st, ok := in.(*ssa.Store); ok {
				if fld := engine.FieldOf(st.Addr); fld != nil && fld.Name() == "tree" {
					if _, isP := stripCT(st.Val).(*ssa.Parameter); isP {
						if shares != "" {
							shares += " and "
						}
						shares += "SetTree installs the caller's slice"
					}
				}
			}
		})
	}
	n := 0
	for _, f := range funcsOfPkg(r, pkgUtil) {
		if recvNamed(f) != "MerkleTree" || len(f.Blocks) == 0 {
			continue
		}
		// element stores into the tree field's slice
		writes := false
		engine.Instrs(f, func(in ssa.Instruction) {
			if st, ok := in.(*ssa.Store); ok {
				if ia, ok := st.Addr.(*ssa.IndexAddr); ok {
					if fld := fieldLoadOf(ia.X); fld != nil && fld.Name() == "tree" {
						writes = true
					}
				}
			}
		})
		if !writes {
			continue
		}
		o := ord{}
		found := false
		engine.Instrs(f, func(in ssa.Instruction) {
			st, ok := in.(*ssa.Store)
			if !ok {
				return
			}
			if fld := engine.FieldOf(st.Addr); fld == nil || fld.Name() != "tree" {
				return
			}
			found = true
			n++
			_, isMake := stripCT(st.Val).(*ssa.MakeSlice)
			r.Check(isMake || shares == "", rule, o.next(fn(f)+"|tree buffer"), r.P.Pos(st.Pos()), "the slice written element by element is allocated by this method",
				"the method writes the tree's nodes into a slice that is not freshly allocated while "+shares+": recomputing overwrites the nodes of an exported tree and of every tree loaded from it")
		})
		if !found {
			n++
			r.Check(shares == "", rule, fn(f)+"|tree buffer", r.P.Pos(f.Pos()), "no sharing", "the method writes elements into the existing node slice while "+shares)
		}
	}
	if n < 1 {
		r.Anchor(rule, fmt.Errorf("unresolved anchor: no method storing elements into MerkleTree.tree"))
	}
}

// c19SetTreeAtomic: a rejected load leaves the tree as it was: in SetTree no
// store to a receiver field can be followed by an error return.
func c19SetTreeAtomic(r *engine.Run, rule string) {
	f := r.Fn(rule, pkgUtil, "MerkleTree", "SetTree")
	if f == nil {
		return
	}
	n := 0
	o := ord{}
	var errRets []*ssa.Return
	for _, ret := range engine.Returns(f) {
		if len(ret.Results) == 1 && !nilConst(resultValue(ret, 0)) {
			errRets = append(errRets, ret)
		}
	}
	engine.Instrs(f, func(in ssa.Instruction) {
		st, ok := in.(*ssa.Store)
		if !ok {
			return
		}
		fa, ok := st.Addr.(*ssa.FieldAddr)
		if !ok || fa.X != ssa.Value(f.Params[0]) {
			return
		}
		n++
		bad := ""
		for _, ret := range errRets {
			if engine.ReachableAfter(st, ret) {
				bad = r.P.Pos(ret.Pos())
			}
		}
		r.Check(bad == "", rule, o.next(fn(f)+"|store "+engine.FieldOf(fa).Name()), r.P.Pos(st.Pos()), "no error return is reachable after the store",
			"SetTree changes the receiver and can still reject the load (error return at "+bad+"): a tree that already holds data is left with the old nodes and the geometry of another leaf count, so its paths no longer verify against its root")
	})
	if n < 3 || len(errRets) < 1 {
		r.Anchor(rule, fmt.Errorf("unresolved anchor: %d field stores / %d error returns in SetTree", n, len(errRets)))
	}
}

// c19Pure: the Merkle routines keep no mutable package-level state: no function
// of the Merkle tree files stores to a global or writes through memory obtained
// from one (a scratch buffer shared by all callers makes hashing non re-entrant:
// concurrent builders and verifiers corrupt each other's hashes).
func c19Pure(r *engine.Run, rule string) {
	n := 0
	for _, f := range funcsOfPkg(r, pkgUtil) {
		pos := r.P.Pos(f.Pos())
		if !strings.Contains(pos, "merkle_tree") {
			continue
		}
		n++
		bad := ""
		fromGlobal := func(v ssa.Value) bool {
			root := engine.AddrRoot(v)
			if _, ok := root.(*ssa.Global); ok {
				return true
			}
			// a slice loaded from a global (or re-sliced from one)
			for i := 0; i < 6; i++ {
				switch x := v.(type) {
				case *ssa.Slice:
					v = x.X
					continue
				case *ssa.UnOp:
					if _, ok := x.X.(*ssa.Global); ok {
						return true
					}
				case *ssa.Call:
					if b, ok := x.Call.Value.(*ssa.Builtin); ok && b.Name() == "append" {
						v = x.Call.Args[0]
						continue
					}
				}
				break
			}
			return false
		}
		engine.Instrs(f, func(in ssa.Instruction) {
			switch x := in.(type) {
			case *ssa.Store:
				if fromGlobal(x.Addr) {
					bad = "store to package-level state at " + r.P.Pos(x.Pos())
				}
			case *ssa.Call:
				if b, ok := x.Call.Value.(*ssa.Builtin); ok && (b.Name() == "append" || b.Name() == "copy") && fromGlobal(x.Call.Args[0]) {
					bad = b.Name() + " into a package-level buffer at " + r.P.Pos(x.Pos())
				}
			}
		})
		if f.Name() == "init" {
			continue
		}
		r.Check(bad == "", rule, fn(f)+"|no shared state", pos, "writes no package-level state", "a Merkle routine writes mutable package-level state ("+bad+"): hashing is no longer re-entrant, so trees built and paths verified concurrently get wrong hashes")
	}
	if n < 5 {
		r.Anchor(rule, fmt.Errorf("unresolved anchor: %d functions of the Merkle tree files found", n))
	}
}
