package rules

import (
	"fmt"
	"go/constant"
	"go/token"
	"go/types"
	"sort"
	"strings"

	"golang.org/x/tools/go/ssa"

	"verif/sa/engine"
)

// controllingConds: the branch conditions a block is entered through: the If
// conditions of the predecessors that branch into it, looking through blocks
// that only forward (one predecessor chain of unconditional jumps is followed
// up to the Ifs that feed it).
func controllingConds(b *ssa.BasicBlock) []ssa.Value {
	var out []ssa.Value
	seen := map[*ssa.BasicBlock]bool{}
	var up func(x *ssa.BasicBlock)
	up = func(x *ssa.BasicBlock) {
		if seen[x] {
			return
		}
		seen[x] = true
		for _, p := range x.Preds {
			if len(p.Instrs) == 0 {
				continue
			}
			if iff, ok := p.Instrs[len(p.Instrs)-1].(*ssa.If); ok {
				out = append(out, iff.Cond)
				continue
			}
			up(p)
		}
	}
	up(b)
	return out
}

// errRange: the float helpers of core/currency report an error only when an
// argument or the result is negative, not a number, infinite or too large. The
// rule enumerates the accepted forms of a rejection: an error return with one
// of the package's own error values (not an error handed up from a callee) is
// entered through comparisons against a constant (sign, range), math.IsNaN /
// math.IsInf, or a predicate of the decimal library; a comparison between two
// computed values (a round-trip equality, say) rejects amounts whose IEEE
// result is in range.
func errRange(r *engine.Run, rule string) {
	n := 0
	isFloat := func(t types.Type) bool {
		b, ok := t.Underlying().(*types.Basic)
		return ok && b.Kind() == types.Float64
	}
	for _, f := range funcsOfPkg(r, pkgCur) {
		if f.Parent() != nil || isGenFile(r, f.Pos()) || len(f.Blocks) == 0 {
			continue
		}
		res := f.Signature.Results()
		if res.Len() == 0 || res.At(res.Len()-1).Type().String() != "error" {
			continue
		}
		fl := false
		for _, p := range f.Params {
			if isFloat(p.Type()) {
				fl = true
			}
		}
		for i := 0; i < res.Len(); i++ {
			if isFloat(res.At(i).Type()) {
				fl = true
			}
		}
		if !fl {
			continue
		}
		o := ord{}
		for _, ret := range engine.Returns(f) {
			ev := resultValue(ret, len(ret.Results)-1)
			if ev == nil || nilConst(ev) {
				continue
			}
			// an error handed up from a callee (or a merge of them) is the callee's rejection
			own := false
			switch x := through(ev).(type) {
			case *ssa.UnOp:
				if _, ok := x.X.(*ssa.Global); ok && x.Op == token.MUL {
					own = true
				}
			case *ssa.Call:
				if sc := x.Call.StaticCallee(); sc != nil && sc.Pkg != nil && (sc.Pkg.Pkg.Path() == "errors" || sc.Pkg.Pkg.Path() == "fmt") {
					own = true
				}
			}
			if !own {
				continue
			}
			n++
			var bad []string
			conds := controllingConds(ret.Block())
			for _, c := range conds {
				for {
					u, ok := c.(*ssa.UnOp)
					if !ok || u.Op != token.NOT {
						break
					}
					c = u.X
				}
				okShape := false
				switch x := c.(type) {
				case *ssa.BinOp:
					if constVal(x.X) != nil || constVal(x.Y) != nil || nilConst(x.X) || nilConst(x.Y) {
						okShape = true
					}
				case *ssa.Call:
					if sc := x.Call.StaticCallee(); sc != nil && sc.Pkg != nil {
						p := sc.Pkg.Pkg.Path()
						if p == "math" && (sc.Name() == "IsNaN" || sc.Name() == "IsInf") || strings.HasSuffix(p, "shopspring/decimal") {
							okShape = true
						}
					}
				}
				if !okShape {
					bad = append(bad, fmt.Sprintf("%s at %s", c.String(), r.P.Pos(c.Pos())))
				}
			}
			sort.Strings(bad)
			r.Check(len(bad) == 0 && len(conds) > 0, rule, o.next(fn(f)+"|"+errName(ev)), r.P.Pos(ret.Pos()),
				fmt.Sprintf("own error returned only behind sign/range/NaN/Inf tests (%d conditions)", len(conds)),
				"a float helper rejects an amount on a condition that is not a sign, range, NaN or infinity test ("+strings.Join(bad, "; ")+"): amounts whose IEEE result is in range come back as an error")
		}
	}
	r.Min(rule, 5)
}

func errName(v ssa.Value) string {
	if u, ok := through(v).(*ssa.UnOp); ok {
		if g, ok := u.X.(*ssa.Global); ok {
			return g.Name()
		}
	}
	return "error"
}

var _ = constant.MakeInt64

// domSetHash: BlockCache.SetBlockHash names the hash the block's entries and its
// link to the previous block are filed under at commit, and the hash descendants
// name as their previous block. It stores its argument on every path: a setter
// that keeps an earlier (provisional) hash makes the commit file everything under
// a hash no descendant looks up.
func domSetHash(r *engine.Run, rule string) {
	f := r.Fn(rule, "core/statecache", "BlockCache", "SetBlockHash")
	if f == nil {
		return
	}
	var st *ssa.Store
	engine.Instrs(f, func(in ssa.Instruction) {
		if s, ok := in.(*ssa.Store); ok {
			if fa, ok := s.Addr.(*ssa.FieldAddr); ok && fieldName(fa) == "BlockCache.blockHash" && fa.X == ssa.Value(f.Params[0]) && s.Val == ssa.Value(f.Params[1]) {
				st = s
			}
		}
	})
	good := st != nil
	if good {
		for _, ret := range engine.Returns(f) {
			if ret.Block().Comment == "recover" {
				continue
			}
			if !engine.InstrDominates(st, ret) {
				good = false
			}
		}
	}
	r.Check(good, rule, fn(f), r.P.Pos(f.Pos()), "the argument is stored as the block's hash on every path", "SetBlockHash returns on some path without storing its argument as the block's hash: the commit files the block's entries and its link under another hash than the one descendants name")
}

// agreeWiring: InitLogging builds one in-memory logger per zap logger and tees
// that logger into it. Each in-memory core is wired (GetCore handed to a tee)
// exactly once: a core wired into two loggers receives the entries of both, so
// its buffer no longer holds exactly what was written through its own logger,
// and the other logger's traffic evicts retained entries once the ring is full;
// a core wired into none stays empty.
func agreeWiring(r *engine.Run, rule string) {
	f := r.Fn(rule, pkgLog, "", "InitLogging")
	if f == nil {
		return
	}
	created := map[string]bool{} // package-level loggers assigned a fresh MemLogger
	wired := map[string]int{}
	engine.Instrs(f, func(in ssa.Instruction) {
		switch x := in.(type) {
		case *ssa.Store:
			if g, ok := x.Addr.(*ssa.Global); ok && isNamedPtrIn(x.Val.Type(), pkgLog, "MemLogger") {
				created[g.Name()] = true
			}
		case *ssa.Call:
			if staticCalleeIs(x, pkgLog, "MemLogger", "GetCore") {
				name := "?"
				if ld, ok := x.Call.Args[0].(*ssa.UnOp); ok && ld.Op == token.MUL {
					if g, ok := ld.X.(*ssa.Global); ok {
						name = g.Name()
					}
				}
				wired[name]++
			}
		}
	})
	if len(created) == 0 {
		r.Anchor(rule, fmt.Errorf("unresolved anchor: no in-memory logger created in %s", fn(f)))
		return
	}
	var names []string
	for n := range created {
		names = append(names, n)
	}
	for n := range wired {
		if !created[n] {
			names = append(names, n)
		}
	}
	sort.Strings(names)
	for _, n := range names {
		r.Check(created[n] && wired[n] == 1, rule, fn(f)+"|core of "+n, r.P.Pos(f.Pos()), "the in-memory core is teed into exactly one logger",
			fmt.Sprintf("the in-memory core of %s is wired into %d loggers (created here: %v): a buffer that serves two loggers holds the entries of both, one that serves none holds nothing - the dump of a logger is not what was written through it", n, wired[n], created[n]))
	}
	r.Min(rule, 4)
}

func isNamedPtrIn(t types.Type, rel, name string) bool {
	p, ok := t.Underlying().(*types.Pointer)
	return ok && isNamed(p.Elem(), rel, name)
}

// purgeEvery: Rollback() has no result and no way to say "nothing done": every
// way out of it went past the purge of the nodes recorded in `created` (the
// first read of that field, or the call of the helper that holds the purge,
// dominates every return). A guard clause that leaves early - for the empty
// checkpoint, say - leaves the nodes of the rolled-back commit in storage.
func purgeEvery(r *engine.Run, rule string) {
	f := wfn(r, rule, "Rollback")
	if f == nil {
		return
	}
	var first ssa.Instruction
	consider := func(in ssa.Instruction) {
		if first == nil || engine.InstrDominates(in, first) {
			first = in
		}
	}
	engine.Instrs(f, func(in ssa.Instruction) {
		switch x := in.(type) {
		case *ssa.UnOp:
			if x.Op == token.MUL {
				if fa, ok := x.X.(*ssa.FieldAddr); ok && engine.FieldOf(fa).Name() == "created" && fa.X == ssa.Value(f.Params[0]) {
					consider(x)
				}
			}
		case *ssa.Call:
			g := x.Call.StaticCallee()
			if g == nil || g == f || len(g.Blocks) == 0 || g.Pkg != f.Pkg || g.Signature.Recv() == nil || len(x.Call.Args) != 1 || x.Call.Args[0] != ssa.Value(f.Params[0]) {
				return
			}
			if _, del, _ := bookkeepingResets(g); del {
				consider(x)
			}
		}
	})
	if first == nil {
		r.Anchor(rule, fmt.Errorf("unresolved anchor: no read of `created` in %s", fn(f)))
		return
	}
	bad := ""
	for _, ret := range engine.Returns(f) {
		if ret.Block().Comment == "recover" {
			continue
		}
		if !engine.InstrDominates(first, ret) {
			bad = r.P.Pos(ret.Pos())
		}
	}
	r.Check(bad == "", rule, fn(f)+"|purge on every path", r.P.Pos(first.Pos()), "the purge of the created nodes is passed on every path out of Rollback",
		"Rollback returns ("+bad+") without having gone past the purge of the nodes recorded in `created`: the nodes that only the rolled-back commit created stay in storage")
}

// checkpointEvery: SaveRoot has no result either: every way out of it recorded the
// current root as the checkpoint, or found the root nil. A SaveRoot that skips
// the recording for some kind of root (a collapsed hash node, say) leaves the
// previous checkpoint - or the zero one - in place, and the next Rollback goes
// back to that instead.
func checkpointEvery(r *engine.Run, rule string) {
	f := wfn(r, rule, "SaveRoot")
	if f == nil {
		return
	}
	stores := map[*ssa.BasicBlock]bool{}
	engine.Instrs(f, func(in ssa.Instruction) {
		st, ok := in.(*ssa.Store)
		if !ok {
			return
		}
		if fa, ok := st.Addr.(*ssa.FieldAddr); ok {
			if inner, ok := fa.X.(*ssa.FieldAddr); ok && engine.FieldOf(inner).Name() == "oldRoot" && engine.FieldOf(fa).Name() == "hash" {
				stores[st.Block()] = true
			}
		}
	})
	if len(stores) == 0 {
		return // AGREE-checkpoint reports the missing record
	}
	// conditions that compare the root field with nil
	type nilTest struct {
		key   string
		pos   bool
		isNeq bool
	}
	var tests []nilTest
	engine.Instrs(f, func(in ssa.Instruction) {
		iff, ok := in.(*ssa.If)
		if !ok {
			return
		}
		b, ok := iff.Cond.(*ssa.BinOp)
		if !ok || (b.Op != token.NEQ && b.Op != token.EQL) {
			return
		}
		x, y := b.X, b.Y
		if nilConst(x) {
			x, y = y, x
		}
		if !nilConst(y) {
			return
		}
		if fl := fieldLoadOf(x); fl == nil || fl.Name() != "root" {
			return
		}
		key, pos := engine.CondAtom(iff.Cond)
		tests = append(tests, nilTest{key, pos, b.Op == token.NEQ})
	})
	bad := ""
	n := 0
	for _, ret := range engine.Returns(f) {
		if ret.Block().Comment == "recover" || stores[ret.Block()] {
			continue
		}
		n++
		paths, ok := engine.PathFactsAvoid(f, ret.Block(), stores, 4096)
		if !ok {
			bad = r.P.Pos(ret.Pos()) + " (too many paths)"
			continue
		}
		for _, p := range paths {
			isNil := false
			for _, t := range tests {
				if v, had := p[t.key]; had {
					cond := v == t.pos
					if (t.isNeq && !cond) || (!t.isNeq && cond) {
						isNil = true
					}
				}
			}
			if !isNil {
				bad = r.P.Pos(ret.Pos())
			}
		}
	}
	r.Check(bad == "", rule, fn(f)+"|recorded on every path", r.P.Pos(f.Pos()), fmt.Sprintf("every path to a return (%d) records the checkpoint or found the root nil", n),
		"SaveRoot returns ("+bad+") on a path that neither recorded the current root as the checkpoint nor found the root nil: the previous (or zero) checkpoint stays, and the next Rollback goes back to that root - for a trie opened from a root hash, to the empty trie")
}

// controllingEdges: like controllingConds, with the outcome of the condition
// under which the block is entered.
func controllingEdges(b *ssa.BasicBlock) (conds []ssa.Value, truth []bool) {
	seen := map[*ssa.BasicBlock]bool{}
	var up func(x *ssa.BasicBlock)
	up = func(x *ssa.BasicBlock) {
		if seen[x] {
			return
		}
		seen[x] = true
		for _, p := range x.Preds {
			if len(p.Instrs) == 0 {
				continue
			}
			if iff, ok := p.Instrs[len(p.Instrs)-1].(*ssa.If); ok {
				conds = append(conds, iff.Cond)
				truth = append(truth, p.Succs[0] == x)
				continue
			}
			up(p)
		}
	}
	up(b)
	return
}

// rejectKind: the verifier of a block proof refuses a record by its kind only in
// the default of its kind switch (no known kind matched). The trie hangs every
// kind below every other where the key length allows it - a value sits directly
// below a branch when two keys differ in their last nibble only -, so an error
// return of the verifier that is entered because a kind test SUCCEEDED turns
// honest proofs of such tries away. The kinds meant are those a decoded record
// can have (branch, short node, value).
func rejectKind(r *engine.Run, rule string) {
	n := 0
	for _, name := range []string{"verifyProof"} {
		f := r.Fn(rule, pkgWMPT, "", name)
		if f == nil {
			continue
		}
		group := opGroup(r, f)
		if vb := wfn(r, rule, "VerifyBlockProof"); vb != nil {
			group = append(group, vb)
		}
		for _, g := range group {
			o := ord{}
			for _, ret := range engine.Returns(g) {
				ev := resultValue(ret, len(ret.Results)-1)
				if ev == nil || nilConst(ev) {
					continue
				}
				own := false
				switch x := through(ev).(type) {
				case *ssa.UnOp:
					if _, ok := x.X.(*ssa.Global); ok && x.Op == token.MUL {
						own = true
					}
				case *ssa.Call:
					if sc := x.Call.StaticCallee(); sc != nil && sc.Pkg != nil && (sc.Pkg.Pkg.Path() == "errors" || sc.Pkg.Pkg.Path() == "fmt") {
						own = true
					}
				}
				if !own {
					continue
				}
				n++
				conds, truth := controllingEdges(ret.Block())
				bad := ""
				for i, c := range conds {
					t := truth[i]
					for {
						u, ok := c.(*ssa.UnOp)
						if !ok || u.Op != token.NOT {
							break
						}
						c, t = u.X, !t
					}
					if ex, ok := c.(*ssa.Extract); ok && ex.Index == 1 && t {
						if ta, ok := ex.Tuple.(*ssa.TypeAssert); ok && ta.CommaOk && (isNamedPtrIn(ta.AssertedType, pkgWMPT, "routingNode") || isNamedPtrIn(ta.AssertedType, pkgWMPT, "shortNode") || isNamedPtrIn(ta.AssertedType, pkgWMPT, "valueNode")) {
							bad = types.TypeString(ta.AssertedType, func(*types.Package) string { return "" }) + " at " + r.P.Pos(ta.Pos())
						}
					}
				}
				r.Check(bad == "", rule, o.next(fn(g)+"|rejection by kind"), r.P.Pos(ret.Pos()), "the rejection is not entered through a successful kind test",
					"the verifier refuses a record because it IS of a known kind ("+bad+"): every kind can sit below a branch or a short node or be the root (a value hangs directly off a branch when two keys differ only in their last nibble), so honest proofs are turned away")
			}
		}
	}
	if n < 4 {
		r.Anchor(rule, fmt.Errorf("unresolved anchor: %d rejections in the proof verifier", n))
	}
}

// cloneNodeFresh: CloneNode() is what the memory store keeps and hands out, and
// what the trie operations modify (SetValue, SetOrigin) to build a changed node.
// A clone therefore shares no object with the receiver through a pointer field:
// every pointer-typed field of the clone (the embedded origin tracker, the value
// node of a branch) is filled with something made for the clone, never with the
// pointer loaded from the receiver. Byte slices may be shared (keys and paths are
// never updated in place).
func cloneNodeFresh(r *engine.Run, rule string) {
	n := 0
	for _, T := range []string{"ValueNode", "LeafNode", "FullNode", "ExtensionNode"} {
		f := r.Fn(rule, pkgUtil, T, "CloneNode")
		if f == nil {
			continue
		}
		recv := f.Params[0]
		bad := ""
		engine.Instrs(f, func(in ssa.Instruction) {
			st, ok := in.(*ssa.Store)
			if !ok {
				return
			}
			fa, ok := st.Addr.(*ssa.FieldAddr)
			if !ok || fa.X == ssa.Value(recv) {
				return
			}
			fld := engine.FieldOf(fa)
			if fld == nil {
				return
			}
			if _, isPtr := fld.Type().Underlying().(*types.Pointer); !isPtr {
				return
			}
			n++
			if ld, ok := st.Val.(*ssa.UnOp); ok && ld.Op == token.MUL {
				if src, ok := ld.X.(*ssa.FieldAddr); ok && src.X == ssa.Value(recv) {
					bad = fld.Name() + " at " + r.P.Pos(st.Pos())
				}
			}
			if st.Val == ssa.Value(recv) {
				bad = fld.Name() + " at " + r.P.Pos(st.Pos())
			}
		})
		r.Check(bad == "", rule, fn(f), r.P.Pos(f.Pos()), "no pointer field of the clone is the receiver's pointer", "the clone shares an object with the node it was cloned from (field "+bad+"): a SetValue / SetOrigin on the clone - how the trie builds a changed node - edits the original, which may be the store's own object or a node of the parent trie")
	}
	if n < 4 {
		r.Anchor(rule, fmt.Errorf("unresolved anchor: %d pointer-field stores in the CloneNode implementations", n))
	}
}

// domTakeover: MergeDB takes over the donor's nodes: they enter this trie's
// pending changes through the iteration over the donor store, and only then can
// a save write them. Being at the donor's root already says nothing about having
// its nodes (a trie opened at an announced root has none of them), so no return
// of MergeDB skips the iteration: the Iterate call on the donor dominates every
// return.
func domTakeover(r *engine.Run, rule string) {
	f := r.Fn(rule, pkgUtil, "MerklePatriciaTrie", "MergeDB")
	if f == nil {
		return
	}
	var it ssa.Instruction
	for _, g := range opGroup(r, f) {
		engine.Instrs(g, func(in ssa.Instruction) {
			c, ok := in.(ssa.CallInstruction)
			if !ok || !c.Common().IsInvoke() || c.Common().Method.Name() != "Iterate" {
				return
			}
			if g == f {
				if c.Common().Value == ssa.Value(f.Params[1]) {
					it = in
				}
				return
			}
			// in a helper: the helper call in MergeDB that hands the donor on
			engine.Instrs(f, func(in2 ssa.Instruction) {
				if c2, ok := in2.(*ssa.Call); ok && c2.Call.StaticCallee() == g {
					for _, a := range c2.Call.Args {
						if a == ssa.Value(f.Params[1]) {
							it = in2
						}
					}
				}
			})
		})
	}
	if it == nil {
		r.Fail(rule, fn(f)+"|donor iterated", r.P.Pos(f.Pos()), "MergeDB no longer iterates over the donor store: its nodes are not taken over")
		return
	}
	bad := ""
	for _, ret := range engine.Returns(f) {
		if ret.Block().Comment == "recover" {
			continue
		}
		if !engine.InstrDominates(it, ret) {
			bad = r.P.Pos(ret.Pos())
		}
	}
	// the root the state change names is installed on every path, whatever it is
	// (an empty root is the state after its last entry was removed)
	var rootAt ssa.Instruction
	engine.Instrs(f, func(in ssa.Instruction) {
		if st, ok := in.(*ssa.Store); ok {
			if fld := engine.FieldOf(st.Addr); fld != nil && fld.Name() == "root" && st.Val == ssa.Value(f.Params[2]) {
				rootAt = st
			}
		}
		if c, ok := in.(*ssa.Call); ok && rootAt == nil {
			if sc := c.Call.StaticCallee(); sc != nil && sc.Name() == "setRoot" && len(c.Call.Args) == 2 && c.Call.Args[1] == ssa.Value(f.Params[2]) {
				rootAt = c
			}
		}
	})
	installed := rootAt != nil
	if installed {
		for _, ret := range engine.Returns(f) {
			if ret.Block().Comment != "recover" && !engine.InstrDominates(rootAt, ret) {
				installed = false
			}
		}
	}
	// every donor node handed to the iteration handler is taken over: no return of
	// the handler skips insertForeignNode (a filter such as "only what lookups
	// recorded as missing" drops the nodes below the topmost absent one)
	for _, h := range f.AnonFuncs {
		var ins *ssa.Call
		engine.Instrs(h, func(in ssa.Instruction) {
			if c, ok := in.(*ssa.Call); ok {
				if sc := c.Call.StaticCallee(); sc != nil && sc.Name() == "insertForeignNode" {
					ins = c
				}
			}
		})
		if ins == nil {
			continue
		}
		skipped := ""
		for _, ret := range engine.Returns(h) {
			if ret.Block().Comment == "recover" || engine.InstrDominates(ins, ret) {
				continue
			}
			// giving up with an error (a cancelled context) is not skipping
			if len(ret.Results) == 1 && !nilConst(resultValue(ret, 0)) {
				continue
			}
			skipped = r.P.Pos(ret.Pos())
		}
		r.Check(skipped == "", rule, fn(f)+"|every donor node taken over", r.P.Pos(ins.Pos()), "no return of the iteration handler skips the take-over of the node it was given",
			"the handler MergeDB iterates the donor with returns ("+skipped+") without taking the node over: a filter on the donor's nodes (only keys recorded as missing, say) drops the nodes below the topmost absent one, so the repair leaves holes and the trie still reports missing nodes")
	}
	r.Check(installed, rule, fn(f)+"|root installed", r.P.Pos(f.Pos()), "the given root is installed on every path",
		"MergeDB does not install the root it is given on every path (a guard such as 'only a non-empty root'): a state change that removes the last entries names the empty root, and a follower that keeps its old root while taking over the dead-node list reports every node below that root as dead - later rounds build on it and a prune wipes it")
	r.Check(bad == "", rule, fn(f)+"|donor iterated", r.P.Pos(it.Pos()), "the iteration over the donor store dominates every return",
		"MergeDB returns ("+bad+") without having iterated over the donor store: the donor's nodes never enter the pending changes, so the following save writes nothing and reports success - the root and everything below it is missing from the store")
}

// freshDecodeBuf: the decoders of the node kinds keep sub-slices of the bytes
// they are given (a leaf's prefix and path are views of the input). CreateNode
// therefore hands them bytes of its own: the result of reading the reader out
// (io/ioutil.ReadAll allocates), never a view of the reader's memory
// (bytes.Buffer.Next / Bytes, a type-asserted reader's slice): the caller's
// buffer is typically a receive buffer that is reused for the next record while
// the decoded node is still alive - its hash inputs would change under it.
func freshDecodeBuf(r *engine.Run, rule string) {
	f := r.Fn(rule, pkgUtil, "", "CreateNode")
	if f == nil {
		return
	}
	n := 0
	for _, g := range opGroup(r, f) {
		o := ord{}
		engine.Instrs(g, func(in ssa.Instruction) {
			c, ok := in.(ssa.CallInstruction)
			if !ok || !c.Common().IsInvoke() || c.Common().Method.Name() != "Decode" || len(c.Common().Args) != 1 {
				return
			}
			n++
			bad := ""
			seen := map[ssa.Value]bool{}
			var walk func(v ssa.Value)
			walk = func(v ssa.Value) {
				if seen[v] {
					return
				}
				seen[v] = true
				switch x := v.(type) {
				case *ssa.Phi:
					for _, e := range x.Edges {
						walk(e)
					}
				case *ssa.Extract:
					walk(x.Tuple)
				case *ssa.Slice:
					walk(x.X)
				case *ssa.Const:
				case *ssa.Call:
					if extCalleeIs(x, "io/ioutil", "", "ReadAll") || extCalleeIs(x, "io", "", "ReadAll") {
						return
					}
					if b, ok := x.Call.Value.(*ssa.Builtin); ok && b.Name() == "append" {
						if k, ok := x.Call.Args[0].(*ssa.Const); ok && k.IsNil() {
							return
						}
					}
					bad = x.String() + " at " + r.P.Pos(x.Pos())
				case *ssa.MakeSlice:
				case *ssa.Parameter:
					if g != f {
						return // judged at the helper's call site below
					}
					bad = "parameter " + x.Name()
				default:
					bad = v.String() + " at " + r.P.Pos(v.Pos())
				}
			}
			walk(c.Common().Args[0])
			r.Check(bad == "", rule, o.next(fn(g)+"|bytes decoded from"), r.P.Pos(in.Pos()), "the decoder is handed bytes read out of the reader into memory of its own",
				"the node decoder is handed a view of the reader's memory ("+bad+"): the decoded node keeps sub-slices of it (prefix, path, keys), so reusing the buffer afterwards changes the node's hash inputs - a node verified on receipt is then stored under a key that is not its hash")
		})
	}
	if n < 1 {
		r.Anchor(rule, fmt.Errorf("unresolved anchor: no Decode call in CreateNode"))
	}
}

// pureQuery: the queries of a built Merkle tree are read-only.
func pureQuery(r *engine.Run, rule string) {
	n := 0
	for _, name := range []string{"GetPathByIndex", "GetPath", "GetLeafIndex", "VerifyPath", "GetRoot", "GetTree"} {
		f := r.Fn(rule, pkgUtil, "MerkleTree", name)
		if f == nil {
			continue
		}
		for _, g := range opGroup(r, f) {
			if g.Signature.Recv() == nil || len(g.Params) == 0 {
				continue
			}
			recv := g.Params[0]
			bad := ""
			engine.Instrs(g, func(in ssa.Instruction) {
				var addr ssa.Value
				switch x := in.(type) {
				case *ssa.Store:
					addr = x.Addr
				case *ssa.MapUpdate:
					addr = x.Map
				default:
					return
				}
				// does the address derive from the receiver (field, element of a field's slice/map)?
				v := addr
				for i := 0; i < 8; i++ {
					switch y := v.(type) {
					case *ssa.FieldAddr:
						v = y.X
					case *ssa.IndexAddr:
						v = y.X
					case *ssa.UnOp:
						v = y.X
					default:
						i = 8
					}
					if v == ssa.Value(recv) {
						bad = r.P.Pos(in.Pos())
						return
					}
				}
			})
			n++
			r.Check(bad == "", rule, fn(g)+"|read-only", r.P.Pos(g.Pos()), "stores nothing into the tree", "a query of the tree writes into the tree object ("+bad+"): queries run from many goroutines, and a cache entry published before it is complete is handed to the others half-built")
		}
	}
	if n < 5 {
		r.Anchor(rule, fmt.Errorf("unresolved anchor: %d query methods of MerkleTree", n))
	}
}

// refCallerLeaves: ComputeTree stores no alias of its argument slice.
func refCallerLeaves(r *engine.Run, rule string) {
	f := r.Fn(rule, pkgUtil, "MerkleTree", "ComputeTree")
	if f == nil || len(f.Params) < 2 {
		return
	}
	arg := f.Params[1]
	bad := ""
	engine.Instrs(f, func(in ssa.Instruction) {
		st, ok := in.(*ssa.Store)
		if !ok {
			return
		}
		v := st.Val
		if sl, ok := v.(*ssa.Slice); ok {
			v = sl.X
		}
		if v == ssa.Value(arg) {
			if _, isField := st.Addr.(*ssa.FieldAddr); isField {
				bad = r.P.Pos(st.Pos())
			}
		}
	})
	r.Check(bad == "", rule, fn(f)+"|argument not kept", r.P.Pos(f.Pos()), "no field is assigned the argument slice", "ComputeTree keeps the caller's leaf slice in the tree ("+bad+"): the tree's answers change with what the caller does to its slice afterwards (a lookup by leaf finds a moved leaf at its new position, whose path belongs to another leaf)")
}

// retPairMPT: the recursive insert/delete helpers of the state trie return the
// node that now stands at the position together with its key, and the caller
// decides by the KIND of that node how to rebuild itself (an extension above a
// leaf becomes a leaf, above a branch it keeps its kind and takes the key).
// Every success return therefore hands back a pair that belongs together: both
// results of one call of another helper, (nil, nil), or a node with its own
// GetHashBytes(). A node from one source with the key from another makes the
// parent rebuild itself around a node that is not the one stored under the key.
func retPairMPT(r *engine.Run, rule string) {
	n := 0
	insertNodeFn := r.Fn(rule, pkgUtil, "MerklePatriciaTrie", "insertNode")
	for _, f := range funcsOfPkg(r, pkgUtil) {
		if f.Parent() != nil || len(f.Blocks) == 0 || recvNamed(f) != "MerklePatriciaTrie" {
			continue
		}
		res := f.Signature.Results()
		if res.Len() != 3 || !isNamed(res.At(0).Type(), pkgUtil, "Node") || !isNamed(res.At(1).Type(), pkgUtil, "Key") || res.At(2).Type().String() != "error" {
			continue
		}
		o := ord{}
		for _, ret := range engine.Returns(f) {
			if len(ret.Results) != 3 {
				continue
			}
			nd, key, ev := resultValue(ret, 0), resultValue(ret, 1), resultValue(ret, 2)
			if ev == nil || !nilConst(ev) {
				// an error return, or the error of the very call that produced the pair
				if ex, ok := ev.(*ssa.Extract); !ok || ex.Index != 2 {
					continue
				}
			}
			n++
			good, why := false, ""
			exN, okN := nd.(*ssa.Extract)
			exK, okK := key.(*ssa.Extract)
			switch {
			case nilConst(nd) && nilConst(key):
				good, why = true, "nothing stands here any more"
			case okN && okK && exN.Tuple == exK.Tuple && exN.Index == 0 && exK.Index == 1:
				good, why = true, "both results of one helper call"
			default:
				// the node handed to insertNode with the key insertNode returned for it
				if okK && exK.Index == 1 {
					if c, ok := exK.Tuple.(*ssa.Call); ok && insertNodeFn != nil && c.Call.StaticCallee() == insertNodeFn && len(c.Call.Args) == 3 && through(c.Call.Args[2]) == through(nd) {
						good, why = true, "the node stored by insertNode with the key insertNode returned"
					}
				}
				// a node with its own hash
				if c, ok := stripCT(key).(*ssa.Call); ok {
					if recv, ok := engine.IsMethodCall(c, "GetHashBytes"); ok && (recv == nd || through(recv) == through(nd)) {
						good, why = true, "the node with its own hash"
					}
				}
			}
			r.Check(good, rule, o.next(fn(f)+"|return"), r.P.Pos(ret.Pos()), why,
				"a trie helper returns a node together with a key that does not come from the same source (node: "+nd.String()+", key: "+key.String()+"): the caller rebuilds itself by the kind of the returned node while linking the returned key, so the parent takes the wrong form for what is stored under that key - another shape, another root, for the same content")
		}
	}
	if n < 20 {
		r.Anchor(rule, fmt.Errorf("unresolved anchor: %d (node, key) returns in the trie helpers", n))
	}
}

// raceCaptured: a function literal that runs concurrently with its siblings - the
// argument of (*errgroup.Group).Go or the function of a go statement, started
// inside a loop - keeps its working variables to itself: it stores into no
// variable captured from the enclosing function. Captured variables are one
// memory cell shared by all the goroutines the loop starts: a result written
// there by one goroutine is read (and linked into the trie) by another.
// Stores THROUGH a captured pointer or into distinct elements are not meant.
func raceCaptured(r *engine.Run, rule string, rel string, minimum int) {
	n := 0
	for _, f := range funcsOfPkg(r, rel) {
		if len(f.Blocks) == 0 {
			continue
		}
		o := ord{}
		engine.Instrs(f, func(in ssa.Instruction) {
			var lit *ssa.MakeClosure
			switch x := in.(type) {
			case *ssa.Go:
				if mc, ok := x.Call.Value.(*ssa.MakeClosure); ok {
					lit = mc
				}
			case *ssa.Call:
				if extCalleeIs(x, "golang.org/x/sync/errgroup", "Group", "Go") && len(x.Call.Args) == 2 {
					if mc, ok := x.Call.Args[1].(*ssa.MakeClosure); ok {
						lit = mc
					}
				}
			}
			if lit == nil || !inCycle(in.Block()) {
				return
			}
			body, ok := lit.Fn.(*ssa.Function)
			if !ok {
				return
			}
			n++
			bad := ""
			engine.Instrs(body, func(in2 ssa.Instruction) {
				if st, ok := in2.(*ssa.Store); ok {
					if fv, ok := st.Addr.(*ssa.FreeVar); ok {
						bad = fv.Name() + " at " + r.P.Pos(st.Pos())
					}
				}
			})
			r.Check(bad == "", rule, o.next(fn(f)+"|goroutine body"), r.P.Pos(in.Pos()), "the concurrently running literal stores into no captured variable",
				"goroutines started in a loop share a variable of the enclosing function ("+bad+"): each stores its result there and reads it back, so one goroutine links the node another one produced (and the race detector fires)")
		})
	}
	if n < minimum {
		r.Anchor(rule, fmt.Errorf("unresolved anchor: %d goroutine literals started in loops in %s", n, rel))
	}
}

// snapshotOnce: a dump of the in-memory log is one snapshot: the ring is read
// under ONE hold of the core's read lock. A reader that takes the lock once per
// page (or per entry) inside a loop lets writes land between the holds; the
// ring's cursor moves, so positions counted from it shift: entries are dumped
// twice, the newest-first order breaks and the oldest retained entries are
// skipped.
//
// Rule: in core/logging no acquisition of MemCore.mu in read mode, and no call
// of a function that (transitively, within the package) makes one, sits inside a
// loop.
func snapshotOnce(r *engine.Run, rule string) {
	funcs := funcsOfPkg(r, pkgLog)
	takes := map[*ssa.Function]bool{}
	for _, f := range funcs {
		engine.Instrs(f, func(in ssa.Instruction) {
			if c, ok := in.(*ssa.Call); ok {
				if key, op, isLock := engine.LockOp(c); isLock && op == "RLock" && key == "MemCore.mu" {
					takes[f] = true
				}
			}
		})
	}
	for changed := true; changed; {
		changed = false
		for _, f := range funcs {
			if takes[f] {
				continue
			}
			engine.Instrs(f, func(in ssa.Instruction) {
				if c, ok := in.(*ssa.Call); ok {
					if g := c.Call.StaticCallee(); g != nil && takes[g] && !takes[f] {
						takes[f] = true
						changed = true
					}
				}
			})
		}
	}
	n := 0
	for _, f := range funcs {
		if len(f.Blocks) == 0 {
			continue
		}
		o := ord{}
		engine.Instrs(f, func(in ssa.Instruction) {
			c, ok := in.(*ssa.Call)
			if !ok {
				return
			}
			isTake := false
			if key, op, isLock := engine.LockOp(c); isLock && op == "RLock" && key == "MemCore.mu" {
				isTake = true
			}
			if g := c.Call.StaticCallee(); g != nil && takes[g] {
				isTake = true
			}
			if !isTake {
				return
			}
			n++
			r.Check(!inCycle(c.Block()), rule, o.next(fn(f)+"|read lock per dump"), r.P.Pos(c.Pos()), "the ring's read lock is taken once, outside any loop",
				"the ring is read under several holds of the read lock (the lock is taken inside a loop): writes land between the holds and move the cursor the positions are counted from - a dump repeats entries, breaks the newest-first order and skips the oldest retained entries")
		})
	}
	if n < 2 {
		r.Anchor(rule, fmt.Errorf("unresolved anchor: %d read-lock acquisitions of the ring in core/logging", n))
	}
}

// copyLock: a struct that holds a mutex (or counters updated through
// sync/atomic) lives behind a pointer. A method with a value receiver copies the
// whole struct on every call - the mutex word, the map headers, the counters -
// without any lock, while other goroutines lock, write and count: a data race in
// every call (and a copy of a locked mutex), although no answer changes.
func copyLock(r *engine.Run, rule string, rels ...string) {
	n := 0
	for _, rel := range rels {
		pk := r.P.SSAPkgs[engine.RepoMod+"/"+rel]
		if pk == nil {
			r.Anchor(rule, fmt.Errorf("unresolved anchor: package %s", rel))
			continue
		}
		var names []string
		for name, m := range pk.Members {
			if _, ok := m.(*ssa.Type); ok {
				names = append(names, name)
			}
		}
		sort.Strings(names)
		for _, name := range names {
			tn := pk.Members[name].(*ssa.Type)
			st, ok := tn.Type().Underlying().(*types.Struct)
			if !ok {
				continue
			}
			holds := false
			for i := 0; i < st.NumFields(); i++ {
				ts := st.Field(i).Type().String()
				if ts == "sync.Mutex" || ts == "sync.RWMutex" || ts == "sync.WaitGroup" || ts == "sync.Once" {
					holds = true
				}
			}
			if !holds {
				continue
			}
			n++
			named, _ := tn.Type().(*types.Named)
			bad := ""
			if named != nil {
				for i := 0; i < named.NumMethods(); i++ {
					m := named.Method(i)
					sig := m.Type().(*types.Signature)
					if sig.Recv() != nil {
						if _, isPtr := sig.Recv().Type().(*types.Pointer); !isPtr {
							bad = m.Name()
						}
					}
				}
			}
			r.Check(bad == "", rule, rel+"."+name+"|pointer receivers", r.P.Pos(tn.Pos()), "every method of the mutex-holding struct has a pointer receiver",
				"method "+bad+" of "+name+" has a value receiver: every call copies the whole struct - its mutex, map headers and counters - without a lock while other goroutines lock and write them (a data race in every call, and a copied mutex)")
		}
	}
	if n < 1 {
		r.Anchor(rule, fmt.Errorf("unresolved anchor: no mutex-holding struct in %v", rels))
	}
}

// rootMovedLast: in mergeChanges the parent's root moves only when nothing can
// fail any more: no error return is reachable after the root was installed. A
// merge that moves the root first and then fails while taking over the child's
// nodes reports the error with the root already at the child's root - and the
// retry finds "already at this root" and reports success with nothing stored.
func rootMovedLast(r *engine.Run, rule string) {
	f := r.Fn(rule, pkgUtil, "MerklePatriciaTrie", "mergeChanges")
	if f == nil {
		return
	}
	var installs []ssa.Instruction
	engine.Instrs(f, func(in ssa.Instruction) {
		switch x := in.(type) {
		case *ssa.Store:
			if fld := engine.FieldOf(x.Addr); fld != nil && fld.Name() == "root" {
				installs = append(installs, x)
			}
		case *ssa.Call:
			if sc := x.Call.StaticCallee(); sc != nil && sc.Name() == "setRoot" {
				installs = append(installs, x)
			}
		}
	})
	if len(installs) == 0 {
		return // DOM-adopt reports a merge that never installs the root
	}
	bad := ""
	for _, ret := range engine.Returns(f) {
		if ret.Block().Comment == "recover" || len(ret.Results) != 1 || nilConst(resultValue(ret, 0)) {
			continue
		}
		for _, in := range installs {
			if engine.ReachableAfter(in, ret) {
				bad = r.P.Pos(ret.Pos())
			}
		}
	}
	r.Check(bad == "", rule, fn(f)+"|root moved last", r.P.Pos(installs[0].Pos()), "no error return is reachable after the root was installed",
		"the merge can fail ("+bad+") after it has already moved the parent's root: the refused merge leaves the parent at the child's root without the child's nodes, and a retry returns nil at the 'same root' shortcut with nothing stored")
}

// loopRemove: removing the element at the loop index in place
// (s = append(s[:i], s[i+1:]...)) moves the next element into slot i. A loop that
// then increments i unconditionally never examines that element: of two adjacent
// elements that both qualify only the first is removed.
func loopRemove(r *engine.Run, rule string, rel string) {
	n := 0
	for _, f := range funcsOfPkg(r, rel) {
		if len(f.Blocks) == 0 {
			continue
		}
		o := ord{}
		engine.Instrs(f, func(in ssa.Instruction) {
			c, ok := in.(*ssa.Call)
			if !ok {
				return
			}
			b, ok := c.Call.Value.(*ssa.Builtin)
			if !ok || b.Name() != "append" || len(c.Call.Args) != 2 || !inCycle(c.Block()) {
				return
			}
			head, ok1 := c.Call.Args[0].(*ssa.Slice)
			tail, ok2 := c.Call.Args[1].(*ssa.Slice)
			if !ok1 || !ok2 || head.High == nil || tail.Low == nil || head.Low != nil {
				return
			}
			// tail.Low == head.High + 1
			inc, ok := tail.Low.(*ssa.BinOp)
			if !ok || inc.Op != token.ADD || inc.X != head.High {
				return
			}
			if k := constVal(inc.Y); k == nil || k.ExactString() != "1" {
				return
			}
			idx, ok := head.High.(*ssa.Phi)
			if !ok {
				return
			}
			n++
			// how the index continues: every in-loop edge of the index phi is idx+1 and idx is never decremented
			onlyInc := true
			for i, e := range idx.Edges {
				pred := idx.Block().Preds[i]
				if !inCycle(pred) || !idx.Block().Dominates(pred) {
					continue // entry edge
				}
				bo, ok := e.(*ssa.BinOp)
				if !ok || bo.Op != token.ADD || bo.X != ssa.Value(idx) {
					onlyInc = false
				}
			}
			r.Check(!onlyInc, rule, o.next(fn(f)+"|in-place removal"), r.P.Pos(c.Pos()), "after removing the element at the index the loop does not step past the element that moved into its place",
				"the element at the loop index is removed in place and the index is then incremented unconditionally: the element that moved into the slot is never examined - of two adjacent qualifying entries only the first is removed (a re-created node's value record stays scheduled for collection next to its cancelled extension record)")
		})
	}
	r.OK(rule, rel+"|in-place removals", "-", fmt.Sprintf("%d in-place removals inside loops", n))
}

// chainStart: a chain of changes A -> B -> C is one change whose Old is A: the
// Old of a chain is what the cancel-out compares the newest node with (a chain
// that ends where it started is no change), and what tells a replaced stored node
// from an intermediate one that was never stored. Where AddChange finds an
// earlier change under the old node's hash, the record it stores under the new
// hash keeps that change's Old: it is the found record itself, or a new record
// whose Old is loaded from it - never the immediate old node.
func chainStart(r *engine.Run, rule string) {
	f := r.Fn(rule, pkgUtil, "ChangeCollector", "AddChange")
	if f == nil {
		return
	}
	var prev ssa.Value
	var okBit ssa.Value
	engine.Instrs(f, func(in ssa.Instruction) {
		lk, ok := in.(*ssa.Lookup)
		if !ok || !lk.CommaOk {
			return
		}
		if fl := fieldLoadOf(lk.X); fl == nil || fl.Name() != "Changes" {
			return
		}
		for _, ref := range engine.Referrers(lk) {
			if ex, ok := ref.(*ssa.Extract); ok {
				if ex.Index == 0 {
					prev = ex
				} else {
					okBit = ex
				}
			}
		}
	})
	if prev == nil || okBit == nil {
		r.Anchor(rule, fmt.Errorf("unresolved anchor: lookup of the earlier change in %s", fn(f)))
		return
	}
	n := 0
	o := ord{}
	engine.Instrs(f, func(in ssa.Instruction) {
		mu, ok := in.(*ssa.MapUpdate)
		if !ok {
			return
		}
		if fl := fieldLoadOf(mu.Map); fl == nil || fl.Name() != "Changes" {
			return
		}
		inChain := false
		if facts, ok := engine.FactsOn(f, mu.Block()); ok {
			for _, ft := range facts {
				if ft.Kind == "bool" && ft.Truth && ft.A == okBit {
					inChain = true
				}
			}
		}
		if !inChain {
			return
		}
		n++
		good := mu.Value == prev
		if al, ok := mu.Value.(*ssa.Alloc); ok && !good {
			for _, ref := range engine.Referrers(al) {
				fa, ok := ref.(*ssa.FieldAddr)
				if !ok || engine.FieldOf(fa).Name() != "Old" {
					continue
				}
				for _, r2 := range engine.Referrers(fa) {
					if st, ok := r2.(*ssa.Store); ok && st.Addr == ssa.Value(fa) {
						if ld, ok := st.Val.(*ssa.UnOp); ok {
							if src, ok := ld.X.(*ssa.FieldAddr); ok && src.X == prev && engine.FieldOf(src).Name() == "Old" {
								good = true
							}
						}
					}
				}
			}
		}
		r.Check(good, rule, o.next(fn(f)+"|chain keeps its start"), r.P.Pos(mu.Pos()), "the record stored for a follow-up change keeps the Old of the change it continues",
			"a follow-up change is recorded with the immediate old node as its Old instead of the start of the chain: a node changed and changed back is no longer recognised as unchanged (the cancel-out compares with the wrong node), so a live stored node ends up replaced or on the dead list and the saved state loses it")
	})
	if n < 1 {
		r.Anchor(rule, fmt.Errorf("unresolved anchor: no store of a follow-up change in %s", fn(f)))
	}
}

// whoPrune: a node's version is the round that created it, not evidence that it
// is dead: what may be pruned is what a round's dead-node record names, and only
// the persistent store keeps such records. The stores that keep none
// (MemoryNodeDB, LevelNodeDB) therefore delete nothing in PruneBelowVersion: no
// function reachable from it removes a node (map delete, deleteNode/DeleteNode).
func whoPrune(r *engine.Run, rule string) {
	g := r.P.RepoCG()
	n := 0
	for _, T := range []string{"MemoryNodeDB", "LevelNodeDB"} {
		f := r.Fn(rule, pkgUtil, T, "PruneBelowVersion")
		if f == nil {
			continue
		}
		n++
		roots := append([]*ssa.Function{f}, f.AnonFuncs...)
		bad := ""
		for h := range g.Reach(roots...) {
			if h.Pkg == nil && h.Parent() == nil {
				continue
			}
			engine.Instrs(h, func(in ssa.Instruction) {
				c, ok := in.(ssa.CallInstruction)
				if !ok {
					return
				}
				if b, ok := c.Common().Value.(*ssa.Builtin); ok && b.Name() == "delete" {
					bad = r.P.Pos(in.Pos())
				}
				if c.Common().IsInvoke() && (c.Common().Method.Name() == "DeleteNode" || c.Common().Method.Name() == "MultiDeleteNode") {
					bad = r.P.Pos(in.Pos())
				}
			})
		}
		r.Check(bad == "", rule, fn(f)+"|deletes nothing", r.P.Pos(f.Pos()), "a store without dead-node records prunes nothing",
			"PruneBelowVersion of a store that keeps no dead-node records removes nodes ("+bad+"): it can only go by the node's version - the round that created it -, and a node created before the prune version is still reachable from every later root that did not change it")
	}
	if n < 2 {
		r.Anchor(rule, fmt.Errorf("unresolved anchor: PruneBelowVersion of the record-less stores"))
	}
}

// presenceByWeight: an entry of weight 0 is an entry (Update accepts it): it has
// a key, a value and a hash that its ancestors commit to. No decision of the
// weighted trie may therefore take "weight is 0" for "nothing there": a copy
// that skips zero-weight children keeps the original hash over fewer children,
// a rollback that treats a zero-weight root as empty installs the empty trie.
//
// Rule: among the comparisons of core/util/wmpt that involve a weight (a load of
// a weight field, a Weight() call), none compares it with the constant 0 -
// outside the block-owner search of the prover and verifier, where passing over
// a weightless subtree changes nothing.
func presenceByWeight(r *engine.Run, rule string) {
	n := 0
	// the search for the owner of a block may pass over weightless subtrees: a
	// block number is at least 1, so nothing of weight 0 owns one
	search := map[string]bool{"getBlockProof": true, "GetBlockProof": true, "verifyProof": true, "VerifyBlockProof": true}
	for _, f := range funcsOfPkg(r, pkgWMPT) {
		if len(f.Blocks) == 0 {
			continue
		}
		inSearch := search[engine.TopFunc(f).Name()]
		o := ord{}
		engine.Instrs(f, func(in ssa.Instruction) {
			b, ok := in.(*ssa.BinOp)
			if !ok {
				return
			}
			switch b.Op {
			case token.EQL, token.NEQ, token.LSS, token.LEQ, token.GTR, token.GEQ:
			default:
				return
			}
			isW := func(v ssa.Value) bool {
				if c, ok := v.(*ssa.Call); ok {
					if _, ok := engine.IsMethodCall(c, "Weight"); ok {
						return true
					}
				}
				if ld, ok := v.(*ssa.UnOp); ok && ld.Op == token.MUL {
					if fl := engine.FieldOf(ld.X); fl != nil && fl.Name() == "weight" {
						return true
					}
				}
				return false
			}
			if !isW(b.X) && !isW(b.Y) {
				return
			}
			n++
			if weightTest(b) && !inSearch {
				r.Fail(rule, o.next(fn(f)+"|weight compared with 0"), r.P.Pos(b.Pos()), "a weight is compared with 0 to decide whether something is there: entries of weight 0 are entries (their hashes are committed to by their ancestors), so what is skipped, dropped or taken for empty here is content - the copy, export or rollback no longer stands for the state it was taken from")
			}
		})
	}
	if n < 5 {
		r.Anchor(rule, fmt.Errorf("unresolved anchor: only %d weight comparisons in core/util/wmpt", n))
		return
	}
	r.OK(rule, "core/util/wmpt|weight comparisons", "-", fmt.Sprintf("%d comparisons involve a weight, none with the constant 0", n))
}

// domEmptied: removing the last key makes the empty node the root. The empty node
// is a shared value whose Dirty() is constantly false, so the Commit that follows
// takes its clean-root shortcut: it is not a commit at all - the collectors are
// not started and the list of created nodes still holds what the PREVIOUS commit
// wrote. A RollbackTrie to a copy taken before the removal then purges exactly
// the nodes of the state it goes back to.
//
// Rule: where Update/Delete install the empty node as the root after a removal,
// the installed root must report Dirty() (or the removal must be recorded for
// Commit in another way the rule knows: none so far).
func domEmptied(r *engine.Run, rule string) {
	n := 0
	for _, name := range []string{"Update", "Delete"} {
		f := wfn(r, rule, name)
		if f == nil {
			continue
		}
		var del *ssa.Call
		engine.Instrs(f, func(in ssa.Instruction) {
			if c, ok := in.(*ssa.Call); ok {
				if sc := c.Call.StaticCallee(); sc != nil && sc.Name() == "delete" && sc.Signature.Recv() != nil {
					del = c
				}
			}
		})
		if del == nil {
			continue
		}
		engine.Instrs(f, func(in ssa.Instruction) {
			st, ok := in.(*ssa.Store)
			if !ok || !engine.ReachableAfter(del, st) {
				return
			}
			if fld := engine.FieldOf(st.Addr); fld == nil || fld.Name() != "root" {
				return
			}
			v := through(st.Val)
			ld, ok := v.(*ssa.UnOp)
			if !ok {
				return
			}
			g, ok := ld.X.(*ssa.Global)
			if !ok || g.Name() != "emptyNode" {
				return
			}
			n++
			// Dirty() of the empty node's type
			dirtyConstFalse := false
			if d := r.Fn(rule, pkgWMPT, "nilNode", "Dirty"); d != nil {
				dirtyConstFalse = true
				for _, ret := range engine.Returns(d) {
					if k, ok := ret.Results[0].(*ssa.Const); !ok || k.Value == nil || constant.BoolVal(k.Value) {
						dirtyConstFalse = false
					}
				}
			}
			r.Check(!dirtyConstFalse, rule, fn(f)+"|emptied root is not dirty", r.P.Pos(st.Pos()), "the root installed after the last key was removed reports Dirty()",
				"after the last key is removed the root is the shared empty node, whose Dirty() is constantly false: the next Commit takes the clean-root shortcut, starts no collectors and leaves the created list of the previous commit in place - RollbackTrie to a copy taken before the removal purges the very nodes of the state it restores")
		})
	}
	if n < 1 {
		r.Anchor(rule, fmt.Errorf("unresolved anchor: no install of the empty node after a removal in Update/Delete"))
	}
}

// askStore: getNode answers "not found" only after it asked the store: an absent
// node may arrive later (a sync delivers it, a sibling's merge restores it), so a
// remembered miss makes the trie - and every child that reads the parent's
// content through it - blind to content that is there.
func askStore(r *engine.Run, rule string) {
	f := r.Fn(rule, pkgUtil, "MerklePatriciaTrie", "getNode")
	if f == nil {
		return
	}
	var ask ssa.Instruction
	engine.Instrs(f, func(in ssa.Instruction) {
		if c, ok := in.(ssa.CallInstruction); ok && invokeOnField(c, "db", "GetNode") {
			ask = in
		}
	})
	if ask == nil {
		r.Fail(rule, fn(f)+"|asks the store", r.P.Pos(f.Pos()), "getNode no longer asks the trie's store")
		return
	}
	bad := ""
	for _, ret := range engine.Returns(f) {
		if ret.Block().Comment == "recover" || len(ret.Results) != 2 {
			continue
		}
		ev := resultValue(ret, 1)
		if ev == nil || nilConst(ev) || engine.InstrDominates(ask, ret) {
			continue
		}
		bad = r.P.Pos(ret.Pos())
	}
	r.Check(bad == "", rule, fn(f)+"|asks the store", r.P.Pos(ask.Pos()), "an error is returned only after the store was asked",
		"getNode returns an error ("+bad+") without having asked the store (a remembered miss): a node that was absent once stays absent for this trie although the store has it now, so a child stops seeing its parent's content")
}

// pureAccessors: the read accessors of the change collector build their answer
// from the maps on every call and keep nothing: a kept listing has to be
// invalidated at every place that changes the maps, and the place that takes a
// re-created node back OUT of the delete set is easily missed - the merge then
// replays a delete of a live node.
func pureAccessors(r *engine.Run, rule string) {
	n := 0
	for _, name := range []string{"GetChanges", "GetDeletes", "GetStartRoot"} {
		f := r.Fn(rule, pkgUtil, "ChangeCollector", name)
		if f == nil {
			continue
		}
		n++
		recv := f.Params[0]
		bad := ""
		engine.Instrs(f, func(in ssa.Instruction) {
			st, ok := in.(*ssa.Store)
			if !ok {
				return
			}
			if fa, ok := st.Addr.(*ssa.FieldAddr); ok && fa.X == ssa.Value(recv) {
				bad = engine.FieldOf(fa).Name() + " at " + r.P.Pos(st.Pos())
			}
		})
		r.Check(bad == "", rule, fn(f)+"|keeps nothing", r.P.Pos(f.Pos()), "the accessor stores nothing into the collector",
			"a read accessor of the change collector keeps its answer in the collector (field "+bad+"): the kept listing must be dropped wherever the maps change, including where a re-created node is taken out of the delete set - a stale listing makes the merge delete a node the child re-created")
	}
	if n < 2 {
		r.Anchor(rule, fmt.Errorf("unresolved anchor: accessors of ChangeCollector"))
	}
}

// decoderRejections: DeserializeNode refuses a record for its SHAPE only: a
// length that does not fit the kind (len(...) compared), a missing part (nil
// test), an error of the codec. The trie's own arithmetic on weights is modulo
// 2^64 on both sides (insert, delete, Serialize), so a decoder that refuses
// values - a weight sum that wraps, say - rejects exports and stored records the
// library itself produced.
func decoderRejections(r *engine.Run, rule string) {
	f := r.Fn(rule, pkgWMPT, "", "DeserializeNode")
	if f == nil {
		return
	}
	n := 0
	for _, g := range opGroup(r, f) {
		o := ord{}
		for _, ret := range engine.Returns(g) {
			if len(ret.Results) == 0 {
				continue
			}
			ev := resultValue(ret, len(ret.Results)-1)
			if ev == nil || nilConst(ev) || ev.Type().String() != "error" {
				continue
			}
			c, ok := through(ev).(*ssa.Call)
			if !ok {
				continue
			}
			if sc := c.Call.StaticCallee(); sc == nil || sc.Pkg == nil || (sc.Pkg.Pkg.Path() != "errors" && sc.Pkg.Pkg.Path() != "fmt") {
				continue
			}
			n++
			bad := ""
			for _, cnd := range controllingConds(ret.Block()) {
				for {
					u, ok := cnd.(*ssa.UnOp)
					if !ok || u.Op != token.NOT {
						break
					}
					cnd = u.X
				}
				okShape := false
				if b, ok := cnd.(*ssa.BinOp); ok {
					if nilConst(b.X) || nilConst(b.Y) || hasLen(b.X, 0) || hasLen(b.Y, 0) {
						okShape = true
					}
				}
				if ex, ok := cnd.(*ssa.Extract); ok {
					if _, isTA := ex.Tuple.(*ssa.TypeAssert); isTA {
						okShape = true
					}
				}
				if !okShape {
					bad = cnd.String() + " at " + r.P.Pos(cnd.Pos())
				}
			}
			r.Check(bad == "", rule, o.next(fn(g)+"|rejection by shape"), r.P.Pos(ret.Pos()), "the record is refused for a length or a missing part",
				"the node decoder refuses a record on a condition over its VALUES ("+bad+"), not its shape: weights are kept modulo 2^64 by insert, delete and Serialize alike, so a record the library wrote itself (child weights summing past 2^64) is rejected - an export cannot be loaded and a collapsed source cannot reload its own branches")
		}
	}
	if n < 3 {
		r.Anchor(rule, fmt.Errorf("unresolved anchor: %d rejections in DeserializeNode", n))
	}
}

func hasLen(v ssa.Value, d int) bool {
	if d > 4 {
		return false
	}
	switch x := v.(type) {
	case *ssa.Call:
		if b, ok := x.Call.Value.(*ssa.Builtin); ok && b.Name() == "len" {
			return true
		}
	case *ssa.BinOp:
		return hasLen(x.X, d+1) || hasLen(x.Y, d+1)
	case *ssa.Convert:
		return hasLen(x.X, d+1)
	}
	return false
}
