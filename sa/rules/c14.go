package rules

import (
	"fmt"
	"go/ast"
	"go/constant"
	"go/token"
	"go/types"
	"sort"
	"strings"

	"golang.org/x/tools/go/ssa"

	"verif/sa/engine"
)

func init() {
	register(&Check{ID: "C14", Pkgs: []string{pkgUtil}, Run: runC14})
}

func runC14(r *engine.Run) {
	r.Rule("FRESH-pathbuf", "see C01: Insert copies the caller's path before it builds nodes from it: leaves and extensions keep sub-slices of the path, and a caller that reuses its key buffer would change stored and pending nodes behind their hashes")
	r.Rule("AGREE-snapshot", "see C03: MergeMPTChanges hands the merge the root, changes, deletes and start root of ONE GetChanges call on the child: a root read earlier than the change set installs a root whose nodes were never handed over - the saved root cannot be read back")
	r.Rule("WHO-collect", "see C04: a node merged from a donor store is stored under its own hash (GetHashBytes of the node), never under the key the donor filed it under")
	r.Rule("FRESH-decodebuf", "CreateNode hands the node decoders bytes of its own (the result of io/ioutil.ReadAll, a fresh slice), never a view of the reader's memory (bytes.Buffer.Next/Bytes): the decoders keep sub-slices of their input as the node's prefix, path and keys - the inputs of its hash -, and a caller's receive buffer is reused while the node lives")
	r.Rule("KEY-own-hash", "at every write site of a node store the key is the hash of the very node value written: insertNode (stamp, hash, put), UpdateChanges (keys[i] = GetHashBytes(nodes[i])), PNodeDB.PutNode/MultiPutNode (Encode() of the given node under the given key), MemoryNodeDB.putNode and LevelNodeDB.putNode (given key and node passed on unchanged)")
	r.Rule("COPY-value", "the stored value wrapper hands out and takes in copies: SecureSerializableValue.MarshalMsg returns a buffer that does not alias its own, UnmarshalMsg keeps a buffer that does not alias its argument (a reader or writer that reuses its slice must not change a node behind its hash)")
	r.Rule("AGREE-lockstep", "MergeState builds the key list and the node list in lock step: every block that appends to or resets one of them does the same to the other, so that keys[i] always belongs to nodes[i] when they are handed to MultiPutNode")
	r.Rule("AGREE-typecode", "GetSerializationPrefix (type -> code) and CreateNode (code -> constructor) are inverse on the four node types")
	r.Rule("AGREE-origin", "OriginTracker.Write and OriginTracker.Read use the same (byte order, field) sequence; writeNodePrefix and CreateNode agree on the header order (one code byte, then the origin tracker, then the body)")
	r.Rule("ORDER-KEY-save", "see C04: UpdateChanges writes each copy under GetHashBytes() of that very copy and applies no node mutator to the copies (origin, version, value and children are part of the hash)")
	r.Rule("AGREE-setters", "every parameter of the node constructors (NewLeafNode, NewFullNode, NewExtensionNode) and of the node setters (SetValue, PutChild, SetOrigin, SetVersion, SetOriginTracker) reaches a field or an array-field element of the node, directly or through the setters it calls; the origin tracker copy carries over both origin and version")
	r.Rule("AGREE-clonefields", "in the Clone/CloneNode methods of the node types (and of the origin tracker they embed), whenever a value read from field F of the source (directly or through a plain getter) is handed to a setter, constructor or helper, the parameter it is bound to is stored into field F of the copy - origin into origin, version into version (getter/setter/constructor summaries over static callees, two levels)")
	r.Rule("AGREE-fields", "for each node type the number of separators written by encode (with constant loop multiplicity) equals the number of separator scans in Decode, the fields are written and read in the same order, child keys are hex on both sides and the node key raw on both sides, and the only fields that may contain a separator byte (value bytes, raw node key) are written after the last separator")
	r.Rule("FRESH-bytes", "see C03: the byte slices handed out by the node accessors (MarshalMsg, Encode, GetHashBytes, GetValueBytes in core/util) are new buffers on every return: nil, make/conversion results, results of calls that produce new buffers, or appends to such; never a field, element, global or map entry. FRESH-node relies on this, and callers of GetNodeValueRaw own (and may overwrite) the slice they get")
	r.Rule("FRESH-node", "see C03: no trie operation edits in place a node object that the store or the node cache handed out: the memory store would then hold that object under the hash it had before the edit (an entry that is not addressed by its own hash)")
	r.Rule("AGREE-fieldset", "for LeafNode, FullNode and ExtensionNode: every field the private encode reads has a buffer write that depends on it (it is persisted and hashed); Decode assigns exactly those fields; CloneNode (the copy the memory store keeps) sets each of them and the origin tracker. Accessor methods (GetValue/SetValue, GetChild/PutChild, ...) count as uses of the field they stand for")
	r.Rule("AGREE-hash", "see C02: the node hash is RawHash(little-endian origin || the node's persisted fields) computed from the node's current content on every call (a memoised hash survives a change of origin)")
	r.Rule("DOM-size", "see C01: Insert stores a private snapshot of the marshalled value")
	r.Rule("CLONE-deep", "see C07: Clone() of every node type is a deep copy (the codec round trip), never a value that shares path/key/value memory with the receiver - FRESH-node treats Clone() results as fresh, and an in-place append onto a shallow copy writes into the store's object")
	r.Rule("DOM-cancel", "see C05: AddChange removes the new node's hash from the dead set on every path (a chain A -> B -> A that leaves A listed as deleted makes a save with deletes, or a merge into the parent, remove a node the saved root refers to: the trie read back no longer re-computes to its root)")
	r.Rule("WHO-limit", "see C17: the value size limit is applied to the inserted value only - a decoder that cuts a record at the same constant truncates nodes whose value is close to the limit: their hash and encoding change on the round trip")
	r.Rule("WHO-tombstones", "see C03: the layered store's lookups never consult its delete marks (a node of a saved version that a later version replaced is still stored under its hash below and must stay readable through the layered store)")
	r.Rule("CLONE-complete", "in the CloneNode of every node type every field of the struct is written on the copy (stored directly or element-wise, or written by a method called on the copy): the stores keep and hand out CloneNode copies, so a field the copy lacks is zero in every node that went through a store")
	r.NotDec = append(r.NotDec, "byte-exact round trip for every value (value-level)")
	orderStamp(r, "KEY-own-hash")
	keyOwnHash(r)
	agreeTypeCode(r)
	agreeOrigin(r)
	agreeFields(r)
	copyValue(r, "COPY-value")
	lockstep(r)
	freshNode(r, "C14")
	agreeFieldSet(r, "AGREE-fieldset")
	agreeCloneFields(r, "AGREE-clonefields")
	agreeSetters(r, "AGREE-setters")
	orderKeySave(r)
	agreeHash(r, "AGREE-hash")
	domSize(r)
	cloneDeep(r)
	domCancel(r)
	whoLimit(r, "WHO-limit")
	whoTombstones(r, "WHO-tombstones")
	cloneComplete(r, "CLONE-complete")
	freshDecodeBuf(r, "FRESH-decodebuf")
	agreeMergeSnapshot(r, "AGREE-snapshot")
	whoCollect(r)
	freshPathBuf(r, "FRESH-pathbuf")
}

func keyOwnHash(r *engine.Run) {
	const rule = "KEY-own-hash"
	// UpdateChanges / MultiPutNode pairs are decided by the C04 rules; repeat them here under this rule name
	sub := engine.NewRun("C14", r.Tier, r.P)
	orderKeySave(sub)
	whoBatch(sub)
	for _, o := range sub.Obs {
		if strings.Contains(o.Construct, "keys[i]=hash(nodes[i])") || strings.Contains(o.Construct, "key/value") || strings.Contains(o.Construct, "every change saved") {
			o.Rule = rule
			r.Obs = append(r.Obs, o)
		}
	}
	for f := range sub.Funcs {
		r.Funcs[f] = true
	}
	// PNodeDB.PutNode
	if f := r.Fn(rule, pkgUtil, "PNodeDB", "PutNode"); f != nil {
		n := 0
		engine.Instrs(f, func(in ssa.Instruction) {
			c, ok := in.(*ssa.Call)
			if !ok || !extCalleeIs(c, "linxGnu/grocksdb", "DB", "Put") {
				return
			}
			n++
			r.CallSites++
			okKey := stripCT(c.Call.Args[2]) == ssa.Value(f.Params[1])
			okVal := false
			if e, ok := c.Call.Args[3].(*ssa.Call); ok {
				if recv, ok := engine.IsMethodCall(e, "Encode"); ok {
					node := recv
					if cc, ok := recv.(*ssa.Call); ok {
						if r2, ok := engine.IsMethodCall(cc, "CloneNode"); ok {
							node = r2
						}
					}
					okVal = node == ssa.Value(f.Params[2])
				}
			}
			r.Check(okKey && okVal, rule, fn(f)+"|db.Put", r.P.Pos(c.Pos()), "Encode() of the given node under the given key", fmt.Sprintf("the persistent store does not write Encode() of the given node under the given key (key=%v value=%v)", okKey, okVal))
		})
		if n == 0 {
			r.Fail(rule, fn(f)+"|db.Put", r.P.Pos(f.Pos()), "PNodeDB.PutNode no longer writes the node")
		}
	}
	// LevelNodeDB.putNode passes key and node on unchanged
	if f := r.Fn(rule, pkgUtil, "LevelNodeDB", "putNode"); f != nil {
		good := false
		engine.Instrs(f, func(in ssa.Instruction) {
			c, ok := in.(*ssa.Call)
			if ok && c.Call.IsInvoke() && c.Call.Method.Name() == "PutNode" && c.Call.Args[0] == ssa.Value(f.Params[1]) && c.Call.Args[1] == ssa.Value(f.Params[2]) {
				good = true
			}
		})
		r.Check(good, rule, fn(f)+"|pass-through", r.P.Pos(f.Pos()), "key and node passed on unchanged", "the layered store does not pass the given key and node on unchanged")
	}
	if f := r.Fn(rule, pkgUtil, "MemoryNodeDB", "putNode"); f != nil {
		good := false
		engine.Instrs(f, func(in ssa.Instruction) {
			if mu, ok := in.(*ssa.MapUpdate); ok {
				if cv, ok := mu.Key.(*ssa.Convert); ok && cv.X == ssa.Value(f.Params[1]) {
					good = true
				}
			}
		})
		r.Check(good, rule, fn(f)+"|key", r.P.Pos(f.Pos()), "stored under the given key", "the memory store files the node under another key")
	}
	r.Min(rule, 5)
}

func findFuncDecl(r *engine.Run, rel, recv, name string) (*ast.FuncDecl, *types.Info) {
	pk, err := r.P.Pkg(rel)
	if err != nil {
		return nil, nil
	}
	for _, file := range pk.Syntax {
		for _, d := range file.Decls {
			fd, ok := d.(*ast.FuncDecl)
			if !ok || fd.Name.Name != name || fd.Body == nil {
				continue
			}
			if recv == "" && fd.Recv == nil {
				return fd, pk.TypesInfo
			}
			if recv != "" && fd.Recv != nil && len(fd.Recv.List) == 1 {
				t := pk.TypesInfo.TypeOf(fd.Recv.List[0].Type)
				if n := namedOf(t); n != nil && n.Obj().Name() == recv {
					return fd, pk.TypesInfo
				}
			}
		}
	}
	return nil, nil
}

func agreeTypeCode(r *engine.Run) {
	const rule = "AGREE-typecode"
	w, wi := findFuncDecl(r, pkgUtil, "", "GetSerializationPrefix")
	c, ci := findFuncDecl(r, pkgUtil, "", "CreateNode")
	if w == nil || c == nil {
		r.Anchor(rule, fmt.Errorf("unresolved anchor: GetSerializationPrefix / CreateNode"))
		return
	}
	if f := r.Fn(rule, pkgUtil, "", "GetSerializationPrefix"); f != nil {
		r.Touch(f)
	}
	if f := r.Fn(rule, pkgUtil, "", "CreateNode"); f != nil {
		r.Touch(f)
	}
	type2code := map[string]string{}
	ast.Inspect(w.Body, func(n ast.Node) bool {
		ts, ok := n.(*ast.TypeSwitchStmt)
		if !ok {
			return true
		}
		for _, cl := range ts.Body.List {
			cc := cl.(*ast.CaseClause)
			for _, te := range cc.List {
				tn := namedOf(wi.TypeOf(te))
				if tn == nil {
					continue
				}
				for _, st := range cc.Body {
					if ret, ok := st.(*ast.ReturnStmt); ok && len(ret.Results) == 1 {
						if tv, ok := wi.Types[ret.Results[0]]; ok && tv.Value != nil {
							type2code[tn.Obj().Name()] = tv.Value.ExactString()
						}
					}
				}
			}
		}
		return false
	})
	code2type := map[string]string{}
	scan := func(body *ast.BlockStmt) {
		ast.Inspect(body, func(n ast.Node) bool {
			sw, ok := n.(*ast.SwitchStmt)
			if !ok || sw.Tag == nil {
				return true
			}
			for _, cl := range sw.Body.List {
				cc := cl.(*ast.CaseClause)
				for _, ce := range cc.List {
					tv, ok := ci.Types[ce]
					if !ok || tv.Value == nil {
						continue
					}
					for _, st := range cc.Body {
						var e ast.Expr
						switch x := st.(type) {
						case *ast.AssignStmt:
							if len(x.Rhs) == 1 {
								e = x.Rhs[0]
							}
						case *ast.ReturnStmt:
							if len(x.Results) >= 1 {
								e = x.Results[0]
							}
						}
						if e == nil {
							continue
						}
						if tn := namedOf(ci.TypeOf(e)); tn != nil {
							code2type[tv.Value.ExactString()] = tn.Obj().Name()
						}
					}
				}
			}
			return false
		})
	}
	scan(c.Body)
	if len(code2type) == 0 {
		// the dispatch moved into a helper of the same package that CreateNode calls
		ast.Inspect(c.Body, func(n ast.Node) bool {
			call, ok := n.(*ast.CallExpr)
			if !ok {
				return true
			}
			id, ok := call.Fun.(*ast.Ident)
			if !ok {
				return true
			}
			fo, ok := ci.Uses[id].(*types.Func)
			if !ok || fo.Pkg() == nil || !strings.HasSuffix(fo.Pkg().Path(), pkgUtil) {
				return true
			}
			if h, _ := findFuncDecl(r, pkgUtil, "", fo.Name()); h != nil && h.Body != nil && len(code2type) == 0 {
				scan(h.Body)
			}
			return true
		})
	}
	var names []string
	for k := range type2code {
		names = append(names, k)
	}
	sort.Strings(names)
	if len(names) < 4 {
		r.Fail(rule, "GetSerializationPrefix|table", r.P.Pos(w.Pos()), fmt.Sprintf("writer maps %d node types to codes; 4 confirmed by reading (ValueNode, LeafNode, FullNode, ExtensionNode)", len(names)))
	}
	seen := map[string]string{}
	for _, t := range names {
		code := type2code[t]
		back := code2type[code]
		good := back == t
		if prev, dup := seen[code]; dup {
			good = false
			back = "code shared with " + prev
		}
		seen[code] = t
		r.Check(good, rule, "typecode|"+t, r.P.Pos(w.Pos()), fmt.Sprintf("%s -> %s -> %s", t, code, back), fmt.Sprintf("type code table is not inverse: %s is written as code %s, which CreateNode decodes as %q", t, code, back))
	}
	// the decoder masks with the union of all codes
	r.Min(rule, 4)
}

func agreeOrigin(r *engine.Run) {
	const rule = "AGREE-origin"
	seq := func(f *ssa.Function, callee string) []string {
		var out []string
		engine.Instrs(f, func(in ssa.Instruction) {
			c, ok := in.(*ssa.Call)
			if !ok || !extCalleeIs(c, "encoding/binary", "", callee) {
				return
			}
			order, field := "?", "?"
			if ld, ok := through(c.Call.Args[1]).(*ssa.UnOp); ok {
				if g, ok := ld.X.(*ssa.Global); ok {
					order = g.Name()
				}
			}
			data := through(c.Call.Args[2])
			if fld := fieldLoadOf(data); fld != nil {
				field = fld.Name()
			}
			out = append(out, order+":"+field)
		})
		return out
	}
	w := r.Fn(rule, pkgUtil, "OriginTracker", "Write")
	rd := r.Fn(rule, pkgUtil, "OriginTracker", "Read")
	if w != nil && rd != nil {
		ws, rs := seq(w, "Write"), seq(rd, "Read")
		good := len(ws) == 2 && strings.Join(ws, ",") == strings.Join(rs, ",") && !strings.Contains(strings.Join(ws, ","), "?")
		r.Check(good, rule, "OriginTracker.Write/Read", r.P.Pos(w.Pos()), "both sides: "+strings.Join(ws, ", "), fmt.Sprintf("origin tracker is written as [%s] and read as [%s]", strings.Join(ws, ", "), strings.Join(rs, ", ")))
	}
	// header order
	if f := r.Fn(rule, pkgUtil, "", "writeNodePrefix"); f != nil {
		var first, second ssa.Instruction
		engine.Instrs(f, func(in ssa.Instruction) {
			c, ok := in.(*ssa.Call)
			if !ok || !c.Call.IsInvoke() || c.Call.Method.Name() != "Write" {
				return
			}
			if c.Call.Value == ssa.Value(f.Params[0]) {
				// one byte: slice of [1]byte holding GetSerializationPrefix(node)
				first = in
			} else {
				second = in
			}
		})
		good := first != nil && second != nil && engine.InstrDominates(first, second)
		oneByte := false
		if first != nil {
			if sl, ok := first.(*ssa.Call).Call.Args[0].(*ssa.Slice); ok {
				if al, ok := sl.X.(*ssa.Alloc); ok {
					if arr, ok := al.Type().Underlying().(*types.Pointer).Elem().Underlying().(*types.Array); ok && arr.Len() == 1 {
						oneByte = true
					}
				}
			}
		}
		r.Check(good && oneByte, rule, fn(f)+"|header", r.P.Pos(f.Pos()), "one code byte, then the origin tracker", "the node header is not written as one code byte followed by the origin tracker")
	}
	if f := r.Fn(rule, pkgUtil, "", "CreateNode"); f != nil {
		var rd1, ot, all ssa.Instruction
		engine.Instrs(f, func(in ssa.Instruction) {
			c, ok := in.(*ssa.Call)
			if !ok {
				return
			}
			switch {
			case c.Call.IsInvoke() && c.Call.Method.Name() == "Read" && c.Call.Value == ssa.Value(f.Params[0]):
				rd1 = in
			case staticCalleeIs(c, pkgUtil, "OriginTracker", "Read"):
				ot = in
			case extCalleeIs(c, "io/ioutil", "", "ReadAll") || extCalleeIs(c, "io", "", "ReadAll"):
				all = in
			}
		})
		good := rd1 != nil && ot != nil && all != nil && engine.InstrDominates(rd1, ot) && engine.InstrDominates(ot, all)
		r.Check(good, rule, fn(f)+"|header", r.P.Pos(f.Pos()), "reads one code byte, then the origin tracker, then the body", "CreateNode does not consume the header in the order it is written")
	}
}

// ---- AGREE-fields (syntax based) ---------------------------------------------

type fieldEvent struct {
	field string
	seps  int // for "sep" events: multiplicity
	pos   token.Pos
}

// loopMultiplicity returns the constant trip count of `for i := c0; i < N; i++`
// or -1.
func loopMultiplicity(fs *ast.ForStmt, info *types.Info) int64 {
	be, ok := fs.Cond.(*ast.BinaryExpr)
	if !ok || be.Op != token.LSS {
		return -1
	}
	tv, ok := info.Types[be.Y]
	if !ok || tv.Value == nil {
		return -1
	}
	n, exact := constant.Int64Val(constant.ToInt(tv.Value))
	if !exact {
		return -1
	}
	if as, ok := fs.Init.(*ast.AssignStmt); ok && len(as.Rhs) == 1 {
		if iv, ok := info.Types[as.Rhs[0]]; ok && iv.Value != nil {
			if s, ok := constant.Int64Val(constant.ToInt(iv.Value)); ok {
				return n - s
			}
		}
	}
	return -1
}

func canonField(name string) string {
	switch name {
	case "GetChild", "PutChild", "Children":
		return "Children"
	case "GetValue", "SetValue", "HasValue", "Value", "GetValueBytes":
		return "Value"
	case "Prefix", "Path", "NodeKey":
		return name
	}
	return ""
}

// fieldEvents walks a function body in source order and records separator
// writes/scans (with loop multiplicity) and touches of the receiver's fields.
func fieldEvents(fd *ast.FuncDecl, info *types.Info, sepCall string) (events []fieldEvent, undecided string) {
	recv := ""
	if fd.Recv != nil && len(fd.Recv.List) == 1 && len(fd.Recv.List[0].Names) == 1 {
		recv = fd.Recv.List[0].Names[0].Name
	}
	var walk func(n ast.Node, mult int64)
	walk = func(n ast.Node, mult int64) {
		ast.Inspect(n, func(x ast.Node) bool {
			switch v := x.(type) {
			case *ast.ForStmt:
				m := loopMultiplicity(v, info)
				if m < 0 {
					undecided = "loop without a constant trip count"
					m = 1
				}
				if v.Init != nil {
					walk(v.Init, mult)
				}
				walk(v.Body, mult*m)
				return false
			case *ast.RangeStmt:
				// a range over a fixed-size array has a constant trip count
				m := int64(-1)
				if tv, ok := info.Types[v.X]; ok && tv.Type != nil {
					t := tv.Type.Underlying()
					if p, ok := t.(*types.Pointer); ok {
						t = p.Elem().Underlying()
					}
					if a, ok := t.(*types.Array); ok {
						m = a.Len()
					}
				}
				if m < 0 {
					undecided = "range loop without a constant trip count in a codec function"
					return true
				}
				walk(v.X, mult)
				walk(v.Body, mult*m)
				return false
			case *ast.CallExpr:
				if se, ok := v.Fun.(*ast.SelectorExpr); ok {
					if id, ok := se.X.(*ast.Ident); ok && id.Name == "bytes" && sepCall == "IndexByte" {
						switch se.Sel.Name {
						case "SplitN":
							if len(v.Args) == 3 {
								if tv, ok := info.Types[v.Args[2]]; ok && tv.Value != nil {
									if k, exact := constant.Int64Val(constant.ToInt(tv.Value)); exact && k >= 1 {
										events = append(events, fieldEvent{field: "sep", seps: int(mult * (k - 1)), pos: v.Pos()})
									}
								} else {
									undecided = "bytes.SplitN with a non-constant count"
								}
							}
						case "Split":
							events = append(events, fieldEvent{field: "splitall", pos: v.Pos()})
						}
					}
					if se.Sel.Name == sepCall {
						// WriteByte(Separator) / IndexByte(buf, Separator)
						for _, a := range v.Args {
							if id, ok := a.(*ast.Ident); ok && id.Name == "Separator" {
								events = append(events, fieldEvent{field: "sep", seps: int(mult), pos: v.Pos()})
							}
						}
					}
					if id, ok := se.X.(*ast.Ident); ok && id.Name == recv {
						if f := canonField(se.Sel.Name); f != "" {
							events = append(events, fieldEvent{field: f, pos: v.Pos()})
						}
					}
				}
			case *ast.SelectorExpr:
				if id, ok := v.X.(*ast.Ident); ok && id.Name == recv {
					if f := canonField(v.Sel.Name); f != "" {
						events = append(events, fieldEvent{field: f, pos: v.Pos()})
					}
				}
			}
			return true
		})
	}
	walk(fd.Body, 1)
	sort.SliceStable(events, func(i, j int) bool { return events[i].pos < events[j].pos })
	return
}

func fieldOrder(ev []fieldEvent) (order []string, seps int) {
	for _, e := range ev {
		if e.field == "sep" {
			seps += e.seps
			continue
		}
		if e.field == "splitall" {
			continue
		}
		if len(order) == 0 || order[len(order)-1] != e.field {
			dup := false
			for _, o := range order {
				if o == e.field {
					dup = true
				}
			}
			if !dup {
				order = append(order, e.field)
			}
		}
	}
	return
}

func agreeFields(r *engine.Run) {
	const rule = "AGREE-fields"
	for _, T := range trieNodeTypes {
		enc, ei := findFuncDecl(r, pkgUtil, T, "encode")
		dec, di := findFuncDecl(r, pkgUtil, T, "Decode")
		if enc == nil || dec == nil {
			r.Anchor(rule, fmt.Errorf("unresolved anchor: %s.encode / Decode", T))
			continue
		}
		if f := r.Fn(rule, pkgUtil, T, "encode"); f != nil {
			r.Touch(f)
		}
		if f := r.Fn(rule, pkgUtil, T, "Decode"); f != nil {
			r.Touch(f)
		}
		ee, u1 := fieldEvents(enc, ei, "WriteByte")
		de, u2 := fieldEvents(dec, di, "IndexByte")
		if u1 != "" || u2 != "" {
			r.Undec(rule, T+"|separators", r.P.Pos(enc.Pos()), "codec shape outside the recognised forms: "+u1+u2)
			continue
		}
		splitAll := false
		for _, e := range de {
			if e.field == "splitall" {
				splitAll = true
			}
		}
		if splitAll {
			r.Fail(rule, T+"|unbounded field last", r.P.Pos(dec.Pos()), "Decode splits its input at every separator (bytes.Split): the last field (value bytes / raw key) may itself contain the separator byte and is cut at its first occurrence")
			continue
		}
		eo, es := fieldOrder(ee)
		do, ds := fieldOrder(de)
		r.Check(es == ds && es > 0, rule, T+"|separators", r.P.Pos(enc.Pos()), fmt.Sprintf("%d separators written, %d scanned", es, ds),
			fmt.Sprintf("encode writes %d separators but Decode scans for %d: fields shift or decoding fails on valid nodes", es, ds))
		r.Check(strings.Join(eo, ",") == strings.Join(do, ","), rule, T+"|field order", r.P.Pos(enc.Pos()), "fields written and read as "+strings.Join(eo, ", "),
			fmt.Sprintf("encode writes fields [%s] but Decode reads [%s]", strings.Join(eo, ", "), strings.Join(do, ", ")))
		// separator-unsafe fields (Value, NodeKey) only after the last separator
		lastSep := token.NoPos
		for _, e := range ee {
			if e.field == "sep" {
				lastSep = e.pos
			}
		}
		good := true
		bad := ""
		for _, e := range ee {
			if (e.field == "Value" || e.field == "NodeKey") && e.pos < lastSep {
				good, bad = false, e.field
			}
		}
		r.Check(good, rule, T+"|unbounded field last", r.P.Pos(enc.Pos()), "fields that may contain ':' are written after the last separator", "field "+bad+" (arbitrary bytes) is written before a separator: a value containing ':' is split on decode")
	}
	// hex on both sides for child keys, raw on both sides for the node key
	usesCall := func(rel, recv, name, callee string) bool {
		fd, _ := findFuncDecl(r, rel, recv, name)
		found := false
		if fd != nil {
			ast.Inspect(fd.Body, func(n ast.Node) bool {
				if ce, ok := n.(*ast.CallExpr); ok {
					switch f := ce.Fun.(type) {
					case *ast.Ident:
						if f.Name == callee {
							found = true
						}
					case *ast.SelectorExpr:
						if f.Sel.Name == callee {
							found = true
						}
					}
				}
				return true
			})
		}
		return found
	}
	encHex := usesCall(pkgUtil, "FullNode", "encode", "ToHex") || usesCall(pkgUtil, "FullNode", "encode", "EncodeToString")
	decHex := usesCall(pkgUtil, "FullNode", "Decode", "Decode") || usesCall(pkgUtil, "FullNode", "Decode", "DecodeString") || usesCall(pkgUtil, "FullNode", "Decode", "fromHex")
	r.Check(encHex == decHex && encHex, rule, "FullNode|child keys hex", "core/util/mpt_node.go:0", "child keys hex-encoded by encode and hex-decoded by Decode", fmt.Sprintf("child keys: hex on encode=%v, hex on decode=%v", encHex, decHex))
	eHex := usesCall(pkgUtil, "ExtensionNode", "encode", "ToHex")
	dHex := usesCall(pkgUtil, "ExtensionNode", "Decode", "DecodeString") || usesCall(pkgUtil, "ExtensionNode", "Decode", "fromHex")
	r.Check(eHex == dHex, rule, "ExtensionNode|node key raw", "core/util/mpt_node.go:0", "node key raw on both sides", fmt.Sprintf("extension node key: hex on encode=%v, hex on decode=%v", eHex, dHex))
	r.Min(rule, 9)
}

// ---- COPY-value -----------------------------------------------------------------

func copyValue(r *engine.Run, rule string) {
	m := r.Fn(rule, pkgUtil, "SecureSerializableValue", "MarshalMsg")
	u := r.Fn(rule, pkgUtil, "SecureSerializableValue", "UnmarshalMsg")
	spec := engine.FlowSpec{
		Irrelevant: engine.NoRefs,
		Param:      func(p *ssa.Parameter, i int) engine.Label { return engine.ParamLabel(i) },
		Call: func(c ssa.CallInstruction, arg func(ssa.Value) engine.Label) (engine.Label, bool) {
			if b, ok := c.Common().Value.(*ssa.Builtin); ok {
				switch b.Name() {
				case "append":
					return arg(c.Common().Args[0]), true
				case "copy", "len", "cap":
					return 0, true
				}
			}
			return 0, false
		},
	}
	if m != nil {
		fl := engine.RunFlow(m, spec)
		good := true
		for _, ret := range engine.Returns(m) {
			if len(ret.Results) > 0 && fl.Of(ret.Results[0])&engine.ParamLabel(0) != 0 {
				good = false
			}
		}
		r.Check(good, rule, fn(m), r.P.Pos(m.Pos()), "returns a buffer that does not alias the stored one", "MarshalMsg returns the value's own buffer: a reader that modifies the bytes it got from a lookup changes the stored node behind its hash")
	}
	if u != nil {
		fl := engine.RunFlow(u, spec)
		good := true
		n := 0
		engine.Instrs(u, func(in ssa.Instruction) {
			if st, ok := in.(*ssa.Store); ok {
				if fld := engine.FieldOf(st.Addr); fld != nil && fld.Name() == "Buffer" {
					n++
					if fl.Of(st.Val)&engine.ParamLabel(1) != 0 {
						good = false
					}
				}
			}
		})
		r.Check(good && n > 0, rule, fn(u), r.P.Pos(u.Pos()), "keeps a buffer that does not alias its argument", "UnmarshalMsg keeps the caller's slice: a writer that reuses its buffer changes the stored node behind its hash")
	}
	// Insert wraps the marshalled bytes, not the caller's value object
	if ins := r.Fn(rule, pkgUtil, "MerklePatriciaTrie", "Insert"); ins != nil {
		good := false
		isMarshalled := func(v ssa.Value) bool {
			if ex, ok := v.(*ssa.Extract); ok {
				if c, ok := ex.Tuple.(*ssa.Call); ok {
					if _, ok := engine.IsMethodCall(c, "MarshalMsg"); ok {
						return true
					}
				}
			}
			return false
		}
		group := opGroup(r, ins)
		for _, g := range group {
			engine.Instrs(g, func(in ssa.Instruction) {
				st, ok := in.(*ssa.Store)
				if !ok {
					return
				}
				fld := engine.FieldOf(st.Addr)
				if fld == nil || fld.Name() != "Buffer" {
					return
				}
				if isMarshalled(st.Val) {
					good = true
					return
				}
				// the wrapping moved into a helper of Insert: the stored bytes are the helper's
				// parameter, and every call of the helper hands it the marshalled bytes
				if p, ok := st.Val.(*ssa.Parameter); ok && g != ins {
					idx := -1
					for i, q := range g.Params {
						if q == p {
							idx = i
						}
					}
					all, any := true, false
					for _, e := range r.P.RepoCG().In[g] {
						if c, ok := e.Site.(ssa.CallInstruction); ok && idx >= 0 && idx < len(c.Common().Args) {
							any = true
							if !isMarshalled(c.Common().Args[idx]) {
								all = false
							}
						}
					}
					if all && any {
						good = true
					}
				}
			})
		}
		r.Check(good, rule, fn(ins)+"|stored value", r.P.Pos(ins.Pos()), "the trie stores the bytes MarshalMsg produced", "Insert does not wrap the freshly marshalled bytes of the value")
	}
}

// ---- AGREE-lockstep --------------------------------------------------------------

func lockstep(r *engine.Run) {
	const rule = "AGREE-lockstep"
	f := r.Fn(rule, pkgUtil, "", "MergeState")
	if f == nil {
		return
	}
	var mp *ssa.Call
	all := append([]*ssa.Function{f}, f.AnonFuncs...)
	for _, g := range all {
		engine.Instrs(g, func(in ssa.Instruction) {
			if c, ok := in.(*ssa.Call); ok && c.Call.IsInvoke() && c.Call.Method.Name() == "MultiPutNode" {
				mp = c
			}
		})
	}
	if mp == nil {
		r.Fail(rule, fn(f)+"|MultiPutNode", r.P.Pos(f.Pos()), "MergeState no longer writes through MultiPutNode")
		return
	}
	cellOf := func(v ssa.Value) ssa.Value {
		if ld, ok := v.(*ssa.UnOp); ok {
			return ld.X
		}
		return v
	}
	kc, nc := cellOf(mp.Call.Args[0]), cellOf(mp.Call.Args[1])
	// blocks that store to each cell (in the function and its closures; captured cells are free variables there)
	writes := func(cell ssa.Value) map[string]bool {
		out := map[string]bool{}
		name := ""
		if al, ok := cell.(*ssa.Alloc); ok {
			name = al.Comment
		}
		if fv, ok := cell.(*ssa.FreeVar); ok {
			name = fv.Name()
		}
		for _, g := range all {
			engine.Instrs(g, func(in ssa.Instruction) {
				st, ok := in.(*ssa.Store)
				if !ok {
					return
				}
				match := st.Addr == cell
				if fv, ok := st.Addr.(*ssa.FreeVar); ok && fv.Name() == name {
					match = true
				}
				if al, ok := st.Addr.(*ssa.Alloc); ok && al.Comment == name && name != "" {
					match = true
				}
				if match {
					out[fmt.Sprintf("%s#%d", fn(g), st.Block().Index)] = true
				}
			})
		}
		return out
	}
	kw, nw := writes(kc), writes(nc)
	same := len(kw) == len(nw) && len(kw) > 0
	for b := range kw {
		if !nw[b] {
			same = false
		}
	}
	r.Check(same, rule, fn(f)+"|keys/nodes", r.P.Pos(mp.Pos()), fmt.Sprintf("both lists are written in the same %d block(s)", len(kw)),
		fmt.Sprintf("the key list is written in %d block(s) but the node list in %d: after a partial flush or reset keys[i] no longer belongs to nodes[i], so nodes are stored under foreign hashes", len(kw), len(nw)))
}

// ---- AGREE-fieldset: the fields a node persists are the fields it restores -------

// accessor methods that stand for a field of the node
var nodeFieldOfMethod = map[string]string{
	"HasValue": "Value", "GetValue": "Value", "GetValueBytes": "Value", "SetValue": "Value",
	"GetChild": "Children", "PutChild": "Children", "GetNumChildren": "Children",
	"SetOrigin": "OriginTrackerNode", "SetVersion": "OriginTrackerNode", "SetOriginTracker": "OriginTrackerNode",
	"GetOrigin": "OriginTrackerNode", "GetVersion": "OriginTrackerNode",
}

// fieldUses: the fields of obj (a pointer to a node struct) that f reads /
// writes, directly or through the accessor methods above.
func fieldUses(f *ssa.Function, obj ssa.Value) (reads, writes map[string][]ssa.Value) {
	reads, writes = map[string][]ssa.Value{}, map[string][]ssa.Value{}
	isObj := func(v ssa.Value) bool { return v == obj }
	engine.Instrs(f, func(in ssa.Instruction) {
		switch x := in.(type) {
		case *ssa.UnOp:
			if x.Op != token.MUL {
				return
			}
			a := x.X
			if ia, ok := a.(*ssa.IndexAddr); ok {
				a = ia.X
			}
			if fa, ok := a.(*ssa.FieldAddr); ok && isObj(fa.X) {
				nm := engine.FieldOf(fa).Name()
				reads[nm] = append(reads[nm], x)
			}
		case *ssa.Store:
			a := x.Addr
			if ia, ok := a.(*ssa.IndexAddr); ok {
				a = ia.X
			}
			if fa, ok := a.(*ssa.FieldAddr); ok && isObj(fa.X) {
				nm := engine.FieldOf(fa).Name()
				writes[nm] = append(writes[nm], x.Val)
			}
		case *ssa.Call:
			recv, okm := ssa.Value(nil), false
			name := ""
			if x.Call.IsInvoke() {
				recv, name, okm = x.Call.Value, x.Call.Method.Name(), true
			} else if sc := x.Call.StaticCallee(); sc != nil && sc.Signature.Recv() != nil && len(x.Call.Args) > 0 {
				recv, name, okm = x.Call.Args[0], sc.Name(), true
			}
			if !okm || !isObj(recv) {
				// copy(obj.F[i], ...) / range over field handled through loads
				if b, ok := x.Call.Value.(*ssa.Builtin); ok && b.Name() == "copy" {
					if ld, ok := x.Call.Args[0].(*ssa.UnOp); ok {
						a := ld.X
						if ia, ok := a.(*ssa.IndexAddr); ok {
							a = ia.X
						}
						if fa, ok := a.(*ssa.FieldAddr); ok && isObj(fa.X) {
							nm := engine.FieldOf(fa).Name()
							writes[nm] = append(writes[nm], x.Call.Args[1])
						}
					}
				}
				return
			}
			fld, known := nodeFieldOfMethod[name]
			if !known {
				return
			}
			if strings.HasPrefix(name, "Set") || strings.HasPrefix(name, "Put") {
				var v ssa.Value = x
				if len(x.Call.Args) > 0 {
					v = x.Call.Args[len(x.Call.Args)-1]
				}
				writes[fld] = append(writes[fld], v)
			} else {
				reads[fld] = append(reads[fld], x)
			}
		}
	})
	return
}

func agreeFieldSet(r *engine.Run, rule string) {
	n := 0
	for _, T := range []string{"LeafNode", "FullNode", "ExtensionNode", "ValueNode"} {
		encName := "encode"
		if T == "ValueNode" {
			encName = "Encode" // the value node has no separate private encoder and no structural copy
		}
		enc := r.Fn(rule, pkgUtil, T, encName)
		dec := r.Fn(rule, pkgUtil, T, "Decode")
		var cln *ssa.Function
		if T != "ValueNode" {
			cln = r.Fn(rule, pkgUtil, T, "CloneNode")
		}
		if enc == nil || dec == nil || (cln == nil && T != "ValueNode") {
			continue
		}
		// persisted: fields read by encode, each with a buffer write that depends on it
		reads, _ := fieldUses(enc, enc.Params[0])
		var bufWrites []*ssa.Call
		engine.Instrs(enc, func(in ssa.Instruction) {
			if c, ok := in.(*ssa.Call); ok && (extCalleeIs(c, "bytes", "Buffer", "Write") || extCalleeIs(c, "bytes", "Buffer", "WriteString")) {
				bufWrites = append(bufWrites, c)
			}
		})
		var persisted []string
		for fld, vals := range reads {
			persisted = append(persisted, fld)
			written := false
			for _, w := range bufWrites {
				for _, v := range vals {
					if dependsOn(w.Call.Args[1], v) {
						written = true
					}
				}
			}
			n++
			r.Check(written, rule, fn(enc)+"|writes "+fld, r.P.Pos(enc.Pos()), "a buffer write depends on the field",
				"the encoder reads field "+fld+" but no buffer write depends on it: the field is not persisted (and not hashed), so a decoded node differs from the stored one")
		}
		sort.Strings(persisted)
		_, dwAll := fieldUses(dec, dec.Params[0])
		// an assignment of the nil constant restores nothing
		dw := map[string][]ssa.Value{}
		for fld, vals := range dwAll {
			for _, v := range vals {
				if !nilConst(v) {
					dw[fld] = append(dw[fld], v)
				}
			}
		}
		for _, fld := range persisted {
			n++
			_, ok := dw[fld]
			r.Check(ok, rule, fn(dec)+"|restores "+fld, r.P.Pos(dec.Pos()), "the decoder assigns the persisted field",
				"the decoder never assigns field "+fld+" which the encoder persists: a node read back from a store differs from the node that was written (other hash, other content)")
		}
		for fld := range dw {
			found := false
			for _, p := range persisted {
				found = found || p == fld
			}
			n++
			r.Check(found, rule, fn(dec)+"|only persisted "+fld, r.P.Pos(dec.Pos()), "assigned field is persisted", "the decoder assigns field "+fld+" which the encoder does not write")
		}
		if cln == nil {
			continue
		}
		// the structural copy covers the persisted fields and the origin tracker
		var cloneObj ssa.Value
		engine.Instrs(cln, func(in ssa.Instruction) {
			if al, ok := in.(*ssa.Alloc); ok && al.Heap {
				if nm := namedOf(al.Type()); nm != nil && nm.Obj().Name() == T {
					cloneObj = al
				}
			}
		})
		if cloneObj == nil {
			r.Anchor(rule, fmt.Errorf("unresolved anchor: clone object of %s", fn(cln)))
			continue
		}
		_, cw := fieldUses(cln, cloneObj)
		for _, fld := range append(append([]string{}, persisted...), "OriginTrackerNode") {
			n++
			_, ok := cw[fld]
			r.Check(ok, rule, fn(cln)+"|copies "+fld, r.P.Pos(cln.Pos()), "the copy sets the field",
				"CloneNode does not copy field "+fld+": the copy kept by the memory store differs from the node it was given (other hash than the key it is stored under)")
		}
	}
	if n < 20 {
		r.Anchor(rule, fmt.Errorf("unresolved anchor: %d field obligations over the node codecs", n))
	}
}

// ---- AGREE-clonefields: a copy carries each tracked field into the same field ----------------

// calleesAt: the repository functions a call may reach (static callee, or every
// implementation the call graph resolves an interface invoke to).
func calleesAt(g *engine.RepoCG, c *ssa.Call) []*ssa.Function {
	if sc := c.Call.StaticCallee(); sc != nil {
		if inRepo(sc) && len(sc.Blocks) > 0 {
			return []*ssa.Function{sc}
		}
		return nil
	}
	var out []*ssa.Function
	for _, e := range g.Out[c.Parent()] {
		if e.Site == ssa.Instruction(c) && e.Callee != nil && len(e.Callee.Blocks) > 0 {
			out = append(out, e.Callee)
		}
	}
	return out
}

// argOffset: parameter index of the first explicit argument of a call into fn
// (an invoke does not list the receiver among its arguments).
func argOffset(c *ssa.Call) int {
	if c.Call.IsInvoke() {
		return 1
	}
	return 0
}

// paramFields: for each parameter of g the names of the struct fields it is
// stored into, directly or through callees (two levels).
func paramFields(cg *engine.RepoCG, g *ssa.Function, depth int) map[int]map[string]bool {
	out := map[int]map[string]bool{}
	if g == nil || len(g.Blocks) == 0 || depth > 3 {
		return out
	}
	idx := map[ssa.Value]int{}
	for i, p := range g.Params {
		idx[p] = i
	}
	add := func(i int, f string) {
		if out[i] == nil {
			out[i] = map[string]bool{}
		}
		out[i][f] = true
	}
	engine.Instrs(g, func(in ssa.Instruction) {
		switch x := in.(type) {
		case *ssa.Store:
			if i, ok := idx[stripConv(x.Val)]; ok {
				if fld := engine.FieldOf(x.Addr); fld != nil {
					add(i, fld.Name())
				}
			}
		case *ssa.Call:
			for _, sc := range calleesAt(cg, x) {
				if sc == g {
					continue
				}
				sub := paramFields(cg, sc, depth+1)
				off := argOffset(x)
				for j, a := range x.Call.Args {
					if i, ok := idx[stripConv(a)]; ok {
						for f := range sub[j+off] {
							add(i, f)
						}
					}
				}
			}
		}
	})
	return out
}

// resultFields: the fields whose value g may return (through getters, also
// behind an interface: the union over the implementations the call graph
// resolves to). Returns that are not field reads contribute "?".
func resultFields(cg *engine.RepoCG, g *ssa.Function, depth int, seen map[*ssa.Function]bool) map[string]bool {
	out := map[string]bool{}
	if g == nil || len(g.Blocks) == 0 || depth > 4 || seen[g] {
		return out
	}
	seen[g] = true
	defer delete(seen, g)
	for _, ret := range engine.Returns(g) {
		if len(ret.Results) != 1 {
			out["?"] = true
			continue
		}
		for f := range valueFields(cg, resultValue(ret, 0), depth, seen) {
			out[f] = true
		}
	}
	return out
}

func valueFields(cg *engine.RepoCG, v ssa.Value, depth int, seen map[*ssa.Function]bool) map[string]bool {
	v = stripConv(v)
	if _, fld, ok := loadOfField(v); ok {
		return map[string]bool{fld: true}
	}
	if c, ok := v.(*ssa.Call); ok {
		out := map[string]bool{}
		cs := calleesAt(cg, c)
		if len(cs) == 0 {
			return map[string]bool{"?": true}
		}
		for _, sc := range cs {
			for f := range resultFields(cg, sc, depth+1, seen) {
				out[f] = true
			}
		}
		return out
	}
	return map[string]bool{"?": true}
}

// valueField: the single field v reads, "" when unknown or ambiguous.
func valueField(cg *engine.RepoCG, in *ssa.Function, v ssa.Value, depth int) string {
	fs := valueFields(cg, v, depth, map[*ssa.Function]bool{})
	if len(fs) != 1 {
		return ""
	}
	for f := range fs {
		if f != "?" {
			return f
		}
	}
	return ""
}

func agreeCloneFields(r *engine.Run, rule string) {
	n := 0
	cg := r.P.RepoCG()
	for _, f := range funcsOfPkg(r, pkgUtil) {
		if f.Parent() != nil || f.Signature.Recv() == nil || len(f.Blocks) == 0 || isGenFile(r, f.Pos()) {
			continue
		}
		if f.Name() != "Clone" && f.Name() != "CloneNode" {
			continue
		}
		if !nodeTypeNames[recvNamed(f)] {
			continue
		}
		r.Touch(f)
		o := ord{}
		engine.Instrs(f, func(in ssa.Instruction) {
			if st, isSt := in.(*ssa.Store); isSt {
				// a literal or direct assignment: copy.F = <value read from source field G>
				dst := engine.FieldOf(st.Addr)
				src := valueField(cg, f, st.Val, 0)
				if dst != nil && src != "" {
					if _, isBasic := dst.Type().Underlying().(*types.Basic); isBasic {
						n++
						r.Check(dst.Name() == src, rule, o.next(fn(f)+"|"+src), r.P.Pos(st.Pos()), "the source's "+src+" goes into the copy's "+src,
							"the copy's "+dst.Name()+" is set from the source's "+src+": origin and version are part of what a node hashes and encodes, so the copy a store keeps differs from the node it was handed and sits under a key that is not its hash")
					}
				}
				return
			}
			x, ok := in.(*ssa.Call)
			if !ok {
				return
			}
			for _, sc := range calleesAt(cg, x) {
				if sc == f {
					continue
				}
				pf := paramFields(cg, sc, 0)
				off := argOffset(x)
				for j, a := range x.Call.Args {
					src := valueField(cg, f, a, 0)
					into := pf[j+off]
					if src == "" || len(into) == 0 {
						continue
					}
					n++
					var names []string
					for k := range into {
						names = append(names, k)
					}
					sort.Strings(names)
					r.Check(into[src], rule, o.next(fn(f)+"|"+src), r.P.Pos(x.Pos()), "the source's "+src+" goes into the copy's "+src,
						"the copy is given the source's "+src+" as its "+strings.Join(names, "/")+" (through "+fn(sc)+"): origin and version are part of what a node hashes and encodes, so the copy a store keeps differs from the node it was handed and sits under a key that is not its hash")
				}
			}
		})
	}
	if n < 2 {
		r.Anchor(rule, fmt.Errorf("unresolved anchor: only %d field hand-overs found in the Clone/CloneNode methods of the node types", n))
	}
}

// ---- AGREE-setters: constructors and setters store what they are given -------------------------

// Every trie operation builds and rewrites nodes through a handful of
// constructors and setters. A constructor that forgets one of its arguments
// (NewLeafNode without the path, NewExtensionNode without the child key) or a
// setter that stores nothing yields nodes that hash, encode and look up as
// something else than the operation intended; no walk rule sees that, because
// the walks hand over the right arguments.
//
// Rule: each parameter of the node constructors and of the node setters reaches
// a field (or an element of an array field) of the node, directly or through
// the setters it calls (parameter-to-field summaries, interface calls resolved
// through the call graph).
func agreeSetters(r *engine.Run, rule string) {
	cg := r.P.RepoCG()
	ctors := map[string]bool{"NewLeafNode": true, "NewFullNode": true, "NewExtensionNode": true}
	setters := map[string]bool{"SetValue": true, "PutChild": true, "SetOrigin": true, "SetVersion": true, "SetOriginTracker": true}
	n := 0
	for _, f := range funcsOfPkg(r, pkgUtil) {
		if f.Parent() != nil || len(f.Blocks) == 0 || isGenFile(r, f.Pos()) {
			continue
		}
		isCtor := f.Signature.Recv() == nil && ctors[f.Name()]
		isSetter := f.Signature.Recv() != nil && setters[f.Name()] && (nodeTypeNames[recvNamed(f)])
		if !isCtor && !isSetter {
			continue
		}
		r.Touch(f)
		pf := paramFieldsIdx(cg, f, 0)
		for i, p := range f.Params {
			if i == 0 && f.Signature.Recv() != nil {
				continue
			}
			n++
			var into []string
			for k := range pf[i] {
				into = append(into, k)
			}
			sort.Strings(into)
			r.Check(len(into) > 0, rule, fn(f)+"|"+p.Name(), r.P.Pos(f.Pos()), "stored into "+strings.Join(into, ", "),
				"parameter "+p.Name()+" of "+fn(f)+" does not reach any field of the node: the node is built or updated without it (a leaf without its path, an extension without its child key, a branch slot that keeps its old child), so it hashes, encodes and looks up as another node than the operation intended")
		}
	}
	if n < 12 {
		r.Anchor(rule, fmt.Errorf("unresolved anchor: only %d constructor/setter parameters found", n))
	}
	// the origin tracker copy covers both tracked fields
	if f, err := r.P.Func(pkgUtil, "OriginTrackerNode", "Clone"); err == nil && len(f.Blocks) > 0 {
		covered := map[string]bool{}
		engine.Instrs(f, func(in ssa.Instruction) {
			switch x := in.(type) {
			case *ssa.Store:
				if dst := engine.FieldOf(x.Addr); dst != nil {
					if src := valueField(cg, f, x.Val, 0); src != "" {
						covered[dst.Name()] = true
					}
				}
			case *ssa.Call:
				for _, sc := range calleesAt(cg, x) {
					sub := paramFieldsIdx(cg, sc, 0)
					off := argOffset(x)
					for j, a := range x.Call.Args {
						if valueField(cg, f, a, 0) == "" {
							continue
						}
						for k := range sub[j+off] {
							covered[k] = true
						}
					}
				}
			}
		})
		r.Check(covered["Origin"] && covered["Version"], rule, fn(f)+"|both tracked fields", r.P.Pos(f.Pos()), "the copy receives the source's origin and version",
			fmt.Sprintf("the origin tracker copy does not carry over both tracked fields (origin: %v, version: %v): every CloneNode goes through it, so the copy a store keeps hashes differently from the node it was handed", covered["Origin"], covered["Version"]))
	}
}

// paramFieldsIdx is paramFields extended to stores into elements of array fields
// (fn.Children[i] = child).
func paramFieldsIdx(cg *engine.RepoCG, g *ssa.Function, depth int) map[int]map[string]bool {
	out := paramFields(cg, g, depth)
	if g == nil || len(g.Blocks) == 0 || depth > 3 {
		return out
	}
	idx := map[ssa.Value]int{}
	for i, p := range g.Params {
		idx[p] = i
	}
	add := func(i int, f string) {
		if out[i] == nil {
			out[i] = map[string]bool{}
		}
		out[i][f] = true
	}
	engine.Instrs(g, func(in ssa.Instruction) {
		switch x := in.(type) {
		case *ssa.Store:
			if ia, ok := x.Addr.(*ssa.IndexAddr); ok {
				// a parameter that selects the element written (fn.Children[fn.index(hex)] = ...)
				for p, pi := range idx {
					if dependsOn(ia.Index, p) {
						if fld := engine.FieldOf(ia.X); fld != nil {
							add(pi, fld.Name()+"[index]")
						}
					}
				}
			}
			i, ok := idx[stripConv(x.Val)]
			if !ok {
				return
			}
			if ia, ok := x.Addr.(*ssa.IndexAddr); ok {
				if fld := engine.FieldOf(ia.X); fld != nil {
					add(i, fld.Name()+"[]")
				} else if ld, ok := ia.X.(*ssa.UnOp); ok {
					if fld := engine.FieldOf(ld.X); fld != nil {
						add(i, fld.Name()+"[]")
					}
				}
			}
		case *ssa.Call:
			for _, sc := range calleesAt(cg, x) {
				if sc == g {
					continue
				}
				sub := paramFieldsIdx(cg, sc, depth+1)
				off := argOffset(x)
				for j, a := range x.Call.Args {
					if i, ok := idx[stripConv(a)]; ok {
						for f := range sub[j+off] {
							add(i, f)
						}
					}
				}
			}
		}
	})
	return out
}
