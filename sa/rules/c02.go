package rules

import (
	"fmt"
	"go/constant"
	"go/types"
	"sort"

	"golang.org/x/tools/go/ssa"

	"verif/sa/engine"
)

func init() {
	register(&Check{ID: "C02", Pkgs: []string{pkgUtil}, Run: runC02})
}

func runC02(r *engine.Run) {
	r.Rule("FRESH-pathbuf", "see C01: Insert copies the caller's path before it builds nodes from it: leaves and extensions keep sub-slices of the path, and a caller that reuses its key buffer would change stored and pending nodes behind their hashes")
	r.Rule("DEP-absent", "see C01: deleting at an exhausted path removes only an entry stored exactly there (a leaf reached with a remaining path of its own is another key): otherwise a delete of a never-stored prefix key removes another entry and two histories with the same content have different roots")
	r.Rule("REF-poolput", "see C16: no object is touched after it went back to a sync.Pool (every node key and root is a RawHash: a pooled hash state that another goroutine took before the digest was read yields keys that are not the hash of the node)")
	r.Rule("DOM-merge", "see C03: in mergeChanges no error return is reachable after the parent's root was installed (a merge that fails after moving the root leaves a root that commits to content the store does not hold, and the retry reports success at the same-root shortcut)")
	r.Rule("RET-pair", "every success return of a recursive insert/delete helper of the state trie (results Node, Key, error) hands back a pair that belongs together: both results of one helper call, (nil, nil), or a node with its own GetHashBytes() - the caller rebuilds itself by the kind of the returned node and links the returned key, so a node from one source and a key from another give the parent a non-canonical form")
	r.Rule("AGREE-hash", "the GetHashBytes of LeafNode, FullNode and ExtensionNode share one skeleton: binary.Write(buf, LittleEndian, receiver.GetOrigin()), then the type's own private encode(buf), then RawHash(buf.Bytes()); each type's Encode writes the node prefix and then calls the same encode function object: hash input = origin || exactly the persisted fields")
	r.Rule("ORDER-stamp", "in insertNode SetOrigin(trie version) precedes GetHashBytes() of the same node, whose result is the key passed to PutNode for that node, with no mutator call on the node in between")
	r.Rule("DEP-canon", "every arm that clears a child slot or the value of a branch node and re-inserts it reads the branch's child count and value presence (GetNumChildren/HasValue): an arm that never looks at the child count after removing the value cannot collapse a one-child branch, so the shape (and the root) depends on history")
	r.Rule("AGREE-split", "a leaf's (Prefix, Path) pair splits one key: wherever a leaf is created or re-homed, Prefix = concat(B, S[:k]) goes with Path = S[k:] of the same slice S and the same split point k, with B the operation's prefix argument (or the existing leaf's own Prefix with S its own Path); a leaf that replaces the current node gets exactly the operation's prefix. The prefix is part of the leaf's hash, so a wrong prefix makes the root depend on history")
	r.Rule("DOM-ext-nonempty", "see C01: an extension node with an empty path is never constructed (also a canonical-form condition)")
	r.Rule("DEP-extchild", "every key installed as the child of an extension node (NewExtensionNode / insertExtension argument, store to NodeKey) is provably the key of a branch: returned by insertNode for a *FullNode, the child key of an existing extension, the result of insert started at an extension's child (with: the *FullNode arms of insertAtNode/insertAfterPathTraversal return insertNode of a *FullNode), or the key of a node type-tested to be a *FullNode on every path to the site. An extension over an extension or a leaf is a second encoding of the same content")
	r.Rule("AGREE-mergepath", "see C01: a node that moves up when delete removes its parent gets exactly the path elements the parent consumed in front of its own path (otherwise the same content has another shape and root than the trie built by inserts alone)")
	r.Rule("ERR-getnode", "see C17: a failed node lookup is never turned into success (a delete that reports success next to an absent sibling keeps a one-child branch: the same content with another shape and root)")
	r.Rule("DOM-size", "see C01: a nil value or an empty encoding is routed to Delete and never stored (an entry that encodes to nothing is content the root would not determine)")
	r.Rule("AGREE-fields", "see C14: writer and reader of each node encoding agree (the root commits to what can be decoded back)")
	r.Rule("LOCK-mpt", "see C16: root, the stores' maps and level links and the collector's maps are accessed only with their owner's mutex held in the required mode (a writer under the read lock, or on a root read outside the lock, loses another writer's update)")
	r.Rule("ORDER-critical", "see C16: Insert, Delete, MergeChanges and MergeDB are one critical section each, from the first read of the root to its last update")
	r.Rule("CLONE-complete", "see C14: CloneNode gives its copy every field of the node (a cached child count that the copy lacks makes deletes through a second handle skip every collapse: the root then depends on which handle ran the history)")
	r.Rule("AGREE-kindtag", "the hash pre-images of the node kinds live in disjoint spaces: GetHashBytes of every kind writes a kind-distinguishing constant (a constant byte, the serialization prefix, a type code) into the hashed buffer besides the origin and encode() - without it an extension and a leaf with equal prefix/path bytes are one node and two different contents share a root")
	r.Rule("FRESH-bytes", "see C03: the byte slices handed out by the node and value accessors (MarshalMsg, Encode, GetHashBytes, GetValueBytes) are new buffers on every return - a caller that writes into what a lookup or an encoder handed out would otherwise change a stored value behind its hash, and the root would no longer be a function of the content")
	r.Rule("ERR-guard", "see C17: the error branch of a store or trie operation returns a non-nil error")
	r.Rule("ERR-dropped", "see C17: the error of every store operation the trie calls is looked at (a batch lookup whose error and missing entries are ignored files the nodes it got under the wrong keys: the root then no longer follows the content)")
	r.NotDec = append(r.NotDec, "equality with an independent implementation for every content", "full history independence (canonical restructuring is value-level)", "collision resistance of the hash")
	agreeHash(r, "AGREE-hash")
	orderStamp(r, "ORDER-stamp")
	depCanon(r)
	agreeSplit(r)
	agreeMergePath(r, "AGREE-mergepath")
	domExtNonEmpty(r, "DOM-ext-nonempty")
	depExtChild(r, "DEP-extchild")
	errGetNode(r)
	domSize(r)
	agreeFields(r)
	mptLockDiscipline(r)
	freshBytes(r, "FRESH-bytes")
	agreeKindTag(r, "AGREE-kindtag")
	cloneComplete(r, "CLONE-complete")
	errGuard(r, "ERR-guard", "ERR-dropped", mptFuncs(r), 15)
	retPairMPT(r, "RET-pair")
	refPoolPut(r, "REF-poolput")
	rootMovedLast(r, "DOM-merge")
	freshPathBuf(r, "FRESH-pathbuf")
	depAbsent(r)
}

var trieNodeTypes = []string{"LeafNode", "FullNode", "ExtensionNode"}

func agreeHash(r *engine.Run, rule string) {
	for _, T := range trieNodeTypes {
		h := r.Fn(rule, pkgUtil, T, "GetHashBytes")
		e := r.Fn(rule, pkgUtil, T, "Encode")
		enc := r.Fn(rule, pkgUtil, T, "encode")
		if h == nil || e == nil || enc == nil {
			continue
		}
		recv := h.Params[0]
		// the skeleton lives in GetHashBytes itself, or in one package function
		// that GetHashBytes returns the result of, handing it the receiver's
		// origin and the receiver's own encode (method value) as arguments
		body := h
		originOK := func(v ssa.Value) bool {
			if oc, ok := through(v).(*ssa.Call); ok {
				if rv, ok := engine.IsMethodCall(oc, "GetOrigin"); ok && derivesFromRecv(rv, recv) {
					return true
				}
			}
			return false
		}
		encOK := func(c *ssa.Call, buf ssa.Value) bool {
			return c.Call.StaticCallee() == enc && c.Call.Args[0] == ssa.Value(recv) && c.Call.Args[1] == buf
		}
		delegated := true
		if hb, via := hashBody(h); hb != h && hb != nil {
			body = hb
			var pOrigin, pEnc *ssa.Parameter
			for i, a := range via.Call.Args {
				if i >= len(hb.Params) {
					break
				}
				if originOK(a) {
					pOrigin = hb.Params[i]
				}
				if mc, ok := a.(*ssa.MakeClosure); ok && len(mc.Bindings) == 1 && mc.Bindings[0] == ssa.Value(recv) {
					if bf, ok := mc.Fn.(*ssa.Function); ok && boundOf(bf) == enc {
						pEnc = hb.Params[i]
					}
				}
			}
			okDeleg := false
			for _, ret := range engine.Returns(h) {
				if len(ret.Results) == 1 && ret.Results[0] == ssa.Value(via) {
					okDeleg = true
				}
			}
			delegated = okDeleg
			originOK = func(v ssa.Value) bool { return pOrigin != nil && through(v) == ssa.Value(pOrigin) }
			encOK = func(c *ssa.Call, buf ssa.Value) bool {
				return pEnc != nil && !c.Call.IsInvoke() && c.Call.Value == ssa.Value(pEnc) && len(c.Call.Args) == 1 && c.Call.Args[0] == buf
			}
		}
		var buf ssa.Value
		var bw, encCall, raw *ssa.Call
		engine.Instrs(body, func(in ssa.Instruction) {
			c, ok := in.(*ssa.Call)
			if !ok {
				return
			}
			switch {
			case extCalleeIs(c, "bytes", "", "NewBuffer"):
				buf = c
			case extCalleeIs(c, "encoding/binary", "", "Write"):
				bw = c
			case extCalleeIs(c, "core/encryption", "", "RawHash"):
				raw = c
			}
		})
		engine.Instrs(body, func(in ssa.Instruction) {
			if c, ok := in.(*ssa.Call); ok && buf != nil && encOK(c, buf) {
				encCall = c
			}
		})
		good := buf != nil && bw != nil && encCall != nil && raw != nil
		detail := "skeleton call missing"
		if good {
			// binary.Write(buf, LittleEndian, receiver.GetOrigin())
			okBuf := through(bw.Call.Args[0]) == buf
			okOrder := false
			if ld, ok := through(bw.Call.Args[1]).(*ssa.UnOp); ok {
				if g, ok := ld.X.(*ssa.Global); ok && g.Name() == "LittleEndian" {
					okOrder = true
				}
			}
			okOrigin := originOK(bw.Call.Args[2])
			okEnc := true
			okRaw := false
			if bc, ok := through(raw.Call.Args[0]).(*ssa.Call); ok && extCalleeIs(bc, "bytes", "Buffer", "Bytes") && bc.Call.Args[0] == buf {
				okRaw = true
			}
			okOrd := engine.InstrDominates(bw, encCall) && engine.InstrDominates(encCall, raw)
			okRet := false
			for _, ret := range engine.Returns(body) {
				if len(ret.Results) == 1 && ret.Results[0] == ssa.Value(raw) {
					okRet = true
				}
			}
			okRet = okRet && delegated
			good = okBuf && okOrder && okOrigin && okEnc && okRaw && okOrd && okRet
			detail = fmt.Sprintf("buffer=%v little-endian=%v origin-of-receiver=%v own-encode=%v hash-of-buffer=%v order=%v returned=%v", okBuf, okOrder, okOrigin, okEnc, okRaw, okOrd, okRet)
		}
		r.Check(good, rule, fn(h), r.P.Pos(h.Pos()), "hash = RawHash(LE(origin) || encode())", "the node hash is not RawHash(little-endian origin || the node's persisted fields): "+detail)
		// Encode uses the same encode after the prefix
		var pre, enc2 *ssa.Call
		var ebuf ssa.Value
		engine.Instrs(e, func(in ssa.Instruction) {
			c, ok := in.(*ssa.Call)
			if !ok {
				return
			}
			switch {
			case extCalleeIs(c, "bytes", "", "NewBuffer"):
				ebuf = c
			case staticCalleeIs(c, pkgUtil, "", "writeNodePrefix"):
				pre = c
			case c.Call.StaticCallee() == enc:
				enc2 = c
			}
		})
		good2 := pre != nil && enc2 != nil && ebuf != nil && through(pre.Call.Args[0]) == ebuf && through(pre.Call.Args[1]) == ssa.Value(e.Params[0]) &&
			enc2.Call.Args[0] == ssa.Value(e.Params[0]) && enc2.Call.Args[1] == ebuf && engine.InstrDominates(pre, enc2)
		r.Check(good2, rule, fn(e), r.P.Pos(e.Pos()), "Encode = node prefix || the same encode()", "Encode does not persist exactly the fields that are hashed (prefix, then the type's own encode on the same buffer)")
	}
	r.Min(rule, 6)
}

// hashBody returns the function that builds the hash pre-image of h: h itself
// when it creates the buffer, else the one package function h calls that does
// (with the call).
func hashBody(h *ssa.Function) (*ssa.Function, *ssa.Call) {
	has := func(f *ssa.Function) bool {
		found := false
		engine.Instrs(f, func(in ssa.Instruction) {
			if c, ok := in.(*ssa.Call); ok && extCalleeIs(c, "bytes", "", "NewBuffer") {
				found = true
			}
		})
		return found
	}
	if has(h) {
		return h, nil
	}
	var body *ssa.Function
	var via *ssa.Call
	n := 0
	engine.Instrs(h, func(in ssa.Instruction) {
		c, ok := in.(*ssa.Call)
		if !ok {
			return
		}
		if sc := c.Call.StaticCallee(); sc != nil && sc.Pkg == h.Pkg && sc.Blocks != nil && has(sc) {
			body, via = sc, c
			n++
		}
	})
	if n == 1 {
		return body, via
	}
	return h, nil
}

// boundOf: the method a bound-method wrapper (x.m used as a value) calls.
func boundOf(w *ssa.Function) *ssa.Function {
	var out *ssa.Function
	n := 0
	engine.Instrs(w, func(in ssa.Instruction) {
		if c, ok := in.(*ssa.Call); ok {
			n++
			out = c.Call.StaticCallee()
		}
	})
	if n == 1 {
		return out
	}
	return nil
}

// derivesFromRecv: v is the receiver or a field (embedded struct) loaded from it.
func derivesFromRecv(v ssa.Value, recv ssa.Value) bool {
	for i := 0; i < 6; i++ {
		if v == recv {
			return true
		}
		switch x := v.(type) {
		case *ssa.UnOp:
			v = x.X
		case *ssa.FieldAddr:
			v = x.X
		case *ssa.Field:
			v = x.X
		default:
			return false
		}
	}
	return false
}

func orderStamp(r *engine.Run, rule string) {
	f, store := mptStoreFn(r, rule)
	if f == nil {
		return
	}
	if store == nil {
		r.Fail(rule, fn(f), r.P.Pos(f.Pos()), "insertNode lacks the stamp/hash/put sequence (no store write in insertNode or in the method it hands over to): a node is stored under a hash computed before its origin was set")
		return
	}
	// the non-stamping store function is for insertNode and for the merge of a
	// child's change set only: a walk that files a node it built through it leaves
	// the node with whatever origin it had (a new extension: 0), so the same
	// content gets another hash and root than the trie insert builds
	if store != f {
		cg := r.P.RepoCG()
		for _, e := range cg.In[store] {
			caller := engine.TopFunc(e.Caller)
			ok := caller == f || caller.Name() == "mergeChanges"
			if !ok {
				// a helper that only the merge calls (the replay loop extracted)
				ok = len(cg.In[caller]) > 0
				for _, e2 := range cg.In[caller] {
					if n := engine.TopFunc(e2.Caller).Name(); n != "mergeChanges" && n != "MergeChanges" && n != "MergeMPTChanges" {
						ok = false
					}
				}
			}
			r.Check(ok, rule, fn(store)+"|called from "+fn(caller), r.P.Pos(e.Site.Pos()), "the non-stamping store function is used by insertNode and the merge only",
				fn(caller)+" files a node through "+fn(store)+", which does not stamp the trie's version: the node keeps whatever origin it had, the origin is part of the hash, so the same content reached by another history has another root")
		}
	}
	newP := f.Params[2]
	var stamp, hash, put, hand *ssa.Call
	var muts []*ssa.Call
	collect := func(g *ssa.Function, np ssa.Value, wantStamp bool) {
		engine.Instrs(g, func(in ssa.Instruction) {
			c, ok := in.(*ssa.Call)
			if !ok {
				return
			}
			if invokeOnField(c, "db", "PutNode") {
				put = c
				return
			}
			for m := range nodeMutators {
				if recv, ok := engine.IsMethodCall(c, m); ok && recv == np {
					if m == "SetOrigin" && stamp == nil && wantStamp {
						stamp = c
					} else {
						muts = append(muts, c)
					}
				}
			}
		})
	}
	collect(f, newP, true)
	storeNew := ssa.Value(newP)
	if store != f {
		// the hand-over: the stamped node goes to the store function as its new node
		engine.Instrs(f, func(in ssa.Instruction) {
			if c, ok := in.(*ssa.Call); ok && c.Call.StaticCallee() == store {
				for i, a := range c.Call.Args {
					if a == ssa.Value(newP) && i < len(store.Params) {
						hand = c
						storeNew = store.Params[i]
					}
				}
			}
		})
		if hand == nil {
			r.Fail(rule, fn(f), r.P.Pos(f.Pos()), "insertNode does not hand the node it stamped to the method that stores it")
			return
		}
		collect(store, storeNew, false)
	}
	if put != nil {
		if h, ok := stripCT(put.Call.Args[0]).(*ssa.Call); ok {
			if recv, ok := engine.IsMethodCall(h, "GetHashBytes"); ok && recv == storeNew {
				hash = h
			}
		}
	}
	if stamp == nil || hash == nil || put == nil {
		r.Fail(rule, fn(f), r.P.Pos(f.Pos()), fmt.Sprintf("insertNode lacks the stamp/hash/put sequence (stamp=%v hash-of-new-node-as-key=%v put=%v): a node is stored under a hash computed before its origin was set", stamp != nil, hash != nil, put != nil))
		return
	}
	okVer := false
	if fld := fieldLoadOf(stamp.Call.Args[0]); fld != nil && fld.Name() == "Version" {
		okVer = true
	}
	good := okVer && engine.InstrDominates(hash, put)
	if store == f {
		good = good && engine.InstrDominates(stamp, hash)
	} else {
		good = good && engine.InstrDominates(stamp, hand) && put.Call.Args[1] == storeNew
	}
	for _, m := range muts {
		switch {
		case m.Parent() == f && store != f:
			// in insertNode: nothing may touch the node between the stamp and the hand-over
			if engine.ReachableAfter(stamp, m) {
				good = false
			}
		case m.Parent() == store:
			if !engine.ReachableAfter(put, m) || engine.ReachableAfter(hash, m) {
				good = false
			}
		default:
			if engine.ReachableAfter(stamp, m) && !engine.ReachableAfter(put, m) || engine.ReachableAfter(hash, m) {
				good = false
			}
		}
	}
	r.Check(good, rule, fn(f), r.P.Pos(stamp.Pos()), "SetOrigin(trie version) -> GetHashBytes -> PutNode(hash, node), no mutation in between (the hash/put part may live in the method insertNode hands the stamped node to)", "the key under which the node is stored is not the hash of the node as stamped with the trie version")
}

// branchArmCalls: for function f, the blocks of the type-switch arm for *T and
// the method calls on the asserted value inside them.
type armInfo struct {
	asserted ssa.Value
	blocks   map[*ssa.BasicBlock]bool
}

// typeArms finds, for a type switch on value v in f, the arm blocks per
// asserted named type (blocks dominated by the success edge of the assertion).
func typeArms(f *ssa.Function, onParam ssa.Value) map[string]*armInfo {
	out := map[string]*armInfo{}
	engine.Instrs(f, func(in ssa.Instruction) {
		ta, ok := in.(*ssa.TypeAssert)
		if !ok || !ta.CommaOk || ta.X != onParam {
			return
		}
		n := namedOf(ta.AssertedType)
		if n == nil {
			return
		}
		// the If on extract #1
		var okv, val ssa.Value
		for _, ref := range engine.Referrers(ta) {
			if ex, isEx := ref.(*ssa.Extract); isEx {
				if ex.Index == 1 {
					okv = ex
				} else {
					val = ex
				}
			}
		}
		if okv == nil {
			return
		}
		for _, ref := range engine.Referrers(okv) {
			iff, isIf := ref.(*ssa.If)
			if !isIf {
				continue
			}
			succ := iff.Block().Succs[0]
			ai := &armInfo{asserted: val, blocks: map[*ssa.BasicBlock]bool{}}
			for _, b := range f.Blocks {
				if succ.Dominates(b) && len(succ.Preds) == 1 {
					ai.blocks[b] = true
				}
			}
			out[n.Obj().Name()] = ai
		}
	})
	return out
}

func depCanon(r *engine.Run) {
	const rule = "DEP-canon"
	n := 0
	for _, name := range []string{"deleteAtNode", "deleteAfterPathTraversal"} {
		f := r.Fn(rule, pkgUtil, "MerklePatriciaTrie", name)
		if f == nil {
			continue
		}
		nodeParam := paramRole(f, "node")
		arms := typeArms(f, nodeParam)
		arm := arms["FullNode"]
		if arm == nil {
			r.Anchor(rule, fmt.Errorf("unresolved anchor: *FullNode arm of %s", fn(f)))
			continue
		}
		// does the arm clear a slot/value and re-insert?
		clears, reads := false, map[string]bool{}
		for b := range arm.blocks {
			for _, in := range b.Instrs {
				c, ok := in.(*ssa.Call)
				if !ok {
					continue
				}
				if _, ok := engine.IsMethodCall(c, "SetValue"); ok && len(c.Call.Args) >= 2 && nilConst(c.Call.Args[len(c.Call.Args)-1]) {
					clears = true
				}
				if _, ok := engine.IsMethodCall(c, "PutChild"); ok {
					clears = true
				}
				for _, m := range []string{"GetNumChildren", "HasValue"} {
					if recv, ok := engine.IsMethodCall(c, m); ok && isNamed(recv.Type(), pkgUtil, "FullNode") {
						reads[m] = true
					}
				}
			}
		}
		if !clears {
			continue
		}
		n++
		good := reads["GetNumChildren"] && reads["HasValue"]
		r.Check(good, rule, fn(f)+"|*FullNode arm", r.P.Pos(f.Pos()),
			"the arm reads the branch's child count and value presence before re-inserting it",
			fmt.Sprintf("the branch arm removes a child or the value and re-inserts the node without looking at the remaining child count / value (reads GetNumChildren=%v HasValue=%v): a branch left with one child and no value is not collapsed, so the shape and root depend on history", reads["GetNumChildren"], reads["HasValue"]))
	}
	if n < 2 {
		r.Anchor(rule, fmt.Errorf("unresolved anchor: branch arms that clear a slot (found %d)", n))
	}
	// a branch that keeps a value but loses its last child becomes a leaf: in the
	// branch arm of deleteAtNode a leaf is inserted where HasValue() tested true
	if f := r.Fn(rule, pkgUtil, "MerklePatriciaTrie", "deleteAtNode"); f != nil {
		if arm := typeArms(f, paramRole(f, "node"))["FullNode"]; arm != nil {
			toLeaf := false
			engine.Instrs(f, func(in ssa.Instruction) {
				c, ok := in.(*ssa.Call)
				if !ok || !arm.blocks[c.Block()] || !staticCalleeIs(c, pkgUtil, "MerklePatriciaTrie", "insertLeaf") {
					return
				}
				engine.Instrs(f, func(i2 ssa.Instruction) {
					hv, ok := i2.(*ssa.Call)
					if !ok {
						return
					}
					if recv, is := engine.IsMethodCall(hv, "HasValue"); is && isNamed(recv.Type(), pkgUtil, "FullNode") && truthAt(f, c.Block(), hv, true) {
						toLeaf = true
					}
				})
			})
			r.Check(toLeaf, rule, fn(f)+"|valued branch without children becomes a leaf", r.P.Pos(f.Pos()),
				"the branch arm inserts a leaf where the branch's HasValue() tested true",
				"a branch that still holds a value but lost its last child is no longer turned into a leaf: the same content is a childless branch in one history and a leaf in another, so the root depends on history")
		}
	}
}

var _ = types.Typ

// ---- AGREE-split ---------------------------------------------------------------

type prefixForm struct {
	base  ssa.Value // B
	s     ssa.Value // S (nil when no second part)
	k     ssa.Value // split point (nil = whole S)
	plain bool      // P is B alone (or concat(B))
	ok    bool
}

func parsePrefix(v ssa.Value) prefixForm {
	v = stripCT(v)
	if c, ok := v.(*ssa.Call); ok && staticCalleeIs(c, pkgUtil, "", "concat") {
		b := stripCT(c.Call.Args[0])
		rest := c.Call.Args[1]
		if nilConst(rest) {
			return prefixForm{base: b, plain: true, ok: true}
		}
		rest = stripCT(rest)
		if sl, ok := rest.(*ssa.Slice); ok && sl.Low == nil {
			// explicit elements concat(B, S[0], S[1], ...): the same as S[:n]
			if al, isAl := sl.X.(*ssa.Alloc); isAl && sl.High == nil {
				elems := map[int64]ssa.Value{}
				for _, ref := range engine.Referrers(al) {
					if ia, ok := ref.(*ssa.IndexAddr); ok {
						i, isC := intConst(ia.Index)
						for _, r2 := range engine.Referrers(ia) {
							if st, ok := r2.(*ssa.Store); ok && st.Addr == ssa.Value(ia) && isC {
								elems[i] = st.Val
							}
						}
					}
				}
				var src ssa.Value
				good := len(elems) > 0
				for i := int64(0); i < int64(len(elems)); i++ {
					e, ok := elems[i]
					if !ok {
						good = false
						break
					}
					arr, idx, okL := loadOfIndex(e)
					k, isC := intConst(idx)
					if !okL || !isC || k != i || (src != nil && !sameBytes(stripCT(arr), src)) {
						good = false
						break
					}
					src = stripCT(arr)
				}
				if good {
					return prefixForm{base: b, s: src, k: ssa.NewConst(constant.MakeInt64(int64(len(elems))), types.Typ[types.Int]), ok: true}
				}
			}
			return prefixForm{base: b, s: stripCT(sl.X), k: sl.High, ok: true}
		}
		return prefixForm{base: b, s: rest, k: nil, ok: true}
	}
	if cv, ok := v.(*ssa.Convert); ok {
		if c := constVal(cv.X); c != nil && c.ExactString() == `""` {
			return prefixForm{base: v, plain: true, ok: true} // Path("")
		}
	}
	if c, ok := v.(*ssa.Const); ok && c.Value == nil {
		return prefixForm{base: v, plain: true, ok: true}
	}
	return prefixForm{base: v, plain: true, ok: true}
}

func agreeSplit(r *engine.Run) {
	const rule = "AGREE-split"
	n := 0
	for _, f := range mptFuncs(r) {
		o := ord{}
		prefixParam := paramRole(f, "prefix")
		baseOK := func(b ssa.Value) (bool, ssa.Value) {
			if prefixParam != nil && b == prefixParam {
				return true, nil
			}
			if ld, ok := b.(*ssa.UnOp); ok {
				if fa, ok := ld.X.(*ssa.FieldAddr); ok && isNamed(fa.X.Type(), pkgUtil, "LeafNode") && engine.FieldOf(fa).Name() == "Prefix" {
					return true, fa.X // the existing leaf
				}
			}
			if cv, ok := b.(*ssa.Convert); ok {
				if c := constVal(cv.X); c != nil && c.ExactString() == `""` {
					return true, nil
				}
			}
			if nilConst(b) {
				return true, nil
			}
			return false, nil
		}
		check := func(in ssa.Instruction, what string, P, Q ssa.Value) {
			n++
			construct := o.next(fn(f) + "|" + what)
			pf := parsePrefix(P)
			okB, leaf := baseOK(pf.base)
			if !okB {
				r.Fail(rule, construct, r.P.Pos(in.Pos()), "the leaf's prefix is not built from the operation's prefix argument (or the leaf's own prefix)")
				return
			}
			q := stripCT(Q)
			var qs, qk ssa.Value
			if sl, ok := q.(*ssa.Slice); ok && sl.High == nil {
				qs, qk = stripCT(sl.X), sl.Low
			} else {
				qs = q
			}
			if pf.plain {
				// Path must be a whole slice (or nil), not a proper suffix
				good := qk == nil || isZero(qk)
				r.Check(good, rule, construct, r.P.Pos(in.Pos()), "prefix is the position's prefix, path is a whole key remainder", "the leaf keeps the position's prefix but its path drops leading elements: prefix and path no longer add up to the key")
				return
			}
			sameS := engine.ValKey(pf.s) == engine.ValKey(qs)
			sameK := pf.k != nil && qk != nil && engine.ValKey(pf.k) == engine.ValKey(qk)
			if what == "descent" && pf.k == nil && pf.s != nil && isEmptyBytes(q) {
				// the whole rest of the key goes into the prefix, nothing remains: prefix ++ path, Path{}
				sameS, sameK = true, true
			}
			if what == "descent" && pf.k == nil && qk != nil && pf.s != nil && isLenOf(stripConv(qk), pf.s) {
				// below an extension: prefix ++ (the extension's whole path), remainder = path[len(that path):]
				sameS, sameK = true, true
			}
			if leaf != nil {
				// own prefix goes with own path
				if ld, ok := pf.s.(*ssa.UnOp); ok {
					if fa, ok := ld.X.(*ssa.FieldAddr); !ok || fa.X != leaf {
						sameS = false
					}
				}
			}
			r.Check(sameS && sameK, rule, construct, r.P.Pos(in.Pos()), "Prefix = B ++ S[:k] with Path = S[k:] (same S, same k)",
				fmt.Sprintf("the leaf's prefix and path are cut from different slices or at different points (same slice=%v, same split point=%v): they no longer add up to the key, and since the prefix is hashed the root depends on how the leaf came to be", sameS, sameK))
		}
		// pending direct stores per fresh leaf object: Prefix and Path
		type pair struct{ prefix, path *ssa.Store }
		stores := map[ssa.Value]*pair{}
		engine.Instrs(f, func(in ssa.Instruction) {
			switch x := in.(type) {
			case *ssa.Call:
				if staticCalleeIs(x, pkgUtil, "MerklePatriciaTrie", "insertLeaf") && f.Name() != "insertLeaf" {
					check(in, "insertLeaf", x.Call.Args[3], x.Call.Args[4])
				}
				// the walks hand the position's prefix down together with the remaining path:
				// the two must add up to the key at every level, or the leaves built below get
				// a prefix (which is hashed) that is not their position
				for _, walk := range []string{"insert", "delete"} {
					if staticCalleeIs(x, pkgUtil, "MerklePatriciaTrie", walk) && recvNamed(f) == "MerklePatriciaTrie" && f.Object() != nil && !f.Object().Exported() {
						var bs []ssa.Value
						for _, a := range x.Call.Args[1:] {
							if isByteSlice(a.Type()) {
								bs = append(bs, a)
							}
						}
						if len(bs) >= 2 {
							check(in, "descent", bs[len(bs)-2], bs[len(bs)-1])
						}
					}
				}
			case *ssa.Store:
				fa, ok := x.Addr.(*ssa.FieldAddr)
				if !ok || !isNamed(fa.X.Type(), pkgUtil, "LeafNode") {
					return
				}
				pr := stores[fa.X]
				if pr == nil {
					pr = &pair{}
					stores[fa.X] = pr
				}
				switch engine.FieldOf(fa).Name() {
				case "Prefix":
					pr.prefix = x
				case "Path":
					pr.path = x
				}
			}
		})
		var prs []*pair
		for _, pr := range stores {
			if pr.prefix != nil {
				prs = append(prs, pr)
			}
		}
		sort.Slice(prs, func(i, j int) bool { return prs[i].prefix.Pos() < prs[j].prefix.Pos() })
		for _, pr := range prs {
			n++
			pf := parsePrefix(pr.prefix.Val)
			okB, _ := baseOK(pf.base)
			r.Check(okB && pf.plain, rule, o.next(fn(f)+"|store LeafNode.Prefix"), r.P.Pos(pr.prefix.Pos()), "a leaf that replaces the current node gets exactly the operation's prefix",
				"a leaf that replaces the current node is given a prefix other than the operation's prefix argument: the hashed prefix no longer matches the leaf's position")
		}
	}
	if n < 10 {
		r.Anchor(rule, fmt.Errorf("unresolved anchor: only %d leaf constructions found", n))
	}
}

// isEmptyBytes: v is a byte slice of length zero by construction (nil, Path(""), Path{}, make(Path, 0)).
func isEmptyBytes(v ssa.Value) bool {
	v = stripCT(v)
	switch x := v.(type) {
	case *ssa.Const:
		return x.Value == nil
	case *ssa.Convert:
		if c := constVal(x.X); c != nil && c.ExactString() == `""` {
			return true
		}
	case *ssa.MakeSlice:
		if k, ok := intConst(x.Len); ok && k == 0 {
			return true
		}
	case *ssa.Slice:
		if al, ok := x.X.(*ssa.Alloc); ok {
			if pt, ok := al.Type().Underlying().(*types.Pointer); ok {
				if at, ok := pt.Elem().Underlying().(*types.Array); ok && at.Len() == 0 {
					return true
				}
			}
		}
	}
	return false
}
