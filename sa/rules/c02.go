package rules

import (
	"fmt"
	"go/types"

	"golang.org/x/tools/go/ssa"

	"verif/sa/engine"
)

func init() {
	register(&Check{ID: "C02", Pkgs: []string{pkgUtil}, Run: runC02})
}

func runC02(r *engine.Run) {
	r.Rule("AGREE-hash", "the GetHashBytes of LeafNode, FullNode and ExtensionNode share one skeleton: binary.Write(buf, LittleEndian, receiver.GetOrigin()), then the type's own private encode(buf), then RawHash(buf.Bytes()); each type's Encode writes the node prefix and then calls the same encode function object: hash input = origin || exactly the persisted fields")
	r.Rule("ORDER-stamp", "in insertNode SetOrigin(trie version) precedes GetHashBytes() of the same node, whose result is the key passed to PutNode for that node, with no mutator call on the node in between")
	r.Rule("DEP-canon", "every arm that clears a child slot or the value of a branch node and re-inserts it reads the branch's child count and value presence (GetNumChildren/HasValue): an arm that never looks at the child count after removing the value cannot collapse a one-child branch, so the shape (and the root) depends on history")
	r.Rule("DOM-ext-nonempty", "see C01: an extension node with an empty path is never constructed (also a canonical-form condition)")
	r.NotDec = append(r.NotDec, "equality with an independent implementation for every content", "full history independence (canonical restructuring is value-level)", "collision resistance of the hash")
	agreeHash(r, "AGREE-hash")
	orderStamp(r, "ORDER-stamp")
	depCanon(r)
	domExtNonEmpty(r, "DOM-ext-nonempty")
}

var trieNodeTypes = []string{"LeafNode", "FullNode", "ExtensionNode"}

func agreeHash(r *engine.Run, rule string) {
	for _, T := range trieNodeTypes {
		h := r.Fn(rule, pkgUtil, T, "GetHashBytes")
		e := r.Fn(rule, pkgUtil, T, "Encode")
		enc := r.Fn(rule, pkgUtil, T, "encode")
		if h == nil || e == nil || enc == nil {
			continue
		}
		recv := h.Params[0]
		var buf ssa.Value
		var bw, encCall, raw *ssa.Call
		engine.Instrs(h, func(in ssa.Instruction) {
			c, ok := in.(*ssa.Call)
			if !ok {
				return
			}
			switch {
			case extCalleeIs(c, "bytes", "", "NewBuffer"):
				buf = c
			case extCalleeIs(c, "encoding/binary", "", "Write"):
				bw = c
			case c.Call.StaticCallee() == enc:
				encCall = c
			case extCalleeIs(c, "core/encryption", "", "RawHash"):
				raw = c
			}
		})
		good := buf != nil && bw != nil && encCall != nil && raw != nil
		detail := "skeleton call missing"
		if good {
			// binary.Write(buf, LittleEndian, receiver.GetOrigin())
			okBuf := through(bw.Call.Args[0]) == buf
			okOrder := false
			if ld, ok := through(bw.Call.Args[1]).(*ssa.UnOp); ok {
				if g, ok := ld.X.(*ssa.Global); ok && g.Name() == "LittleEndian" {
					okOrder = true
				}
			}
			okOrigin := false
			if oc, ok := through(bw.Call.Args[2]).(*ssa.Call); ok {
				if rv, ok := engine.IsMethodCall(oc, "GetOrigin"); ok && derivesFromRecv(rv, recv) {
					okOrigin = true
				}
			}
			okEnc := encCall.Call.Args[0] == ssa.Value(recv) && encCall.Call.Args[1] == buf
			okRaw := false
			if bc, ok := through(raw.Call.Args[0]).(*ssa.Call); ok && extCalleeIs(bc, "bytes", "Buffer", "Bytes") && bc.Call.Args[0] == buf {
				okRaw = true
			}
			okOrd := engine.InstrDominates(bw, encCall) && engine.InstrDominates(encCall, raw)
			okRet := false
			for _, ret := range engine.Returns(h) {
				if len(ret.Results) == 1 && ret.Results[0] == ssa.Value(raw) {
					okRet = true
				}
			}
			good = okBuf && okOrder && okOrigin && okEnc && okRaw && okOrd && okRet
			detail = fmt.Sprintf("buffer=%v little-endian=%v origin-of-receiver=%v own-encode=%v hash-of-buffer=%v order=%v returned=%v", okBuf, okOrder, okOrigin, okEnc, okRaw, okOrd, okRet)
		}
		r.Check(good, rule, fn(h), r.P.Pos(h.Pos()), "hash = RawHash(LE(origin) || encode())", "the node hash is not RawHash(little-endian origin || the node's persisted fields): "+detail)
		// Encode uses the same encode after the prefix
		var pre, enc2 *ssa.Call
		var ebuf ssa.Value
		engine.Instrs(e, func(in ssa.Instruction) {
			c, ok := in.(*ssa.Call)
			if !ok {
				return
			}
			switch {
			case extCalleeIs(c, "bytes", "", "NewBuffer"):
				ebuf = c
			case staticCalleeIs(c, pkgUtil, "", "writeNodePrefix"):
				pre = c
			case c.Call.StaticCallee() == enc:
				enc2 = c
			}
		})
		good2 := pre != nil && enc2 != nil && ebuf != nil && through(pre.Call.Args[0]) == ebuf && through(pre.Call.Args[1]) == ssa.Value(e.Params[0]) &&
			enc2.Call.Args[0] == ssa.Value(e.Params[0]) && enc2.Call.Args[1] == ebuf && engine.InstrDominates(pre, enc2)
		r.Check(good2, rule, fn(e), r.P.Pos(e.Pos()), "Encode = node prefix || the same encode()", "Encode does not persist exactly the fields that are hashed (prefix, then the type's own encode on the same buffer)")
	}
	r.Min(rule, 6)
}

// derivesFromRecv: v is the receiver or a field (embedded struct) loaded from it.
func derivesFromRecv(v ssa.Value, recv ssa.Value) bool {
	for i := 0; i < 6; i++ {
		if v == recv {
			return true
		}
		switch x := v.(type) {
		case *ssa.UnOp:
			v = x.X
		case *ssa.FieldAddr:
			v = x.X
		case *ssa.Field:
			v = x.X
		default:
			return false
		}
	}
	return false
}

func orderStamp(r *engine.Run, rule string) {
	f := r.Fn(rule, pkgUtil, "MerklePatriciaTrie", "insertNode")
	if f == nil {
		return
	}
	newP := f.Params[2]
	var stamp, hash, put *ssa.Call
	var muts []*ssa.Call
	engine.Instrs(f, func(in ssa.Instruction) {
		c, ok := in.(*ssa.Call)
		if !ok {
			return
		}
		if invokeOnField(c, "db", "PutNode") {
			put = c
			return
		}
		for m := range nodeMutators {
			if recv, ok := engine.IsMethodCall(c, m); ok && recv == ssa.Value(newP) {
				if m == "SetOrigin" && stamp == nil {
					stamp = c
				} else {
					muts = append(muts, c)
				}
			}
		}
	})
	if put != nil {
		if h, ok := stripCT(put.Call.Args[0]).(*ssa.Call); ok {
			if recv, ok := engine.IsMethodCall(h, "GetHashBytes"); ok && recv == ssa.Value(newP) {
				hash = h
			}
		}
	}
	if stamp == nil || hash == nil || put == nil {
		r.Fail(rule, fn(f), r.P.Pos(f.Pos()), fmt.Sprintf("insertNode lacks the stamp/hash/put sequence (stamp=%v hash-of-new-node-as-key=%v put=%v): a node is stored under a hash computed before its origin was set", stamp != nil, hash != nil, put != nil))
		return
	}
	okVer := false
	if fld := fieldLoadOf(stamp.Call.Args[0]); fld != nil && fld.Name() == "Version" {
		okVer = true
	}
	good := okVer && engine.InstrDominates(stamp, hash) && engine.InstrDominates(hash, put)
	for _, m := range muts {
		if engine.ReachableAfter(stamp, m) && !engine.ReachableAfter(put, m) || engine.ReachableAfter(hash, m) {
			good = false
		}
	}
	r.Check(good, rule, fn(f), r.P.Pos(stamp.Pos()), "SetOrigin(trie version) -> GetHashBytes -> PutNode(hash, node), no mutation in between", "the key under which the node is stored is not the hash of the node as stamped with the trie version")
}

// branchArmCalls: for function f, the blocks of the type-switch arm for *T and
// the method calls on the asserted value inside them.
type armInfo struct {
	asserted ssa.Value
	blocks   map[*ssa.BasicBlock]bool
}

// typeArms finds, for a type switch on value v in f, the arm blocks per
// asserted named type (blocks dominated by the success edge of the assertion).
func typeArms(f *ssa.Function, onParam ssa.Value) map[string]*armInfo {
	out := map[string]*armInfo{}
	engine.Instrs(f, func(in ssa.Instruction) {
		ta, ok := in.(*ssa.TypeAssert)
		if !ok || !ta.CommaOk || ta.X != onParam {
			return
		}
		n := namedOf(ta.AssertedType)
		if n == nil {
			return
		}
		// the If on extract #1
		var okv, val ssa.Value
		for _, ref := range engine.Referrers(ta) {
			if ex, isEx := ref.(*ssa.Extract); isEx {
				if ex.Index == 1 {
					okv = ex
				} else {
					val = ex
				}
			}
		}
		if okv == nil {
			return
		}
		for _, ref := range engine.Referrers(okv) {
			iff, isIf := ref.(*ssa.If)
			if !isIf {
				continue
			}
			succ := iff.Block().Succs[0]
			ai := &armInfo{asserted: val, blocks: map[*ssa.BasicBlock]bool{}}
			for _, b := range f.Blocks {
				if succ.Dominates(b) && len(succ.Preds) == 1 {
					ai.blocks[b] = true
				}
			}
			out[n.Obj().Name()] = ai
		}
	})
	return out
}

func depCanon(r *engine.Run) {
	const rule = "DEP-canon"
	n := 0
	for _, name := range []string{"deleteAtNode", "deleteAfterPathTraversal"} {
		f := r.Fn(rule, pkgUtil, "MerklePatriciaTrie", name)
		if f == nil {
			continue
		}
		var nodeParam ssa.Value
		for _, p := range f.Params {
			if p.Name() == "node" {
				nodeParam = p
			}
		}
		arms := typeArms(f, nodeParam)
		arm := arms["FullNode"]
		if arm == nil {
			r.Anchor(rule, fmt.Errorf("unresolved anchor: *FullNode arm of %s", fn(f)))
			continue
		}
		// does the arm clear a slot/value and re-insert?
		clears, reads := false, map[string]bool{}
		for b := range arm.blocks {
			for _, in := range b.Instrs {
				c, ok := in.(*ssa.Call)
				if !ok {
					continue
				}
				if _, ok := engine.IsMethodCall(c, "SetValue"); ok && len(c.Call.Args) >= 2 && nilConst(c.Call.Args[len(c.Call.Args)-1]) {
					clears = true
				}
				if _, ok := engine.IsMethodCall(c, "PutChild"); ok {
					clears = true
				}
				for _, m := range []string{"GetNumChildren", "HasValue"} {
					if recv, ok := engine.IsMethodCall(c, m); ok && isNamed(recv.Type(), pkgUtil, "FullNode") {
						reads[m] = true
					}
				}
			}
		}
		if !clears {
			continue
		}
		n++
		good := reads["GetNumChildren"] && reads["HasValue"]
		r.Check(good, rule, fn(f)+"|*FullNode arm", r.P.Pos(f.Pos()),
			"the arm reads the branch's child count and value presence before re-inserting it",
			fmt.Sprintf("the branch arm removes a child or the value and re-inserts the node without looking at the remaining child count / value (reads GetNumChildren=%v HasValue=%v): a branch left with one child and no value is not collapsed, so the shape and root depend on history", reads["GetNumChildren"], reads["HasValue"]))
	}
	if n < 2 {
		r.Anchor(rule, fmt.Errorf("unresolved anchor: branch arms that clear a slot (found %d)", n))
	}
}

var _ = types.Typ
