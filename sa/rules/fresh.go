package rules

import (
	"fmt"
	"go/types"
	"sort"
	"strings"

	"golang.org/x/tools/go/ssa"

	"verif/sa/engine"
)

// FRESH: no in-place write to node memory that is shared with a store, the
// node cache, a pending change or a caller.
//
// Every reference-carrying value gets the set of *sources* it may derive from
// (one label bit per source: "a node handed out by the store", "parameter X of
// exported operation Y", "parameter of closure Z" ...). Results of the
// constructors, of Clone() (deep copy, see C07 CLONE-deep), of concat/make and
// of literals are fresh (no source). Parameter labels of unexported helpers are
// the union over their call sites, iterated to a fixpoint. Contents loaded
// through a labelled pointer carry its label.

type freshWorld struct {
	r       *engine.Run
	funcs   []*ssa.Function
	inSet   map[*ssa.Function]bool
	srcBit  map[string]engine.Label
	srcName []string
	pl      map[*ssa.Function][]engine.Label
	flows   map[*ssa.Function]*engine.Flow
}

func (w *freshWorld) bit(name string) engine.Label {
	if b, ok := w.srcBit[name]; ok {
		return b
	}
	if len(w.srcName) >= 40 {
		return w.srcBit[w.srcName[0]] // saturate (never expected)
	}
	b := engine.Label(1) << uint(20+len(w.srcName))
	w.srcBit[name] = b
	w.srcName = append(w.srcName, name)
	return b
}

func (w *freshWorld) names(l engine.Label) []string {
	var out []string
	for _, n := range w.srcName {
		if l&w.srcBit[n] != 0 {
			out = append(out, n)
		}
	}
	sort.Strings(out)
	return out
}

var nodeTypeNames = map[string]bool{"LeafNode": true, "FullNode": true, "ExtensionNode": true, "ValueNode": true, "OriginTrackerNode": true, "OriginTracker": true}
var nodeMutators = map[string]bool{"SetValue": true, "PutChild": true, "SetOrigin": true, "SetVersion": true, "SetOriginTracker": true, "Decode": true, "CopyFrom": true, "Read": true}
var nodeCtors = map[string]bool{"NewLeafNode": true, "NewFullNode": true, "NewExtensionNode": true, "NewValueNode": true, "NewOriginTrackerNode": true, "concat": true, "CreateNode": true}

func isByteSlice(t types.Type) bool {
	s, ok := t.Underlying().(*types.Slice)
	if !ok {
		return false
	}
	b, ok := s.Elem().Underlying().(*types.Basic)
	return ok && b.Kind() == types.Byte
}

// nodeCarrying: values of this type can hold (or hand out) node objects, node
// change records or path/key bytes.
func nodeCarrying(t types.Type) bool {
	switch u := t.(type) {
	case *types.Pointer:
		return nodeCarrying(u.Elem())
	case *types.Slice:
		if isByteSlice(t) {
			return true
		}
		return nodeCarrying(u.Elem())
	case *types.Named:
		if u.Obj().Pkg() != nil && strings.HasSuffix(u.Obj().Pkg().Path(), pkgUtil) {
			switch u.Obj().Name() {
			case "Node", "NodeChange", "MPTSerializable", "MerklePatriciaTrieI", "Path", "Key", "OriginTrackerI", "ChangeCollectorI", "NodeDB":
				return true
			}
			if nodeTypeNames[u.Obj().Name()] {
				return true
			}
		}
		return nodeCarrying(u.Underlying())
	}
	return false
}

func isNodeType(t types.Type) bool {
	n := namedOf(t)
	return n != nil && n.Obj().Pkg() != nil && strings.HasSuffix(n.Obj().Pkg().Path(), pkgUtil) && nodeTypeNames[n.Obj().Name()]
}

func isNodeIface(t types.Type) bool {
	return isNamed(t, pkgUtil, "Node") || isNamed(t, pkgUtil, "OriginTrackerI")
}

func newFreshWorld(r *engine.Run, funcs []*ssa.Function) *freshWorld {
	w := &freshWorld{r: r, funcs: funcs, inSet: map[*ssa.Function]bool{}, srcBit: map[string]engine.Label{},
		pl: map[*ssa.Function][]engine.Label{}, flows: map[*ssa.Function]*engine.Flow{}}
	for _, f := range funcs {
		w.inSet[f] = true
	}
	g := r.P.RepoCG()
	for _, f := range funcs {
		labs := make([]engine.Label, len(f.Params))
		// entry-like: exported, or called from outside the analysed set, or a closure invoked by foreign/dynamic code
		entryLike := f.Object() != nil && f.Object().Exported()
		if f.Parent() != nil {
			entryLike = false
			for _, e := range g.In[f] {
				if e.Kind == "dynamic" || e.Kind == "closure-arg" {
					entryLike = true
				}
			}
		}
		for _, e := range g.In[f] {
			if !w.inSet[e.Caller] {
				entryLike = true
			}
		}
		if entryLike {
			for i, p := range f.Params {
				if i == 0 && f.Signature.Recv() != nil {
					continue // the trie / store itself
				}
				if engine.NoRefs(p.Type()) || !nodeCarrying(p.Type()) {
					continue
				}
				labs[i] = w.bit(fmt.Sprintf("parameter %s of %s", p.Name(), fn(f)))
			}
		}
		w.pl[f] = labs
	}
	store := w.bit("a node handed out by the store or the node cache")
	spec := func(f *ssa.Function) engine.FlowSpec {
		return engine.FlowSpec{
			Irrelevant: engine.NoRefs,
			Param:      func(p *ssa.Parameter, i int) engine.Label { return w.pl[f][i] },
			Call: func(c ssa.CallInstruction, arg func(ssa.Value) engine.Label) (engine.Label, bool) {
				cc := c.Common()
				if b, ok := cc.Value.(*ssa.Builtin); ok {
					switch b.Name() {
					case "append":
						return arg(cc.Args[0]), true // shares the base array; appended bytes are copied
					case "len", "cap", "copy", "delete":
						return 0, true
					}
				}
				if _, ok := engine.IsMethodCall(c, "Clone"); ok {
					return 0, true
				}
				if recv, ok := engine.IsMethodCall(c, "CloneNode"); ok {
					_ = recv
					return w.bit("shallow copy (CloneNode): shares path/key/value memory with the original"), true
				}
				if sc := cc.StaticCallee(); sc != nil && sc.Pkg != nil && strings.HasSuffix(sc.Pkg.Pkg.Path(), pkgUtil) {
					if nodeCtors[sc.Name()] && sc.Signature.Recv() == nil {
						if sc.Name() == "concat" || sc.Name() == "CreateNode" || sc.Name() == "NewValueNode" || sc.Name() == "NewOriginTrackerNode" {
							return 0, true
						}
						// constructors keep the slices they are given: object fresh, contents = args
						var l engine.Label
						for _, a := range cc.Args {
							l |= arg(a)
						}
						_ = l
						return 0, true
					}
					if sc.Name() == "getNode" || sc.Name() == "GetNode" {
						return store, true
					}
				}
				if cc.IsInvoke() && (cc.Method.Name() == "GetNode" || cc.Method.Name() == "MultiGetNode") {
					return store, true
				}
				if _, ok := engine.IsMethodCall(c, "Get"); ok && !cc.IsInvoke() && recvNamed(cc.StaticCallee()) == "TransactionCache" {
					return 0, true // the cache clones on Get (C07)
				}
				// MarshalMsg/Encode/GetHashBytes produce new buffers
				for _, m := range []string{"MarshalMsg", "Encode", "GetHashBytes", "GetHash", "GetValueBytes"} {
					if _, ok := engine.IsMethodCall(c, m); ok {
						return 0, true
					}
				}
				return 0, false
			},
		}
	}
	// fixpoint over parameter labels
	for iter := 0; iter < 50; iter++ {
		changed := false
		for _, f := range funcs {
			fl := engine.RunFlow(f, spec(f))
			w.flows[f] = fl
			engine.Instrs(f, func(in ssa.Instruction) {
				c, ok := in.(ssa.CallInstruction)
				if !ok {
					return
				}
				for _, e := range g.Out[f] {
					if e.Site != in || !w.inSet[e.Callee] || e.Kind == "closure-arg" || e.Kind == "dynamic" {
						continue
					}
					cc := c.Common()
					off := 0
					if cc.IsInvoke() {
						off = 1
					}
					for j, a := range cc.Args {
						idx := j + off
						if idx >= len(e.Callee.Params) {
							continue
						}
						if engine.NoRefs(a.Type()) {
							continue
						}
						l := fl.Of(a)
						if w.pl[e.Callee][idx]|l != w.pl[e.Callee][idx] {
							w.pl[e.Callee][idx] |= l
							changed = true
						}
					}
				}
			})
		}
		if !changed {
			break
		}
	}
	return w
}

type freshSink struct {
	f     *ssa.Function
	in    ssa.Instruction
	what  string // "store <field>", "call <mutator>", "append", "copy", "element store"
	label engine.Label
}

// sinks lists every in-place write to node memory in the analysed functions
// with the sources its target may derive from.
func (w *freshWorld) sinks() []freshSink {
	var out []freshSink
	shallow := w.srcBit["shallow copy (CloneNode): shares path/key/value memory with the original"]
	for _, f := range w.funcs {
		fl := w.flows[f]
		if fl == nil {
			continue
		}
		engine.Instrs(f, func(in ssa.Instruction) {
			switch x := in.(type) {
			case *ssa.Store:
				switch a := x.Addr.(type) {
				case *ssa.FieldAddr:
					if isNodeType(a.X.Type()) {
						l := fl.ObjAt(in, a.X) &^ shallow // a shallow copy owns its own fields
						out = append(out, freshSink{f, in, "store " + namedOf(a.X.Type()).Obj().Name() + "." + engine.FieldOf(a).Name(), l})
					}
				case *ssa.IndexAddr:
					if isByteSlice(a.X.Type()) {
						out = append(out, freshSink{f, in, "element store", fl.Of(a.X)})
					}
				case *ssa.UnOp, *ssa.Parameter, *ssa.Phi, *ssa.TypeAssert, *ssa.Call, *ssa.Extract:
					// *node = ... (whole-struct overwrite through a pointer)
					if isNodeType(x.Addr.Type()) {
						out = append(out, freshSink{f, in, "overwrite *" + namedOf(x.Addr.Type()).Obj().Name(), fl.Of(x.Addr)})
					}
				}
			case ssa.CallInstruction:
				cc := x.Common()
				if b, ok := cc.Value.(*ssa.Builtin); ok {
					switch b.Name() {
					case "append":
						if isByteSlice(cc.Args[0].Type()) {
							out = append(out, freshSink{f, in, "append (in place when capacity allows)", fl.Of(cc.Args[0])})
						}
					case "copy":
						if isByteSlice(cc.Args[0].Type()) {
							out = append(out, freshSink{f, in, "copy into", fl.Of(cc.Args[0])})
						}
					}
					return
				}
				for m := range nodeMutators {
					recv, ok := engine.IsMethodCall(x, m)
					if !ok {
						continue
					}
					if !(isNodeType(recv.Type()) || isNodeIface(recv.Type())) {
						continue
					}
					l := fl.Of(recv) &^ shallow
					if al, isAlloc := recv.(*ssa.Alloc); isAlloc {
						_ = al
						l = 0
					}
					out = append(out, freshSink{f, in, "call " + m, l})
				}
			}
		})
	}
	return out
}
